"""C14 — tokens partition the input on character boundaries."""
import random
from . import common as C
from . import gen_text as G


def parse_line(line):
    return dict(kv.split("=", 1) for kv in line.split(";"))


def oracle(text, line):
    """The property, as a predicate over the implementation's own output. Returns list of
    (check, detail)."""
    bad = []
    if not line.startswith("raw="):
        return [("returns", line[:200])]
    f = parse_line(line)
    b = text.encode("utf-8")
    # char boundaries of the UTF-8 text
    bounds, off = {0}, 0
    for ch in text:
        off += len(ch.encode("utf-8")); bounds.add(off)
    raw = [t for t in f["raw"].split(",") if t]
    pos = 0
    for t in raw:
        parts = t.split(":")
        ln = int(parts[1])
        if ln == 0:
            bad.append(("token_nonempty", t))
        pos += ln
        if pos not in bounds:
            bad.append(("token_char_boundary", f"token {t} ends at byte {pos}"))
        if len(parts) == 3 and int(parts[2]) > ln:
            bad.append(("suffix_start_le_len", t))
    if pos != len(b):
        bad.append(("lengths_sum", f"sum={pos} input bytes={len(b)}"))
    starts = [int(x) for x in f["starts"].split(",") if x != ""]
    kinds = [k for k in f["kinds"].split(",") if k]
    if len(starts) != len(kinds) or len(kinds) != len(raw) + 1:
        bad.append(("table_shape", f"{len(kinds)} kinds {len(starts)} starts {len(raw)} raw tokens"))
    if any(starts[i] >= starts[i + 1] for i in range(len(starts) - 1)):
        bad.append(("starts_strictly_increasing", f["starts"]))
    if not starts or starts[0] != 0 or starts[-1] != len(b):
        bad.append(("last_start_eq_len", f["starts"]))
    if any(s not in bounds for s in starts):
        bad.append(("slice_ok", "a start offset is not on a character boundary"))
    for e in [x for x in f["errors"].split(",") if x]:
        if int(e) >= len(raw):
            bad.append(("error_index", e))
    return bad


def check(ctx):
    C.extract(ctx, ["SyntaxKind"])
    C.prove(ctx, ["Oq3.Props.C14"])
    okb, log = C.cargo_build()
    if not okb:
        C.violation(ctx, "harness-build-failed", {"log": log[-3000:]}, no_input=True)
        return C.finish(ctx, trusted=C.TRUSTED_COMMON)
    corpus = [G.dec(l) for l in C.load_corpus("text")]
    maxlen = 5 if ctx.tier == "quick" else 6
    exh = list(G.exhaustive(maxlen))
    rnd = random.Random(ctx.seed)
    rand = G.random_texts(rnd, 60000 if ctx.tier == "quick" else 600000)
    texts = C.uniq(corpus + G.special_texts() + exh + rand)
    ctx.log(f"{len(texts)} texts ({len(exh)} bounded-exhaustive over the 14-char alphabet, len <= {maxlen})")
    ucpath, uctab = G.uclass_table(ctx, texts, C)
    lines = [G.enc(t) for t in texts]
    impl = C.run_impl(ctx, "lex", lines)
    have_model = ctx.lake_ok
    model = C.run_model(ctx, ["lex", ucpath], lines) if have_model else [None] * len(lines)
    failures, ndis, nontriv = [], 0, 0
    kinds_hit = {}
    for i, t in enumerate(texts):
        agree = (not have_model) or impl[i] == model[i]
        if not agree:
            ndis += 1
            if len(ctx.corr_disagreements) < 20:
                ctx.corr_disagreements.append({"layer": "I1/I2 lex", "case": lines[i], "text": t,
                                               "impl": impl[i][:500], "model": model[i][:500]})
        for chk, detail in oracle(t, impl[i]):
            failures.append({"case": lines[i], "check": chk, "detail": {"text": t, "what": detail},
                             "guards": set(), "model_agrees": agree,
                             "replay_how": "echo '<input>' | /verif/harness/target/debug/oq3-run lex"})
        if impl[i].startswith("raw="):
            raw = parse_line(impl[i])["raw"]
            if raw.count(",") >= 1:
                nontriv += 1
            for tk in raw.split(","):
                if tk:
                    k = tk.split(":")[0]; kinds_hit[k] = kinds_hit.get(k, 0) + 1
    failures.sort(key=lambda f: len(f["case"]))
    # ASCII class facts used by `asserts_hold` (KeywordLettersAreIdStart): checked against the real tables
    for ch in "pragmOPENQASM":
        if uctab.get(ord(ch), "000")[0] != "1":
            failures.append({"case": "%x" % ord(ch), "check": "uclass_keyword_letters", "detail": ch,
                             "guards": set(), "model_agrees": True})
    C.decide(ctx, failures, C.load_findings("C14"))
    ctx.coverage.update({
        "evaluations": len(texts), "distinct_nontrivial": nontriv,
        "rule": f"all strings of length <= {maxlen} over the 14-character alphabet of the quantifier (bounded-exhaustive) + random strings (<= 30 pieces) over a rich alphabet (multi-byte letters, emoji, ZWJ, U+2028, NUL, CR) and lexeme words; non-trivial = at least two tokens; every string is lexed twice by the harness (determinism)",
        "exhaustive": True, "exhaustive_strings": len(exh),
        "traces_validated_against_impl": len(texts) if have_model else 0,
        "correspondence_disagreements": ndis, "oracle_failures_total": len(failures),
        "token_kinds_hit": kinds_hit,
        "samples": [{"text": texts[i], "impl": impl[i][:300]} for i in (len(corpus) + 3000, len(texts) - 1)],
    })
    return C.finish(ctx, trusted=C.TRUSTED_COMMON + [
        "unicode-xid / unicode-properties tables are parameters of the lexer model; every theorem holds for all tables (asserts_hold needs is_id_start on the 13 letters of `pragma`/`OPENQASM`, checked against the real tables on every run); the harness sends the real classes of every character that occurs",
        "std str::chars / UTF-8 decoding (text is List Char, byte lengths via Char.utf8Size)"],
        assumptions=["text length < 2^32 bytes (u32 offsets); generated texts are far below"])
