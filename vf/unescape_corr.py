"""Correspondence of the escape-sequence diagnostics of string literals (property C12: every diagnostic
has a valid range) -- `oq3_lexer::unescape::unescape_literal` + the escape part of
`oq3_syntax::validation::validate_literal`  <->  Lean model `Oq3.Unescape` (lean/Oq3/Model/Unescape.lean,
theorems in lean/Oq3/Props/C12Escape.lean).

Two ties:

(A) through the real front end (`oq3-run tree`):  for every text the implementation's own tree line gives
    the literal tokens that `validate_literal` visits (first non-trivia child token of every LITERAL node:
    kind, start offset, text -- DESIGN 5.2 layering, the model is fed the previous layer's real output) and
    the diagnostics of the whole file (`errors=`, the list of `SourceFile::parse`, which always runs the
    validation; `clerrors=` is checked to contain the same escape diagnostics whenever the lex-checked
    entry point produced a tree).  The model (`driver unescape`) must produce EXACTLY the escape
    diagnostics (messages of `vf.pipeline.UNESCAPE_MSGS`), same ranges, same messages, same order.
    A text that is one STRING token is sent in the plain form `<hex>`, everything else as
    `KIND:start:hex ...`.

(B) direct (`harness/src/bin/oq3-unescape.rs`, built by `cargo build` as `oq3-unescape`): the CONTENTS of a
    literal -> every callback of `unescape_literal` (range start AND end, `Ok` / error variant, the two
    warnings included -- `validate_literal` drops the ends and the warnings, so (A) cannot see them), for
    both modes in use (Str, BitStr), against `driver unescape` request `cb <mode> <hex>`.
    Skipped with a note when the binary has not been built.

Generators: `gen_text.escape_texts` (digit runs of every length, out-of-range values, continuations, in
program contexts, single-quoted, unterminated, with suffixes), an EXHAUSTIVE enumeration of all literal
bodies up to a given length over the alphabet ALPHA below (backslash, u, braces, x, hex digits, a non-hex
letter, 2-byte and 4-byte characters, both quotes, LF, CR, space, tab, n, underscore), and random longer
bodies over the same alphabet plus White_Space characters after line continuations.

Command line:  python3 -m vf.unescape_corr [--exh K] [--n N] [--seed S] [--show M]
exit status 1 on any disagreement.
"""
import collections
import itertools
import os
import random
import sys

from . import common as C
from . import gen_text as G
from . import pipeline as PL

ALPHA = ["\\", "u", "{", "}", "x", "0", "F", "z", "\u00e9", "\U0001F600", '"', "'", "\n", "\r", " ", "\t", "n", "_"]
# extra characters for the random bodies: digits that make surrogates / out-of-range values, characters
# with char::is_whitespace but not skipped by skip_ascii_whitespace, 3-byte characters, NUL
EXTRA = ["d", "8", "1", "7", "f", "a", "r", "t", "\x0b", "\x0c", "\u0085", "\u00a0", "\u2028", "\u3000", "\u1680",
         "\u20ac", "\x00", "\u200e", ";", "b"]
UNESCAPE_BIN = os.environ.get("OQ3_UNESCAPE_BIN") or os.path.join(C.HARNESS, "target", "debug", "oq3-unescape")
TRIVIA = ("WHITESPACE", "COMMENT")


# ---------------------------------------------------------------- the tree line

def literal_tokens(sexp):
    """`(KIND s e child...)` / `KIND:s:e:hex` -> [(kind, start, hex)] for the first non-trivia child of every
    LITERAL node, in pre-order (= `root.descendants()` order of `validate`).  A LITERAL whose first
    non-trivia child is a node would make `ast::Literal::token` panic (then there is no tree line)."""
    out = []
    stack = []          # per open node: [kind, seen_first_nontrivia]
    for w in sexp.replace("(", " ( ").replace(")", " ) ").split():
        if w == "(":
            stack.append(None)
        elif w == ")":
            stack.pop()
        elif stack and stack[-1] is None:
            stack[-1] = [w, False, 0]         # the node's kind; then two numbers follow
            if len(stack) > 1 and stack[-2] is not None and not stack[-2][1]:
                stack[-2][1] = True            # a node child is non-trivia: no token for the parent
        elif stack and stack[-1][2] < 2:
            stack[-1][2] += 1                  # start / end of the node
        else:
            k, s, e, h = w.split(":")
            top = stack[-1]
            if k not in TRIVIA and not top[1]:
                top[1] = True
                if top[0] == "LITERAL":
                    out.append((k, int(s), h))
    return out


def escape_errors(field):
    return [x for x in field.split(",") if x and x.split(":", 1)[1].startswith(PL.UNESCAPE_MSGS)]


def run(ctx, texts, tag="unesc"):
    """tie (A).  Returns (records, stats)."""
    lines = [G.enc(t) for t in texts]
    tree = C.run_impl(ctx, "tree", lines, tag=tag + "-itree")
    req, idx = [], []
    for i, tr in enumerate(tree):
        if not tr.startswith("tree="):
            continue
        f = PL.fields(tr)
        toks = literal_tokens(f["tree"])
        if len(toks) == 1 and toks[0][0] == "STRING" and toks[0][1] == 0 and toks[0][2] == lines[i]:
            req.append(lines[i])                       # the text IS one string-literal token
        else:
            req.append(" ".join("%s:%d:%s" % t for t in toks))
        idx.append(i)
    model = dict(zip(idx, C.run_model(ctx, "unescape", req, tag=tag + "-m")))
    sent = dict(zip(idx, req))
    stats = collections.Counter()
    recs = []
    for i, t in enumerate(texts):
        tr = tree[i]
        r = {"text": t, "impl": tr, "model": model.get(i), "agree": None}
        if i not in model:
            stats["impl-panicked (skipped)"] += 1
        else:
            f = PL.fields(tr)
            want = escape_errors(f.get("errors", ""))
            got = model[i]
            r["impl"] = "errs=" + ",".join(want)
            ok = got == r["impl"]
            if f.get("cl") != "none" and escape_errors(f.get("clerrors", "")) != want:
                ok = False
                r["impl"] += " (clerrors differ: %s)" % f.get("clerrors", "")
            r["agree"] = ok
            stats["agree" if ok else "disagree"] += 1
            if ok:
                stats["agree: plain one-token request" if ":" not in sent[i] else "agree: token-list request"] += 1
                if want:
                    stats["agree: with escape diagnostics"] += 1
                    if any(ord(c) > 127 for c in t):
                        stats["agree: with escape diagnostics and non-ASCII text"] += 1
                stats["escape diagnostics compared"] += len(want)
            elif len(ctx.corr_disagreements) < 20:
                ctx.corr_disagreements.append({"layer": "I4 escape diagnostics", "case": t,
                                               "impl": r["impl"][:600], "model": str(got)[:600]})
            if "oracle=ok" not in tr:
                stats["impl range oracle FAIL"] += 1
        recs.append(r)
    return recs, stats


def run_direct(ctx, bodies, tag="unesc-cb"):
    """tie (B).  Returns (disagreements, stats)."""
    stats = collections.Counter()
    if not os.path.exists(UNESCAPE_BIN):
        stats["direct tie skipped: %s not built" % UNESCAPE_BIN] += 1
        return [], stats
    bad = []
    for mode in ("Str", "BitStr"):
        req = [("cb %s %s" % (mode, G.enc(b))).rstrip() for b in bodies]
        impl = C.run_lines(UNESCAPE_BIN, [], req, tag + "-i", ctx.work)
        model = C.run_model(ctx, "unescape", req, tag=tag + "-m")
        for b, a, m in zip(bodies, impl, model):
            if a == m and a.startswith("cbs="):
                stats["agree (%s)" % mode] += 1
                stats["callbacks compared"] += a.count(":")
                if "Warning" in a:
                    stats["agree: with warnings"] += 1
            else:
                stats["disagree (%s)" % mode] += 1
                bad.append({"text": b, "mode": mode, "impl": a, "model": m})
                if len(ctx.corr_disagreements) < 20:
                    ctx.corr_disagreements.append({"layer": "unescape_literal callbacks", "case": b,
                                                   "impl": a[:600], "model": m[:600]})
    return bad, stats


# ---------------------------------------------------------------- generators

def exhaustive_bodies(k):
    """all bodies over ALPHA of length 0..k"""
    for n in range(k + 1):
        for tup in itertools.product(ALPHA, repeat=n):
            yield "".join(tup)


PIECES = ["\\n", "\\t", "\\r", "\\0", "\\\\", "\\'", '\\"', "\\q", "\\x7f", "\\xff", "\\x4", "\\xg0", "\\x\u00e9", "\\u",
          "\\u{", "\\u{}", "\\u{_1}", "\\u{d800}", "\\u{dfff}", "\\u{110000}", "\\u{10ffff}", "\\u{1f600}", "\\u{0041",
          "\\u{zz}", "\\u{\u00e9}", "\\u{12\U0001F600}", "\\u 41", "\\\n", "\\\n   ", "\\\n\n  ", "\\\n \r\n\t", "\\\n\u00a0",
          "\\\n \u3000", "\\\n\x0b", "\\\r\n", "\\\U0001F600", "\\\u00e9", "\u00e9", "\U0001F600", "\u20ac"]


def random_bodies(rnd, n):
    out = []
    for _ in range(n):
        k = rnd.randint(1, 14)
        p = rnd.random()
        if p < 0.5:
            out.append("".join(rnd.choice(ALPHA) for _ in range(k)))
        elif p < 0.75:
            out.append("".join(rnd.choice(ALPHA + EXTRA) for _ in range(k)))
        else:
            out.append("".join(rnd.choice(PIECES) if rnd.random() < 0.6 else rnd.choice(ALPHA + EXTRA)
                               for _ in range(rnd.randint(1, 6))))
    return out


def wrap(rnd, body):
    """a text around a literal body: mostly the bare double-quoted token, sometimes single-quoted, unterminated,
    with an identifier suffix, or inside a statement (also `include`, whose FILE_PATH string is NOT a LITERAL
    and must stay unvalidated)"""
    p = rnd.random()
    if p < 0.55:
        return '"' + body + '"'
    if p < 0.62:
        return "'" + body + "'"
    if p < 0.67:
        return '"' + body
    if p < 0.72:
        return '"' + body + '"' + rnd.choice(["abc", "_1", "\u00e9", "ns", "im"])
    q = rnd.choice(['"', '"', '"', "'"])
    return rnd.choice(["x = ", "\u00e9 = ", "include ", "bit[4] b = ", "f(", "// \U0001F600\nx = ", "  ", "a = \"\\q\" + "]) \
        + q + body + q + rnd.choice(["", ";", ";\n", " + \"\\u{110000}\";", ")"])


BIT_TEXTS = ['"01"', '"0_1"', '"0__1"', "'01'", '"01', '"01\n', '"0\n1"', '"01"x', 'bit[2] b = "01";', 'x = "01" + "0\\q";',
             '"\u00e9\\q"', '"\\u{110000}\U0001F600"', '"a\\q\\u{zz}"', '"', "'", '""', "''", '"\\', '"\\"', "'\"\\q\"'",
             "'a\"b\\q'", '"a" "b\\q" \'c\\q\' "d\\q', "x = \"\\q\";\ny = \"\u00e9\\u{d800}\";\n", "1.5ns + \"\\q\"",
             '"\\\n  \u00a0\\q"', '"\\\n\n\n\\q"', '"\r\\q"', "\"\\u{1234567}\"", "\"\\u{_}\"", '"\\x4"', '"\\x"']


def _main():
    import argparse
    ap = argparse.ArgumentParser()
    ap.add_argument("--exh", type=int, default=3, help="exhaustive enumeration of bodies up to this length (4: 111 151 bodies)")
    ap.add_argument("--n", type=int, default=45000, help="number of random bodies")
    ap.add_argument("--seed", type=int, default=1)
    ap.add_argument("--show", type=int, default=5)
    a = ap.parse_args()
    if os.environ.get("OQ3_DRIVER"):          # a driver binary built elsewhere (development)
        C.DRIVER = os.environ["OQ3_DRIVER"]
    ctx = C.Ctx("unescape_corr", "full", a.seed)
    rnd = random.Random(a.seed)
    exh = list(exhaustive_bodies(a.exh))
    rb = random_bodies(rnd, a.n)
    sets = [
        ("special", BIT_TEXTS),
        ("gen_text.escape_texts", G.escape_texts(rnd, max(2000, a.n // 10))),
        ("exhaustive bodies over %d symbols, length <= %d, double-quoted" % (len(ALPHA), a.exh), ['"' + b + '"' for b in exh]),
        ("random bodies, wrapped", [wrap(rnd, b) for b in rb]),
    ]
    bad = 0
    total = collections.Counter()
    for name, texts in sets:
        recs, stats = run(ctx, texts)
        print(f"== (A) {name}: {len(texts)} texts")
        for k in sorted(stats):
            print(f"   {k}: {stats[k]}")
        shown = 0
        for r in recs:
            if r["agree"] is False:
                bad += 1
                if shown < a.show:
                    shown += 1
                    print("   DISAGREE", repr(r["text"][:200]), G.enc(r["text"][:200]))
                    print("     impl :", r["impl"][:400])
                    print("     model:", str(r["model"])[:400])
        total.update(stats)
    print("TOTAL (A)", dict(total))
    bodies = list(dict.fromkeys(exh + rb + [t[1:-1] for t in BIT_TEXTS if len(t) >= 2]))
    dbad, dstats = run_direct(ctx, bodies)
    print(f"== (B) unescape_literal callbacks: {len(bodies)} bodies x 2 modes")
    for k in sorted(dstats):
        print(f"   {k}: {dstats[k]}")
    for r in dbad[:a.show]:
        print("   DISAGREE", r["mode"], repr(r["text"][:200]), G.enc(r["text"][:200]))
        print("     impl :", r["impl"][:400])
        print("     model:", r["model"][:400])
    bad += len(dbad)
    try:
        import shutil
        shutil.rmtree(ctx.work, ignore_errors=True)
    except Exception:
        pass
    print("DISAGREEMENTS", bad)
    sys.exit(1 if bad else 0)


if __name__ == "__main__":
    _main()
