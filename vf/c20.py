"""C20 — type promotion is a join on the numeric tower and never narrows."""
import itertools
from . import common as C

WIDTHS = ["-", "0", "1", "8", "32", "64", "128", "4294967295"]     # 0: the placeholder an invalid designator leaves
SHAPES = ["3", "5", "3,4", "2,3,4"]
ARITH = ["Add", "Sub", "Mul", "Div", "Rem", "Mod", "Shl", "Shr", "BitXOr", "BitOr", "BitAnd"]


def universe():
    ts = []
    for c in "cn":
        ts.append(f"Bit {c}")
    ts += ["Qubit", "HardwareQubit"]
    for k in ["Int", "UInt", "Float", "Angle", "Complex"]:
        for w in WIDTHS:
            for c in "cn":
                ts.append(f"{k} {w} {c}")
    for k in ["Bool", "Duration", "Stretch"]:
        for c in "cn":
            ts.append(f"{k} {c}")
    for s in SHAPES:
        for c in "cn":
            ts.append(f"BitArray {s} {c}")
    for k in ["QubitArray", "IntArray", "UIntArray", "FloatArray", "AngleArray", "ComplexArray",
              "BoolArray", "DurationArray"]:
        for s in SHAPES[:3] + SHAPES[3:]:
            ts.append(f"{k} {s}")
    ts += ["Gate 0 1", "Gate 3 1", "Gate 1 2", "Sub 0 Void", "Sub 2 Int 32 n", "Sub 2 Int 32 c",
           "Range", "Set", "Void", "ToDo", "Undefined"]
    return ts

# ---- independent Python rendering of the specification order (DESIGN §7 C20)

def parse(t):
    w = t.split()
    return w


def tag(t):
    return t.split()[0]


CONSTABLE = {"Bit", "Int", "UInt", "Float", "Angle", "Complex", "Bool", "Duration", "Stretch", "BitArray"}


def is_const(t):
    w = t.split()
    return w[-1] == "c" if w[0] in CONSTABLE else True


def unconst(t):
    w = t.split()
    if w[0] in CONSTABLE:
        return " ".join(w[:-1] + ["n"])
    return t


def width(t):
    w = t.split()
    if w[0] in ("Int", "UInt", "Float", "Angle", "Complex"):
        return None if w[1] == "-" else int(w[1])
    return None


TOWER = {"Int": 0, "UInt": 0, "Float": 1, "Complex": 2}


def wle(x, y):
    if y is None:
        return True
    if x is None:
        return False
    return x <= y


def le(a, b):
    if unconst(a) == unconst(b):
        return True
    ta, tb = tag(a), tag(b)
    if ta in TOWER and tb in TOWER:
        if TOWER[ta] < TOWER[tb]:
            return True
        if ta == tb and wle(width(a), width(b)):
            return True
    return False


def has_bound(a, b):
    return unconst(a) == unconst(b) or (tag(a) in TOWER and tag(b) in TOWER)


def fields(line):
    return dict(kv.split("=", 1) for kv in line.split(";"))


SRC_KIND = {"Int": "int", "UInt": "uint", "Float": "float", "Angle": "angle"}


def decl(name, t):
    """source declaration of a variable of abstract type `t` (None if the front end cannot declare it)"""
    w = t.split()
    k, const = w[0], w[-1] == "c"
    if k in SRC_KIND:
        if w[1] not in ("-", "8", "32", "64"):
            return None
        ty = SRC_KIND[k] + ("" if w[1] == "-" else f"[{w[1]}]")
        init = "1"
    elif k == "Complex":
        if w[1] not in ("-", "32", "64"):
            return None
        ty = "complex" + ("" if w[1] == "-" else f"[float[{w[1]}]]")
        init = "1"
    elif k == "Bool":
        ty, init = "bool", "true"
    elif k == "Bit":
        ty, init = "bit", '"1"'
    elif k == "Duration":
        ty, init = "duration", "1ns"
    else:
        return None
    return (f"const {ty} {name} = {init};" if const else f"{ty} {name};")


def program_level(ctx, F, idx, fail_prog):
    """what programs get: the type of `a + b` (and of a chain `a + b + c`) in the semantic graph is what the
    promotion functions answer for the operand types — the function under test is reached through
    BinaryExpr::new_texpr_with_cast, not called directly"""
    import re
    from . import gen_text as G
    from . import semapipe as SP
    ts = [t for t in universe() if decl("a", t)]
    progs, expect = [], []
    for a in ts:
        for b in ts:
            f = F[idx[f"{a} | {b}"]]
            if f is None:
                continue
            progs.append(decl("a", a) + "\n" + decl("b", b) + "\na + b;\n")
            expect.append((f["Add"], None))
    # chains: the type of the first pair (possibly Void) meets a third operand
    third = [t for t in ts if t.split()[0] in ("Int", "Float", "Angle", "Bool") and t.split()[-1] == "n"][:8]
    for a in ts[::3]:
        for b in ts[::3]:
            f = F[idx[f"{a} | {b}"]]
            if f is None:
                continue
            for c in third:
                g = F[idx.get(f"{f['Add']} | {c}", -1)] if f"{f['Add']} | {c}" in idx else None
                if g is None:
                    continue
                progs.append(decl("a", a) + "\n" + decl("b", b) + "\n" + decl("c", c) + "\na + b + c;\n")
                expect.append((g["Add"], f["Add"]))
    recs, stats = SP.run(ctx, progs, tag="c20prog")
    n = 0
    for r, (want, inner) in zip(recs, expect):
        o = r["impl"]
        if not o.startswith("asg="):
            continue
        m = re.search(r"\(ExprStmt \(T (\S+) \(Bin Arith\.Add", o)
        if not m:
            continue
        n += 1
        got = m.group(1).replace("_", " ")
        if got != want:
            fail_prog(G.enc(r["text"]), "program_expression_type",
                      {"program": r["text"], "expression_type": got, "promotion_says": want, "first_pair": inner},
                      r["agree"] is True)
    ctx.coverage["program_level_expressions"] = n
    return n


def check(ctx):
    tier = ctx.tier
    ok_proof = C.prove(ctx, ["Oq3.Props.C20"])
    okb, log = C.cargo_build()
    if not okb:
        ctx.log("harness build failed"); ctx.notes.append("harness build failed: " + log[-1500:])
        C.violation(ctx, "harness-build-failed", {"log": log[-3000:]}, no_input=True)
        return C.finish(ctx, trusted=C.TRUSTED_COMMON)
    if not ctx.lake_ok:
        # model driver unavailable: fall back to oracle-only search on the implementation
        ctx.notes.append("lean build failed; model outputs unavailable")
    U = universe()
    pairs = [f"{a} | {b}" for a in U for b in U]
    ctx.log(f"{len(U)} types, {len(pairs)} ordered pairs")
    impl = C.run_impl(ctx, "types", pairs)
    have_model = ctx.lake_ok
    model = C.run_model(ctx, "types", pairs) if have_model else [None] * len(pairs)
    guards = C.run_model(ctx, "types-guards", pairs) if have_model else [""] * len(pairs)
    # correspondence
    ndis = 0
    agree = [True] * len(pairs)
    for i, (x, y) in enumerate(zip(impl, model)):
        if have_model and x != y:
            agree[i] = False
            ndis += 1
            if len(ctx.corr_disagreements) < 20:
                fx, fy = (fields(x) if "=" in x else {"raw": x}), (fields(y) if "=" in y else {"raw": y})
                diff = {k: (fx.get(k), fy.get(k)) for k in set(fx) | set(fy) if fx.get(k) != fy.get(k)}
                ctx.corr_disagreements.append({"layer": "types", "case": pairs[i], "impl_vs_model": diff})
    # oracle on the implementation
    idx = {p: i for i, p in enumerate(pairs)}
    F = [fields(x) if "=" in x else None for x in impl]
    failures = []

    def fail(i, check, detail):
        g = {kv.split("=")[0] for kv in guards[i].split(";") if kv.endswith("=1")} if guards[i] else set()
        failures.append({"case": pairs[i], "check": check, "detail": detail, "guards": g,
                         "model_agrees": agree[i],
                         "replay_how": "echo '<input>' | /verif/harness/target/debug/oq3-run types"})
    nontrivial = 0
    for i, p in enumerate(pairs):
        a, b = p.split(" | ")
        f = F[i]
        if f is None:
            fail(i, "returns", f"implementation output: {impl[i]}")
            continue
        pr = f["promote"]
        q = F[idx[f"{b} | {a}"]]
        if pr != "Void":
            nontrivial += 1
        if q and unconst(pr) != unconst(q["promote"]):
            fail(i, "symmetric", f"promote(a,b)={pr} promote(b,a)={q['promote']}")
        if a == b and pr != a:
            fail(i, "idempotent", f"promote(a,a)={pr}")
        if pr != "Void" and not (le(a, pr) and le(b, pr)):
            fail(i, "upper_bound", f"promote={pr} is not above both operands")
        if pr != "Void" and is_const(pr) and not (is_const(a) and is_const(b)):
            fail(i, "const_only_if_both", f"promote={pr} is const but not both operands are")
        if not (a == "Void" and b == "Void"):
            if (pr == "Void") != (not has_bound(a, b)):
                fail(i, "void_iff_no_bound", f"promote={pr} has_bound={has_bound(a, b)}")
        if a != "Void" and unconst(pr) == unconst(a) and f["cancast"] != "1":
            fail(i, "literal_cast_superset", f"promote={pr} but can_cast_literal is false")
        if ((tag(a) in ("Int", "UInt") and tag(b) in ("Float", "Complex")) or
                (tag(a) == "Float" and tag(b) == "Complex")) and f["cancast"] != "0":
            fail(i, "literal_cast_never_down", "can_cast_literal allows a downward literal cast")
        for op in ARITH:
            if op != "Div" and f[op] != pr:
                fail(i, "implicit_cast", f"{op} -> {f[op]} but promote={pr}")
        if tag(a) != "Float" and tag(b) != "Float" and f["Div"] != "Float - n":
            fail(i, "implicit_cast", f"Div -> {f['Div']}")
        if (tag(a) == "Float" or tag(b) == "Float") and f["Div"] != pr:
            fail(i, "implicit_cast", f"Div -> {f['Div']} but promote={pr}")
    ntrip = 0
    if tier == "thorough":
        # associativity where a common type exists, from the exhaustive pair table
        prom = {p: F[i]["promote"] for i, p in enumerate(pairs) if F[i]}
        for a in U:
            for b in U:
                ab = prom.get(f"{a} | {b}")
                if ab in (None, "Void"):
                    continue
                for c in U:
                    bc = prom.get(f"{b} | {c}")
                    if bc in (None, "Void"):
                        continue
                    l = prom.get(f"{ab} | {c}"); r = prom.get(f"{a} | {bc}")
                    if l is None or r is None or l == "Void" or r == "Void":
                        continue
                    ntrip += 1
                    if unconst(l) != unconst(r):
                        i = idx[f"{a} | {b}"]
                        fail(i, "associative", f"c={c}: (a+b)+c={l} a+(b+c)={r}")
    nprog = program_level(ctx, F, idx, fail_prog=lambda case, check, detail, agrees: failures.append(
        {"case": case, "check": check, "detail": detail, "guards": set(), "model_agrees": agrees,
         "replay_how": "the case is a program (hex code points): echo '<input>' | /verif/harness/target/debug/oq3-run sema"}))
    findings = C.load_findings("C20")
    # confirm each recorded witness still fails on the implementation
    for kf in findings:
        w = kf["witness"]
        if w in idx and not any(f["case"] == w and f["check"] == kf["check"] for f in failures):
            ctx.notes.append(f"finding {kf['id']} is stale: its witness no longer fails on the implementation")
    C.decide(ctx, failures, findings)
    ctx.coverage.update({
        "evaluations": len(pairs) + ntrip,
        "distinct_nontrivial": nontrivial,
        "rule": "all ordered pairs over the finite abstraction of the type space (27 constructors x widths {none,0,1,8,32,64,128,2^32-1} x const x 4 array shapes); non-trivial = promotion yields a common type; thorough adds all triples with defined promotions (associativity)",
        "exhaustive": True,
        "traces_validated_against_impl": len(pairs) if have_model else 0,
        "correspondence_disagreements": ndis,
        "oracle_failures_total": len(failures),
        "triples": ntrip,
        "samples": [{"case": pairs[i], "impl": impl[i][:160]} for i in (7, 3000, 9001) if i < len(pairs)],
    })
    return C.finish(ctx, trusted=C.TRUSTED_COMMON + [
        "types.rs is hand-modelled in Oq3/Model/Types.lean; correspondence is exhaustive over the finite abstraction, not over all u32 widths (the theorems are over all widths)"],
        assumptions=["order on types as fixed in DESIGN.md §7 C20 (lexicographic: kind, then width)"])
