"""C16 — statement parsing is compositional: context never changes a statement's parse."""
import random
import re
from . import common as C
from . import gen_text as G
from . import gen_prog as GP
from . import pipeline as PL
from . import sexp as S

CONTEXTS = [("file", "", ""), ("if", "if (c) {", "}"), ("else", "if (c) { } else {", "}"), ("while", "while (c) {", "}"),
            ("for", "for int i in [0:3] {", "}"), ("gate", "gate g q {", "}"), ("def", "def f() {", "}"),
            ("case", "switch (x) { case 1 {", "} }"), ("default", "switch (x) { default {", "} }")]


def top_statements(treeline, text):
    """[(kind, source text)] of the children of the root (trivia skipped)"""
    f = PL.fields(treeline)
    t = S.parse(f["tree"])
    b = text.encode("utf-8")
    out = []
    for c in S.children(t):
        if S.is_node(c):
            out.append((c[0], b[int(c[1]):int(c[2])].decode("utf-8", "replace")))
        else:
            p = c.split(":")
            out.append((p[0], b[int(p[1]):int(p[2])].decode("utf-8", "replace")))
    return out, f.get("errors", "")


def block_statements(treeline, text, ctxname, depth=0):
    """statements inside the innermost body block of the wrapping context (`depth` extra `if (c) {` levels around it)"""
    f = PL.fields(treeline)
    t = S.parse(f["tree"])
    b = text.encode("utf-8")
    blocks = S.find_all(t, "BLOCK_EXPR")
    if len(blocks) <= depth:
        return None, f.get("errors", "")
    # the body block of the wrapper is the LAST outermost block for else/case/default, else the first
    outer = [x for x in blocks]
    blk = outer[depth]          # pre-order: each extra level contributes exactly one block before the body's
    if ctxname == "else":
        top = [c for c in S.children(S.children(t)[0]) if S.is_node(c) and c[0] == "BLOCK_EXPR"]
        blk = top[-1] if top else blk
    out = []
    for c in S.children(blk):
        k = S.kind(c)
        if k in ("L_CURLY", "R_CURLY"):
            continue
        if S.is_node(c):
            out.append((c[0], b[int(c[1]):int(c[2])].decode("utf-8", "replace")))
        else:
            p = c.split(":")
            out.append((p[0], b[int(p[1]):int(p[2])].decode("utf-8", "replace")))
    return out, f.get("errors", "")


ASSIGN_TAIL = C.re.compile(r"(?<![=!<>+\-*/&|^%~])=(?!=)[^;{}]*;\s*$")


def merged_assign_minus(sq, kind_of):
    """the statement list one gets from `sq` when every statement that starts with `-` is glued to a directly
    preceding statement that ends in an assignment (finding F09e), white space removed"""
    out = []
    for x in sq:
        prev_assign = bool(out) and out[-1][1]
        if x.lstrip().startswith("-") and prev_assign:
            out[-1] = (out[-1][0] + "".join(x.split()), False)
        else:
            k = kind_of.get(x)
            tail = k in ("ASSIGNMENT_STMT", "IF_STMT", "WHILE_STMT", "FOR_STMT") and bool(ASSIGN_TAIL.search(x)) and not x.rstrip().endswith("}")
            out.append(("".join(x.split()), tail))
    return [o[0] for o in out]


_SEP_COMMENTS = re.compile(r"/\*c\*/|/\*\* d \*/|/\*! b \*/|///? ?[dc]\n|//! m\n")


def _norm(x):
    return "".join(_SEP_COMMENTS.sub("", x + "\n").split())


def explain(sq, wantk, sts, errs, cname, text):
    """the set of recorded defects that explain EVERY difference between the statements parsed alone and the
    statements of the concatenation; empty if some difference is not explained (then it is a violation).
    Differences: two adjacent statements merged into one, a kind that differs, a diagnostic."""
    guards = set()
    want = [_norm(x) for x in sq]
    got = [(_norm(t), k) for k, t in sts]
    i = j = 0
    merged_cast_top = False
    while i < len(want) and j < len(got):
        gt, gk = got[j]
        if gt == want[i]:
            if gk != wantk[i]:
                # F09b: `let` is an ALIAS_DECLARATION_STATEMENT under `item` and a LET_STMT under `stmt`
                if {gk, wantk[i]} == {"LET_STMT", "ALIAS_DECLARATION_STATEMENT"} and sq[i].lstrip().startswith("let"):
                    guards.add("let")
                elif ({gk, wantk[i]} == {"EXPR_STMT", "BLOCK_EXPR"} and sq[i].lstrip().startswith("{") and i == len(want) - 1
                      and cname != "file"):
                    guards.add("block_tail")         # F09f: a scope that ends a block is a bare tail expression
                elif sq[i].strip() == ";" and cname == "file" and errs:
                    pass      # F09a: the rejected `;` is wrapped in an ERROR node; its diagnostic is checked below
                else:
                    return set()
            i += 1; j += 1
        elif i + 1 < len(want) and gt == want[i] + want[i + 1]:
            a, b = sq[i], sq[i + 1]
            if b.lstrip().startswith("-") and merged_assign_minus([a, b], {a: wantk[i], b: wantk[i + 1]}) == [gt]:
                guards.add("assign_then_minus")                       # F09e
            elif wantk[i] == "EXPR_STMT" and a.rstrip().endswith("}") and b.strip() == ";":
                guards.add("block_then_semicolon")                    # F09d
            elif wantk[i] == "CAST_EXPRESSION" and b.strip() == ";":
                guards.add("cast_stmt_no_semicolon")                  # F09c
            else:
                return set()
            i += 2; j += 1
        else:
            return set()
    if i != len(want) or j != len(got):
        return set()
    if errs:
        # F09a / F09c at file level: a `;` statement after an item is reported; every diagnostic must sit on the
        # start of an empty statement of the sequence
        if cname != "file":
            return set()
        starts, pos = set(), 0
        b = text
        for x in sq:
            k = b.find(x.strip(), pos)
            if k < 0:
                return set()
            if x.strip() == ";":
                starts.add(len(b[:k].encode("utf-8")))
            pos = k + len(x.strip())
        epos = {int(e.split("-")[0]) for e in PL.err_positions(errs)}
        if not epos <= starts:
            return set()
        guards.add("empty_stmt_top")
    return guards


def check(ctx):
    C.extract(ctx)
    C.prove(ctx, ["Oq3.Props.C16", "Oq3.Props.C16Reloc", "Oq3.Props.C16Lang"])
    okb, log = C.cargo_build()
    if not okb:
        C.violation(ctx, "harness-build-failed", {"log": log[-3000:]}, no_input=True)
        return C.finish(ctx, trusted=C.TRUSTED_COMMON)
    q = ctx.tier == "quick"
    rnd = random.Random(ctx.seed)
    progs = GP.gen_programs(ctx.seed, 1500 if q else 15000)
    it = C.run_impl(ctx, "tree", [G.enc(p) for p in progs], tag="p")
    pool = {}
    for p, t in zip(progs, it):
        if PL.canon_panic(t):
            continue
        sts, errs = top_statements(t, p)
        for k, s in sts:
            pool.setdefault(k, set()).add(s)
    extra = [";", "let a = q;", "x = 1;", "int x;", "end;", "break;", "continue;", "{ }", "{ x q; }", "pragma foo\n", "@ann x\n", "qubit q;", "return;", "barrier q;", "h q;"]
    # one statement per FIRST token the statement dispatch and the Pratt/postfix loops look at: a statement that
    # starts with `(`, `[`, `-`, `!`, a literal, a type keyword, `$`, a string ... may be glued to what precedes it
    first_tok = ["(y);", "(a + b);", "(a)[0];", "-y;", "!c;", "1;", "1.5;", "a;", "a[0];", "f(x);", "a + b;", "{ x = 1; }",
                 "\"s\";", "measure q;", "reset q;", "$0;", "delay[1ns] q;", "U(0,0,0) q;", "inv @ h q;", "gphase(1);",
                 "bit[2](x);", "int(x);", "if (c) x = 1;", "if (c) { } else { }", "while (c) { }", "for int i in [0:1] { }",
                 "gate g2 q { }", "def f2() { }", "let b = q ++ r;", "3ns;", "2im;", "true;", "x += 1;", "x[0] = 1;",
                 "c = measure q;", "creg c[2];", "qreg q[2];", "const int n = 1;", "input int k;", "bit b = \"01\";",
                 "switch (x) { case 1 { } }", "return x;", "ctrl @ x q, r;", "pow(2) @ h q;", "f();", "x = (1);", "(x) = 1;",
                 "[0:1];", "[a, b];", "[a];", "[1, 2, 3];", "{1, 2};", "a ++ b;", "box { }", "sizeof(a);", "defcalgrammar \"openpulse\";", "include \"stdgates.inc\";",
                 "OPENQASM 3.0;", "OPENQASM 3;", "extern f(int) -> int;", "defcal g q { }", "cal { }"]
    extra += first_tok
    cand = sorted({s for v in pool.values() for s in sorted(v)[:40]} | set(extra))
    # statements that parse alone, error-free, as exactly one statement
    alone = C.run_impl(ctx, "tree", [G.enc(s) for s in cand], tag="a")
    good = []
    for s, t in zip(cand, alone):
        if PL.canon_panic(t):
            continue
        sts, errs = top_statements(t, s)
        if errs == "" and len(sts) == 1:
            good.append((s, sts[0][0]))
    bykind = {}
    for s, k in good:
        bykind.setdefault(k, []).append(s)
    kind_of = {s_: k_ for s_, k_ in good}
    ctx.log(f"{len(good)} error-free single statements of {len(bykind)} kinds")
    seqs = []
    kinds = sorted(bykind)
    for k1 in kinds:
        for k2 in kinds:
            seqs.append([rnd.choice(bykind[k1]), rnd.choice(bykind[k2])])
    goodset = {s_ for s_, _ in good}
    ft = [s_ for s_ in extra if s_ in goodset]
    for s1 in ft:                    # every ordered pair of the first-token representatives
        for s2 in ft:
            seqs.append([s1, s2])
    for _ in range(3000 if q else 40000):
        seqs.append([rnd.choice(good)[0] for _ in range(rnd.randint(2, 6))])
    cases = []
    for sq in seqs:
        # separators include comments in the doc-comment spellings, directly above the next statement
        sep = rnd.choice(["", " ", "\n", " /*c*/ ", " ", "\n", " /** d */ ", "\n/// d\n", "\n// c\n", "\n//! m\n", " /*! b */\n"])
        cname, pre, post = rnd.choice(CONTEXTS) if rnd.random() < 0.5 else CONTEXTS[0]
        k = 0
        if cname in ("if", "while", "for", "gate", "def") and rnd.random() < 0.1:
            # the same body, k block levels down (nesting is bounded by 200 in this framework, DESIGN §6)
            k = rnd.choice([2, 10, 63, 64, 65, 66, 100, 150])
            pre, post = "if (c) { " * k + pre, post + " }" * k
            cname = f"{cname}@{k}"
        # statements that run to the end of the line (annotation, pragma) keep their line break
        body = sep.join((x.rstrip("\n") + "\n") if ("@" in x or "pragma" in x or "//" in x) else x for x in sq)
        cases.append((sq, cname, pre + " " + body + " " + post if cname != "file" else body))
    cases = C.uniq(cases, key=lambda c: (c[1], c[2]))
    impl = C.run_impl(ctx, "tree", [G.enc(c[2]) for c in cases], tag="s")
    have_model = ctx.lake_ok
    texts = [c[2] for c in cases]
    ucpath, _ = G.uclass_table(ctx, texts, C)
    model = C.run_model(ctx, ["tree", ucpath], [G.enc(t) for t in texts], tag="ms") if have_model else [None] * len(cases)
    failures, ndis, nontriv = [], 0, 0
    for (sq, cname, text), t, m in zip(cases, impl, model):
        same = True
        if have_model:
            pa, pb = PL.canon_panic(t), PL.canon_panic(m)
            same = (pa == pb) if (pa or pb) else (PL.fields(t).get("tree") == PL.fields(m).get("tree"))
            if not same:
                ndis += 1
                if len(ctx.corr_disagreements) < 20:
                    ctx.corr_disagreements.append({"layer": "I4 tree", "case": text, "impl": t[:300], "model": m[:300]})
        if PL.canon_panic(t):
            continue
        if cname == "file":
            sts, errs = top_statements(t, text)
        else:
            base, _, kk = cname.partition("@")
            sts, errs = block_statements(t, text, base, int(kk or 0))
        want = [x.strip() for x in sq]
        got = [x[1].strip() for x in (sts or [])]
        wantk = [kind_of.get(x) for x in sq]
        gotk = [x[0] for x in (sts or [])]
        if errs != "" or got != want or gotk != wantk:
            guards = explain(sq, wantk, sts or [], errs, cname, text)
            failures.append({"case": G.enc(text), "check": "compositional",
                             "detail": {"text": text, "context": cname, "expected": want, "got": got, "diagnostics": errs[:200]},
                             "guards": guards, "model_agrees": same,
                             "replay_how": "echo '<input>' | /verif/harness/target/debug/oq3-run tree"})
        else:
            nontriv += 1
    failures.sort(key=lambda f: len(f["case"]))
    C.decide(ctx, failures, C.load_findings("C16"))
    ctx.coverage.update({
        "evaluations": len(cases), "distinct_nontrivial": nontriv,
        "rule": "error-free single statements harvested from generated programs (every top-level node kind the generator produces, plus the empty statement, blocks, let, pragma, annotation); all ordered pairs of statement kinds and random sequences of 2-6 statements, concatenated with random separators at file level or inside if/else/while/for/gate/def/case/default bodies; the statements of the concatenation must be exactly the statements parsed alone (kind-preserving text equality) with no diagnostics",
        "statement_kinds": kinds, "pairs": len(kinds) ** 2,
        "traces_validated_against_impl": len(cases) if have_model else 0, "correspondence_disagreements": ndis,
        "samples": [{"text": cases[i][2][:120], "context": cases[i][1]} for i in (0, len(cases) - 1)],
    })
    return C.finish(ctx, trusted=C.TRUSTED_COMMON, assumptions=["statement boundaries are taken from the real tree of each statement parsed alone"])
