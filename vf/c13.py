"""C13 — usage rules (gate arity, operand kinds, const mutation, global-scope rules) are diagnosed exactly."""
import itertools
from . import semacheck as SC
from . import oracle_sema_a as OA

PRE = ('include "stdgates.inc";\nqubit q; qubit[2] qr; qubit[3] qs;\n'
       'int i1 = 1; int[8] i8 = 2; uint[8] u8 = 3; float[32] f32 = 1.5; float[64] f64 = 2.5; bool bo = true;\n'
       'bit b1; bit[3] b3; bit[4] b4; angle[8] an = 1.0; duration du = 3ns; complex[float[64]] cx1 = 1.0;\n'
       'const int ci = 4; const int[8] ci8 = 5; const uint[8] cu8 = 6; const float[64] cf = 1.0; const bool cb = true;\n'
       'const bit[4] cb4 = "1010"; const bit[3] cb3 = "101"; const bit cb1 = "1"; const angle[8] ca = 0.5; const duration cd = 2ns;\n'
       'gate g0 a { } gate g1(t) a { } gate g2(t, u) a, b { }\n'
       'def f0() { } def f1(int x) -> int { return x; } def f2(int x, qubit y) { }\n')
LHS = ["i1", "i8", "u8", "f32", "f64", "bo", "b1", "b3", "b4", "an", "du", "cx1", "ci", "ci8", "cu8", "cf", "cb", "cb4", "cb3", "cb1",
       "ca", "cd", "q", "qr", "g0", "f1", "nope", "pi", "b4[0]", "cb4[0]", "cb4[1:2]", "qr[0]", "i8[0]"]
RHS = ["1", "-1", "2.5", "true", '"1010"', '"101"', "3ns", "2im", "i1", "i8", "u8", "f64", "bo", "b1", "b3", "b4", "cb4", "cb3", "ci",
       "cf", "an", "du", "q", "qr", "measure q", "measure qr", "f1(1)", "i1 + i8", "cb4[0]", "nope", "pi", "(1)", "int[8](i1)"]
OPS = ["=", "+=", "-=", "*=", "/=", "|=", "&=", "^=", "<<=", ">>=", "%="]
GATES = ["g0", "g1", "g2", "h", "cx", "U", "rz", "i1", "f0", "nope", "q"]
ARGS = [None, "", "1", "1, 2", "1, 2, 3", "i1", "q"]
OPERANDS = ["q", "qr", "qr[0]", "q[0]", "qs[1]", "$0", "i1", "b3", "nope", "cb4", "f0", "g0", "qr[0:1]", "qr, q", "q, qr[1], qs", "q, q, q"]
MODS = ["", "inv @ ", "pow(2) @ ", "ctrl @ ", "ctrl(2) @ ", "negctrl @ ", "inv @ ctrl @ "]


def usage_programs(ctx):
    """one usage of each kind per program, over the cross product of the rule's inputs"""
    q = ctx.tier == "quick"
    out = []
    for l, r in itertools.product(LHS, RHS):
        out.append(PRE + f"{l} = {r};\n")
    for l, op in itertools.product(LHS[:26], OPS[1:]):
        out.append(PRE + f"{l} {op} i1;\n")
    for m, g, a, o in itertools.product(MODS if not q else MODS[:3], GATES, ARGS, OPERANDS):
        if q and (len(out) % 3):
            pass
        call = g + ("" if a is None else f"({a})")
        out.append(PRE + f"{m}{call} {o};\n")
    for body in ("gate gg a { }", "def ff() { }", "qubit qq;", "qubit[2] qq;", "return;", "return 1;", "int k;", "const int k = 1;",
                 'include "stdgates.inc";', "break;", "continue;", "end;"):
        for ctx_ in ("{}", "if (true) {{ {} }}", "while (false) {{ {} }}", "for int k2 in [0:1] {{ {} }}", "def outer() {{ {} }}",
                     "gate outer a {{ {} }}", "if (true) {{ if (true) {{ {} }} }}", "switch (i1) {{ case 1 {{ {} }} default {{ {} }} }}"):
            out.append(PRE + ctx_.format(body, body) + "\n")
    for d in ("du", "cd", "i1", "f64", "3ns", "3", "2.5", "q", "b3", "nope", "du + cd", "ci"):
        for o in ("q", "qr", "qr[0]", "i1", "q, qr"):
            out.append(PRE + f"delay[{d}] {o};\n")
    for f, a in itertools.product(["f0", "f1", "f2", "g0", "i1", "nope"], ["", "1", "1, q", "1, 2, 3", "q", "i1, qr[0]"]):
        out.append(PRE + f"{f}({a});\n")
        out.append(PRE + f"i1 = {f}({a});\n")
    # definitions that are themselves erroneous (a parameter or qubit name written twice, a name shadowing a global):
    # the redeclaration is reported, and the callee still has the arity that was WRITTEN
    for d, name in (("gate gd(t, t) a { }", "gd"), ("gate gq(t) a, a { }", "gq"), ("gate gm(t, u, t) a, b, a { }", "gm"),
                    ("gate gs(i1, q) qr { }", "gs"), ("gate gd(t) a { }\ngate gd(t, u) a, b { }", "gd")):
        for a, o in itertools.product(ARGS, ["q", "q, qr[0]", "q, qr[0], qs[1]"]):
            out.append(PRE + d + "\n" + name + ("" if a is None else f"({a})") + f" {o};\n")
    for d, name in (("def fd(int x, int x) { }", "fd"), ("def fq(qubit y, int x, qubit y) { }", "fq")):
        for a in ["", "1", "1, 2", "q, 1, q", "1, 2, 3"]:
            out.append(PRE + d + f"\n{name}({a});\n")
    for a, op, b in itertools.product(["q", "qr", "qr[0]", "i1", "$0"], ["+", "-", "*", "/", "**", "++", "==", "&", "<<", "%"], ["q", "2", "qr", "i1"]):
        out.append(PRE + f"{a} {op} {b};\n")
    return out


# The standard library as the OpenQASM 3 specification defines it (stdgates.inc, plus the OpenQASM 2 compatibility
# gates the library lists): name -> (angle parameters, qubits).  Written from the specification, NOT read from the
# code: the code's table (symbols.rs: standard_library_gates) is translated into the model on every run, so the model
# follows an edit of that table — this is the independent statement of what "the gate's definition" is for a
# standard-library gate.
STD_SPEC = {"p": (1, 1), "x": (0, 1), "y": (0, 1), "z": (0, 1), "h": (0, 1), "s": (0, 1), "sdg": (0, 1), "t": (0, 1), "tdg": (0, 1),
            "sx": (0, 1), "rx": (1, 1), "ry": (1, 1), "rz": (1, 1), "cx": (0, 2), "cy": (0, 2), "cz": (0, 2), "cp": (1, 2),
            "crx": (1, 2), "cry": (1, 2), "crz": (1, 2), "ch": (0, 2), "swap": (0, 2), "ccx": (0, 3), "cswap": (0, 3),
            "cu": (4, 2), "CX": (0, 2), "phase": (1, 1), "cphase": (1, 2), "id": (0, 1), "u1": (1, 1), "u2": (2, 1), "u3": (3, 1),
            "U": (3, 1)}
STD_PRE = 'include "stdgates.inc";\nqubit[5] w;\n'


class StdArity:
    """oracle over the programs of `std_programs`: one call of one standard (or built-in) gate with k parameters and
    m qubit operands is reported (parameter or qubit count) iff k or m differs from the specification's"""
    __name__ = "vf.c13"
    expect = {}

    @classmethod
    def programs(cls):
        out = []
        for g, (np_, nq) in STD_SPEC.items():
            for k in sorted({np_, max(np_ - 1, 0), np_ + 1, 0}):
                for m in sorted({nq, max(nq - 1, 1), nq + 1}):
                    call = g + ("(" + ", ".join(f"0.{i + 1}" for i in range(k)) + ")" if k else "")
                    text = STD_PRE + call + " " + ", ".join(f"w[{i}]" for i in range(m)) + ";\n"
                    cls.expect[text] = (g, k != np_, m != nq)
                    out.append(text)
        return out

    @classmethod
    def check(cls, text, ast_line, sema_line):
        if text not in cls.expect:
            return []
        g, bad_p, bad_q = cls.expect[text]
        sema = OA.parse_sema_line(sema_line)
        if sema["status"] != "ok":
            return []
        kinds = [k for k, _, _ in sema["errors"]]
        out = []
        got = kinds.count("NumGateParamsError") + kinds.count("NumGateQubitsError")
        if (got > 0) != (bad_p or bad_q):
            out.append(("C13", "std_gate_arity", f"gate {g}: {got} arity diagnostics, but the call "
                        f"{'differs from' if bad_p or bad_q else 'matches'} the specification's signature "
                        f"({STD_SPEC[g][0]} parameters, {STD_SPEC[g][1]} qubits)"))
        other = [k for k in kinds if k not in ("NumGateParamsError", "NumGateQubitsError")]
        if other:
            out.append(("C13", "std_gate_arity", f"gate {g}: unexpected diagnostics {other[:4]}"))
        return out


def check(ctx):
    progs = SC.default_programs(ctx, usage_programs(ctx) + StdArity.programs())
    return SC.run(ctx, "C13", ["Oq3.Props.C13", "Oq3.Props.C09StdGates", "Oq3.Props.C13StdGates"], [OA, StdArity], progs,
                  "generated programs with wrong arities, wrong operand kinds, const targets, gates/defs/qubits in non-global scopes, returns at top level, delays with non-duration designators, PLUS the cross products of the rules' inputs, one usage per program over a fixed preamble: assignment target kind (33: every scalar type, const/non-const, registers, indexed, qubits, gates, subroutines, undeclared, built-in constants) x value kind (33) x operator (11); gate modifier x callee kind x argument list x operand list; declarations/returns/includes in every scope kind; delay designator x operand; call callee x arguments; quantum operand x binary operator; oracle: the usage rules recomputed from the typed AST and the recorded symbol types, compared with errors= as multisets of kind@span (missing and spurious); PLUS every standard-library gate and U called with k-1, k, k+1 parameters and m-1, m, m+1 qubits (205 programs), reported iff the call differs from the OpenQASM 3 specification's signature (STD_SPEC, independent of the code's table, which the model follows)")
