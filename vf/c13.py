"""C13 — usage rules (gate arity, operand kinds, const mutation, global-scope rules) are diagnosed exactly."""
from . import semacheck as SC
from . import oracle_sema_a as OA


def check(ctx):
    return SC.run(ctx, "C13", ["Oq3.Props.C13"], [OA], SC.default_programs(ctx),
                  "generated programs with wrong arities, wrong operand kinds, const targets, gates/defs/qubits in non-global scopes, returns at top level, delays with non-duration designators; oracle: the usage rules recomputed from the typed AST and the recorded symbol types, compared with errors= as multisets of kind@span (missing and spurious)")
