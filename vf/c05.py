"""C05 — the AST mirrors the derivation: precedence, associativity, roles."""
import random
from . import common as C
from . import gen_text as G
from . import pipeline as PL
from . import sexp as S

OPTEXT = {"PIPE2": "||", "AMP2": "&&", "PIPE": "|", "CARET": "^", "AMP": "&", "EQ2": "==", "NEQ": "!=",
          "L_ANGLE": "<", "LTEQ": "<=", "R_ANGLE": ">", "GTEQ": ">=", "SHL": "<<", "SHR": ">>", "PLUS": "+",
          "MINUS": "-", "STAR": "*", "SLASH": "/", "PERCENT": "%", "DOUBLE_STAR": "**"}
UNTEXT = {"MINUS": "-", "BANG": "!", "TILDE": "~"}
SPEC = {"PIPE2": 1, "AMP2": 2, "PIPE": 3, "CARET": 4, "AMP": 5, "EQ2": 6, "NEQ": 6, "L_ANGLE": 7, "LTEQ": 7,
        "R_ANGLE": 7, "GTEQ": 7, "SHL": 8, "SHR": 8, "PLUS": 9, "MINUS": 9, "STAR": 10, "SLASH": 10,
        "PERCENT": 10, "DOUBLE_STAR": 12}
SPEC_UNARY = 11
BINOPS = list(OPTEXT)

# ---- expression trees: ("a", n) | ("bin", op, l, r) | ("pre", op, e) | ("paren", e)


def show(e):
    if e[0] == "a":
        return f"a{e[1]}"
    if e[0] == "bin":
        return f"({e[1]} {show(e[2])} {show(e[3])})"
    if e[0] == "pre":
        return f"(pre:{e[1]} {show(e[2])})"
    return f"(paren {show(e[1])})"


def spec_parse(toks):
    """precedence climbing with the SPECIFICATION table; toks: list of ('a',n)|('op',k)|('pre',k)|'('|')'"""
    pos = 0

    def primary():
        nonlocal pos
        t = toks[pos]
        if t == "(":
            pos += 1
            e = expr(1)
            pos += 1
            return ("paren", e)
        if t[0] == "pre":
            pos += 1
            # unary binds tighter than everything except ** (which is right-assoc above it)
            e = unary_operand()
            return ("pre", t[1], e)
        pos += 1
        return ("a", t[1])

    def unary_operand():
        nonlocal pos
        e = primary()
        while pos < len(toks) and toks[pos] not in ("(", ")") and toks[pos][0] == "op" and SPEC[toks[pos][1]] > SPEC_UNARY:
            op = toks[pos][1]; pos += 1
            r = expr(SPEC[op])          # ** is right associative
            e = ("bin", op, e, r)
        return e

    def expr(minp):
        nonlocal pos
        lhs = primary()
        while pos < len(toks) and toks[pos] not in ("(", ")") and toks[pos][0] == "op" and SPEC[toks[pos][1]] >= minp:
            op = toks[pos][1]; pos += 1
            nxt = SPEC[op] if op == "DOUBLE_STAR" else SPEC[op] + 1
            rhs = expr(nxt)
            lhs = ("bin", op, lhs, rhs)
        return lhs
    return expr(1)


def text_of(toks):
    out = []
    for t in toks:
        if t in ("(", ")"):
            out.append(t)
        elif t[0] == "a":
            out.append(f"a{t[1]}")
        elif t[0] == "op":
            out.append(OPTEXT[t[1]])
        else:
            out.append(UNTEXT[t[1]])
    return " ".join(out) + ";"


def model_line(toks):
    out = []
    for t in toks:
        if t in ("(", ")"):
            out.append(t)
        elif t[0] == "a":
            out.append(f"a{t[1]}")
        elif t[0] == "op":
            out.append(t[1])
        else:
            out.append("pre:" + t[1])
    return " ".join(out)


def shape_of_cst(x):
    """expression shape from the real CST"""
    k = S.kind(x)
    if not S.is_node(x):
        return None
    cs = S.children(x)
    if k == "IDENTIFIER":
        t = S.leaf_text(cs[0]) if cs else "?"
        return t if t.startswith("a") else "id:" + t
    if k == "PAREN_EXPR":
        inner = [c for c in cs if S.is_node(c)]
        return f"(paren {shape_of_cst(inner[0])})" if inner else "(paren)"
    if k == "PREFIX_EXPR":
        op = [c for c in cs if not S.is_node(c)]
        inner = [c for c in cs if S.is_node(c)]
        return f"(pre:{S.kind(op[0])} {shape_of_cst(inner[0]) if inner else '?'})"
    if k == "BIN_EXPR":
        subs = [c for c in cs if S.is_node(c)]
        ops = [c for c in cs if not S.is_node(c)]
        l = shape_of_cst(subs[0]) if subs else "?"
        r = shape_of_cst(subs[1]) if len(subs) > 1 else "?"
        return f"({S.kind(ops[0]) if ops else '?'} {l} {r})"
    return f"<{k}>"


def rand_toks(rnd, depth):
    """random token list of a syntactically valid expression"""
    n = [0]

    def gen(d):
        r = rnd.random()
        if d == 0 or r < 0.25:
            n[0] += 1
            return [("a", n[0] - 1)]
        if r < 0.35:
            return [("pre", rnd.choice(list(UNTEXT)))] + gen_primary(d - 1)
        if r < 0.45:
            return ["("] + gen(d - 1) + [")"]
        return gen(d - 1) + [("op", rnd.choice(BINOPS))] + gen(d - 1)

    def gen_primary(d):
        if rnd.random() < 0.5 or d == 0:
            n[0] += 1
            return [("a", n[0] - 1)]
        return ["("] + gen(d - 1) + [")"]
    return gen(depth)


def check(ctx):
    C.extract(ctx)
    C.prove(ctx, ["Oq3.Props.C05", "Oq3.Props.C05Events", "Oq3.Props.C05Roles", "Oq3.Props.C05RolesTrees"])
    okb, log = C.cargo_build()
    if not okb:
        C.violation(ctx, "harness-build-failed", {"log": log[-3000:]}, no_input=True)
        return C.finish(ctx, trusted=C.TRUSTED_COMMON)
    rnd = random.Random(ctx.seed)
    cases = []   # (kind, toks, pair)
    for o1 in BINOPS:
        for o2 in BINOPS:
            cases.append(("pair", [("a", 0), ("op", o1), ("a", 1), ("op", o2), ("a", 2)], (o1, o2)))
    for u in UNTEXT:
        for o in BINOPS:
            cases.append(("unary", [("pre", u), ("a", 0), ("op", o), ("a", 1)], (u, o)))
            cases.append(("unary2", [("a", 0), ("op", o), ("pre", u), ("a", 1)], (u, o)))
    for _ in range(6000 if ctx.tier == "quick" else 100000):
        cases.append(("random", rand_toks(rnd, 4), None))
    cases = C.uniq(cases, key=lambda c: text_of(c[1]))
    texts = [text_of(c[1]) for c in cases]
    lines = [G.enc(t) for t in texts]
    impl = C.run_impl(ctx, "tree", lines)
    have_model = ctx.lake_ok
    model = C.run_model(ctx, "pratt", [model_line(c[1]) for c in cases]) if have_model else [None] * len(cases)
    ops = C.run_model(ctx, "ops", ["x"])[0] if have_model else ""
    table = PL.fields(ops) if ops else {}
    D = {tuple(p.split("/")) for p in table.get("disagree", "").split(",") if p}
    DU = {p for p in table.get("unary", "").split(",") if p}
    findings = C.load_findings("C05")
    K = {tuple(p) for f in findings for p in f.get("pairs", [])}
    KU = {p for f in findings for p in f.get("unary", [])}
    failures, ndis, nontriv = [], 0, 0
    for i, (kind, toks, pair) in enumerate(cases):
        a = impl[i]
        if PL.canon_panic(a):
            failures.append({"case": lines[i], "check": "parse_returns", "detail": {"text": texts[i], "impl": a[:200]},
                             "guards": set(), "model_agrees": False})
            continue
        f = PL.fields(a)
        tree = S.parse(f["tree"])
        stmts = [c for c in S.children(tree) if S.is_node(c)]
        got = None
        if len(stmts) == 1 and S.kind(stmts[0]) == "EXPR_STMT":
            inner = [c for c in S.children(stmts[0]) if S.is_node(c)]
            got = shape_of_cst(inner[0]) if inner else None
        want = show(spec_parse(toks))
        if f.get("errors", ""):
            got = None            # rejected by the real parser: no shape to compare
        mshape = None if model[i] in ("NONE", None) or str(model[i]).startswith("PARTIAL") else model[i]
        if have_model and got != mshape:
            ndis += 1
            if len(ctx.corr_disagreements) < 20:
                ctx.corr_disagreements.append({"layer": "expression shape: real parser vs abstract Pratt core with the translated table",
                                               "case": texts[i], "impl": got, "model": model[i]})
        model_i = mshape
        if got != want or f.get("errors", ""):
            guards = set()
            if "~" in texts[i] and got is None and "expected_expression" in f.get("errors", ""):
                guards.add("tilde")
            if guards:
                pass
            elif kind == "pair" and pair in K:
                guards.add("known_pair")
            elif kind in ("unary", "unary2") and pair[1] in KU and pair[0] == "MINUS" or (kind in ("unary", "unary2") and pair[1] in KU):
                guards.add("known_pair")
            elif kind == "random":
                # explained by the table: every adjacent disagreement of the translated table is a recorded one
                if D <= K and DU <= KU and (not have_model or got == mshape):
                    guards.add("known_pair")
            failures.append({"case": lines[i], "check": "precedence", "detail": {"text": texts[i], "parsed_as": got, "spec": want, "diagnostics": f.get("errors", "")[:100]},
                             "guards": guards, "model_agrees": (not have_model) or got == mshape,
                             "replay_how": "echo '<input>' | /verif/harness/target/debug/oq3-run tree"})
        else:
            nontriv += 1
    # pairs the translated table newly disagrees on must show up as oracle failures above; if the
    # table says so but the implementation parses per the spec, the translation/model is off
    new_pairs = sorted(D - K)
    for p in new_pairs:
        ctx.notes.append(f"translated table disagrees with the specification on a pair that is not a recorded finding: {p}")
    for p in sorted(K - D):
        ctx.notes.append(f"recorded pair {p} no longer disagrees (stale finding entry)")
    # roles: derivation shape of whole programs, CST and typed accessors (vf/gen_ref.py, vf/refcheck.py)
    from . import refcheck as R
    from . import c04
    q = ctx.tier == "quick"
    rrecs, rstats = R.run_ref(ctx, 3000 if q else 50000, depth=3 if q else 4, seed_off=50)
    nroles = 0
    for r in rrecs:
        if r["panic"]:
            continue
        acc, shape = c04.split_mismatch(r["cst"])
        if acc:
            continue                       # not an accepted program: C04's business
        ok = True
        if shape:
            ok = False
            failures.append({"case": r["line"], "check": "cst_roles", "detail": {"text": r["case"]["text"], "what": shape[:3]},
                             "guards": set(r["causes_cst"]), "model_agrees": r["model_agrees_cst"],
                             "replay_how": "echo '<input>' | /verif/harness/target/debug/oq3-run tree ; expected structure: vf/gen_ref.py"})
        if r["ast"]:
            ok = False
            failures.append({"case": r["line"], "check": "ast_roles", "detail": {"text": r["case"]["text"], "what": r["ast"][:3]},
                             "guards": set(r["causes_ast"]), "model_agrees": r["model_agrees_cst"] and r["model_agrees_ast"],
                             "replay_how": "echo '<input>' | /verif/harness/target/debug/oq3-run ast ; expected roles: vf/gen_ref.py match_ast"})
        if ok:
            nroles += 1
    nontriv += nroles
    # the accessor layer itself: Lean model of oq3_syntax::ast's typed accessors (Oq3/Model/Accessors.lean) on the
    # implementation's own tree, against the implementation's typed-AST dump, character for character
    from . import acc_corr as AC
    from . import gen_prog as GP
    acc_texts = C.uniq([r["case"]["text"] for r in rrecs] + GP.gen_programs(ctx.seed + 51, 3000 if q else 50000))
    arecs, astats = AC.run(ctx, acc_texts) if have_model else ([], {})
    ndis += astats.get("disagree", 0)
    ctx.coverage["accessor_layer"] = dict(astats)
    ctx.coverage["role_programs"] = {"cases": rstats["cases"], "accepted_and_matching": nroles,
                                     "attributed_cst": rstats["cst_attributed"], "attributed_ast": rstats["ast_attributed"]}
    failures.sort(key=lambda x: len(x["case"]))
    C.decide(ctx, failures, findings)
    ctx.coverage.update({
        "evaluations": len(cases), "distinct_nontrivial": nontriv,
        "rule": "all 19x19 ordered binary operator pairs `a o1 b o2 c`, all 3x19 unary/binary combinations in both positions (exhaustive), plus random expression token strings of depth <= 4 over all operators with parentheses; each parsed by the real parser (CST shape extracted), by the abstract Pratt core with the translated table (correspondence) and by an independent precedence-climbing parser with the OpenQASM 3 table (oracle); non-trivial = real parser agrees with the specification without diagnostics",
        "exhaustive": True, "operator_pairs": 361,
        "roles_rule": "programs derived from the reference grammar with their derivation trees (every statement kind, all four block/statement body combinations of if/else, else-if chains, 2- and 3-component ranges in for-iterables and index positions, chained index operators on identifier/call/cast/paren bases, modifiers, argument and operand lists), each also split into its top-level statements; the CST (`tree`) and the typed-accessor view (`ast`) of the real front end must have the derivation's constituents in the derivation's roles",
        "traces_validated_against_impl": len(cases) if have_model else 0,
        "translated_table": table.get("pows", ""), "disagree_pairs": len(D), "recorded_pairs": len(K),
        "correspondence_disagreements": ndis,
        "samples": [{"text": texts[i], "impl_shape": None} for i in (5, len(cases) - 1)],
    })
    return C.finish(ctx, trusted=C.TRUSTED_COMMON + [
        "the expression core is abstracted from events to trees (Oq3/Model/Pratt.lean); the abstraction is tied to the real parser by the shape comparison on every case",
        "the typed accessors of oq3_syntax::ast (generated nodes.rs tables translated on every run into Oq3/Gen/Nodes.lean; hand-written accessors hand-modelled in Oq3/Model/Accessors.lean) are tied to the code by comparing the model's typed-AST dump with the implementation's on every case; f64 parsing/printing is modelled (Oq3/Model/F64Text.lean) only so that dumps can be compared"],
        assumptions=["OpenQASM 3 precedence table as in Oq3.Props.C05.specLevel"])
