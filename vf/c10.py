"""C10 — literal values reach the graph exactly."""
from . import semacheck as SC
from . import oracle_sema_b as OB


def progs(ctx):
    q = ctx.tier == "quick"
    return SC.default_programs(ctx, OB.gen_literal_programs(ctx.seed, 5000 if q else 80000))


def check(ctx):
    return SC.run(ctx, "C10", ["Oq3.Props.C10"], [OB], progs(ctx),
                  "generated programs + literal programs (integers of every radix/prefix case/underscore placement with values around every power of two up to 2^128, floats, bit strings, booleans, timing and imaginary literals, negated forms) in every context the pass translates; oracle: accessor values and graph literals recomputed from the spelling")
