HOOKS = {
    "guard": "cargo feature `oq3_verif` (crates oq3_semantics, oq3_parser)",
    "enable": "the harness crate /verif/harness depends on /repo/crates/* by path with features=[\"oq3_verif\"]; `cargo build --offline` in /verif/harness rebuilds from /repo's working tree",
    "baseline_off_cmd": "cd /repo && cargo test --workspace --no-fail-fast --offline",
    "source_commits": ["43080a3", "4b627d0", "198111a"],
    "add_only": True,
}
NOTES = ("One orchestrator: bin/check <Cxx> --tier quick|thorough. Each run: (re)build Lean theorems + axiom audit, "
         "rebuild harness from /repo's working tree, run model driver and implementation on the same cases, "
         "diff per layer, apply the property oracle to the implementation, attribute failures to known_findings.json "
         "or report VIOLATION. See DESIGN.md.")
COMMON_NOTE = ("Trusted: Lean 4.33 kernel (axioms propext, Classical.choice, Quot.sound only; no sorry/native_decide), "
               "the hand-written model's tie to the code is a differential test run on every check, the Rust harness and codecs. ")
CHECKS = {
    "C19": {
        "text": "Proof: the symbol-table model (scope stack of replace-on-insert maps + append-only symbol vector + id counter) satisfies the invariant for every operation history (induction over arbitrary op lists): counter = length, ids in range and naming their key, one value per key, exactly one global scope at the bottom; look-up = innermost binding; bind fails iff current scope has the name; balanced enter/…/exit restores the stack; ids stable and fresh. The model is tied to symbols.rs by running both on all histories of length <= 6 (quick; <= 7 thorough) over the quantifier's 9 operations plus long random histories, and an independent stack-of-maps spec is run beside the real table.",
        "design_ref": "§7 C19", "technique": "Lean 4 proof (invariant by induction over operation lists) + exhaustive bounded differential correspondence",
        "note": COMMON_NOTE + "hashbrown::HashMap modelled as association list with replace-on-insert; enter_scope reached through the feature-gated wrapper.",
    },
    "C20": {
        "text": "Proof: for all widths, const flags and dims the model of promote_types is symmetric up to const, idempotent, an upper bound in the (lexicographic) tower order, never narrows; Void exactly when no bound and const only if both operands are hold outside four recorded defect regions, each with a kernel-checked witness (known findings F19a, F19a2, F19b, F19c); literal castability is a superset of promotion into the target and never goes down. The model is tied to types.rs exhaustively over the finite abstraction of the quantifier (131 types, 17161 ordered pairs; thorough adds all triples).",
        "design_ref": "§7 C20", "technique": "Lean 4 proof (case analysis on type tags, omega on widths) + exhaustive differential correspondence over the finite type abstraction",
        "note": COMMON_NOTE + "Order on types as fixed in DESIGN §7 C20.",
    },
}
CHECKS["C14"] = {
    "text": "Proof: for arbitrary Unicode class tables and arbitrary input (List Char), by induction: advance_token returns a strict suffix (every token non-empty), token texts concatenate to the input (lengths sum to the UTF-8 length), every token is a whole number of characters, suffix_start <= len, all lexer debug assertions and the block-comment depth guard hold, tokenize needs no more fuel than the input length; the LexedStr table has strictly increasing starts from 0 to the input length, |kinds| = |starts|, every slice is the token's text, error indices are in range, to_input is total. The model is tied to oq3_lexer / lexed_str.rs by running both on every string of length <= 5 (quick; <= 6 thorough) over the quantifier's 14-character alphabet plus random rich-alphabet strings; the same predicates are evaluated on the real token stream, which is lexed twice (determinism).",
    "design_ref": "§7 C14", "technique": "Lean 4 proof (suffix lemmas per scanner, induction on input) + bounded-exhaustive differential correspondence",
    "note": COMMON_NOTE + "unicode-xid/unicode-properties class tables are parameters of the model (all theorems hold for every table; the one ASCII fact needed is checked against the real tables each run). u32 offsets: texts < 2^32 bytes.",
}
CHECKS["C01"] = {
    "text": "Proof (partial, stated exactly): lexer — every scanner returns a strict suffix, tokenize terminates within |input| steps, all debug assertions and the block-comment depth guard hold, LexedStr/to_input index arithmetic is total (C14 theorems); parser — EVERY function of the grammar model preserves the parser-state invariant (Dyck event balance, sound forward-parent links, token accounting = pos <= input length, glued tokens are joint), proved for all 85 mutually recursive functions by induction on fuel; consequently on every successful parse event::process never reaches unreachable!()/out-of-bounds and preserves tokens and errors in order, the debug balance assertions of TopEntryPoint::parse hold, u32 subtractions in precede/extend_to cannot underflow, parsing stops only at end of input, and the tree builder has exactly one root and no failing unwrap. NOT proved, explored only: that no grammar-level assert!(p.at(..))/bump assertion fails and that every grammar loop terminates — the unchanged code violates both (known findings F01 hang in parameter lists, F03 delay designator, F04 TokenSet shift overflow, F05 Literal::token unwrap), found and re-confirmed on every run. The models are tied to the code per layer (lex, parse, tree) on random texts, generated lexeme sequences, generated and mutated programs, and all token-kind sequences of length <= 2.",
    "design_ref": "§7 C01", "technique": "Lean 4 proof (invariant preserved by every API primitive and, via a generated proof script, by every grammar function; hoisting lemma for forward parents) + per-layer differential correspondence + panic oracle on the implementation",
    "note": COMMON_NOTE + "Hang detection relies on the oq3_verif hook (2000 events without progress). Thread-stack depth and allocation are outside the model.",
}
CHECKS["C02"] = {
    "text": "Proof: (1) for every raw token table and every rooted step list, whenever intersperse_trivia returns, the tree builder returns exactly one root node with an empty parent stack, no unwrap/assert of the builder fails, the leaves of the tree are exactly the emitted token steps in order and their texts concatenate to the texts of the raw tokens consumed — the whole input when is_eof holds; diagnostics are the emitted error steps in order; (2) event::process maps every event list satisfying the parser invariant to a rooted step list, totally, preserving tokens and errors in order (hoisting lemma for forward parents); (3) every grammar function preserves that invariant, so both hold after every successful parse, for both entry points (they share build_tree). Node ranges of the model tree are derived from leaf lengths; that rowan's ranges tile is checked by the oracle on the real tree for every case. Not yet proved: is_eof = true for every lexer-produced input (needs the to_input/joint-bit bridge); the oracle checks text equality on every case.",
    "design_ref": "§7 C02", "technique": "Lean 4 proof (builder run beside the tree-stack machine; depth-machine refinement for process; invariant for the parser) + per-layer differential correspondence + oracle on the real tree",
    "note": COMMON_NOTE + "rowan is modelled as a rose tree; escape diagnostics of validate_literal not modelled.",
}
CHECKS["C12"] = {
    "text": "Proof: every lexer diagnostic's range is an existing token's range (lo <= hi <= |text|, both ends token starts, i.e. character boundaries since tokens are whole characters); every parser diagnostic emitted by intersperse_trivia sits at text_start(p) for some p <= len, which never exceeds the text length — for every token table and step list. 'No silent error node' is a call-site property of the grammar (every bump_any must know the kind or have logged an error): not proved; the oracle decides it on the implementation for every case and the one blind site of the unchanged code is known finding F10. Spans of escape-sequence and semantic diagnostics are checked by the oracle only (semantic part: see C03/C13 checks).",
    "design_ref": "§7 C12", "technique": "Lean 4 proof (position invariant of intersperse_trivia; token-range lemmas from C14) + differential correspondence + oracle on real diagnostics",
    "note": COMMON_NOTE + "",
}
NOT_YET = {}
