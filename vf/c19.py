"""C19 — the symbol table behaves as a stack of scopes under every operation history."""
import itertools, random
from concurrent.futures import ProcessPoolExecutor
from . import common as C

OPS9 = ["E l", "E s", "X", "B a Int - n", "B b Int - n", "B a Qubit", "B b Qubit", "L a", "L b"]
BUILTINS = [("pi", "Float 64 c"), ("π", "Float 64 c"), ("euler", "Float 64 c"), ("ℇ", "Float 64 c"),
            ("tau", "Float 64 c"), ("τ", "Float 64 c"), ("U", "Gate 3 1")]
RTYPES = ["Int - n", "Int 32 c", "Qubit", "Float 64 n", "Gate 1 2", "HardwareQubit", "Bit n", "QubitArray 3",
          "Sub 2 Int 32 n", "Gate 0 1"]
RNAMES = ["a", "b", "pi", "U", "$0", "cx"]


def strip_ctor(line):
    w = line.split(";", 1)
    return (w[1].strip() if len(w) > 1 else "") if w[0].strip() == "D" else line


def spec_run(line):
    """Specification: a stack of maps plus an append-only log.  Returns the expected output line."""
    line = strip_ctor(line)
    allsyms = list(BUILTINS)
    stack = [("g", {n: i for i, (n, _) in enumerate(BUILTINS)})]
    outs = []
    for op in [o.strip() for o in line.split(";") if o.strip()]:
        w = op.split()
        if w[0] == "E":
            if w[1] == "g":
                outs.append("P")
            else:
                stack.append((w[1], {})); outs.append("u")
        elif w[0] == "X":
            if len(stack) > 1:
                stack.pop(); outs.append("u")
            else:
                outs.append("P")
        elif w[0] == "B":
            n, ty = w[1], " ".join(w[2:])
            if n in stack[-1][1]:
                outs.append("AB")
            else:
                stack[-1][1][n] = len(allsyms); outs.append(f"b{len(allsyms)}"); allsyms.append((n, ty))
        elif w[0] == "L":
            n = w[1]
            for _, m in reversed(stack):
                if n in m:
                    i = m[n]; outs.append(f"f{i}:{allsyms[i][0]}:{allsyms[i][1]}"); break
            else:
                outs.append("M")
        elif w[0] == "N":
            n, ty = w[1], " ".join(w[2:])
            for _, m in reversed(stack):
                if n in m:
                    outs.append(f"b{m[n]}"); break
            else:
                stack[-1][1][n] = len(allsyms); outs.append(f"b{len(allsyms)}"); allsyms.append((n, ty))
        elif w[0] == "C":
            outs.append(f"n{len(stack[-1][1])}")
    gates = [f"{n}:{i}:{t.split()[1]}:{t.split()[2]}" for i, (n, t) in enumerate(allsyms)
             if t.startswith("Gate ") and n != "U"]
    hw = [f"{n}:{i}" for i, (n, t) in enumerate(allsyms) if t == "HardwareQubit"]
    fin = "depth=%d;cur=%s;all=%s;gates=%s;hw=%s" % (
        len(stack), stack[-1][0], ",".join(f"{n}:{t}" for n, t in allsyms), ",".join(gates), ",".join(hw))
    return ";".join(outs) + " # " + fin


def _spec_chunk(lines):
    return [spec_run(l) for l in lines]


def gen_cases(ctx):
    maxlen = 6 if ctx.tier == "quick" else 7
    cases = []
    for n in range(0, maxlen + 1):
        for t in itertools.product(OPS9, repeat=n):
            cases.append(" ; ".join(t))
    nexh = len(cases)
    rnd = random.Random(ctx.seed)
    nrand = 10000 if ctx.tier == "quick" else 200000
    for _ in range(nrand):
        k = rnd.randint(1, 200)
        ops = []
        for _ in range(k):
            r = rnd.random()
            if r < 0.15:
                ops.append("E " + rnd.choice("lllssc" + ("g" if rnd.random() < 0.05 else "l")))
            elif r < 0.30:
                ops.append("X")
            elif r < 0.55:
                ops.append(f"B {rnd.choice(RNAMES)} {rnd.choice(RTYPES)}")
            elif r < 0.80:
                ops.append(f"L {rnd.choice(RNAMES)}")
            elif r < 0.92:
                ops.append(f"N {rnd.choice(RNAMES)} {rnd.choice(RTYPES)}")
            else:
                ops.append("C")
        cases.append(" ; ".join(ops))
    # the same table must come out of every public constructor: a sample of the histories is replayed on
    # `SymbolTable::default()` (leading `D`, understood by the harness only; the model and the specification
    # have one initial state and see the history without it)
    step = 7 if ctx.tier == "quick" else 3
    cases += ["D ; " + c if c else "D" for c in cases[::step]]
    # LARGE NAME POPULATIONS: tens of thousands of distinct names in one scope and across scopes (a table keyed by a
    # hash of the name, a growth step of the map, an id counter of a narrow type would show here and nowhere else);
    # these histories are checked against the specification only (the association-list model is quadratic)
    for n, tag in ((70000, "a"), (600000, "b")) if ctx.tier == "quick" else ((70000, "a"), (600000, "b"), (1200000, "c")):
        names = ["".join(rnd.choice("abcdefghijklmnopqrstuvwxyz") for _ in range(rnd.randint(5, 9))) + tag for _ in range(n)]
        names = list(dict.fromkeys(names))
        # half of the names in the global scope (for 300 000 names a 32-bit key collides with probability > 0.9999)
        ops = [f"B {x} Int - n" for x in names[: n // 2]] + ["E l"] + [f"B {x} Qubit" for x in names[n // 2:]]
        ops += [f"L {x}" for x in names[:: 7]] + ["X"] + [f"L {x}" for x in names[n // 2:: 11]] + [f"L {x}" for x in names[: n // 2: 13]]
        cases.append(" ; ".join(ops))
    return cases, nexh


def check(ctx):
    C.prove(ctx, ["Oq3.Props.C19"])
    okb, log = C.cargo_build()
    if not okb:
        C.violation(ctx, "harness-build-failed", {"log": log[-3000:]}, no_input=True)
        return C.finish(ctx, trusted=C.TRUSTED_COMMON)
    corpus = C.load_corpus("C19")
    cases, nexh = gen_cases(ctx)
    cases = C.uniq(corpus + cases)
    ctx.log(f"{len(cases)} histories ({nexh} bounded-exhaustive)")
    impl = C.run_impl(ctx, "symtab", cases)
    have_model = ctx.lake_ok
    model = C.run_model(ctx, "symtab", [strip_ctor(c) if len(c) < 200000 else "" for c in cases]) if have_model else [None] * len(cases)
    ctx.log("spec oracle")
    chunks = [cases[i:i + 20000] for i in range(0, len(cases), 20000)]
    with ProcessPoolExecutor(max_workers=C.NPROC) as ex:
        spec = [x for part in ex.map(_spec_chunk, chunks) for x in part]
    failures, ndis, nontriv = [], 0, 0
    for i, c in enumerate(cases):
        if len(c) >= 200000:
            model[i] = impl[i]                     # population histories: specification only
        if have_model and impl[i] != model[i]:
            ndis += 1
            if len(ctx.corr_disagreements) < 20:
                ctx.corr_disagreements.append({"layer": "symtab", "case": c, "impl": impl[i][:400], "model": model[i][:400]})
        if impl[i] != spec[i]:
            failures.append({"case": c, "check": "stack_of_maps",
                             "detail": {"impl": impl[i][:600], "spec": spec[i][:600]},
                             "guards": set(), "model_agrees": (not have_model) or impl[i] == model[i],
                             "replay_how": "echo '<input>' | /verif/harness/target/debug/oq3-run symtab"})
        if "b" in impl[i].split(" # ")[0] and ("f" in impl[i].split(" # ")[0]):
            nontriv += 1
    failures.sort(key=lambda f: len(f["case"]))
    C.decide(ctx, failures, C.load_findings("C19"))
    ctx.coverage.update({
        "evaluations": len(cases), "distinct_nontrivial": nontriv,
        "rule": f"all histories of length <= {6 if ctx.tier=='quick' else 7} over the 9 operations of the quantifier (bounded-exhaustive) plus random histories up to length 200 over 6 names/10 types incl. lookup_or_new_binding, len_current_scope, calibration and (panicking) global scope entry; a sample replayed on a table built by Default::default() instead of new(); non-trivial = at least one successful binding and one successful look-up",
        "exhaustive": True, "exhaustive_histories": nexh,
        "traces_validated_against_impl": len(cases) if have_model else 0,
        "correspondence_disagreements": ndis, "oracle_failures_total": len(failures),
        "samples": [{"history": cases[i][:300], "impl": impl[i][:200]} for i in (len(corpus) + 5000, nexh + 17, len(cases) - 1) if i < len(cases)],
        "population_histories": [{"operations": c.count(";") + 1, "bytes": len(c)} for c in cases if len(c) >= 200000],
    })
    return C.finish(ctx, trusted=C.TRUSTED_COMMON + [
        "hashbrown::HashMap is modelled as an association list with replace-on-insert; std Vec as List"],
        assumptions=["histories are driven through the feature-gated wrapper verif_enter_scope (enter_scope is crate-private)"])
