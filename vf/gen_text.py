"""Text generators shared by the lexer/parser-level checks (DESIGN.md §3.4 G_text)."""
import itertools, random

ALPHA14 = ['/', '*', '"', "'", '0', '1', '_', '.', 'e', 'x', 'b', '\n', 'a', '$']

RICH = list("/*\"'01_.exb\na$#@pragmOPENQSMditsunµπ;+-={}[]()<>!&|^%~?:, \t\r\\9AfF") + \
    ['№', '😀', '‍', ' ', '\0', '\u0085', '‎', '\U0010ffff', 'é', '️', '⃣']

WORDS = ["pragma", "#pragma", "#dim", "OPENQASM 3.0;", "OPENQASM 3", "OPENQASM", "1e", "0x", "0b1", "3ns", "2im",
         "1.5e+3dt", "include", "\"stdgates.inc\"", "qubit", "int[32]", "float", "gate", "def", "measure",
         "if", "else", "for", "in", "while", "switch", "case", "default", "return", "let", "const", "0xFF",
         "0o17", "1_000", ".5", "5.", "1e-3", "\"0101\"", "'01_1'", "\"ab", "/* c */", "/* /* n */", "// c\n",
         "@ann x\n", "$0", "$", "a_b", "π", "µs", "1µs", "inv @", "ctrl(2) @", "pow(2) @", "->", "++", "**",
         "<<=", ">>=", "==", "!=", "<=", ">=", "&&", "||", "+=", "-=", "*=", "/=", "::", "...", "..", "true",
         "false", "bit[4]", "complex[float[64]]", "array[int[8], 2]", "#pragma x y\n", "pragma z\n", "barrier",
         "reset", "delay[3ns]", "box", "end;", "break;", "continue;", "defcal", "cal", "extern", "input", "output",
         "duration", "stretch", "angle[8]", "bool", "uint", "creg c[2];", "qreg q[2];", "gphase(1)", "U(0,0,0)",
         "readonly", "mutable", "void", "negctrl @", "1e3dt", "0B11", "6dta", "$_", "1__0", "\"0__1\"", "\"0__1"]


# code points that text-handling code is tempted to special-case (byte order mark, line/paragraph separators,
# other Unicode white space, controls, non-characters, surrogates' neighbours, plane-16 end)
SPECIALS = ['\ufeff', '\u200b', '\u2028', '\u2029', '\u00a0', '\u0085', '\x0b', '\x0c', '\u200e', '\u200f',
            '\x7f', '\x00', '\x01', '\x1a', '\x1b', '\ufffd', '\ufffe', '\uffff', '\ud7ff', '\ue000', '\U00010000',
            '\U0010ffff', '\u3000', '\u1680', '\u2000', '\u202f', '\u205f', '\u00b5', '\u03bc', '\u2107', '\u03c0',
            '\u03c4', '\r', '\r\n', '\t', '`', '\\', '\u00e9', '\u0301', '\u20e3', '\ufe0f', '\u200d', '\U0001f600']
CONTEXTS = ["", "x", "OPENQASM 3.0;\nqubit q;\n", "1", "\"01", "\"ab\"", "// c", "/* c", "/* c */", "pragma p", "@a b",
            "1.5", "0x1", "$1", "3n", "a ", "\n", "include \"f\";", "int[8] a = 1;"]


def special_texts():
    """every special code point alone, at offset 0 of, at the end of, and inside every context"""
    out = []
    for sp in SPECIALS:
        for c in CONTEXTS:
            out += [sp + c, c + sp, c + sp + c]
            if len(c) > 2:
                out.append(c[:len(c) // 2] + sp + c[len(c) // 2:])
        for sp2 in SPECIALS[:12]:
            out.append(sp + sp2)
    return sorted(set(out))


HEXD = "0123456789abcdefABCDEF"


def escape_texts(rnd, n):
    """string / bitstring literals exercising oq3_lexer::unescape: every escape form with digit runs of
    every length 0..24 (scan_unicode's counters and accumulator), out-of-range values, bad digits,
    unterminated forms, line continuations"""
    out = []
    for k in range(0, 25):
        for d in ("0", "F", "7", "1"):
            out.append('"\\u{' + d * k + '}"')
            out.append('x = "a\\u{' + d * k + '}b";')
            out.append('"\\u{' + d * k)
            out.append('"\\u{' + d * k + '"')
            out.append('"\\x' + d * k + '"')
            out.append('"\\u{' + "_".join(d * k) + '}"')
    simple = ['\\n', '\\t', '\\r', '\\0', '\\\\', "\\'", '\\"', '\\q', '\\', '\\x7f', '\\x80', '\\xff', '\\x4', '\\xg0',
              '\\u', '\\u{', '\\u{}', '\\u{_1}', '\\u{d800}', '\\u{dfff}', '\\u{110000}', '\\u{10ffff}', '\\u{1f600}',
              '\\u{0041', '\\u{zz}', '\\u 41', '\\\n   x', '\\\r\n x', '\r', '\n', '\t', 'é', '😀', "'", '\0']
    for _ in range(n):
        k = rnd.randint(0, 6)
        body = "".join(rnd.choice(simple) if rnd.random() < 0.6 else
                       ("\\u{" + "".join(rnd.choice(HEXD + "_") for _ in range(rnd.randint(0, 12))) + rnd.choice(["}", "", "}}"]))
                       if rnd.random() < 0.5 else rnd.choice("ab01 _")
                       for _ in range(k))
        q = rnd.choice(['"', '"', "'"])
        lit = q + body + rnd.choice([q, q, q, ""])
        out.append(rnd.choice(["", "x = ", "include ", "bit[4] b = ", "pragma ", "@a "]) + lit + rnd.choice(["", ";", ";\n", "x"]))
    return out


def boundary_texts(ctx, C, bases, moduli=(64,), pad="x;\n"):
    """for each base text: cut it after each of its last few non-trivia tokens and pad it in front with whole
    statements so that the number of parser input tokens is exactly m-1, m, m+1 for each word size m
    (bitset word boundaries of `Input::joint`, chunked buffers)"""
    lines = [enc(t) for t in bases]
    lex = C.run_impl(ctx, "lex", lines, tag="boundary-lex")
    out = []
    for t, l in zip(bases, lex):
        if not l.startswith("raw="):
            continue
        f = dict(kv.split("=", 1) for kv in l.split(";") if "=" in kv)
        n = len([x for x in f.get("input", "").split(",") if x])
        for m in moduli:
            for target in (m - 1, m, m + 1, 2 * m):
                k = target - n
                while k < 0:
                    k += m
                # pad tokens: `x;` = 2 tokens, `x` alone cannot stand (would fuse) -> use `;` for odd remainders
                front = pad * (k // 2) + (";\n" if k % 2 else "")
                out.append(front + t)
    return out


def joint_alias_texts(quick=True):
    """the parser's jointness bits are stored in machine words: a bit read for token i must be the bit of token i,
    not of i +/- 8, 16, 32, 64, 128.  (1) every token glued to the next (all bits set) except ONE spaced pair of
    operator characters at position j — the pair must stay two tokens; (2) every token spaced except ONE glued pair —
    it must be one composite.  j sweeps more than two words."""
    pairs = [("=", "="), ("<", "="), (">", ">"), ("-", ">"), ("&", "&"), ("|", "|"), ("+", "="), ("<", "<"), ("*", "*"), ("!", "=")]
    out = []
    unit_glued, unit_spaced = "a[0];", "a [ 0 ] ; "
    step = 3 if quick else 1
    for k, (x, y) in enumerate(pairs if not quick else pairs[:6]):
        for j in range(0, 45 if quick else 60, step):
            pre, post = j, 30 - (j % 30) + 3
            out.append(unit_glued * pre + f"b{x} {y}1;" + unit_glued * post)
            out.append(unit_glued * pre + f"if(c{x} {y}1){{a[0];}}" + unit_glued * post)
            out.append(unit_spaced * pre + f"b {x}{y} 1 ; " + unit_spaced * post)
    return out


def nesting_texts(depths=(1, 2, 10, 63, 64, 65, 200)):
    """unclosed and closed nests of every bracketing construct up to the nesting bound of DESIGN §6 (200): the
    parser unwinds k levels at end of input without consuming a token"""
    out = []
    openers = [("(", ")"), ("[", "]"), ("{", "}"), ("x = (", ")"), ("x = a[", "]"), ("if (c) {", "}"), ("f(", ")"),
               ("while (c) {", "}"), ("for int i in [0:1] {", "}"), ("int[", "]"), ("-", ""), ("!", ""), ("x = -(", ")"),
               ("def f() {", "}"), ("gate g q {", "}"), ("switch (x) { case 1 {", "} }"), ("a + (", ")"), ("{ x = ", "; }")]
    for k in depths:
        for o, c in openers:
            out.append(o * k)
            out.append(o * k + "a" + c * k)
            out.append(o * k + "a" + c * k + ";")
            out.append(o * k + c * (k // 2))
    return out


def enc(s):
    return ".".join("%x" % ord(c) for c in s)


def dec(line):
    return "" if line == "" else "".join(chr(int(x, 16)) for x in line.split("."))


def exhaustive(maxlen, alphabet=ALPHA14):
    for n in range(0, maxlen + 1):
        for t in itertools.product(alphabet, repeat=n):
            yield "".join(t)


def random_texts(rnd, n, maxlen=30):
    out = []
    for _ in range(n):
        k = rnd.randint(0, maxlen)
        parts = []
        for _ in range(k):
            r = rnd.random()
            if r < 0.55:
                parts.append(rnd.choice(RICH))
            elif r < 0.9:
                parts.append(rnd.choice(WORDS))
                if rnd.random() < 0.5:
                    parts.append(rnd.choice([" ", "\n", "", "\t", "/**/", " // x\n"]))
            else:
                parts.append(rnd.choice(ALPHA14))
        out.append("".join(parts))
    return out


def uclass_table(ctx, texts, C):
    """Ask the implementation for the Unicode classes of every distinct character; write the
    table file for the model driver; also return it as a dict."""
    import os
    chars = sorted({c for t in texts for c in t} | {chr(i) for i in range(128)})
    lines = ["%x" % ord(c) for c in chars]
    out = C.run_impl(ctx, "uclass", lines, tag="uclass")
    path = os.path.join(ctx.work, "uclass.txt")
    with open(path, "w") as f:
        f.write("\n".join(out) + "\n")
    tab = {}
    for l in out:
        cp, fl = l.split()
        tab[int(cp, 16)] = fl
    return path, tab
