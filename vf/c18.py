"""C18 — includes act as in-place textual inclusion with ordered path search."""
import json, os, random, re
from . import common as C
from . import gen_text as G
from . import pipeline as PL

BASE = "/verif/work/inc"
NESTED_INC = re.compile(r"\{[^{}\n]*include ")     # an include inside braces: not spliced
# `e_stdgates.inc` ends with, and `stdgates.inc.f` starts with, the name of the virtual standard library: both are
# ordinary files; a real file called `stdgates.inc` in a search directory must never be read
NAMES = ["a.inc", "b.inc", "c.inc", "d.inc", "e_stdgates.inc", "stdgates.inc.f"]
DIRS = ["d1", "d2", "d3"]


def file_body(rnd, name, depth, allow_bad=True):
    """content of an include file: declares variables named after the file and its directory copy"""
    v = name[0] if name[0] != "s" else "t"
    tag = rnd.randint(1, 9)
    lines = [f"int {v}{tag} = {tag};"]
    r = rnd.random()
    if r < 0.15:
        lines.append(f"float {v}f = {v}{tag};")
    if r > 0.85:
        lines.append(f"bit {v}b = undeclared_{v};")       # a semantic error inside the file
    # nested include of a later file (acyclic)
    later = [n for n in NAMES if n > name]
    if later and depth < 3 and rnd.random() < 0.5:
        lines.insert(rnd.randint(0, len(lines)), f'include "{rnd.choice(later)}";')
    if allow_bad and rnd.random() < 0.08:
        lines.append("int = ;")                           # syntax error
    if allow_bad and rnd.random() < 0.04:
        lines.append('"unterminated')                     # lexer error
    return "\n".join(lines) + "\n", tag


def chain_case(rnd, idx):
    """a chain main -> f1 -> ... -> fk of real files where only SOME levels have semantic errors (in particular:
    clean intermediate files in front of an erroneous innermost one)"""
    cid = f"c{idx}"
    root = f"{BASE}/{cid}"
    k = rnd.randint(2, 4) if rnd.random() < 0.8 else rnd.choice([9, 11, 12, 17, 18, 24])     # also chains far deeper than any realistic guard
    names = [f"f{j}.inc" for j in range(1, k + 1)]
    bad = [rnd.random() < 0.35 for _ in range(k)]
    bad[-1] = True if rnd.random() < 0.7 else bad[-1]
    files = {}
    for j, n in enumerate(names):
        body = [f"int v{j} = {j};"]
        if j + 1 < k:
            body.insert(rnd.randint(0, 1), f'include "{names[j + 1]}";')
        if bad[j]:
            body.append(rnd.choice([f"int w{j} = undeclared_{j};", f"float c{j} = 2.1; int d{j} = c{j};", f"int v{j} = 9;"]))
        files[f"d1/{n}"] = "\n".join(body) + "\n"
    main = "int m0 = 0;\n" + f'include "{names[0]}";\n' + rnd.choice(["", "int m1 = nope;\n", "int m1 = v0;\n"])
    return {"id": cid, "files": files, "main": main, "search": ["d1"], "env": None, "root": root}


def clean_case(rnd, idx):
    """an arrangement in which every include resolves to a readable, syntactically clean file (so that the include
    run and the spliced run are always comparable): 1-4 files in one search directory, some under `lib/`, names that
    collide by suffix or look like the standard library, nested includes, annotations and pragmas in front of includes,
    the same file included twice"""
    cid = f"c{idx}"
    root = f"{BASE}/{cid}"
    pool = ["a.inc", "b.inc", "lib/a.inc", "lib/stdgates.inc", "e_stdgates.inc", "c.inc"]
    names = rnd.sample(pool, rnd.randint(1, 4))
    files = {}
    for j, n in enumerate(names):
        v = "v%d" % j
        body = [f"int {v} = {j};", rnd.choice([f"qubit q{j};", f"gate g{j} a {{ }}", f"float {v}f = {v};", f"bit {v}b = undeclared_{j};"])]
        later = names[j + 1:]
        if later and rnd.random() < 0.4:
            body.insert(rnd.randint(0, 2), f'include "{rnd.choice(later)}";')
        if rnd.random() < 0.2:
            body.insert(0, f"@infile {j}")
        files[f"d1/{n}"] = "\n".join(body) + "\n"
    main = ["int m0 = 0;"]
    for _ in range(rnd.randint(1, 4)):
        r = rnd.random()
        if r < 0.25:
            main.append(f"@note {rnd.randint(1, 9)}")
        elif r < 0.35:
            main.append(f"pragma p{rnd.randint(1, 9)}")
        n = rnd.choice(names)
        main.append(rnd.choice([f'include "{n}";', f'include "{n}";', 'include "stdgates.inc";', f'include "{root}/d1/{n}";']))
        if rnd.random() < 0.6:
            main.append(f"int m{len(main)} = {len(main)};")
    return {"id": cid, "files": files, "main": "\n".join(main) + "\n", "search": ["d1"], "env": None, "root": root}


def gen_case(rnd, idx):
    r0 = rnd.random()
    if r0 < 0.12:
        return chain_case(rnd, idx)
    if r0 < 0.37:
        return clean_case(rnd, idx)
    cid = f"c{idx}"
    root = f"{BASE}/{cid}"
    files = {}
    pool = NAMES[: rnd.randint(1, 4)] + [n for n in NAMES[4:] if rnd.random() < 0.25]
    if rnd.random() < 0.1:
        files[f"{rnd.choice(DIRS)}/stdgates.inc"] = "int sg_real_file = 1;\n"
    for n in pool:
        for d in DIRS[: rnd.randint(1, 3)]:
            if rnd.random() < 0.45:
                if rnd.random() < 0.05:
                    files[f"{d}/{n}"] = None              # a directory in place of the file
                else:
                    files[f"{d}/{n}"] = file_body(rnd, n, 1)[0]
    if rnd.random() < 0.3:
        files[NAMES[0]] = file_body(rnd, NAMES[0], 1)[0]  # also in the working directory
    def dirlist():
        ds = DIRS[:]
        rnd.shuffle(ds)
        ds = ds[: rnd.randint(0, 3)]
        return [d if rnd.random() < 0.7 else f"{root}/{d}" for d in ds]
    search = dirlist() if rnd.random() < 0.6 else None
    env = dirlist() if rnd.random() < 0.6 else None
    main = ["int m0 = 0;"]
    if rnd.random() < 0.12:
        # two files whose names collide by suffix, included one after the other (also the same file twice)
        d = rnd.choice(DIRS)
        files[f"{d}/lib/a.inc"] = "int lib_a = 1;\n"
        files[f"{d}/a.inc"] = "int top_a = 2;\n"
        if search is None or d not in search:
            search = [d] + (search or [])
        main += rnd.choice([['include "lib/a.inc";', 'include "a.inc";'], ['include "a.inc";', 'include "lib/a.inc";'],
                            ['include "lib/a.inc";', 'include "lib/a.inc";']])
    for _ in range(rnd.randint(1, 3)):
        r = rnd.random()
        n = rnd.choice(NAMES)
        if rnd.random() < 0.15:
            main.append(f"@note {rnd.randint(1, 9)}")          # an annotation pending when the next statement is an include
        if r < 0.55:
            main.append(f'include "{n}";')
        elif r < 0.7:
            main.append(f'include "{root}/{rnd.choice(DIRS)}/{n}";')
        elif r < 0.8:
            main.append('include "stdgates.inc";')
        elif r < 0.9:
            # below global scope, in every scope kind (diagnosed, never followed, never a panic)
            inc = f'include "{n}";'
            main.append(rnd.choice([
                f'if (true) {{ {inc} }}', f'if (true) {{ }} else {{ {inc} }}', f'while (false) {{ {inc} }}',
                f'for int k9 in [0:1] {{ {inc} }}', f'switch (m0) {{ case 1 {{ {inc} }} }}',
                f'switch (m0) {{ case 1 {{ }} default {{ {inc} }} }}', f'def f9() {{ {inc} }}',
                f'if (true) {{ if (true) {{ {inc} }} }}', f'switch (m0) {{ default {{ int z9 = 1; {inc} }} }}']))
        else:
            main.append('include "nowhere.inc";')
        main.append(f"int m{len(main)} = {len(main)};")
    if rnd.random() < 0.15:
        # a directory whose name is NOT valid UTF-8 (`@FF@` = the raw byte 0xFF, realised by the harness): paths are
        # byte strings on Unix, and one such entry in a search list or in QASM3_PATH must neither be skipped nor
        # disable the other entries.  The main text keeps the old name (it must stay UTF-8), so only list-driven
        # resolution reaches the directory.
        if rnd.random() < 0.7:
            d = rnd.choice(DIRS)
            nd = rnd.choice([d + "@FF@", "@FF@" + d, d[0] + "@FF@" + d[1:]])
            files = {(nd + k[len(d):] if k.startswith(d + "/") else k): v for k, v in files.items()}
            ren = lambda l: None if l is None else [nd if x == d else (f"{root}/{nd}" if x == f"{root}/{d}" else x) for x in l]
            search, env = ren(search), ren(env)
            if not any(nd in x for x in (search or []) + (env or [])):
                if search is None:
                    env = [nd] + (env or [])
                else:
                    search = [nd] + search
        else:
            # an entry that names no directory at all, somewhere in the list that is consulted
            lst = search if search is not None else env
            if lst is None:
                env = lst = [rnd.choice(DIRS)]
            lst.insert(rnd.randint(0, len(lst)), rnd.choice(["nx@FF@", f"{root}/@FF@", "@FF@@FF@"]))
    return {"id": cid, "files": files, "main": "\n".join(main) + "\n", "search": search, "env": env, "root": root}


def file_entry(rnd, c):
    """a quarter of the arrangements are analysed through the FILE entry point: the main text is a file (listed in
    `files` like the others) whose path is given absolutely, or relatively and found through the search / environment
    list or in the working directory"""
    if rnd.random() >= 0.25:
        return c
    lst = c["search"] if c["search"] is not None else c["env"]
    root = c["root"]
    if lst and rnd.random() < 0.7:
        d = rnd.choice(lst)
        rel = d[len(root) + 1:] if d.startswith(root + "/") else d
        mainfile = rel.rstrip("/") + "/main.qasm"
        # relative name: resolved through the list (no other main.qasm exists, so the first hit is this one)
        mainarg = "main.qasm" if rnd.random() < 0.6 else "@ROOT@/" + mainfile
    else:
        mainfile = "main.qasm"
        mainarg = "main.qasm" if rnd.random() < 0.5 else "@ROOT@/main.qasm"
    c["files"][mainfile] = c["main"]
    c.update({"entry": "file", "mainfile": mainfile, "mainarg": mainarg})
    return c


def expected_resolution(case, path):
    """the specification of resolve_file_path over the arrangement"""
    root = case["root"]
    def is_file(p):
        rel = p[len(root) + 1:] if p.startswith(root + "/") else (None if p.startswith("/") else p)
        return rel is not None and case["files"].get(rel) is not None
    def join(d, f):
        return f if f.startswith("/") else (d.rstrip("/") + "/" + f if d else f)
    if path.startswith("/"):
        return path
    lst = case["search"] if case["search"] is not None else case["env"]
    if lst is not None:
        for d in lst:
            if is_file(join(d, path)):
                return join(d, path)
    return path


def canon_path(p, case):
    root = case["root"]
    if p.startswith(root):
        return "@ROOT@" + p[len(root):]
    if not p.startswith("/") and not p.startswith("@ROOT@") and case["files"].get(p) is not None:
        return "@ROOT@/" + p
    return p


def canon_line(line, case):
    root = case["root"]
    line = line.replace(root, "@ROOT@")
    # relative resolved paths of existing files are canonicalised by SourceFile::new
    def fix(m):
        return "(" + canon_path(m.group(1), case) + " "
    return re.sub(r"\((?!no file)([^()\[\] ]+) (?=ast=|\[)", fix, line)


def splice(case, text, depth=0):
    """textual inclusion: replace every top-level `include "x";` by the text of the file it resolves to"""
    out = []
    for ln in text.split("\n"):
        m = re.fullmatch(r'include "([^"]+)";', ln.strip())
        if m and m.group(1) != "stdgates.inc" and depth < 60:
            p = expected_resolution(case, m.group(1))
            root = case["root"]
            rel = p[len(root) + 1:] if p.startswith(root + "/") else p
            body = case["files"].get(rel)
            if body is None:
                return None
            sub = splice(case, body, depth + 1)
            if sub is None:
                return None
            out.append(sub)
        else:
            out.append(ln)
    return "\n".join(out)


def check(ctx):
    C.extract(ctx)
    C.prove(ctx, ["Oq3.Props.C18", "Oq3.Props.C18Frame", "Oq3.Props.C18Mono", "Oq3.Props.C18Equiv", "Oq3.Props.C18Conv", "Oq3.Props.C18MonoErr", "Oq3.Props.C18Panic", "Oq3.Props.C18Entry"])
    okb, log = C.cargo_build()
    if not okb:
        C.violation(ctx, "harness-build-failed", {"log": log[-3000:]}, no_input=True)
        return C.finish(ctx, trusted=C.TRUSTED_COMMON)
    os.makedirs(BASE, exist_ok=True)
    rnd = random.Random(ctx.seed)
    n = 1500 if ctx.tier == "quick" else 25000
    cases = [file_entry(rnd, gen_case(rnd, i)) for i in range(n)]
    impl = C.run_impl(ctx, "include", [json.dumps({k: v for k, v in c.items() if k != "root"} | {"main": c["main"]}) for c in cases], tag="inc")
    # the syntax layers' view of every text, for the model
    texts = []
    for c in cases:
        texts.append(c["main"])
        for p, body in c["files"].items():
            if body is not None:
                texts.append(body)
    uniq = sorted(set(texts))
    scan = dict(zip(uniq, C.run_impl(ctx, "incscan", [G.enc(t) for t in uniq], tag="scan")))
    mlines = []
    for c in cases:
        fs = [f"main={scan[c['main']]}"]
        for p, body in c["files"].items():
            r = "DIR" if body is None else scan[body]
            for key in (p, c["root"] + "/" + p):
                fs.append(f"file=x{G.enc(key)}={r}")
        for k in ("search", "env"):
            fs.append(f"{k}=" + ("-" if c[k] is None else ",".join("x" + G.enc(d) for d in c[k])))
        if c.get("entry") == "file":
            fs.append("entry=file")
            fs.append("mainpath=x" + G.enc(c["mainarg"].replace("@ROOT@", c["root"])))
        mlines.append("\t".join(fs))
    have_model = ctx.lake_ok
    model = C.run_model(ctx, "include", mlines, tag="minc") if have_model else [None] * len(cases)
    # metamorphic oracle: textual inclusion
    spliced, idxs = [], []
    for i, c in enumerate(cases):
        if NESTED_INC.search(c["main"]):
            continue
        s = splice(c, c["main"])
        if s is not None:
            spliced.append(s); idxs.append(i)
    sp = C.run_impl(ctx, "sema", [G.enc(s) for s in spliced], tag="spl")
    spmap = dict(zip(idxs, zip(spliced, sp)))
    failures, ndis, nontriv, kinds = [], 0, 0, {}
    for i, c in enumerate(cases):
        a = impl[i]
        b = model[i]
        xf = a.split(";xflags=", 1)[1] if ";xflags=" in a else ""
        a = a.split(";xmain=", 1)[0]                  # xmain / xeq (tree facts of the real files) are outside the include model
        a_noflags = a.split(";xflags=", 1)[0]
        if have_model:
            pa, pb = PL.canon_panic(a), PL.canon_panic(b)
            ca, cb = canon_line(a, c), canon_line(b, c)
            same = (pa == pb) if (pa or pb) else (ca == cb)
            if not same:
                ndis += 1
                if len(ctx.corr_disagreements) < 20:
                    ctx.corr_disagreements.append({"layer": "I7 include", "case": json.dumps(c)[:600], "impl": ca[:500], "model": cb[:500]})
        agree = (not have_model) or same
        if PL.canon_panic(a):
            failures.append({"case": json.dumps(c), "check": "no_panic", "detail": {"impl": a[:300]}, "guards": {"site:" + str(PL.canon_panic(a))},
                             "model_agrees": agree, "replay_how": "echo '<case json>' | /verif/harness/target/debug/oq3-run include"})
            continue
        # resolution order, at every level of the include tree: the sources parsed for a file are, in order, the
        # specified resolutions of that file's own top-level non-stdgates includes
        inc = a.split(";inc=[", 1)[1].split("];semtree=", 1)[0] if ";inc=[" in a else ""

        def parse_inc(txt):
            pos = 0

            def nodes():
                nonlocal pos
                out = []
                while pos < len(txt):
                    if txt[pos] == " ":
                        pos += 1
                    elif txt[pos] == "(":
                        j = txt.index(" ast=", pos)
                        path = txt[pos + 1:j]
                        has_ast = txt[j + 5] == "1"
                        k = txt.index("[", j)
                        pos = k + 1
                        kids = nodes()
                        assert txt[pos] == "]"
                        pos += 1
                        assert txt[pos] == ")"
                        pos += 1
                        out.append((path, kids if has_ast else None))
                    else:
                        break
                return out
            return nodes()

        def text_of(path):
            root = c["root"]
            rel = path[len("@ROOT@/"):] if path.startswith("@ROOT@/") else (path[len(root) + 1:] if path.startswith(root + "/") else path)
            return c["files"].get(rel)

        def check_level(text, kids, where):
            tops = re.findall(r'^include "([^"]+)";', text, flags=re.M)
            want = [canon_path(expected_resolution(c, p), c) for p in tops if p != "stdgates.inc"]
            got = [canon_path(p, c) for p, _ in kids]
            if got != want:
                failures.append({"case": json.dumps(c), "check": "resolve_order",
                                 "detail": {"in_file": where, "expected": want, "got": got, "search": c["search"], "env": c["env"]},
                                 "guards": set(), "model_agrees": agree, "replay_how": "oq3-run include"})
                return
            for p, sub in kids:
                t = text_of(canon_path(p, c))
                # a file without a tree (unreadable, or lexical errors: `LEX n` in the scan) has no includes of its own
                if t is not None and sub is not None and not scan.get(t, "").startswith("LEX"):
                    check_level(t, sub, canon_path(p, c))
        try:
            check_level(c["main"], parse_inc(inc), "main")
        except (ValueError, AssertionError, IndexError):
            ctx.notes.append("could not parse inc= field: " + inc[:120])
        # textual inclusion equivalence
        if i in spmap and a.startswith("asg="):
            stext, sline = spmap[i]
            fa, fs_ = PL.fields(a), (PL.fields(sline) if sline.startswith("asg=") else None)
            if fs_ is None:
                if not sline.startswith("SYNTAX-ERRORS"):
                    failures.append({"case": json.dumps(c), "check": "inclusion_equiv", "detail": {"spliced": stext, "spliced_result": sline[:200]},
                                     "guards": set(), "model_agrees": agree})
            else:
                ek = lambda f: sorted(x.split("@")[0] for x in f.get("errors", "").split(",") if x)
                tree_errs = sorted(re.findall(r"([A-Za-z]+)@\d+-\d+", a.split(";semtree=", 1)[1]))
                if fa["asg"] != fs_["asg"] or fa["symbols"] != fs_["symbols"] or fa["gates"] != fs_["gates"] or tree_errs != ek(fs_):
                    failures.append({"case": json.dumps(c), "check": "inclusion_equiv",
                                     "detail": {"spliced": stext, "with_includes": a[:300], "spliced_result": sline[:300]},
                                     "guards": set(), "model_agrees": agree})
                else:
                    nontriv += 1
        # the summary accessors agree with the diagnostics that are stored (at any depth of the include tree)
        if xf and a.startswith("asg="):
            fl = dict(kv.split(":") for kv in xf.split(";", 1)[0].split(","))
            has = "1" if re.search(r"[A-Za-z]+@\d+-\d+", a.split(";semtree=", 1)[1]) else "0"
            if (fl.get("syn"), fl.get("sem"), fl.get("any")) != ("0", has, has):
                failures.append({"case": json.dumps(c), "check": "error_accessors",
                                 "detail": {"flags": fl, "semantic_diagnostics_present": has, "semtree": a.split(";semtree=", 1)[1][:300]},
                                 "guards": set(), "model_agrees": agree, "replay_how": "oq3-run include (fields semtree= and xflags=)"})
        for k in re.findall(r"(FileNotFound|IOError|PermissionDenied|IncludeNotInGlobalScopeError)@", a):
            kinds[k] = kinds.get(k, 0) + 1
    # recorded witnesses that cannot run in-process with the others
    findings = C.load_findings("C18")
    for kf in findings:
        w = kf.get("witness", {})
        if w.get("layer") == "include-case":
            out = C.run_impl(ctx, "include", [json.dumps(w["input"])], tag="kf")[0]
            if PL.canon_panic(out):
                C.known(ctx, kf["id"], kf["what"])
            else:
                ctx.notes.append(f"finding {kf['id']} is stale: witness no longer crashes ({out[:80]})")
    # generated programs (every statement arm, faults) distributed over include arrangements, against the spliced text
    from . import incwrap as IW
    from . import gen_prog as GP
    IW.through_entry_points(ctx, "C18", GP.gen_programs(ctx.seed + 18, 1500 if ctx.tier == "quick" else 20000), failures, n_quick=1500, n_thorough=20000)
    failures.sort(key=lambda f: len(f["case"]))
    C.decide(ctx, failures, findings)
    ctx.coverage.update({
        "evaluations": len(cases), "distinct_nontrivial": nontriv,
        "rule": "random arrangements of 1-4 include files over 1-3 search directories (present in none/one/several, also in the working directory, a directory in place of a file, syntax/lexer errors inside files, nested includes up to depth 3), relative and absolute include paths, stdgates.inc, includes below global scope and of missing files, with and without a search list and with and without QASM3_PATH, realised in a scratch directory; non-trivial = analysis with includes equals analysis of the textually spliced program (graph, symbols, gate table, diagnostic kinds)",
        "traces_validated_against_impl": len(cases) if have_model else 0,
        "correspondence_disagreements": ndis, "io_diagnostics_seen": kinds, "spliced_comparisons": len(spmap),
        "samples": [{"main": cases[0]["main"], "files": list(cases[0]["files"]), "search": cases[0]["search"], "env": cases[0]["env"]}],
    })
    return C.finish(ctx, trusted=C.TRUSTED_COMMON + [
        "file system, environment variable and the syntax layers are parameters of the include model (abstract FS, search lists, text -> parsed form supplied by the real syntax layers via `oq3-run incscan`)",
        "std::fs / Path::join / canonicalize semantics as modelled in Oq3/Model/Includes.lean"],
        assumptions=["include graphs are acyclic in generated cases (a self-including file is known finding F21)"])
