"""C12 — diagnostics carry valid spans; a diagnostic-free tree has no error nodes."""
from . import c02


def check(ctx):
    return c02.run_check(ctx, "C12", ["Oq3.Props.C12", "Oq3.Props.C12Sema", "Oq3.Props.C12NoSilent", "Oq3.Props.C12Escape"], c02.C12_MARKS,
                         "oracle on the real diagnostics: every lexical/syntactic range has start <= end <= len on character boundaries; a tree with an ERROR node or token has at least one diagnostic", "§7 C12")
