"""Generic check for the properties of the semantic layer (C03, C06-C10, C13).

1. proof obligations: `lake build` of the property's theorem modules + axiom audit
2. correspondence: impl `ast` -> Lean `driver sema` vs impl `sema` on generated programs (vf/semapipe.py)
3. oracle: an independent Python oracle (vf/oracle_sema_*.py) applied to the IMPLEMENTATION's output;
   each failure is attributed to a recorded finding only if (a) the finding lists that check name,
   (b) the finding's guard predicate holds on the case and (c) the Lean model shows the same behaviour
"""
import inspect, random
from . import common as C
from . import gen_text as G
from . import gen_prog as GP
from . import semapipe as SP


def default_programs(ctx, extra=()):
    q = ctx.tier == "quick"
    progs = [G.dec(l) for l in C.load_corpus("sema")]
    progs += list(extra)
    progs += GP.gen_programs(ctx.seed, 5000 if q else 80000)
    return progs


def _call_guard(fn, src, ast, sema, failure):
    try:
        n = len(inspect.signature(fn).parameters)
        args = (src, ast, sema, failure)[:n]
        return bool(fn(*args))
    except Exception:
        return False


def run(ctx, pid, prop_mods, oracles, progs, rule, trusted=(), assumptions=(), post=None, level="proof"):
    C.extract(ctx)
    C.prove(ctx, prop_mods)
    okb, log = C.cargo_build()
    if not okb:
        C.violation(ctx, "harness-build-failed", {"log": log[-3000:]}, no_input=True)
        return C.finish(ctx, trusted=C.TRUSTED_COMMON)
    progs = C.uniq(progs)
    ctx.log(f"{len(progs)} programs")
    recs, stats = SP.run(ctx, progs, tag=pid.lower())
    failures, nontriv, nchecked = [], 0, 0
    per_check = {}
    for r in recs:
        if r["ast"].startswith("SYNTAX") or r["ast"].startswith("PANIC") or r["ast"].startswith("CRASH"):
            continue
        nchecked += 1
        clean = True
        for orc in oracles:
            try:
                out = orc.check(r["text"], r["ast"], r["impl"])
            except Exception as e:
                out = [("ORACLE", "oracle_raised", repr(e)[:200])]
            for item in out:
                p, chk, detail = item[0], item[1], item[2]
                if p not in (pid, "ORACLE"):
                    continue
                clean = False
                guards = {g for g, fn in getattr(orc, "GUARDS", {}).items() if _call_guard(fn, r["text"], r["ast"], r["impl"], item)}
                per_check[chk] = per_check.get(chk, 0) + 1
                failures.append({"case": G.enc(r["text"]), "check": chk,
                                 "detail": {"text": r["text"], "what": str(detail)[:400], "impl": r["impl"][:300]},
                                 "guards": guards, "model_agrees": r["agree"] is not False,
                                 "replay_how": "echo '<input>' | /verif/harness/target/debug/oq3-run sema   (and `ast`); oracle: vf/%s.py" % orc.__name__.split(".")[-1]})
        if clean and r["impl"].startswith("asg="):
            nontriv += 1
    if post:
        post(ctx, recs, failures)
    failures.sort(key=lambda f: len(f["case"]))
    C.decide(ctx, failures, C.load_findings(pid))
    ctx.coverage.update({
        "evaluations": len(progs), "distinct_nontrivial": nontriv,
        "rule": rule, "programs_analysed": nchecked, "sema_correspondence": dict(stats),
        "traces_validated_against_impl": sum(v for k, v in stats.items() if "agree" in k),
        "correspondence_disagreements": stats.get("disagree", 0) + stats.get("panic-disagree", 0),
        "oracle_failures_by_check": per_check,
        "samples": [{"text": recs[i]["text"][:160], "impl": recs[i]["impl"][:200]} for i in (3, len(recs) - 2) if 0 <= i < len(recs)],
    })
    return C.finish(ctx, level=level, trusted=C.TRUSTED_COMMON + [
        "the semantic pass (syntax_to_semantics.rs, context.rs, symbols.rs, types.rs, the asg constructors used) is hand-modelled in Lean (Oq3/Model/Sema*.lean) over the I5 typed-AST dump; the typed-AST accessors themselves (oq3_syntax::ast) are run, not modelled: the model is fed the implementation's own dump",
        "independent Python oracle (vf/oracle_sema_*.py) re-derives the expected result from the property text"] + list(trusted),
        assumptions=list(assumptions))
