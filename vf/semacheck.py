"""Generic check for the properties of the semantic layer (C03, C06-C10, C13).

1. proof obligations: `lake build` of the property's theorem modules + axiom audit
2. correspondence: impl `ast` -> Lean `driver sema` vs impl `sema` on generated programs (vf/semapipe.py)
3. oracle: an independent Python oracle (vf/oracle_sema_*.py) applied to the IMPLEMENTATION's output;
   each failure is attributed to a recorded finding only if (a) the finding lists that check name,
   (b) the finding's guard predicate holds on the case and (c) the Lean model shows the same behaviour
"""
import inspect, random
from . import common as C
from . import gen_text as G
from . import gen_prog as GP
from . import semapipe as SP


DEGENERATE = [
    # every construct in its emptiest / most minimal accepted spelling (empty text after a keyword, empty lists,
    # empty bodies, width 0/1, units and suffixes glued to every numeric spelling)
    "pragma\n", "#pragma\n", "pragma \n", "pragma x\n", "#pragma x\n", "@a\nqubit q;\n", "@a \nqubit q;\n", "@a b\nqubit q;\n",
    "qubit q; barrier q;", "qubit q; reset q;", "qubit q; measure q;", "gate g q { }", "gate g(a) q { }", "def f() { }", "def f() -> int { return 1; }",
    "{ }", "if (true) { }", "if (true) { } else { }", "while (false) { }", "for int i in [0:0] { }", "for int i in {1} { }",
    "switch (1) { case 1 { } }", "switch (1) { default { } }", "switch (1) { case 1, 2 { } default { } }",
    "bit[1] b;", "qubit[1] q;", "int[1] x;", "uint[1] u;", "float[32] f;", "angle[1] a;", "complex[float[32]] c;", "array[int[8], 1] a;",
    "qubit q; U(0, 0, 0) q;", "qubit q; gphase(0);", "qubit q; ctrl @ U(0,0,0) q, q;", "qubit $0;", "qubit q; delay[0ns] q;",
    "end;", "break;", "continue;", ";", "let a = b;", "input int i;", "output bit o;", "const int n = 0;", "bit b = \"\";", "bit b = \"0\";",
    "duration d = .5ns;", "duration d = 5.ns;", "duration d = 1e3ns;", "duration d = .5e1us;", "duration d = 0dt;", "duration d = 1.5e-3 ms;",
    "complex z = .25im;", "complex z = 5.im;", "complex z = 1e2im;", "complex z = 0im;", "float f = .5;", "float f = 5.;", "float f = 0e0;",
    "float f = 1_0.0_1;", "int x = 0_0;", "int x = 0b0;", "int x = 0B1;", "int x = 0o0;", "int x = 0x0;", "int x = 0XfF;", "bit[2] b = '01';",
    "bit[4] b = \"0_1_0_1\";", "duration d = 10µs;", "duration d = 10 µs;", "qubit q; delay[2µs] q;", "stretch s;", "bool b = true;", "bool b = false;",
    "include \"stdgates.inc\";", "include \"stdgates.inc\";\ninclude \"stdgates.inc\";", "OPENQASM 3;\nqubit q;", "OPENQASM 3.0;\nqubit q;",
    # a name inside its own declaration, and the declared name used right afterwards in every position
    "int x = x;", "uint[8] y = y;", "const int n = n;", "const int n = n;\nint[n] x;", "const int n = 4;\nint[n] x;\nbit[n] b;\nqubit[n] q;",
    "float x = 2.5;\nif (true) { int x = x; }", "const int n = 8;\nif (true) { const int n = 4; if (true) { int[n] x; } }",
    "int a = 1;\nif (true) { int a = 2; a = 3; }\na = 4;", "if (true) { int b = 2; b = 3; }\nb = 4;", "a = 1;\na = 2;\nint a = 3;\na = 4;",
    "int a = 1;\nif (true) { a = 2; } else int a = 3;\na = 4;", "qubit q;\nwhile (false) gate g a { U(0, 0, 0) a; }\ng q;",
    "int i = 3;\nfor int i in [0:i] { i; }", "for int j in {j, 1} { j; }", "def f(int a, qubit q) -> int { int a = 1; return a; }",
    "gate g(t) p { int t = 2; }", "const int w = 8;\ndef f(int w) -> int[w] { return w; }", "gate x a { }\ngate mine(t) a, b { }\ninclude \"stdgates.inc\";\nqubit q;\nh q;",
    "creg c[1];", "qreg q[1];", "creg c;", "qreg q;", "extern f(int) -> int;", "defcal g q { }", "cal { }", "box { }", "defcalgrammar \"openpulse\";",
]


def default_programs(ctx, extra=()):
    q = ctx.tier == "quick"
    progs = [G.dec(l) for l in C.load_corpus("sema")]
    progs += DEGENERATE + [a + "\n" + b for a in DEGENERATE[:20] for b in DEGENERATE[:20]]
    progs += list(extra)
    from . import gen_scale as GS
    progs += GS.scale_programs(q)          # depth, repetition, name coincidences, directive bodies (vf/gen_scale.py)
    progs += GP.gen_programs(ctx.seed, 5000 if q else 80000)
    return progs


def _call_guard(fn, src, ast, sema, failure):
    try:
        n = len(inspect.signature(fn).parameters)
        args = (src, ast, sema, failure)[:n]
        return bool(fn(*args))
    except Exception:
        return False


def run(ctx, pid, prop_mods, oracles, progs, rule, trusted=(), assumptions=(), post=None, level="proof"):
    C.extract(ctx)
    C.prove(ctx, prop_mods)
    okb, log = C.cargo_build()
    if not okb:
        C.violation(ctx, "harness-build-failed", {"log": log[-3000:]}, no_input=True)
        return C.finish(ctx, trusted=C.TRUSTED_COMMON)
    progs = C.uniq(progs)
    ctx.log(f"{len(progs)} programs")
    recs, stats = SP.run(ctx, progs, tag=pid.lower())
    failures, nontriv, nchecked = [], 0, 0
    per_check = {}
    for r in recs:
        if r["ast"].startswith(("SYNTAX", "PANIC", "CRASH", "HANG")):
            continue
        nchecked += 1
        clean = True
        for orc in oracles:
            try:
                out = orc.check(r["text"], r["ast"], r["impl"])
            except Exception as e:
                out = [("ORACLE", "oracle_raised", repr(e)[:200])]
            for item in out:
                p, chk, detail = item[0], item[1], item[2]
                if p not in (pid, "ORACLE"):
                    continue
                clean = False
                guards = {g for g, fn in getattr(orc, "GUARDS", {}).items() if _call_guard(fn, r["text"], r["ast"], r["impl"], item)}
                per_check[chk] = per_check.get(chk, 0) + 1
                failures.append({"case": G.enc(r["text"]), "check": chk,
                                 "detail": {"text": r["text"], "what": str(detail)[:400], "impl": r["impl"][:300]},
                                 "guards": guards, "model_agrees": r["agree"] is True,   # not run / BAD-AST counts as NOT agreeing
                                 "replay_how": "echo '<input>' | /verif/harness/target/debug/oq3-run sema   (and `ast`); oracle: vf/%s.py" % orc.__name__.split(".")[-1]})
        if clean and r["impl"].startswith("asg="):
            nontriv += 1
    if post:
        post(ctx, recs, failures)
    # the same programs through every entry point and distributed over real include files (vf/incwrap.py)
    from . import incwrap as IW
    IW.through_entry_points(ctx, pid, [r["text"] for r in recs if not r["ast"].startswith(("PANIC", "CRASH", "HANG"))], failures)
    # A finding may originate BELOW the typed AST (a lexer or parser defect, e.g. a suffix glued to a literal): the
    # I5->I6 correspondence above feeds the model the implementation's own AST and cannot see whether the layers below
    # still behave as recorded.  Every failure that is a candidate for attribution is therefore also run through the
    # whole pipeline INSIDE the model (text -> lexer -> parser -> tree -> accessors -> pass); attribution requires that
    # this agrees with the implementation too.
    if ctx.lake_ok and failures:
        cand = sorted({f["detail"]["text"] for f in failures if f.get("guards") and "text" in f.get("detail", {})})
        verdict = dict(zip(cand, SP.chain_agree(ctx, cand, tag=pid.lower() + "-attr")))
        nbad = 0
        for f in failures:
            t = f.get("detail", {}).get("text")
            if t in verdict and verdict[t] is False:
                f["model_agrees"] = False
                nbad += 1
        ctx.coverage["attribution_candidates_through_whole_model"] = {"texts": len(cand), "disagree": nbad}
    failures.sort(key=lambda f: len(f["case"]))
    C.decide(ctx, failures, C.load_findings(pid))
    ctx.coverage.update({
        "evaluations": len(progs), "distinct_nontrivial": nontriv,
        "rule": rule, "programs_analysed": nchecked, "sema_correspondence": dict(stats),
        "traces_validated_against_impl": sum(v for k, v in stats.items() if "agree" in k),
        "correspondence_disagreements": stats.get("disagree", 0) + stats.get("panic-disagree", 0),
        "oracle_failures_by_check": per_check,
        "samples": [{"text": recs[i]["text"][:160], "impl": recs[i]["impl"][:200]} for i in (3, len(recs) - 2) if 0 <= i < len(recs)],
    })
    return C.finish(ctx, level=level, trusted=C.TRUSTED_COMMON + [
        "the semantic pass (syntax_to_semantics.rs, context.rs, symbols.rs, types.rs, the asg constructors used) is hand-modelled in Lean (Oq3/Model/Sema*.lean) over the I5 typed-AST dump; the typed-AST accessors themselves (oq3_syntax::ast) are run, not modelled: the model is fed the implementation's own dump",
        "independent Python oracle (vf/oracle_sema_*.py) re-derives the expected result from the property text"] + list(trusted),
        assumptions=list(assumptions))
