"""Every program-level property through every public entry point and through real include files.

The properties quantify over "every analysed program"; a program reaches the analyser through
`parse_source_string*` or `parse_source_file*`, and its statements may sit in (nested) included files found through a
search list, the QASM3_PATH list or the working directory.  C18Equiv/C18Conv prove for the model that analysing a
program with includes IS analysing the spliced text, so each property's own program stream is re-run here distributed
over an arrangement of real files and compared with the analysis of the spliced text that the property's oracle has
already examined:

  * the program P sits 0-3 include levels below the main text, behind intermediate files that have no diagnostic of
    their own (so nested diagnostic lists, nested syntax-error flags, the per-file iterator of parsed includes);
  * other includes precede it: a real file whose name merely ends in / contains `stdgates.inc`, a file that ends
    with an annotation line (pending annotation crosses the file boundary);
  * the search list has two directories; decoys with the same name sit where the specified resolution must NOT look
    (a later directory, a directory-instead-of-file in an earlier one, the working directory when a listed directory
    has the file); the list is given explicitly, through QASM3_PATH, relative or absolute;
  * the main text is analysed as a string or written to a file and analysed through the file entry point (path
    absolute, or relative and found through the search list); optionally with CRLF line ends or a leading U+FEFF.

Compared: graph, symbol table, gate listing, multiset of diagnostic kinds over the whole include tree, the
any_syntax_errors / any_semantic_errors / any_errors accessors; optionally (`lossless`) that every parsed file's tree
spells that file's bytes.
"""
import json, random, re
from . import common as C
from . import gen_text as G
from . import pipeline as PL
from . import c18


def arrange(rnd, idx, P):
    cid = f"w{idx}"
    root = f"{c18.BASE}/{cid}"
    files = {}
    crlf = rnd.random() < 0.08
    bom = rnd.random() < 0.04
    pdir, odir = ("s2", "s1") if rnd.random() < 0.6 else ("s1", "s2")
    pname = rnd.choice(["p.inc", "p.inc", "lib/p.inc", "p_stdgates.inc"])
    files[f"{pdir}/{pname}"] = P
    r = rnd.random()
    if r < 0.15 and pdir == "s2":
        files[f"s1/{pname}"] = None                               # a directory of that name earlier in the list
    elif r < 0.30 and pdir == "s1":
        files[f"s2/{pname}"] = "int zz_decoy = 5;\n"              # same name later in the list
    elif r < 0.45:
        files[pname] = "int = ;\n"                                # same name in the working directory
    depth = rnd.choice([0, 1, 1, 2, 2, 3])
    names = [f"m{k}.inc" for k in range(1, depth + 1)] + [pname]
    for k in range(depth):
        body = [f'include "{names[k + 1]}";']
        if rnd.random() < 0.5:
            body.insert(0, f"int zz_m{k} = {k};")
        if rnd.random() < 0.3:
            body.append(f"int zz_n{k} = {k};")
        files[f"{rnd.choice(['s1', 's2'])}/{names[k]}"] = "\n".join(body) + "\n"
    main = []
    if rnd.random() < 0.5:
        main.append("int zz_0 = 0;")
    if rnd.random() < 0.3:
        n = rnd.choice(["lib/stdgates.inc", "mystdgates.inc", "x/y/stdgates.inc", "stdgates.inc.inc"])
        files[f"{rnd.choice(['s1', 's2'])}/{n}"] = rnd.choice(["int zz_lib = 7;\n", "gate zz_g a { }\n", "\n"])
        main.append(f'include "{n}";')
    if rnd.random() < 0.25:
        files["s2/ann.inc"] = rnd.choice(["int zz_ann = 1;\n@zz keep\n", "@zz only\n", "int zz_ann = 1;\n@zz a\n@zz b\n"])
        main.append('include "ann.inc";')
        if rnd.random() < 0.5:
            main.append("int zz_after = 2;")
    if rnd.random() < 0.15:
        main.append('include "stdgates.inc";')
    main.append(f'include "{names[0]}";')
    if rnd.random() < 0.6:
        main.append("int zz_post = 3;")
    if rnd.random() < 0.1:
        files["s1/empty.inc"] = rnd.choice(["", "// nothing\n"])
        main.append(rnd.choice(["@zz pending", "int zz_e = 1;"]))
        main.append('include "empty.inc";')
        main.append("int zz_last = 4;")
    text = "\n".join(main) + "\n"
    if crlf:
        text = text.replace("\n", "\r\n")
        files = {k: (v.replace("\r\n", "\n").replace("\n", "\r\n") if v is not None else None) for k, v in files.items()}
    if bom:
        text = "\ufeff" + text
    lst = ["s1", "s2"] if rnd.random() < 0.7 else [f"{root}/s1", f"{root}/s2"]
    via_env = rnd.random() < 0.2
    case = {"id": cid, "files": files, "main": text, "search": None if via_env else lst, "env": lst if via_env else None, "root": root}
    if rnd.random() < 0.35:
        case["entry"] = "file"
        case["mainfile"] = "s2/main.qasm"
        if rnd.random() < 0.5:
            case["mainarg"] = "main.qasm"                         # found through the search list
    case["features"] = {"depth": depth, "crlf": crlf, "bom": bom, "entry": case.get("entry", "string"), "env": via_env}
    return case


VIEWS = {
    # what each property says about an analysed program; the comparison with the spliced text is restricted to it, so
    # that a property's check reports only departures from that property
    "C03": {"panic"},
    "C04": {"accept"},
    "C06": {"asg"},
    "C07": {"asg", "symbols", "kinds:UndefVarError,UndefGateError,RedeclarationError"},
    "C08": {"asg", "kinds:IncompatibleTypesError,IncompatibleDimensionError,CastError"},
    "C09": {"symbols", "gates", "kinds:InvalidDesignatorError,ConstIntegerError"},
    "C10": {"asg"},
    "C11": {"syntax"},
    "C12": {"errnodes"},
    "C13": {"kinds:NumGateParamsError,NumGateQubitsError,NumDefParamsError,MutateConstError,NotInGlobalScopeError,ReturnInGlobalScopeError,IncompatibleTypesError,UndefGateError"},
    "C02": {"lossless"},
    "C14": {"lossless"},
    "C18": {"panic", "asg", "symbols", "gates", "kinds:*", "flags", "syntax"},
}


def _x(a):
    m = re.search(r";xflags=([^;]*);xmain=([^;]*);xeq=(.*)$", a)
    if not m:
        return {}
    x = dict(kv.split(":") for kv in m.group(1).split(","))
    x["main"], x["eq"] = m.group(2), m.group(3)
    return x


def through_entry_points(ctx, pid, texts, failures, n_quick=400, n_thorough=6000, view=None):
    """`texts`: the property's own programs.  Appends failures with check `entry_points_equiv` (departures of the
    analysis from that of the spliced text, restricted to VIEWS[pid]) or `entry_point_lossless`."""
    view = view or VIEWS[pid]
    seed_off = 900 + int(pid[1:])
    kinds_of = None
    for v in view:
        if v.startswith("kinds:"):
            kinds_of = None if v == "kinds:*" else set(v[6:].split(","))
            want_kinds = True
            break
    else:
        want_kinds = False
    rnd = random.Random(ctx.seed + seed_off)
    n = n_quick if ctx.tier == "quick" else n_thorough
    texts = [t for t in texts if t.strip()]
    if not texts:
        return
    pick = texts if len(texts) <= n else rnd.sample(texts, n)
    # The top-level grammar parses leading "items" in one mode and everything after the first non-item statement in
    # another, and a few constructs come out differently in the two (`let`, a stray `;`: C16's recorded findings).
    # A file boundary resets the mode, a splice does not; the comparison with the spliced text is therefore made for
    # programs whose analysis is the same in both modes (probe: the program after a non-item statement).
    PROBE = "int zz_p = 0;\nzz_p = 1;\n"
    norm = lambda a: re.sub(r"(ok|err):(\d+)", lambda m: m.group(1), a)
    alone = C.run_impl(ctx, "sema", [G.enc(t) for t in pick], tag="iwp0")
    probed = C.run_impl(ctx, "sema", [G.enc(PROBE + t) for t in pick], tag="iwp1")
    keep, nsens = [], 0
    for t, a, b in zip(pick, alone, probed):
        if a.startswith("asg=") and b.startswith("asg="):
            la, lb = PL.split_top(PL.fields(a)["asg"]), PL.split_top(PL.fields(b)["asg"])
            if [norm(x) for x in la] != [norm(x) for x in lb[2:]]:
                nsens += 1
                continue
        elif a.startswith("asg=") != b.startswith("asg="):
            nsens += 1
            continue
        keep.append(t)
    pick = keep
    base = 500000 + 10000 * (seed_off % 50)
    cases = [arrange(rnd, base + i, t if t.endswith("\n") else t + "\n") for i, t in enumerate(pick)]
    send = [json.dumps({k: v for k, v in c.items() if k not in ("root", "features")}) for c in cases]
    out = C.run_impl(ctx, "include", send, tag="iw")
    spl = [c18.splice(c, c["main"]) for c in cases]
    exp = C.run_impl(ctx, "sema", [G.enc(s or "") for s in spl], tag="iwspl")
    stats = {"compared": 0, "expected_panics (skipped)": 0, "syntax_errors_both": 0, "file_entry": 0, "nested>=2": 0, "crlf": 0, "bom": 0}
    for c, s, a, e, j in zip(cases, spl, out, exp, send):
        if s is None:
            continue
        if PL.canon_panic(e):
            stats["expected_panics (skipped)"] += 1
            continue
        if not e.startswith(("asg=", "SYNTAX-ERRORS")):
            # e.g. UNSUPPORTED-INCLUDE: the program itself includes a file that the splice left in place (the include
            # line carries a comment, or the file does not exist) — no reference result to compare with
            stats["no reference result (skipped)"] = stats.get("no reference result (skipped)", 0) + 1
            continue
        f = c["features"]
        bad = None
        site = PL.canon_panic(a)
        x = {} if site else _x(a)
        if site:
            if "panic" in view:
                bad = {"why": "panics only when the program is distributed over files / given as a file", "impl": a[:300]}
            else:
                continue
        elif e.startswith("SYNTAX-ERRORS"):
            if (not a.startswith("SYNTAX-ERRORS") or x.get("syn") != "1") and "syntax" in view:
                bad = {"why": "the spliced text has syntax diagnostics (analysis skipped), the arrangement is analysed", "with_files": a[:300]}
            else:
                stats["syntax_errors_both"] += 1
        elif e.startswith("asg="):
            if not a.startswith("asg="):
                if view & {"syntax", "accept", "asg", "symbols", "gates"}:
                    bad = {"why": "the spliced text parses without diagnostics and is analysed, the arrangement reports syntax diagnostics", "with_files": a[:300], "flags": x}
            else:
                fa, fe = PL.fields(a.split(";inc=[", 1)[0]), PL.fields(e)
                sel = lambda ks: sorted(k for k in ks if kinds_of is None or k in kinds_of)
                kinds_tree = sel(re.findall(r"([A-Za-z]+)@\d+-\d+", a.split(";semtree=", 1)[1].split(";xflags=", 1)[0]))
                kinds_flat = sel(q.split("@")[0] for q in fe.get("errors", "").split(",") if q)
                for k in ("asg", "symbols", "gates"):
                    if k in view and fa.get(k) != fe.get(k):
                        bad = {"why": f"`{k}` differs from the analysis of the spliced text", "with_files": fa.get(k, "")[:400], "spliced": fe.get(k, "")[:400]}
                        break
                if bad is None and want_kinds and kinds_tree != kinds_flat:
                    bad = {"why": "diagnostic kinds over the include tree differ from those of the spliced text", "with_files": kinds_tree, "spliced": kinds_flat}
                if bad is None and "flags" in view:
                    anyk = bool(fe.get("errors", ""))
                    want = {"syn": "0", "sem": "1" if anyk else "0", "any": "1" if anyk else "0"}
                    if any(x.get(k) != v for k, v in want.items()):
                        bad = {"why": "any_syntax_errors/any_semantic_errors/any_errors disagree with the diagnostics present", "flags": x, "expected": want}
        if bad is None and "errnodes" in view and x:
            per = [x["main"].split(":")[-1]] + [q.split(":")[-2] for q in x["eq"].split(",") if q]
            if any(p not in ("0", "-") for p in per) and x.get("syn") != "1":
                bad = {"why": "a parsed file of the arrangement contains an ERROR node, but any_syntax_errors() is false", "xmain": x["main"], "xeq": x["eq"], "flags": x}
        if bad is not None:
            failures.append({"case": j, "check": "entry_points_equiv",
                             "detail": dict(bad, main=c["main"], files=c["files"], search=c["search"], env=c["env"], features=f, spliced_text=s[:600]),
                             "guards": ({"site:" + site} if site else set()), "model_agrees": True,
                             "replay_how": "echo '<case json>' | OQ3_VERIF_WORK=/verif/work/inc /verif/harness/target/debug/oq3-run include ; compare with oq3-run sema on detail.spliced_text"})
            continue
        if "lossless" in view and x:
            eqs = [x["main"].split(":")[2]] + [q.split(":")[-3] for q in x["eq"].split(",") if q]
            if "0" in eqs:
                failures.append({"case": j, "check": "entry_point_lossless",
                                 "detail": {"why": "a parsed file's tree does not spell the bytes of that file", "xmain": x["main"], "xeq": x["eq"], "main": c["main"], "files": c["files"], "features": f},
                                 "guards": set(), "model_agrees": True, "replay_how": "oq3-run include (fields xmain / xeq)"})
                continue
        stats["compared"] += 1
        stats["file_entry"] += f["entry"] == "file"
        stats["nested>=2"] += f["depth"] >= 2
        stats["crlf"] += f["crlf"]
        stats["bom"] += f["bom"]
    stats["mode-sensitive programs (not compared)"] = nsens
    stats["view"] = sorted(view)
    ctx.coverage["through_entry_points"] = stats


def both_entry_points(ctx, texts, failures, n_quick=300, n_thorough=5000):
    """the same arrangement analysed as a string and as a file (absolute path, and relative path found through the
    search list): everything but the path tag of the top-level source must be equal"""
    rnd = random.Random(ctx.seed + 4242)
    n = n_quick if ctx.tier == "quick" else n_thorough
    texts = [t for t in texts if t.strip()]
    pick = texts if len(texts) <= n else rnd.sample(texts, n)
    cases = []
    for i, t in enumerate(pick):
        c = arrange(rnd, 800000 + i, t if t.endswith("\n") else t + "\n")
        c.pop("entry", None); c.pop("mainarg", None)
        c["mainfile"] = "s2/main.qasm"
        cases.append(c)
    strip = lambda c, **kw: json.dumps({k: v for k, v in dict(c, **kw).items() if k not in ("root", "features")})
    o_s = C.run_impl(ctx, "include", [strip(c, entry="string") for c in cases], tag="be-s")
    o_f = C.run_impl(ctx, "include", [strip(c, entry="file") for c in cases], tag="be-f")
    o_r = C.run_impl(ctx, "include", [strip(c, entry="file", mainarg="main.qasm") for c in cases], tag="be-r")
    def canon(a):
        a = re.sub(r";xmain=[^;]*", "", a)
        return re.sub(r";semtree=\((no file|@ROOT@/s2/main\.qasm) ", ";semtree=(<top> ", a)
    ncmp = 0
    for c, a, b, r in zip(cases, o_s, o_f, o_r):
        if PL.canon_panic(a) or a.startswith(("CRASH", "HANG")):
            continue
        ncmp += 1
        for name, o in (("file entry point (absolute path)", b), ("file entry point (relative path found through the search list)", r)):
            if canon(o) != canon(a):
                failures.append({"case": strip(c, entry="file"), "check": "same_text_both_entry_points",
                                 "detail": {"why": "the analysis of the same text differs between the string entry point and the " + name,
                                            "string": canon(a)[:500], "file": canon(o)[:500], "main": c["main"], "files": c["files"], "features": c["features"]},
                                 "guards": set(), "model_agrees": True,
                                 "replay_how": "echo '<case json>' | OQ3_VERIF_WORK=/verif/work/inc /verif/harness/target/debug/oq3-run include   (with \"entry\": \"string\" and \"file\")"})
                break
    ctx.coverage["same_text_through_string_and_file_entry"] = ncmp
