"""Minimal S-expression reader for the canonical tree lines of `oq3-run tree` / `driver tree`."""


def parse(s):
    """returns nested lists; atoms are strings"""
    pos = 0
    n = len(s)

    def rd():
        nonlocal pos
        while pos < n and s[pos] == " ":
            pos += 1
        if s[pos] == "(":
            pos += 1
            out = []
            while True:
                while pos < n and s[pos] == " ":
                    pos += 1
                if s[pos] == ")":
                    pos += 1
                    return out
                out.append(rd())
        j = pos
        while j < n and s[j] not in " ()":
            j += 1
        a = s[pos:j]
        pos = j
        return a
    return rd()


def unhex(h):
    return "" if h == "" else "".join(chr(int(x, 16)) for x in h.split("."))


def is_node(x):
    return isinstance(x, list)


def kind(x):
    return x[0] if is_node(x) else x.split(":", 1)[0]


def leaf_text(x):
    return unhex(x.split(":", 3)[3])


def children(x, trivia=False):
    cs = x[3:]
    if trivia:
        return cs
    return [c for c in cs if kind(c) not in ("WHITESPACE", "COMMENT")]


def find_all(x, k):
    out = []
    if is_node(x):
        if x[0] == k:
            out.append(x)
        for c in x[3:]:
            out += find_all(c, k)
    return out
