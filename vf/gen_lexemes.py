"""Generators for C15 / C11 (plain Python 3, no dependencies).

`gen_sequences(seed, n, max_lexemes=12)` draws sequences of well-formed lexemes from the classes of
`/verif/lean/Oq3/Ref/Lexeme.lean` (same classes, same `follows` side condition, re-implemented here)
and writes them with random ADMISSIBLE separators.  Each case is
    {"text": str, "lexemes": [[SyntaxKindName, text], ...]}
where `lexemes` is the expected list of non-trivia (kind, text) entries of the token table.

`gen_malformed(seed, n)` splices one malformed lexeme of a C11 class at a lexeme boundary of such a
sequence:
    {"text": str, "bad_start": int, "bad_end": int, "class": str}
(byte offsets into the UTF-8 text).  Class "known-F11" is the unterminated bit string with two
consecutive underscores, for which the lexer reports nothing.

The character classes used for the admissibility test are only defined on the alphabet this
generator emits (ASCII plus a few non-ASCII identifier letters); `_cls` asserts that.
"""
import random

# ----------------------------------------------------------------------------- tables

KEYWORDS = ["OPENQASM", "barrier", "box", "cal", "const", "def", "defcal", "defcalgrammar", "delay",
            "extern", "gate", "gphase", "include", "let", "measure", "pragma", "dim", "reset", "break",
            "case", "continue", "default", "else", "end", "for", "if", "in", "return", "switch",
            "while", "array", "creg", "input", "mutable", "output", "qreg", "qubit", "readonly",
            "void", "ctrl", "inv", "negctrl", "pow", "false", "true"]
TYPES = ["angle", "bit", "bool", "complex", "duration", "float", "int", "stretch", "uint"]
# `pragma` / `OPENQASM` followed by whitespace are not words (Lexeme.lean, EXCLUSIONS)
WORD_KEYWORDS = [k for k in KEYWORDS if k not in ("pragma", "OPENQASM")]


def keyword_kind(w):
    if w == "OPENQASM":
        return "O_P_E_N_Q_A_S_M_KW"
    return w.upper() + "_KW"


PUNCT = {";": "SEMICOLON", ",": "COMMA", ".": "DOT", "(": "L_PAREN", ")": "R_PAREN", "{": "L_CURLY",
         "}": "R_CURLY", "[": "L_BRACK", "]": "R_BRACK", "@": "AT", "~": "TILDE", "?": "QUESTION",
         ":": "COLON", "$": "DOLLAR", "=": "EQ", "!": "BANG", "<": "L_ANGLE", ">": "R_ANGLE",
         "-": "MINUS", "&": "AMP", "|": "PIPE", "+": "PLUS", "*": "STAR", "/": "SLASH", "^": "CARET",
         "%": "PERCENT"}
UNITS = ["dt", "ns", "us", "ms", "µs", "s", "im"]
WS_CHARS = ["\t", "\n", "\x0b", "\x0c", "\r", " ", "\u0085", "\u200e", "\u200f", "\u2028", "\u2029"]
ID_START_EXTRA = ["π", "µ", "é", "ñ", "Δ", "θ"]   # π µ é ñ Δ θ
# XID_Continue but NOT XID_Start: combining marks, dependent vowel signs, non-ASCII digits, connector punctuation —
# legal inside an identifier from its second character on
ID_CONT_ONLY = ["\u0301", "\u0308", "\u093e", "\u094d", "\u0663", "\u0967", "\u00b7", "\u203f", "\u1e9b\u0323"[1]]
EMOJI = ["\U0001F600", "\u2764", "\U0001F468"]     # non-ASCII emoji: neither XID_Start nor XID_Continue
ASCII_LETTERS = "abcdefghijklmnopqrstuvwxyzABCDEFGHIJKLMNOPQRSTUVWXYZ"
DIGITS = "0123456789"


def is_ws(c):
    return c in WS_CHARS


def is_id_start(c):
    if ord(c) < 128:
        return c == "_" or c in ASCII_LETTERS
    if c in ID_START_EXTRA or c in ID_CONT_ONLY:
        return True
    assert c in WS_CHARS or c in EMOJI, "character class unknown to the generator: %r" % c
    return False


def is_id_continue(c):
    if ord(c) < 128:
        return c == "_" or c in ASCII_LETTERS or c in DIGITS
    if c in ID_START_EXTRA or c in ID_CONT_ONLY:
        return True
    assert c in WS_CHARS or c in EMOJI, "character class unknown to the generator: %r" % c
    return False


def first(s):
    return s[0] if s else "\0"


def has_timing_suffix(rest):
    if first(rest) == "s":
        return True
    return rest[:2] in ("dt", "ns", "us", "ms", "µs", "im")


def suffix_free(rest):
    return has_timing_suffix(rest) or not is_id_start(first(rest))


# ----------------------------------------------------------------------------- lexemes
# a lexeme is a dict: cls, text, kind, plus class-specific fields used by `follows`

def follows(l, rest):
    """Mirror of `Lexeme.follows`: writing `rest` directly after `l` does not change how `l` lexes."""
    c = l["cls"]
    h = first(rest)
    digit_u = bool(rest) and (h in DIGITS or h == "_")
    if c == "word":
        return not (bool(rest) and (is_id_continue(h) or h in EMOJI))
    if c == "hardware":
        return not digit_u
    if c in ("int", "bin", "oct"):
        return not digit_u and not (bool(rest) and h == ".") and suffix_free(rest)
    if c == "hex":
        hexu = bool(rest) and (h in "0123456789abcdefABCDEF_")
        return not hexu and not (bool(rest) and h == ".") and suffix_free(rest)
    if c == "float":
        return not digit_u and suffix_free(rest)
    if c == "str":
        return not is_id_start(h)
    if c == "punct":
        t = l["text"]
        if t == "/":
            return h not in ("/", "*")
        if t == ".":
            return h not in DIGITS
        if t == "@":
            return not is_id_start(h)
        if t == "$":
            return not digit_u and h not in EMOJI
        return True
    if c in ("pragma", "annotation"):
        return rest == "" or h == "\n"
    if c == "dim":
        return True
    if c == "version":
        return bool(rest) and (h == ";" or is_ws(h))
    raise ValueError(c)


def ends_line(l):
    return l["cls"] in ("pragma", "annotation")


def digit_run(rnd, alphabet, maxlen=6):
    """digits with single or double underscores inside; first and last are digits"""
    n = rnd.randint(1, maxlen)
    s = rnd.choice(alphabet)
    for _ in range(n - 1):
        r = rnd.random()
        if r < 0.15:
            s += "_" + rnd.choice(alphabet)
        elif r < 0.2:
            s += "__" + rnd.choice(alphabet)
        else:
            s += rnd.choice(alphabet)
    return s


def gen_ident(rnd):
    while True:
        r = rnd.random()
        if r < 0.15:
            s = rnd.choice(["pragmatic", "pragm", "pragma_", "p", "pr", "pragmas", "OPENQASMx", "OPENQAS", "O",
                            "OP", "OPENQASM3", "dta", "sx", "e3", "x", "q", "b1", "o7", "xF", "im2", "mss",
                            "E", "e", "_a", "__", "_1", "a_", "dimx", "ints"])
        else:
            alpha0 = ASCII_LETTERS + "_" + "".join(ID_START_EXTRA) * 2
            alpha = alpha0 + DIGITS + "".join(ID_CONT_ONLY)
            s = rnd.choice(alpha0) + "".join(rnd.choice(alpha) for _ in range(rnd.randint(0, 7)))
        if s in KEYWORDS or s in TYPES or s == "_":
            continue
        return {"cls": "word", "text": s, "kind": "IDENT"}


def gen_lexeme(rnd):
    r = rnd.random()
    if r < 0.16:
        return gen_ident(rnd)
    if r < 0.26:
        w = rnd.choice(WORD_KEYWORDS)
        return {"cls": "word", "text": w, "kind": keyword_kind(w)}
    if r < 0.31:
        w = rnd.choice(TYPES)
        return {"cls": "word", "text": w, "kind": w.upper() + "_TY"}
    if r < 0.33:
        return {"cls": "word", "text": "_", "kind": "UNDERSCORE"}
    if r < 0.37:
        return {"cls": "hardware", "text": "$" + "".join(rnd.choice(DIGITS) for _ in range(rnd.randint(1, 4))),
                "kind": "HARDWAREIDENT"}
    if r < 0.45:
        return {"cls": "int", "text": digit_run(rnd, DIGITS), "kind": "INT_NUMBER"}
    if r < 0.53:
        cls, pre, alpha = rnd.choice([("bin", "0b", "01"), ("oct", "0o", "01234567"),
                                      ("hex", "0x", "0123456789abcdefABCDEF")])
        return {"cls": cls, "text": pre + digit_run(rnd, alpha), "kind": "INT_NUMBER"}
    if r < 0.63:
        shape = rnd.choice(["i.f", "i.f", ".f", "i.", "ie", "i.fe", ".fe"])
        ip = digit_run(rnd, DIGITS, 4)
        fp = digit_run(rnd, DIGITS, 4)
        ex = rnd.choice("eE") + rnd.choice(["", "+", "-"]) + digit_run(rnd, DIGITS, 3)
        t = {"i.f": ip + "." + fp, ".f": "." + fp, "i.": ip + ".", "ie": ip + ex,
             "i.fe": ip + "." + fp + ex, ".fe": "." + fp + ex}[shape]
        return {"cls": "float", "text": t, "kind": "FLOAT_NUMBER"}
    if r < 0.67:
        u = rnd.choice(UNITS)          # a unit is an ordinary identifier lexeme
        return {"cls": "word", "text": u, "kind": "IDENT"}
    if r < 0.72:
        q = rnd.choice("\"'")
        while True:
            body = "".join(rnd.choice("01_") for _ in range(rnd.randint(0, 8)))
            if "__" not in body:
                break
        return {"cls": "str", "text": q + body + q, "kind": "BIT_STRING"}
    if r < 0.77:
        q = rnd.choice("\"'")
        other = "'" if q == '"' else '"'
        alpha = "abc xyz019_+-*/;.#@$%{}()[]<>\t" + other + "πé"
        # escapes: an escaped backslash (also as the LAST thing before the closing quote), the escaped own quote, and
        # backslash + ordinary character; the string ends at the first unescaped own quote
        esc = ["\\\\", "\\" + q, "\\n", "\\t", "\\x41", "\\\\\\\\", "\\\\\\" + q]
        while True:
            body = "".join(rnd.choice(esc) if rnd.random() < 0.2 else rnd.choice(alpha) for _ in range(rnd.randint(1, 10)))
            if any(ch not in "01_" for ch in body):
                break
        return {"cls": "str", "text": q + body + q, "kind": "STRING"}
    if r < 0.93:
        c = rnd.choice(list(PUNCT))
        return {"cls": "punct", "text": c, "kind": PUNCT[c]}
    if r < 0.955:
        head = rnd.choice(["pragma", "#pragma"])
        w = rnd.choice([" ", "\t", " ", "\r", "\x0c"])
        body = "".join(rnd.choice("abc xyz019_+-*/;.#@$\"'\tπ\0\x01\x7f") for _ in range(rnd.randint(0, 12)))
        return {"cls": "pragma", "text": head + w + body, "kind": "PRAGMA"}
    if r < 0.98:
        c0 = rnd.choice(ASCII_LETTERS + "_" + "".join(ID_START_EXTRA))
        body = "".join(rnd.choice("abc xyz019_+-*/;.#@$\"'\t\0\x01\x7f") for _ in range(rnd.randint(0, 12)))
        return {"cls": "annotation", "text": "@" + c0 + body, "kind": "ANNOTATION"}
    return {"cls": "dim", "text": "#dim", "kind": "DIM_KW"}


def gen_version(rnd):
    ws = "".join(rnd.choice([" ", " ", "\t", "\n", "\r\n", "\x0c", "\u0085", "\u2028", "\u200e", "\u2029"]) for _ in range(rnd.randint(1, 3)))
    v = "".join(rnd.choice(DIGITS) for _ in range(rnd.randint(1, 2)))
    if rnd.random() < 0.7:
        v += "." + "".join(rnd.choice(DIGITS) for _ in range(rnd.randint(1, 2)))
    return {"cls": "version", "text": "OPENQASM" + ws + v, "kind": "VERSION_STRING"}


# ----------------------------------------------------------------------------- trivia

def gen_ws(rnd, must_start_nl=False):
    n = rnd.randint(1, 3)
    s = "".join(rnd.choice([" ", " ", " ", "\t", "\n", "\r\n", "\r", "\x0c", "\x0b", "\u0085", "\u2028",
                            "\u200e", "\u2029", "\u200f"]) for _ in range(n))
    if must_start_nl:
        s = "\n" + s
    return s


def _body(rnd, alpha, n):
    """comment text that neither opens a nested comment nor closes one: may START with `/` (`/*/ x */` is one comment:
    the `*` of the opener is not the `*` of a closer) and contain `*` and `/` apart; may contain U+0000 and other
    control characters (they are ordinary characters inside a comment)"""
    for _ in range(20):
        b = "".join(rnd.choice(alpha) for _ in range(n))
        if "/*" not in b and "*/" not in b and not b.endswith("/") and not b.endswith("*"):
            return b
    return ""


def gen_block(rnd, depth=0):
    alpha = "abc xyz01_+-;.#@$\"'\n\tπ" + "//**" + "\0\x01\x7f"
    s = "/*" + _body(rnd, alpha, rnd.randint(0, 6))
    if depth < 2 and rnd.random() < 0.3:
        s += gen_block(rnd, depth + 1) + _body(rnd, alpha, rnd.randint(0, 4))
    if rnd.random() < 0.2:
        s += "*" * rnd.randint(1, 2) + " "     # stars that do not close
    return s + "*/"


def gen_line(rnd):
    return "//" + "".join(rnd.choice("abc xyz01_+-*/;.#@$\"'\t\rπ/!\0\x01\x7f") for _ in range(rnd.randint(0, 10)))


def trivia_ok(items, rest):
    """items: list of ('ws'|'line'|'block', text); mirror of `sepOK`"""
    for i, (k, t) in enumerate(items):
        after = "".join(x[1] for x in items[i + 1:]) + rest
        if k == "ws" and after and is_ws(after[0]):
            return False
        if k == "line" and not (after == "" or after[0] == "\n"):
            return False
    return True


def gen_sep(rnd, rest, need_nl_first, may_be_empty):
    """a random separator admissible before `rest`"""
    for _ in range(50):
        r = rnd.random()
        items = []
        if r < 0.25 and may_be_empty:
            items = []
        elif r < 0.6:
            items = [("ws", gen_ws(rnd))]
        elif r < 0.75:
            items = [("block", gen_block(rnd))]
            if rnd.random() < 0.5:
                items = [("ws", gen_ws(rnd))] + items
            if rnd.random() < 0.5:
                items = items + [("ws", gen_ws(rnd))]
        elif r < 0.9:
            items = [("line", gen_line(rnd)), ("ws", gen_ws(rnd, must_start_nl=True))]
            if rnd.random() < 0.5:
                items = [("ws", gen_ws(rnd))] + items
        else:
            items = [("ws", gen_ws(rnd)), ("block", gen_block(rnd)), ("block", gen_block(rnd)),
                     ("ws", gen_ws(rnd)), ("line", gen_line(rnd)), ("ws", gen_ws(rnd, must_start_nl=True))]
        if need_nl_first:
            if items and items[0][0] == "ws":
                items[0] = ("ws", "\n" + items[0][1])
            else:
                items = [("ws", "\n")] + items
        # a whitespace run directly before whitespace would fuse: merge adjacent ws items
        merged = []
        for k, t in items:
            if merged and merged[-1][0] == "ws" and k == "ws":
                merged[-1] = ("ws", merged[-1][1] + t)
            else:
                merged.append((k, t))
        if trivia_ok(merged, rest):
            return "".join(t for _, t in merged)
    return "\n"


def layout(rnd, lexemes, tail=""):
    """Write `lexemes` with random admissible separators, followed by `tail`.  Built right to left
    so that every `follows` test sees the real text that comes next."""
    rest = tail
    for i in range(len(lexemes) - 1, -1, -1):
        l = lexemes[i]
        for _ in range(200):
            need_nl = ends_line(l) and True
            sep = gen_sep(rnd, rest, need_nl_first=False, may_be_empty=True)
            if ends_line(l) and not ((sep + rest) == "" or (sep + rest)[0] == "\n"):
                sep = gen_sep(rnd, rest, need_nl_first=True, may_be_empty=False)
            if follows(l, sep + rest):
                break
        else:
            sep = "\n" if not l["cls"] == "version" else " "
            assert follows(l, sep + rest), (l, sep + rest)
        rest = l["text"] + sep + rest
    lead = gen_sep(rnd, rest, need_nl_first=False, may_be_empty=True) if rnd.random() < 0.3 else ""
    return lead + rest, len(lead.encode("utf-8"))


def gen_sequence(rnd, max_lexemes):
    n = rnd.randint(0, max_lexemes)
    lex = [gen_lexeme(rnd) for _ in range(n)]
    if rnd.random() < 0.15:
        lex = [gen_version(rnd)] + lex
        if len(lex) > 1 and rnd.random() < 0.8:
            lex[1] = {"cls": "punct", "text": ";", "kind": "SEMICOLON"}
    # number + unit pairs with no separator are produced by the layout when admissible; force some
    if lex and rnd.random() < 0.3:
        i = rnd.randrange(len(lex))
        if lex[i]["cls"] in ("int", "float", "bin", "oct", "hex"):
            lex.insert(i + 1, {"cls": "word", "text": rnd.choice(UNITS), "kind": "IDENT"})
    return lex


def gen_sequences(seed, n, max_lexemes=12):
    rnd = random.Random(seed)
    out = []
    for _ in range(n):
        lex = gen_sequence(rnd, max_lexemes)
        if lex and lex[-1]["cls"] == "version":
            lex.append({"cls": "punct", "text": ";", "kind": "SEMICOLON"})
        text, _ = layout(rnd, lex)
        out.append({"text": text, "lexemes": [[l["kind"], l["text"]] for l in lex]})
    return out


# ----------------------------------------------------------------------------- malformed lexemes

def gen_bad(rnd):
    """(class, bad text, runs_to_eof, text that may follow)"""
    r = rnd.random()
    if r < 0.14:
        body = "".join(rnd.choice("abc xyz01_+-;.#@$\"'\n\t/") for _ in range(rnd.randint(0, 12)))
        body = body.replace("*/", "* /")
        if rnd.random() < 0.3:
            body = "/* inner */" + body        # a closed inner comment, the outer one stays open
        return "block_comment", "/*" + body, True
    if r < 0.28:
        q = rnd.choice("\"'")
        alpha = "abc xyz01_+-*/;.#@$\n\t" + ("'" if q == '"' else '"')
        while True:
            body = "".join(rnd.choice(alpha) for _ in range(rnd.randint(0, 12)))
            if any(ch not in "01_\n" for ch in body) or body == "":
                break
        if body == "":
            body = "a"
        return "string", q + body, True
    if r < 0.34:
        q = rnd.choice("\"'")
        while True:
            body = "".join(rnd.choice("01_") for _ in range(rnd.randint(0, 8)))
            if "__" not in body:
                break
        return "bitstring", q + body + rnd.choice(["", "\n"]), True
    if r < 0.40:
        q = rnd.choice("\"'")
        a = "".join(rnd.choice("01") for _ in range(rnd.randint(0, 3)))
        b = "".join(rnd.choice("01_") for _ in range(rnd.randint(0, 3)))
        return "known-F11", q + a + "__" + b + rnd.choice(["", "\n"]), True
    if r < 0.54:
        return "empty_int", rnd.choice(["0b", "0o", "0x"]), False
    if r < 0.68:
        ip = digit_run(rnd, DIGITS, 3)
        fp = digit_run(rnd, DIGITS, 3)
        m = rnd.choice("eE") + rnd.choice(["", "+", "-"])
        return "empty_exponent", rnd.choice([ip + m, ip + "." + fp + m, "." + fp + m]), False
    if r < 0.82:
        ws = rnd.choice([" ", "\t", "  ", "\n"])
        v = rnd.choice(["x", ";", "v3", "3.", "3.;", "3x", "3.0x", "3.0.1", ".5", "three", "_", "3._"])
        return "version", "OPENQASM" + ws + v, False
    if r < 0.92:
        e = rnd.choice(EMOJI)
        return "ident_emoji", rnd.choice([e, "a" + e, "x1" + e + "y", e + "abc", "pi" + e, "Ox" + e]), False
    return "pound", rnd.choice(["#", "#x", "#pragmaX", "#di", "#p", "#prag ma", "#d"]), False


def gen_malformed(seed, n):
    rnd = random.Random(seed)
    out = []
    for _ in range(n):
        cls, bad, to_eof = gen_bad(rnd)
        pre = gen_sequence(rnd, 5)
        pre = [l for l in pre if l["cls"] != "version"]
        # what follows the malformed lexeme: nothing may change its malformedness, so a blank
        after = ""
        if not to_eof:
            suf = [l for l in gen_sequence(rnd, 4) if l["cls"] != "version"]
            sep = rnd.choice([" ", "\n", " \n", ";", " ;"]) if cls != "version" else rnd.choice([" ", "\n"])
            if cls == "empty_int":
                # whatever follows that cannot supply the missing digits: also `.`, an exponent marker, operators
                sep = rnd.choice([" ", "\n", ";", ")", ".", ".5 ", ".. ", "+1 ", "- ", "* ", "/ ", ",", ": ", "] ", "[ ", "} ", "= ", "< "]
                                 + ([] if bad.lower().startswith("0x") else ["e3 ", "E+1 "]))    # e/E are digits in base 16
            elif cls == "empty_exponent":
                sep = rnd.choice([" ", "\n", ";", ")", ". ", ",", ": ", "] ", "* ", "/ ", "= ", "} "])
            suftext, _ = layout(rnd, suf)
            after = sep + suftext
        # the separator before it: required when the previous lexeme could be extended
        tail = bad + after
        if pre and rnd.random() < 0.5 and follows(pre[-1], tail) and not ends_line(pre[-1]):
            gap = ""
        elif pre and ends_line(pre[-1]):
            gap = "\n"
        else:
            gap = rnd.choice([" ", "\n", "\t"]) if pre else rnd.choice(["", " "])
        if pre and pre[-1]["cls"] == "punct" and pre[-1]["text"] == "/" and gap == "" and tail[:1] in "/*":
            gap = " "
        text, _ = layout(rnd, pre, tail=gap + tail)
        start = len(text.encode("utf-8")) - len(tail.encode("utf-8"))
        out.append({"text": text, "bad_start": start, "bad_end": start + len(bad.encode("utf-8")),
                    "class": cls})
    return out


if __name__ == "__main__":
    import json, sys
    mode = sys.argv[1] if len(sys.argv) > 1 else "sequences"
    seed = int(sys.argv[2]) if len(sys.argv) > 2 else 1
    n = int(sys.argv[3]) if len(sys.argv) > 3 else 10
    cases = gen_sequences(seed, n) if mode == "sequences" else gen_malformed(seed, n)
    for c in cases:
        print(json.dumps(c, ensure_ascii=False))
