"""C01 — lexing and parsing return normally on every input (no panic, no hang)."""
import random, itertools
from . import common as C
from . import gen_text as G
from . import pipeline as PL

PROP_MODS = ["Oq3.Props.C01", "Oq3.Props.C01Safe", "Oq3.Props.C01Term", "Oq3.Props.C01Work", "Oq3.Props.C01Work2"]


def token_alphabet():
    """names of all SyntaxKinds that can be tokens (everything before the first node kind) + VERSION_STRING"""
    from . import extract as X
    src = X.read("crates/oq3_parser/src/syntax_kind/syntax_kind_enum.rs")
    import re
    m = re.search(r"pub enum SyntaxKind \{(.*?)\n\}", src, flags=re.S)
    kinds = [k.strip() for k in re.sub(r"#\[[^\]]*\]", "", m.group(1)).split(",") if k.strip()]
    stop = kinds.index("ANNOTATION_STATEMENT")
    return [k for k in kinds[2:stop]] + ["VERSION_STRING"]


def gen_texts(ctx):
    from . import gen_lexemes as GL
    from . import gen_prog as GP
    rnd = random.Random(ctx.seed)
    q = ctx.tier == "quick"
    texts = [G.dec(l) for l in C.load_corpus("text")]
    texts += G.special_texts()
    texts += G.nesting_texts()
    texts += G.joint_alias_texts(q)
    from . import gen_scale as GS
    texts += GS.scale_programs(q)
    for k in (1, 2, 6, 7, 8, 9, 16, 33, 64, 65):
        dims = ", ".join(str(1 + j % 3) for j in range(k))
        texts += [f"array[int[8], {dims}] a;", f"def f(readonly array[int[8], {dims}] t) {{ }}", f"array[int, {dims}",
                  f"def g(mutable array[float[64], #dim = {k}] t) {{ }}", "int x = a" + "[0]" * k + ";", "x" + "[1, 2]" * k + " = 1;",
                  "gate g(" + ", ".join(f"p{j}" for j in range(k)) + ") " + ", ".join(f"q{j}" for j in range(k)) + " { }",
                  "f(" + ", ".join(str(j) for j in range(k)) + ");", "switch (x) { " + " ".join(f"case {j} {{ }}" for j in range(k)) + " }",
                  "{" + ", ".join(str(j) for j in range(k)) + "};", "inv @ " * k + "h q;", "ctrl(" + "(" * k + "1" + ")" * k + ") @ x q, r;"]
    texts += G.escape_texts(rnd, 1500 if q else 20000)
    # token-count boundaries: truncated statements / programs padded to 63, 64, 65, 128 parser tokens
    ends = ["def f()", "def f() -", "a +", "a + ", "x = a", "for int i in", "gate g q", "U(1) q", "a <", "a >", "a &", "a |",
            "a -", "a *", "a = ", "a +=", "a <<", "a >>", "a !", "a =", "if (a) x; else", "1 .", "a :", "[1:", "delay[1ns]",
            "inv @", "ctrl(2) @", "a ->", "def f() -> int", "x++", "x+", "a**", "a*", "a&&", "a&", "a||", "a|", "a==", "a!=",
            "a<=", "a>=", "a<<=", "a>>=", "a-=", "a*=", "a/=", "a|=", "a&=", "a^=", "a%=", "a~", "~", "a/", "a%", "a^"]
    texts += G.boundary_texts(ctx, C, ends + GP.gen_programs(ctx.seed + 7, 150 if q else 3000))
    texts += G.random_texts(rnd, 30000 if q else 400000, maxlen=25)
    texts += [d["text"] for d in GL.gen_sequences(ctx.seed, 5000 if q else 60000)]
    texts += [d["text"] for d in GL.gen_malformed(ctx.seed, 3000 if q else 30000)]
    progs = GP.gen_programs(ctx.seed, 4000 if q else 40000)
    texts += progs
    # mutated programs: delete / duplicate / swap characters and tokens
    for p in progs[: (3000 if q else 30000)]:
        if not p:
            continue
        k = rnd.random()
        i = rnd.randrange(len(p)); j = rnd.randrange(len(p))
        if k < 0.4:
            texts.append(p[:i] + p[i + rnd.randint(1, 6):])
        elif k < 0.7:
            texts.append(p[:i] + p[j:j + rnd.randint(1, 8)] + p[i:])
        else:
            a, b = sorted((i, j)); texts.append(p[:a] + p[b:] + p[a:b])
    return C.uniq(texts)


def attribute(ctx, failures, findings):
    C.decide(ctx, failures, findings)


def check(ctx):
    C.extract(ctx)
    C.prove(ctx, PROP_MODS)
    okb, log = C.cargo_build()
    if not okb:
        C.violation(ctx, "harness-build-failed", {"log": log[-3000:]}, no_input=True)
        return C.finish(ctx, trusted=C.TRUSTED_COMMON)
    texts = gen_texts(ctx)
    ctx.log(f"{len(texts)} texts")
    recs = PL.run(ctx, texts)
    # token-level sequences straight into the parser (I2 -> I3), bounded-exhaustive
    alpha = token_alphabet()
    seqs = [""] + alpha + [f"{a} {b}" for a in alpha for b in alpha]
    if ctx.tier == "thorough":
        rnd = random.Random(ctx.seed + 1)
        seqs += [" ".join(rnd.choice(alpha) + ("+" if rnd.random() < 0.3 else "") for _ in range(3)) for _ in range(300000)]
    ip = C.run_impl(ctx, "parse", seqs, tag="tseq_i")
    mp = C.run_model(ctx, "parse", seqs, tag="tseq_m") if ctx.lake_ok else [None] * len(seqs)
    failures, sites, ndis, nontriv = [], {}, 0, 0
    import re

    def panic_failure(case, layer, line, model_line, replay):
        site = PL.canon_panic(line)
        sites[site] = sites.get(site, 0) + 1
        agrees = model_line is None or PL.canon_panic(model_line) == site
        failures.append({"case": case, "check": "no_panic", "detail": {"layer": layer, "site": site, "impl": line[:300]},
                         "guards": {"site:" + site}, "model_agrees": agrees, "replay_how": replay})
    for r in recs:
        for d in r["dis"]:
            ndis += 1
            if len(ctx.corr_disagreements) < 20:
                ctx.corr_disagreements.append({"layer": d[0], "case": r["line"], "text": r["text"], "impl": d[1], "model": d[2]})
        for layer, key, mode in (("lex", "impl_lex", "lex"), ("parse", "impl_parse", "parse"), ("tree", "impl_tree", "tree")):
            line = r[key]
            if PL.canon_panic(line):
                # report at the first layer that panics only
                panic_failure(r["line"], layer, line, None if r["dis"] else line,
                              f"echo '<input>' | /verif/harness/target/debug/oq3-run {mode}   (input = hex code points of the text)")
                break
        else:
            if "oracle=ok" in (r["impl_tree"] or ""):
                nontriv += 1
    for s, a, b in zip(seqs, ip, mp):
        if b is not None:
            pa, pb = PL.canon_panic(a), PL.canon_panic(b)
            same = (pa == pb) if (pa or pb) else (PL.strip_msgs(a) == PL.strip_msgs(re.sub(r";ipos=\d+$", "", b)))
            if not same:
                ndis += 1
                if len(ctx.corr_disagreements) < 20:
                    ctx.corr_disagreements.append({"layer": "I3 parse (token sequence)", "case": s, "impl": a[:300], "model": b[:300]})
        if PL.canon_panic(a):
            panic_failure(s, "parse", a, b, "echo '<input>' | /verif/harness/target/debug/oq3-run parse")
    failures.sort(key=lambda f: len(f["case"]))
    C.decide(ctx, failures, C.load_findings("C01"))
    ctx.coverage.update({
        "evaluations": len(texts) + len(seqs), "distinct_nontrivial": nontriv,
        "rule": "random rich-alphabet texts, generated lexeme sequences (well-formed and with spliced malformed lexemes), generated programs and character/token-level mutations of them, through both parse entry points (tree mode runs parse and parse_check_lex); plus every token-kind sequence of length <= 2 over the full token alphabet fed straight to the parser (thorough: + 300k random length-3 sequences with joint bits); non-trivial = text that went through all layers with a tree satisfying the C02 oracle",
        "exhaustive": False, "token_sequences": len(seqs),
        "traces_validated_against_impl": (len(texts) * 3 + len(seqs)) if ctx.lake_ok else 0,
        "correspondence_disagreements": ndis, "impl_panic_sites": sites,
        "samples": [{"text": recs[i]["text"][:120], "impl_parse": recs[i]["impl_parse"][:200]} for i in (10, len(recs) - 5) if i < len(recs)],
        "not_proved_explored_only": ["absence of grammar-level assertion failures (assert!(p.at(..)), bump) and termination of the grammar loops are explored by this run, not proved; proved: lexer termination/assertions, parser-state invariant for every grammar function, process/builder totality on invariant-satisfying events"],
    })
    return C.finish(ctx, trusted=C.TRUSTED_COMMON + [
        "grammar, parser API, process, builder, validation (structural part) are hand-modelled in Lean; tied by differential runs per layer",
        "thread stack depth and allocator behaviour are outside the model (nesting bounded in generated inputs)"],
        assumptions=["a hang is detected through the oq3_verif hook (2000 events without consuming a token) and a harness crash/timeout"])
