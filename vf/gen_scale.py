"""Programs of unusual SIZE and with COINCIDENCES that a grammar-driven random generator does not produce.

The random generators (gen_prog, gen_ref) draw small programs: nesting <= 5, a handful of statements, names from a
pool of nine.  Defects that need a count, a depth or a coincidence of names stay invisible to them: a counter that
leaks once per statement and trips after 128 statements, a bit mask over the scope stack that ends at 32 scopes, a
recursion guard at depth 64, an accessor that searches for a keyword in the body of the very directive it belongs to,
a listing that filters a built-in name case-insensitively.  This module adds, deterministically:

  deep      scopes nested 8..70 deep (blocks of if / else-if chains / for / while / mixed), with declarations and
            uses at the bottom and uses of names declared on the way down
  nested    expressions nested 10..70 deep: parentheses, binary on the right and on the left, unary chains, calls in
            calls, indexes in indexes, casts in casts
  repeated  one statement template repeated 130..300 times with a running number (literals of every class,
            declarations, gate calls, annotations, pragmas, definitions, uses of undeclared names, redeclarations)
  names     user names that coincide with built-in constants, the built-in gate and standard gates up to letter case
            (`u`, `PI`, `Cx`), reserved-looking names (`pragma1`, `OPENQASM2`, `include_`, `im`, `dt`), one name in
            two roles (gate and variable in different scopes, parameter named like a global, width named like a register)
  bodies    pragma / annotation lines whose body repeats the directive word or contains other keywords and quotes

All of them are syntactically valid programs of the language subset the semantic pass translates (or programs whose
only faults are the semantic ones named), so every sema-level oracle applies to them as to any other program.
"""


def _deep():
    out = []
    for d in (8, 20, 31, 32, 33, 40, 64, 70):
        # nested if blocks: a declaration on every 7th level, uses at the bottom of names declared above
        body, close = [], []
        for k in range(d):
            body.append("if (true) {")
            if k % 7 == 0:
                body.append(f"int lv{k} = {k};")
            close.append("}")
        body.append("int bottom = 1; bottom = 2; lv0 = 3; undeclared_deep = 4; int bottom = 5;")
        out.append("\n".join(body + close) + "\nbottom = 9;\n")
        # the same with for / while mixed in
        body, close = [], []
        for k in range(d):
            body.append(["if (true) {", f"for int i{k} in [0:1] {{", "while (false) {", "if (false) { } else {"][k % 4])
            close.append("}")
        body.append(f"int deep = 1; deep = i{(d - 1) // 4 * 4 + 1}; deep = 2;")
        out.append("\n".join(body + close) + "\n")
        # an else-if chain of d branches: every `else` adds a level
        ch = "int sel = 0;\nif (sel == 0) { int b0 = 0; }"
        for k in range(1, d):
            ch += f" else if (sel == {k}) {{ int b{k} = {k}; b{k} = sel; }}"
        ch += " else { int last = 1; last = 2; sel = last; nowhere = 1; }\n"
        out.append(ch)
        # shadowing all the way down
        body, close = ["int s = 0;"], []
        for k in range(d):
            body.append("if (true) {" + (f" float s = {k}.5;" if k % 2 else " s = 1;"))
            close.append("}")
        out.append("\n".join(body + close) + "\ns = 2;\n")
    return out


def _nested():
    out = []
    for d in (10, 30, 50, 64, 70):
        out.append("int x = " + "1 + (" * d + "1" + ")" * d + ";\n")
        out.append("int a = 1; int x = " + "(" * d + "a" + ")" * d + ";\n")
        out.append("int a = 1; int x = " + "(" * d + "a" + " + 1)" * d + ";\n")
        out.append("int a = 1; int x = " + "-" * 1 + "(-" * (d - 1) + "a" + ")" * (d - 1) + ";\n")
        out.append("bool b = true; bool c = " + "!(" * d + "b" + ")" * d + ";\n")
        out.append("def f(int y) -> int { return y; }\nint x = " + "f(" * d + "1" + ")" * d + ";\n")
        out.append("int x = " + "int(" * d + "1" + ")" * d + ";\n")
        out.append("array[int, 4] arr; int i = 0; int x = " + "arr[" * min(d, 40) + "i" + "]" * min(d, 40) + ";\n")
        out.append("float f = " + " + ".join(f"{k}.5" for k in range(d)) + ";\n")
        out.append("float f = " + " * ".join(f"({k} + 1.0)" for k in range(d)) + ";\n")
    return out


_TEMPLATES = [
    "complex[float[64]] c;\n|c = {k}im;",
    "complex[float[64]] c;\n|c = {k}.5im;",
    "|int v{k} = {k};",
    "int x;\n|x = {k};",
    "float y;\n|y = {k}.25;",
    "qubit q;\n|U({k}, 0, 0) q;",
    'include "stdgates.inc";\nqubit q;\n|h q;',
    "|if (true) {{ int t{k} = {k}; }}",
    "|@note {k}\nint w{k};",
    "|pragma item {k}",
    "|gate g{k}(t) a {{ U(t, 0, {k}) a; }}",
    "|def f{k}(int a) -> int {{ return a + {k}; }}",
    "qubit q; bit b;\n|b = measure q;",
    "duration d;\n|d = {k}ns;",
    "bit[4] r;\n|r = \"0101\";",
    "qubit q;\n|reset q;",
    "|for int i in [0:{k}] {{ }}",
    "|undeclared{k} = {k};",
    "int dup;\n|int dup = {k};",
    "int x = 1;\n|x = (x + {k});",
    "qubit[2] qq;\n|let al{k} = qq[0:1];",
    "|{k};",
    "bool t = true;\n|while (t) {{ break; }}",
    "int s = 0;\n|switch (s) {{ case {k} {{ s = 1; }} default {{ }} }}",
]


def _repeated(quick):
    out = []
    counts = (130, 300) if quick else (130, 200, 300, 600)
    for n in counts:
        for t in _TEMPLATES:
            pre, _, rep = t.partition("|")
            out.append(pre + "\n".join(rep.format(k=k) for k in range(1, n + 1)) + "\nint after_all = 1; after_all = 2;\n")
    return out


def _names():
    out = []
    variants = ["u", "PI", "Pi", "pI", "Tau", "TAU", "Euler", "EULER", "Cx", "cX", "H", "Swap", "ID", "Sx", "RZ", "u1x", "U1", "U_",
                "pragma1", "pragma_", "OPENQASM2", "include_", "im", "dt", "ns", "us", "ms", "s1", "inv_", "pow2", "ctrl_", "gphase2",
                "measure_", "reset1", "true_", "false1", "in_", "def1", "gate_", "let1", "int_", "bit1", "π2", "τ_"]
    for v in variants:
        out.append(f'include "stdgates.inc";\nqubit q; qubit r;\ngate {v}(a, b, c) t {{ U(a, b, c) t; }}\ngate w2 a, b {{ }}\n{v}(1, 2, 3) q;\nw2 q, r;\n')
        out.append(f"int {v} = 1;\n{v} = 2;\nfloat y = {v} + pi;\n")
        out.append(f"qubit q;\ndef {v}(int a) -> int {{ return a; }}\nint z = {v}(3);\n")
    # one name in two roles
    out += [
        'include "stdgates.inc";\nqubit q;\ngate g(x) t { x t; }\n',
        'include "stdgates.inc";\nqubit q;\nif (true) { int h = 1; h q; }\n',
        'include "stdgates.inc";\nqubit q;\nfor int s in {1, 2} { s q; }\n',
        'include "stdgates.inc";\nqubit q;\ndef f(int x, qubit t) { x t; }\n',
        "const int n = 8;\ndef f(int n) -> int[n] { return n; }\n",
        "const int n = 8;\ndef f(int a) -> int[n] { const int n = 16; return a; }\n",
        "const int n = 4;\nqubit[n] n2; bit[n] c; int[n] w;\nconst int m = n; qubit[m] q3;\n",
        "qubit[3] q;\nconst int q2 = 3; bit[q2] q3;\n",
        # one constant NAME with different values in nested scopes, used as a designator on every level, before and after
        "const int n = 4; bit[n] outer; def f(qubit q) { const int n = 9; bit[n] inner; int[n] k; } int[n] after;\n",
        "const int n = 4; int[n] a; if (true) { const int n = 16; int[n] b; uint[n] c; } int[n] d;\n",
        "const int n = 4; int[n] a; for int i in [0:1] { const int n = 8; int[n] b; if (true) { const int n = 2; int[n] c; } int[n] e; } int[n] d;\n",
        "const int n = 4; qubit[n] q1; bit[n] c1; def g() { const int n = 3; bit[n] c2; } def h() { bit[n] c3; const int n = 5; bit[n] c4; }\n",
        "const int w = 8; const int n = w; int[n] a; if (true) { const int w = 16; int[w] b; int[n] c; }\n",
        "int a = 1;\ngate a x { }\nint a = 2;\n",
        "gate k q { }\nint k = 1;\nqubit t; k t;\n",
        "def d() { }\ngate d q { }\nqubit t; d t; d();\n",
        "qubit q;\nif (true) { gate q2 a { } q2 q; }\nq2 q;\n",
        "int pi = 3;\n", "if (true) { int pi = 3; pi = 4; }\n", "if (true) { float U = 1.0; U = 2.0; }\n", "def f(int pi) { pi = 1; }\n",
        "gate g(pi) q { U(pi, 0, 0) q; }\n", "for int tau in [0:2] { tau; }\n", "qubit U;\n", "gate U q { }\n",
    ]
    return out


def _bodies():
    lines = ["pragma ignore unknown pragma directives", "#pragma forward pragma to backend", "pragma pragma", "pragma #pragma x",
             "pragma include \"x.inc\";", "pragma OPENQASM 3.0;", "pragma qubit q; int x = 1;", "pragma 'single' \"double\" `tick`",
             "pragma a  b   c    ", "pragma\ta\tb", "pragma // not a comment", "pragma /* open", "pragma µτ π",
             "@pragma x", "@note pragma y", "@a @b @c", "@x.y.z 1 2 3", "@annotation annotation", "@ include", "@p \"q\""]
    out = []
    for ln in lines:
        out.append(f"int a = 1;\n{ln}\nint b = 2;\n")
        out.append(f"{ln}\n{ln}\nqubit q;\n")
    return out


def scale_programs(quick=True):
    return _deep() + _nested() + _repeated(quick) + _names() + _bodies()
