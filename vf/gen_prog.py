"""Program generator for the semantic-analysis correspondence (I5/I6, properties C03, C06-C10, C13, C17).

`gen_programs(seed, n)` returns `n` OpenQASM 3 source texts, deterministic in `seed`.  The texts are
meant to be *syntactically* valid most of the time (cases with syntax errors are simply skipped by
the pipeline) and semantically anything: every statement kind the semantic pass has an arm for,
declarations of every scalar type x width x const x initializer form, a small name pool so that
shadowing / redeclaration / undeclared uses happen constantly, wrong arities, wrong operand kinds,
and, with low probability, every construct on which the unchanged pass panics.

The generator keeps a loose record of what it declared (kind only) so that most references are
sensible; a fixed share of references ignores the record (fault injection).
"""
import random

NAMES = ["a", "b", "c", "q", "r", "pi", "U", "h", "cx"]
VAR_NAMES = ["a", "b", "c", "n", "m"]
QUBIT_NAMES = ["q", "r", "s"]
FN_NAMES = ["f", "g", "a", "h"]
GATE_NAMES = ["g", "h", "cx", "U", "mygate", "a"]
STD1 = ["x", "y", "z", "h", "s", "sdg", "t", "tdg", "sx", "id"]
STD1P = ["p", "rx", "ry", "rz", "phase", "u1"]
STD2 = ["cx", "cy", "cz", "ch", "swap", "CX"]
STD2P = ["cp", "crx", "cry", "crz", "cphase"]
STD3 = ["ccx", "cswap"]
WIDTHS = [None, 1, 8, 32, 64]
SCALARS = ["int", "uint", "float", "angle", "complex", "bool", "bit", "duration", "stretch"]
UNITS = ["s", "ms", "us", "µs", "ns", "dt"]
ARITH = ["+", "-", "*", "/", "%", "<<", ">>", "|", "&", "^"]


class Scope:
    def __init__(self, parent=None, kind="global"):
        self.parent, self.kind = parent, kind
        self.names = {}  # name -> kind: var const qubit qreg gate def alias

    def lookup_kind(self, kinds):
        out, s = [], self
        seen = set()
        while s:
            for n, k in s.names.items():
                if n not in seen:
                    seen.add(n)
                    if k in kinds:
                        out.append(n)
            s = s.parent
        return out


class Gen:
    def __init__(self, rnd):
        self.r = rnd
        self.scope = Scope()
        self.scope.names.update({"pi": "const", "tau": "const", "euler": "const", "U": "gate"})
        self.stdgates = False
        self.risk = rnd.choice([0.0, 0.0, 0.01, 0.03, 0.1])  # share of panic-prone constructs
        self.fault = rnd.choice([0.05, 0.15, 0.3])            # share of careless references

    # ------------------------------------------------------------ helpers
    def p(self, x):
        return self.r.random() < x

    def ch(self, xs):
        return self.r.choice(xs)

    def risky(self):
        return self.p(self.risk)

    def push(self, kind):
        self.scope = Scope(self.scope, kind)

    def pop(self):
        self.scope = self.scope.parent

    def declare(self, name, kind):
        self.scope.names[name] = kind

    def ref(self, kinds, pool):
        """a name of one of the kinds if any is visible, else / sometimes anything from the pool"""
        c = self.scope.lookup_kind(kinds)
        if c and not self.p(self.fault):
            return self.ch(c)
        return self.ch(pool)

    # ------------------------------------------------------------ literals
    def int_lit(self):
        r = self.r
        k = r.random()
        if k < 0.5:
            v = r.randint(0, 9)
        elif k < 0.8:
            v = r.randint(0, 300)
        elif k < 0.95:
            v = r.choice([2**31, 2**32 - 1, 2**32, 2**32 + 1, 2**33, 2**63, 2**64, 2**64 + 1, 2**127, 2**128 - 1])
        else:
            v = r.choice([2**128 - 1, 10**30]) if not self.risky() else r.choice([2**128, 2**128 + 5, 10**40])
        form = r.random()
        if form < 0.7:
            s = str(v)
            if len(s) > 3 and self.p(0.3):
                s = s[:-3] + "_" + s[-3:]
            return s
        if form < 0.8:
            return self.ch(["0x", "0X"]) + self.ch(["%x", "%X"]) % v
        if form < 0.9:
            return self.ch(["0b", "0B"]) + bin(v)[2:]
        return self.ch(["0o", "0O"]) + oct(v)[2:]

    def float_lit(self):
        r = self.r
        return r.choice(["1.5", "0.25", "2.", ".5", "1e3", "2.5E-2", "1.0e+2", "3.14159", "1e400", "0.1",
                         "1_0.5", "12.5e1", "0.0", "1E0", "6.02e23", "1e-400"])

    def bitstring(self):
        n = self.r.randint(1, 8)
        s = "".join(self.r.choice("01") for _ in range(n))
        if self.p(0.15) and n > 2:
            s = s[:1] + "_" + s[1:]
        return '"' + s + '"' if self.p(0.9) else "'" + s + "'"

    def timing_lit(self):
        num = self.int_lit() if self.p(0.6) else self.float_lit()
        if num.startswith(("0x", "0X", "0b", "0B", "0o", "0O")) or "_" in num:
            num = str(self.r.randint(0, 99))
        sep = " " if self.p(0.1) else ""
        return num + sep + self.ch(UNITS)

    def imag_lit(self):
        num = str(self.r.randint(0, 99)) if self.p(0.5) else self.ch(["1.5", "2.0", "0.5", "1e2"])
        return num + ("" if self.p(0.9) else " ") + "im"

    def literal(self):
        k = self.r.random()
        if k < 0.35:
            return self.int_lit()
        if k < 0.5:
            return self.float_lit()
        if k < 0.58:
            return self.ch(["true", "false"])
        if k < 0.66:
            return self.bitstring()
        if k < 0.76:
            return self.timing_lit()
        if k < 0.84:
            return self.imag_lit()
        if k < 0.97:
            return "-" + self.ch([self.int_lit(), self.float_lit(), self.imag_lit()])
        if self.risky():
            return "-" + self.ch([self.timing_lit(), "true", self.bitstring()])
        return self.int_lit()

    # ------------------------------------------------------------ types
    def designator(self):
        k = self.r.random()
        if k < 0.6:
            return str(self.ch([1, 8, 32, 64, 2, 3, 16, 128]))
        if k < 0.7:
            return str(self.ch([0, 4294967295, 4294967296, 4294967297, 2**33, 2**64, 0x10]))
        if k < 0.85:
            c = self.scope.lookup_kind(["cint"])
            if self.risky():
                return self.ch(NAMES)
            return self.ch(c) if c else "16"
        if k < 0.9:
            c = self.scope.lookup_kind(["var"])
            return self.ch(c) if c else "8"
        if k < 0.94:
            return self.ch(["true", "false"])
        if self.risky():
            return self.ch(["2*n", "n+1", "(8)", "-1", "1.5", "pi", "U", "zz"])
        return "8"

    def scalar_type(self, kinds=SCALARS, width=None):
        t = self.ch(kinds)
        w = self.designator() if (width is None and self.p(0.55)) else width
        if t in ("bool", "duration", "stretch"):
            return t if not (self.p(0.02) and w) else f"{t}[{w}]"
        if t == "complex":
            if w is None:
                return self.ch(["complex", "complex[float]"])
            return f"complex[float[{w}]]"
        if w is None:
            return t
        return f"{t}[{w}]"

    # ------------------------------------------------------------ expressions
    def var_ref(self):
        return self.ref(["var", "const", "cint", "alias"], NAMES)

    def qubit_ref(self):
        return self.ref(["qubit", "qreg"], QUBIT_NAMES + ["a", "pi"])

    def index_op(self):
        k = self.r.random()
        if k < 0.5:
            return "[" + self.simple_expr() + "]"
        if k < 0.65:
            return "[" + self.simple_expr() + ":" + self.simple_expr() + "]"
        if k < 0.75:
            return "[" + self.simple_expr() + ":" + self.simple_expr() + ":" + self.simple_expr() + "]"
        if k < 0.85:
            return "[{" + ", ".join(self.simple_expr() for _ in range(self.r.randint(1, 3))) + "}]"
        if k < 0.95:
            return "[" + ", ".join(self.simple_expr() for _ in range(self.r.randint(2, 3))) + "]"
        return "[" + self.expr(1) + "]"

    def gate_operand(self):
        k = self.r.random()
        if k < 0.6:
            return self.qubit_ref()
        if k < 0.85:
            q = self.ref(["qreg"], QUBIT_NAMES + ["a"])
            return q + self.index_op() + (self.index_op() if self.p(0.05) else "")
        if k < 0.95:
            return "$" + str(self.r.randint(0, 3))
        return self.ch(NAMES)

    def simple_expr(self):
        k = self.r.random()
        if k < 0.55:
            return self.int_lit() if self.p(0.8) else self.literal()
        if k < 0.9:
            return self.var_ref()
        return "(" + self.expr(1) + ")"

    def call(self, depth):
        defs = self.scope.lookup_kind(["def"])
        if self.risky():
            f = self.ch(NAMES)
        elif defs:
            f = self.ch(defs)
        else:
            return self.var_ref()
        n = self.r.choice([0, 1, 1, 2, 2, 3])
        return f + "(" + ", ".join(self.expr(depth + 1) for _ in range(n)) + ")"

    def cast(self, depth):
        t = self.scalar_type()
        return t + "(" + self.expr(depth + 1) + ")"

    def expr(self, depth=0):
        r = self.r
        k = r.random()
        if depth >= 3:
            k *= 0.5
        if k < 0.25:
            return self.literal()
        if k < 0.5:
            return self.var_ref()
        if k < 0.68:
            op = self.ch(ARITH) if self.p(0.8) else self.ch(["==", "!=", "++", "**"])
            if self.risky():
                op = self.ch(["<", ">", "<=", ">=", "&&", "||"])
            return self.expr(depth + 1) + " " + op + " " + self.expr(depth + 1)
        if k < 0.74:
            return "(" + self.expr(depth + 1) + ")"
        if k < 0.79:
            return "-" + self.ch([self.var_ref(), "(" + self.expr(depth + 1) + ")"])
        if k < 0.85:
            return self.cast(depth)
        if k < 0.89:
            return self.call(depth)
        if k < 0.92:
            return "measure " + self.gate_operand()
        if k < 0.96:
            return self.var_ref() + self.index_op() + (self.index_op() if self.p(0.2) else "")
        if k < 0.975:
            return "(" + self.expr(depth + 1) + ")" + self.index_op()
        if k < 0.985:
            return "$" + str(r.randint(0, 3))
        if self.risky():
            return self.ch(["!" + self.var_ref(), "~" + self.var_ref(), "[1, 2]", "{1, 2}", '"abc"',
                            "a += 1", "sizeof(a)", "durationof({x q;})", "!true", "{ }"])
        return self.var_ref()

    # ------------------------------------------------------------ statements
    def new_var_name(self):
        name = self.ch(VAR_NAMES) if self.p(0.8) else self.ch(NAMES)
        if name in self.scope.names and not self.p(0.2):
            free = [n for n in VAR_NAMES + ["k", "w", "v", "x", "y", "z"] if n not in self.scope.names]
            if free:
                name = self.ch(free)
        return name

    def classical_decl(self):
        const = self.p(0.3)
        name = self.new_var_name()
        if const and name in self.scope.names and not self.risky():
            free = [n for n in VAR_NAMES + ["k", "w", "v"] if n not in self.scope.names]
            if not free:
                const = False
            else:
                name = self.ch(free)
        if const and self.p(0.5):
            # a constant usable as a designator: integer literal initializer, type not Int[128]
            t = self.ch(["int", "uint", "int[32]", "uint[8]", "float", "int[64]"])
            v = self.ch(["1", "2", "3", "8", "16", "32", "64", "0", "4294967295", "4294967296", "-3", "0x20"])
            self.declare(name, "cint")
            return f"const {t} {name} = {v};"
        t = self.scalar_type()
        k = self.r.random()
        if const or k < 0.7:
            init = " = " + self.expr()
        else:
            init = ""
        if const and self.p(0.03):
            init = ""
        self.declare(name, "const" if const else "var")
        return ("const " if const else "") + f"{t} {name}{init};"

    def io_decl(self):
        name = self.new_var_name()
        t = self.scalar_type() if self.p(0.95) else "array[int[8], 2]"
        self.declare(name, "var")
        return self.ch(["input", "output"]) + f" {t} {name};"

    def array_decl(self):
        name = self.new_var_name()
        self.declare(name, "var")
        base = self.scalar_type(["int", "uint", "float", "bit", "bool"])
        dims = ", ".join(str(self.r.randint(1, 3)) for _ in range(self.r.randint(1, 2)))
        init = " = {1, 2}" if self.risky() else ""
        return f"array[{base}, {dims}] {name}{init};"

    def quantum_decl(self):
        k = self.r.random()
        name = self.ch(QUBIT_NAMES) if self.p(0.85) else self.ch(NAMES)
        if k < 0.45:
            self.declare(name, "qubit")
            return f"qubit {name};"
        if k < 0.85:
            self.declare(name, "qreg")
            return f"qubit[{self.designator()}] {name};"
        if k < 0.93:
            return f"qubit ${self.r.randint(0, 3)};"
        return self.ch([f"qreg {name}[2];", f"creg {self.ch(VAR_NAMES)}[3];", f"qreg {name};"])

    def block(self, kind, nmax=3, in_def=False, in_gate=None):
        self.push(kind)
        n = self.r.randint(0, nmax)
        body = [self.stmt(nested=True, in_def=in_def, in_gate=in_gate) for _ in range(n)]
        self.pop()
        return "{ " + " ".join(body) + " }"

    def gate_def(self):
        name = self.ch(GATE_NAMES) if self.p(0.85) else self.ch(NAMES)
        np_ = self.r.choice([0, 0, 1, 2, 3])
        nq = self.r.randint(1, 3)
        params = self.r.sample(["th", "ph", "lam", "a", "b"], np_)
        qubits = self.r.sample(["q", "r", "s", "x0"], nq) if not self.p(0.05) else ["q", "q"]
        ps = ""
        if np_ or self.p(0.1):
            ps = "(" + ", ".join(params) + ")"
        self.push("sub")
        for p_ in params:
            self.declare(p_, "const")
        for q in qubits:
            self.declare(q, "qubit")
        n = self.r.randint(0, 3)
        body = [self.stmt(nested=True, in_gate=True) if self.p(0.25) else self.gate_call() for _ in range(n)]
        self.pop()
        self.declare(name, "gate:%d:%d" % (np_, nq))
        return f"gate {name}{ps} " + ", ".join(qubits) + " { " + " ".join(body) + " }"

    def def_def(self):
        name = self.ch(FN_NAMES) if self.p(0.85) else self.ch(NAMES)
        n = self.r.choice([0, 1, 1, 2, 3])
        self.push("sub")
        ps = []
        for _ in range(n):
            pn = self.ch(["a", "b", "c", "q", "x1"])
            k = self.r.random()
            if k < 0.65:
                ps.append(self.scalar_type() + " " + pn)
                self.declare(pn, "var")
            elif k < 0.85:
                ps.append(self.ch(["qubit", "qubit[2]"]) + " " + pn)
                self.declare(pn, "qubit")
            elif k < 0.93 and self.risky():
                ps.append(self.ch(["readonly", "mutable"]) + " array[int[8], #dim = 1] " + pn)
                self.declare(pn, "var")
            else:
                ps.append(self.ch(["creg", "qreg"]) + " " + pn + self.ch(["[1]", "[2]"]))
                self.declare(pn, "var")
        ret = ""
        if self.p(0.5):
            ret = " -> " + self.scalar_type()
        nb = self.r.randint(0, 3)
        body = [self.stmt(nested=True, in_def=True) for _ in range(nb)]
        if ret and self.p(0.8):
            body.append("return " + self.expr(1) + ";")
        self.pop()
        self.declare(name, "def")
        return f"def {name}(" + ", ".join(ps) + f"){ret} " + "{ " + " ".join(body) + " }"

    def modifiers(self):
        ms = []
        for _ in range(self.r.choice([1, 1, 2, 3])):
            k = self.r.random()
            if k < 0.3:
                ms.append("inv")
            elif k < 0.55:
                ms.append("pow(" + self.expr(1) + ")")
            elif k < 0.8:
                ms.append(self.ch(["ctrl", "ctrl(" + self.simple_expr() + ")"]))
            else:
                ms.append(self.ch(["negctrl", "negctrl(" + self.simple_expr() + ")"]))
        return " @ ".join(ms) + " @ "

    def gate_call(self):
        r = self.r
        k = r.random()
        mods = self.modifiers() if self.p(0.2) else ""
        if k < 0.08:
            return mods + "gphase(" + self.expr(1) + ");"
        # pick a gate with its arity
        cands = []
        s = self.scope
        while s:
            for n, kd in s.names.items():
                if kd.startswith("gate:"):
                    _, a, b = kd.split(":")
                    cands.append((n, int(a), int(b)))
            s = s.parent
        cands.append(("U", 3, 1))
        if self.stdgates:
            cands += [(g, 0, 1) for g in STD1[:4]] + [(g, 1, 1) for g in STD1P[:3]] + \
                     [(g, 0, 2) for g in STD2[:3]] + [(g, 1, 2) for g in STD2P[:2]] + \
                     [("u2", 2, 1), ("u3", 3, 1), ("cu", 4, 2), ("ccx", 0, 3)]
        name, np_, nq = self.ch(cands)
        if self.p(self.fault):
            name = self.ch(NAMES + STD1[:3])
        if self.p(0.12):
            np_ = r.randint(0, 4)
        if self.p(0.12):
            nq = r.randint(1, 4)
        if mods and ("ctrl" in mods):
            nq += r.randint(0, 2)
        args = ""
        if np_ or self.p(0.03):
            args = "(" + ", ".join(self.expr(1) for _ in range(np_)) + ")"
        return mods + name + args + " " + ", ".join(self.gate_operand() for _ in range(nq)) + ";"

    def body(self, kind, in_def=False):
        """block or single statement"""
        if self.p(0.6):
            return self.block(kind, in_def=in_def)
        self.push(kind)
        s = self.stmt(nested=True, in_def=in_def, simple=True)
        self.pop()
        return s

    def if_stmt(self, in_def=False):
        cond = self.expr(1)
        s = "if (" + cond + ") " + self.body("local", in_def)
        if self.p(0.5):
            s += " else " + self.body("local", in_def)
        return s

    def while_stmt(self, in_def=False):
        return "while (" + self.expr(1) + ") " + self.body("local", in_def)

    def for_stmt(self, in_def=False):
        t = self.scalar_type(["int", "uint", "float", "bit", "angle"])
        v = self.ch(["i", "a", "b"])
        k = self.r.random()
        if k < 0.35:
            it = "{" + ", ".join(self.simple_expr() for _ in range(self.r.randint(1, 3))) + "}"
        elif k < 0.7:
            it = "[" + self.simple_expr() + ":" + self.simple_expr() + \
                 ((":" + self.simple_expr()) if self.p(0.4) else "") + "]"
        else:
            it = self.ch([self.var_ref(), self.var_ref() + self.index_op(), self.simple_expr()])
        self.push("local")
        self.declare(v, "var")
        if self.p(0.6):
            b = self.block("inner", in_def=in_def)
        else:
            b = self.stmt(nested=True, in_def=in_def, simple=True)
        self.pop()
        return f"for {t} {v} in {it} {b}"

    def switch_stmt(self, in_def=False):
        s = "switch (" + self.expr(1) + ") { "
        for _ in range(self.r.randint(0 if self.p(0.1) else 1, 3)):
            s += "case " + ", ".join(self.simple_expr() for _ in range(self.r.randint(1, 2))) + " " + \
                 self.block("local", nmax=2, in_def=in_def) + " "
        if self.p(0.6):
            s += "default " + self.block("local", nmax=2, in_def=in_def) + " "
        return s + "}"

    def assignment(self):
        k = self.r.random()
        rhs = self.ch([self.simple_expr(), self.literal(), "(" + self.expr(1) + ")", self.call(1),
                       "measure " + self.gate_operand(), self.cast(1), self.var_ref() + self.index_op()])
        if self.p(0.03):
            rhs = self.expr(0)  # may be a syntax error (binary operator at top level)
        if k < 0.7:
            return self.var_ref() + " = " + rhs + ";"
        if k < 0.95:
            return self.var_ref() + self.index_op() + (self.index_op() if self.p(0.15) else "") + " = " + rhs + ";"
        if self.risky():
            return self.var_ref() + " " + self.ch(["+=", "-=", "*=", "/=", "<<=", "|=", "^=", "&=", "%=", ">>="]) + \
                " " + self.simple_expr() + ";"
        return self.var_ref() + " = " + rhs + ";"

    def alias(self):
        name = self.ch(["a", "b", "c", "q", "r"])
        k = self.r.random()
        if k < 0.4:
            rhs = self.qubit_ref() + self.index_op()
        elif k < 0.7:
            rhs = self.qubit_ref() + " ++ " + self.qubit_ref()
        elif k < 0.85:
            rhs = self.qubit_ref()
        else:
            rhs = self.expr(1)
        self.declare(name, "alias")
        return f"let {name} = {rhs};"

    def misc_quantum(self):
        k = self.r.random()
        ops = ", ".join(self.gate_operand() for _ in range(self.r.randint(1, 3)))
        if k < 0.2:
            return "reset " + self.gate_operand() + ";"
        if k < 0.45:
            return "barrier " + ops + ";" if not self.risky() else "barrier;"
        if k < 0.7:
            d = self.ch([self.timing_lit(), self.var_ref(), self.int_lit(), self.expr(1)])
            return f"delay[{d}] {ops};"
        if k < 0.85:
            return "measure " + self.gate_operand() + ";"
        if k < 0.97:
            return self.var_ref() + " = measure " + self.gate_operand() + ";"
        return "measure " + self.gate_operand() + " -> " + self.var_ref() + ";"

    def combo_stmt(self):
        """short targeted sequences for diagnostics that need a specific declared type"""
        v = self.ch(["v", "w", "x", "y", "z"])
        k = self.r.randint(0, 11)
        self.declare(v, "var")
        if k == 0:
            return f"uint[{self.ch(['8', '16', '32'])}] {v} = 1; {v} = -{self.int_lit()}; {v} = {self.int_lit()};"
        if k == 1:
            return f'bit[4] {v} = "0101"; {v} = {self.bitstring()};'
        if k == 2:
            self.declare(v, "cint")
            return f"const int {v} = {self.ch(['4294967296', '-1', '1 + 2', '2.0', '18446744073709551616'])}; " \
                   f"{self.ch(['int', 'bit', 'qubit', 'angle'])}[{v}] {v}1;"
        if k == 3:
            self.declare(v, "qreg")
            return f"qubit[4] {v}; {v}[0, 1] = 1; {v}[{{0, 1}}] = 2; {v}[0][1] = 3; let {v}2 = {v}[1:2];"
        if k == 4:
            return f"bit[8] {v}; {v}[0] = 1; {v}[0, 1] = 1; {v}[0:3] = \"0101\"; {v} = measure $0;"
        if k == 5:
            return f"duration {v} = 2ns; {v} = 1; {v} = 3dt; stretch {v}s = {v}; delay[{v}] $0; delay[{v}s] $1;"
        if k == 6:
            return f"float[32] {v} = 1; {v} = 2; {v} = 2.5; {v} = {v} + 1; {v} = ({v} * 2.0); {v} = 2im;"
        if k == 7:
            return f"const float[64] {v} = 2.5; {v} = 1.0; int[8] {v}i = {v}; float[64] {v}f = {v}; float[32] {v}g = {v};"
        if k == 8:
            return f"bool {v} = true; {v} = false; {v} = 1; {v} = ({v} == true); bit {v}b = {v};"
        if k == 9:
            return f"complex[float[64]] {v} = 1.0 + 2.0im; {v} = 2; {v} = 1.5; {v} = 3im; complex[float[32]] {v}c = {v};"
        if k == 10:
            return f"angle[8] {v} = pi; {v} = 1; {v} = tau; angle[16] {v}a = {v}; {v}a = ({v} + {v}a);"
        return f"int[8] {v} = 1; int[16] {v}w = {v}; {v} = {v}w; {v}w = {v}; uint[8] {v}u = {v}; {v} = ({v} + {v}w); " \
               f"{v} = ({v} + {v}u);"

    def rare_stmt(self):
        return self.ch([
            "defcal x $0 { }", "cal { }", "extern f(int[8]) -> int[8];", 'defcalgrammar "openpulse";',
            "OPENQASM 3.0;", "OPENQASM 3;", "qreg q[2];", "creg c[2];", "creg c;", "end;",
            'include "stdgates.inc";', ";", "gate g0 { }", "delay[1ns];", "a = ();", "a = 3ab;", "U q;", "U() q;",
            "x() q;", "switch (a) { default { } }", "if (a) { } else if (b) { }",
            "if (a) x q; else if (b) y q; else z q;", "while (a) while (b) a = 1;",
            "for int i in [0:1] for int j in [0:1] a = 1;", "if (a) pragma foo",
            "def f0() { OPENQASM 3; }", 'def f1() { include "stdgates.inc"; }',
        ])

    def risky_stmt(self):
        return self.ch([
            "if (" + self.var_ref() + ") ;", "while (true) ;", "for int i in a ;", "{ int x = 1; }",
            'include "other.inc";', "barrier;", "x += 1;", 'a = "abc";', "box { }", "a = [1, 2];",
            "const int n = 1; const int n = 2;", "int[zz] x;", "zz(1);", "bit b = !a;", "a < b;",
            "a && b;", "a = -3ns;", "int[2*n] y;", "const int[128] k = 3; int[k] w;", "delay[1ns];",
            'include "a\\qb.inc";', "let a = q[1:2] ++ r;", "gphase();", "a = array[int[8], 2](b);",
            "U(1, 2, 3);", "a = sizeof(b);", "a = sin(1.0);", "if (a) OPENQASM 3;", "if (a) @foo\n",
            'if (a) include "a.inc";', "if (a) ; else ;", "a = durationof({x q;});",
            "int[340282366920938463463374607431768211456] x;", "a = -340282366920938463463374607431768211456;",
            "a = 340282366920938463463374607431768211456im;", "a = 340282366920938463463374607431768211456ns;",
            "def f2(readonly array[int[8], #dim = 1] a) { }",
        ])

    def stmt(self, nested=False, in_def=False, in_gate=None, simple=False):
        r = self.r
        if self.risky() and self.p(0.5):
            return self.risky_stmt()
        k = r.random()
        if in_gate:
            k = k * 0.55 + 0.2 if self.p(0.8) else k
        if k < 0.03 and not simple:
            return self.combo_stmt()
        if k < 0.22:
            return self.classical_decl()
        if k < 0.30:
            return self.gate_call()
        if k < 0.40:
            return self.assignment()
        if k < 0.47:
            return self.quantum_decl()
        if k < 0.51:
            return self.misc_quantum()
        if k < 0.56:
            return self.gate_call()
        if k < 0.60 and not simple:
            return self.if_stmt(in_def)
        if k < 0.63 and not simple:
            return self.for_stmt(in_def)
        if k < 0.655 and not simple:
            return self.while_stmt(in_def)
        if k < 0.68 and not simple:
            return self.switch_stmt(in_def)
        if k < 0.72:
            return (self.gate_def() if self.p(0.5) else self.def_def()) if (not nested or self.p(0.15)) \
                else self.gate_call()
        if k < 0.76:
            return self.alias()
        if k < 0.79:
            return self.ch(["break;", "continue;", "end;"])
        if k < 0.83:
            if in_def or self.p(0.3):
                return "return" + ((" " + self.expr(1)) if self.p(0.7) else "") + ";"
            return self.expr(1) + ";"
        if k < 0.86:
            return self.io_decl()
        if k < 0.88:
            return self.array_decl()
        if k < 0.91:
            return self.expr(1) + ";"
        if k < 0.94 and not simple:
            txt = self.ch(["foo bar", "", " x y z", "a.b.c 1"])
            return self.ch(["pragma " + txt, "#pragma " + txt]) + "\n"
        if k < 0.965 and not simple:
            ann = "@" + self.ch(["bind", "reversible", "crosstalk a b", "x.y"]) + "\n"
            return ann + self.stmt(nested, in_def, in_gate, simple=True)
        if k < 0.985:
            return self.rare_stmt()
        return self.misc_quantum()

    def program(self):
        r = self.r
        parts = []
        if self.p(0.15):
            parts.append(self.ch(["OPENQASM 3.0;", "OPENQASM 3;", "OPENQASM 3.1;"]))
        if self.p(0.55):
            parts.append('include "stdgates.inc";')
            self.stdgates = True
        # a useful prelude so that later statements have something to refer to
        if self.p(0.7):
            parts.append(self.quantum_decl())
        if self.p(0.5):
            parts.append(self.quantum_decl())
        if self.p(0.5):
            parts.append(self.classical_decl())
        if self.p(0.35):
            parts.append(self.def_def())
        if self.p(0.3):
            parts.append(self.gate_def())
        n = r.choice([1, 2, 3, 4, 5, 6, 8, 10])
        for _ in range(n):
            parts.append(self.stmt())
        if self.p(0.03):
            parts.insert(r.randint(0, len(parts)), 'include "stdgates.inc";')
        sep = self.ch([" ", "\n", "\n  ", " /* c */ ", " // c\n"]) if self.p(0.3) else "\n"
        return sep.join(parts) + ("\n" if self.p(0.5) else "")


def gen_programs(seed: int, n: int) -> list:
    out = []
    master = random.Random(seed)
    for _ in range(n):
        rnd = random.Random(master.getrandbits(64))
        out.append(Gen(rnd).program())
    return out


# ---------------------------------------------------------------- systematic tables (C08/C09)

def table_programs() -> list:
    """declarations of every scalar type x width x const x initializer class, and the same for
    assignments; deterministic, no randomness"""
    out = []
    inits = ["340282366920938463463374607431768211455", "170141183460469231731687303715884105728", "18446744073709551616",
             "1", "-1", "0x10", "1.5", "-1.5", "2im", "2.5im", "-2im", "-2.5im", "3ns", "1.5us", "true", '"0101"',
             "b", "k", "b + 1", "b * 2.0", "b / 2", "k + k", "float[32](b)", "int[8](b)", "uint(1)", "bool(b)",
             "f(1)", "measure q", "measure qq", "u", "fl", "cp", "an", "bt", "dd", "b == 1", "b ++ b", "-b", "(1)"]
    types = []
    for t in SCALARS:
        for w in WIDTHS:
            if t in ("bool", "duration", "stretch") and w is not None:
                continue
            if t == "complex":
                types.append("complex" if w is None else f"complex[float[{w}]]")
            else:
                types.append(t if w is None else f"{t}[{w}]")
    pre = ("qubit q; qubit[4] qq; int[32] b = 2; const int[32] k = 3; uint[8] u = 1; float[64] fl = 1.0; "
           "complex[float[64]] cp = 1.0im; angle[8] an; bit[4] bt = \"0101\"; duration dd = 1ns; "
           "def f(int[32] z) -> int[32] { return z; }\n")
    for t in types:
        for c in ("", "const "):
            for i in inits:
                out.append(pre + f"{c}{t} x = {i};")
            out.append(pre + f"{c}{t} x;")
        for i in inits:
            rhs = i if not any(op in i for op in [" + ", " * ", " / ", " == ", " ++ "]) else "(" + i + ")"
            out.append(pre + f"{t} x; x = {rhs};")
            out.append(pre + f"const {t} x = 1; x = {rhs};")
    for w in [1, 2, 31, 32, 63, 64, 2**31, 2**32 - 1, 2**32, 2**32 + 1, 2**33]:
        for t in ["int", "uint", "float", "angle", "bit", "qubit"]:
            out.append(f"{t}[{w}] x;")
            out.append(f"const int n = {w}; {t}[n] x;")
            out.append(f"def f({t}[{w}] p) {{ }}")
        out.append(f"complex[float[{w}]] x;")
        out.append(f"for int[{w}] i in [0:1] {{ }}")
        out.append(f"input int[{w}] x; output uint[{w}] y;")
    return out


if __name__ == "__main__":
    import sys
    seed = int(sys.argv[1]) if len(sys.argv) > 1 else 0
    n = int(sys.argv[2]) if len(sys.argv) > 2 else 5
    for p in gen_programs(seed, n):
        print(p)
        print("---")
