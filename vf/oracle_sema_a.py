"""Oracles for C03, C07 and C13 on the implementation's own output (interfaces I5 and I6).

Pure Python 3, no dependencies, and INDEPENDENT of the Lean model: the rules below are re-derived
from the property texts (/verif/properties.jsonl) and the OpenQASM 3 scoping rules, not from
`Oq3/Model/Sema.lean`.

    check(src, ast_line, sema_line) -> [(property_id, check_name, detail), ...]   # violations only

* `ast_line`  : output of `oq3-run ast`  (I5, the typed AST as the accessors present it)
* `sema_line` : output of `oq3-run sema` (I6, ASG + symbols + diagnostics + depth + gates)

C03  no panic; exactly the global scope open at the end.
C07  lexical scoping recomputed with a plain stack of dicts over the I5 tree, walked in parallel
     with the I6 graph: every symbol reference must be the id of the innermost preceding
     declaration (same id iff same declaration, ids index `symbols=` entries with the name as
     written), undeclared uses are `err:MissingBinding`, typed `Undefined`, reported exactly once,
     duplicates are `err:AlreadyBound` + RedeclarationError, shadowing is silent.
C13  the usage rules (gate arity, not-a-gate, operand kind, quantum binop, def arity, const
     mutation, global-scope rules, delay) recomputed from the tree and the types in `symbols=`,
     compared as multisets of kind@span with the corresponding diagnostics in `errors=`.

`GUARDS` maps known-finding ids to predicates over (src, ast_line, sema_line); the orchestrator
attributes a reported violation to a known finding only if the guard of that finding holds.
The S-expression helpers (`parse_sexp`, `decode_str`, `span`, `kind`, `parse_sema_line`, `iter_nodes`)
are reusable by other oracle files.
"""
import re
from collections import Counter

# ------------------------------------------------------------------ S-expressions

def parse_sexp(text):
    """'(A 1 (B x))' -> ['A', '1', ['B', 'x']]; atoms are str, lists are list"""
    toks = re.findall(r"\(|\)|[^\s()]+", text)
    pos = 0

    def rd():
        nonlocal pos
        t = toks[pos]
        pos += 1
        if t == "(":
            out = []
            while toks[pos] != ")":
                out.append(rd())
            pos += 1
            return out
        if t == ")":
            raise ValueError("unexpected )")
        return t
    v = rd()
    if pos != len(toks):
        raise ValueError("trailing tokens")
    return v


def decode_str(atom):
    """x61.62 -> 'ab'; x -> ''"""
    assert atom.startswith("x"), atom
    body = atom[1:]
    return "" if body == "" else "".join(chr(int(h, 16)) for h in body.split("."))


def kind(n):
    return n[0] if isinstance(n, list) and n else n


def span(n):
    return (int(n[1]), int(n[2]))


def is_none(n):
    return n == "_"


def iter_nodes(n):
    """all list nodes of an S-expression, pre-order"""
    if isinstance(n, list):
        yield n
        for c in n:
            yield from iter_nodes(c)


def parse_sema_line(line):
    """-> dict(status='ok'|'panic'|'syntax'|'include'|..., and for ok: asg, symbols, errors, depth, gates)"""
    if line.startswith("PANIC"):
        m = re.match(r"PANIC (\S+) ?(.*)", line)
        return {"status": "panic", "site": m.group(1), "msg": m.group(2)}
    if line.startswith("SYNTAX-ERRORS"):
        return {"status": "syntax"}
    if line.startswith("UNSUPPORTED-INCLUDE"):
        return {"status": "include"}
    if not line.startswith("asg="):
        return {"status": "other", "text": line}
    m = re.match(r"asg=(.*);symbols=(.*);errors=(.*);depth=(\d+);gates=(.*)$", line)
    asg = parse_sexp(m.group(1))
    symbols = []
    for ent in filter(None, m.group(2).split(",")):
        i, nm, ty = ent.split(":", 2)
        symbols.append((int(i), decode_str(nm), ty))
    errors = []
    for ent in filter(None, m.group(3).split(",")):
        k, r = ent.split("@")
        a, b = r.split("-")
        errors.append((k, int(a), int(b)))
    gates = [tuple(g.split(":")) for g in filter(None, m.group(5).split(","))]
    return {"status": "ok", "asg": asg, "symbols": symbols, "errors": errors,
            "depth": int(m.group(4)), "gates": gates}


# ------------------------------------------------------------------ language constants (the spec)

BUILTIN_CONSTS = ["pi", "π", "euler", "ℇ", "tau", "τ"]
STDGATES = (["x", "y", "z", "h", "s", "sdg", "t", "tdg", "sx", "id"] + ["p", "rx", "ry", "rz", "phase", "u1"] +
            ["u2", "u3"] + ["cx", "cy", "cz", "ch", "swap", "CX"] + ["cp", "crx", "cry", "crz", "cphase"] +
            ["cu"] + ["ccx", "cswap"])
SCOPING_KINDS = ("UndefVarError", "UndefGateError", "RedeclarationError")
USAGE_KINDS = ("NumGateParamsError", "NumGateQubitsError", "NumDefParamsError", "MutateConstError",
               "NotInGlobalScopeError", "ReturnInGlobalScopeError")


class Align(Exception):
    """the I5 tree and the I6 graph could not be walked in parallel (oracle limitation, reported)"""


class Decl:
    __slots__ = ("name", "id", "what", "arity")

    def __init__(self, name, what):
        self.name, self.id, self.what, self.arity = name, None, what, None


def type_is_quantum(ty):
    return ty == "Qubit" or ty == "HardwareQubit" or ty.startswith("QubitArray")


def type_is_const(ty):
    """constness as declared: scalar types carry a c/n flag; everything else has no flag"""
    return ty.endswith("_c")


def type_has_const_flag(ty):
    return ty.endswith("_c") or ty.endswith("_n")


class Walker:
    def __init__(self, sema):
        self.symbols = {i: (n, t) for i, n, t in sema["symbols"]}
        self.viol = []
        self.exp = Counter()          # expected (kind, start, end) for scoping + usage kinds
        self.itypes_anchor = set()    # spans at which an IncompatibleTypesError is a usage diagnostic
        self.exp_itypes = Counter()
        self.scopes = [{}]
        self.scope_kinds = ["global"]
        self.id_owner = {}
        self.ctrl_qubit_spans = set()  # NumGateQubitsError anchors of ctrl/negctrl calls (rule excluded)
        for n in BUILTIN_CONSTS:
            self.scopes[0][n] = Decl(n, "const")
        self.scopes[0]["U"] = Decl("U", "gate")

    # ---------------------------------------------------------------- scoping spec
    def v(self, prop, name, detail):
        self.viol.append((prop, name, detail))

    def push(self, k):
        self.scopes.append({}); self.scope_kinds.append(k)

    def pop(self):
        self.scopes.pop(); self.scope_kinds.pop()

    def lookup(self, name):
        for sc in reversed(self.scopes):
            if name in sc:
                return sc[name]
        return None

    def observe(self, decl, sym, where):
        """`sym` is the reference found in the graph for declaration `decl`"""
        if not sym.startswith("ok:"):
            self.v("C07", "resolves_to_declaration", f"{decl.name}@{where}: expected ok:<id>, graph has {sym}")
            return
        i = int(sym[3:])
        if decl.id is None:
            decl.id = i
            other = self.id_owner.get(i)
            if other is not None and other is not decl:
                self.v("C07", "same_id_iff_same_declaration", f"id {i} used for two declarations of "
                       f"{other.name}/{decl.name} @{where}")
            self.id_owner[i] = decl
        elif decl.id != i:
            self.v("C07", "resolves_to_innermost_declaration",
                   f"{decl.name}@{where}: graph has ok:{i}, innermost preceding declaration is ok:{decl.id}")
        ent = self.symbols.get(i)
        if ent is None or ent[0] != decl.name:
            self.v("C07", "ids_name_correct", f"ok:{i} @{where} is {ent}, identifier written {decl.name!r}")

    def declare(self, name, what, err_span, sym, where=None):
        cur = self.scopes[-1]
        if name in cur:
            self.exp[("RedeclarationError",) + err_span] += 1
            if sym is not None and sym != "err:AlreadyBound":
                self.v("C07", "redeclaration_marked", f"{name}@{err_span}: graph has {sym}")
            return cur[name]
        d = Decl(name, what)
        cur[name] = d
        if sym is not None:
            self.observe(d, sym, where or err_span)
        return d

    def use(self, name, err_span, sym, gate=False, ty=None):
        d = self.lookup(name)
        if d is None:
            self.exp[("UndefGateError" if gate else "UndefVarError",) + err_span] += 1
            if sym is not None and sym != "err:MissingBinding":
                self.v("C07", "undeclared_marked", f"{name}@{err_span}: graph has {sym}")
            if ty is not None and ty != "Undefined":
                self.v("C07", "undeclared_typed_undefined", f"{name}@{err_span}: type {ty}")
            return None
        if sym is not None:
            self.observe(d, sym, err_span)
        return d

    def decl_type(self, d):
        if d is None or d.id is None:
            return "Undefined"
        return self.symbols.get(d.id, (None, "Undefined"))[1]

    # ---------------------------------------------------------------- helpers on the two trees
    @staticmethod
    def texpr(t):
        if not (isinstance(t, list) and len(t) == 3 and t[0] == "T"):
            raise Align(f"TExpr expected: {str(t)[:80]}")
        return t[1], t[2]

    @staticmethod
    def strip_parens(a):
        while kind(a) == "ParenExpr":
            a = a[3]
            if is_none(a):
                raise Align("empty parentheses")
        return a

    def cast_depth_ast(self, a):
        d = 0
        a = self.strip_parens(a)
        while kind(a) == "CastExpression":
            d += 1
            if is_none(a[4]):
                break
            a = self.strip_parens(a[4])
        return d

    def cast_depth_asg(self, t):
        d = 0
        while kind(t[2]) == "Cast":
            d += 1
            t = t[2][2]
        return d

    # ---------------------------------------------------------------- types / designators
    def scalar_type(self, st):
        if is_none(st):
            return
        _, _, _, _k, desig, inner = st
        d = desig
        if not is_none(inner):
            d = inner[4]
        if not is_none(d) and not is_none(d[3]):
            e = d[3]
            if kind(e) == "Identifier":
                self.use(decode_str(e[3]), span(e), None)

    # ---------------------------------------------------------------- expressions
    def expr(self, a, t):
        """walk AST expression `a` against graph TExpr `t`; returns the type of the expression itself
        (before any cast the analyser inserted above it)"""
        a = self.strip_parens(a)
        extra = self.cast_depth_asg(t) - self.cast_depth_ast(a)
        if extra not in (0, 1):
            raise Align(f"cast depth mismatch {extra}")
        if extra == 1:
            t = t[2][2]
        ty, e = self.texpr(t)
        k = kind(a)
        if k == "PrefixExpr":
            op, operand = a[3], a[4]
            if op == "Neg" and kind(operand) in ("Literal", "TimingLiteral"):
                if kind(e) != "Lit":
                    raise Align("negated literal")
                return ty
            if kind(e) != "Un":
                raise Align("unary")
            self.expr(operand, e[2])
            return ty
        if k == "BinExpr":
            if kind(e) != "Bin":
                raise Align("binary")
            lt = self.expr(a[4], e[2])
            rt = self.expr(a[5], e[3])
            for side, sty in ((a[4], lt), (a[5], rt)):
                sp_ = span(side)
                self.itypes_anchor.add(sp_)
                if type_is_quantum(sty):
                    self.exp_itypes[sp_] += 1
            return ty
        if k in ("Literal", "TimingLiteral"):
            if kind(e) != "Lit":
                raise Align("literal")
            return ty
        if k == "Identifier":
            if kind(e) != "Ident":
                raise Align("identifier")
            self.use(decode_str(a[3]), span(a), e[1], ty=ty)
            return ty
        if k == "HardwareQubit":
            if kind(e) != "HwQubit":
                raise Align("hardware qubit")
            return ty
        if k == "RangeExpr":
            if kind(e) != "Range":
                raise Align("range")
            self.range_expr(a, e)
            return ty
        if k == "IndexExpr":
            if kind(e) != "IndexExpr":
                raise Align("index expr")
            self.expr(a[3], e[1])
            self.index_op(a[4], e[2])
            return ty
        if k == "IndexedIdentifier":
            if kind(e) != "IndexedIdent":
                raise Align("indexed identifier")
            self.indexed_identifier(a, e)
            return ty
        if k == "MeasureExpression":
            if kind(e) != "Measure":
                raise Align("measure")
            self.gate_operand(a[3], e[1])
            return ty
        if k == "ReturnExpr":
            if kind(e) != "Return":
                raise Align("return")
            if not is_none(a[3]):
                self.expr(a[3], e[1])
            if self.scope_kinds[-1] == "global":
                self.exp[("ReturnInGlobalScopeError",) + span(a)] += 1
            return ty
        if k == "CastExpression":
            if kind(e) != "Cast":
                raise Align("cast")
            self.scalar_type(a[3])
            self.expr(a[4], e[2])
            return ty
        if k == "CallExpr":
            if kind(e) != "Call":
                raise Align("call")
            al, ident = a[3], a[4]
            nargs = 0
            if not is_none(al):
                el = al[3]
                args = [] if is_none(el) else el[3]
                nargs = len(args)
                if is_none(e[2]) or len(e[2]) != nargs:
                    raise Align("call args")
                for x, y in zip(args, e[2]):
                    self.expr(x, y)
            d = self.use(decode_str(ident[3]), span(ident), e[1])
            dty = self.decl_type(d)
            m = re.match(r"Sub_(\d+)_", dty)
            if m and int(m.group(1)) != nargs and not is_none(al):
                self.exp[("NumDefParamsError",) + span(al)] += 1
            return ty
        raise Align(f"expression kind {k}")

    def range_expr(self, a, e):
        # AST (RangeExpr s e start step stop) ; graph (Range start step|_ stop)
        self.expr(a[3], e[1])
        self.expr(a[5], e[3])
        if not is_none(a[4]):
            self.expr(a[4], e[2])

    def expr_list(self, el, ts):
        xs = el[3]
        if len(xs) != len(ts):
            raise Align("expression list length")
        for x, y in zip(xs, ts):
            self.expr(x, y)

    def index_op(self, a, g):
        k = a[3]
        if kind(k) == "SetExpression":
            if kind(g) != "IxSet":
                raise Align("index set")
            self.expr_list(k[3], g[1])
        else:
            if kind(g) != "IxList":
                raise Align("index list")
            self.expr_list(k, g[1])

    def indexed_identifier(self, a, g):
        # a = (IndexedIdentifier s e ident (ops)); g = (IndexedIdent sym (ix...))
        d = self.use(decode_str(a[3][3]), span(a), g[1])
        if len(a[4]) != len(g[2]):
            raise Align("index operators")
        for x, y in zip(a[4], g[2]):
            self.index_op(x, y)
        return d

    def gate_operand(self, a, t):
        ty, e = self.texpr(t)
        if kind(e) != "GateOperand":
            raise Align("gate operand")
        go = e[1]
        sp_ = span(a)
        self.itypes_anchor.add(sp_)
        if kind(a) == "HardwareQubit":
            if kind(go) != "GoHw":
                raise Align("hw operand")
            return
        if kind(a) == "Identifier":
            if kind(go) != "GoIdent":
                raise Align("ident operand")
            d = self.use(decode_str(a[3]), sp_, go[1], ty=ty)
            if not type_is_quantum(self.decl_type(d)):
                self.exp_itypes[sp_] += 1
            return
        if kind(go) != "GoIndexed":
            raise Align("indexed operand")
        d = self.indexed_identifier(a, go[1])
        dty = self.decl_type(d)
        if not type_is_quantum(dty):
            self.exp_itypes[sp_] += 1
        elif not dty.startswith("QubitArray"):
            # indexing a scalar qubit: quantum, so the property does not ask for a diagnostic
            self.indexed_scalar_qubit = True

    def qubit_list(self, ql, ts):
        ops = ql[3]
        if len(ops) != len(ts):
            raise Align("qubit list")
        for x, y in zip(ops, ts):
            self.gate_operand(x, y)

    # ---------------------------------------------------------------- statements
    def gate_call(self, gc, g, mods_ast):
        # gc = (GateCallExpr s e ql al ident); g = (GateCall sym params|_ (ops) (mods))
        ql, al, ident = gc[3], gc[4], gc[5]
        self.qubit_list(ql, g[3])
        nparams = 0
        if not is_none(al):
            el = al[3]
            if is_none(g[2]):
                raise Align("gate params")
            self.expr_list(el, g[2])
            nparams = len(el[3])
        d = self.use(decode_str(ident[3]), span(ident), g[1], gate=True)
        self.itypes_anchor.add(span(ident))
        dty = self.decl_type(d)
        m = re.match(r"Gate_(\d+)_(\d+)$", dty)
        nq = len(ql[3])
        has_ctrl = any(kind(x) in ("CtrlModifier", "NegCtrlModifier") for x in mods_ast)
        if m:
            np_, nq_ = int(m.group(1)), int(m.group(2))
            if getattr(d, "arity", None) is not None:
                np_, nq_ = d.arity
            if np_ != nparams:
                self.exp[("NumGateParamsError",) + (span(al) if nparams != 0 else span(ident))] += 1
            if has_ctrl:
                self.ctrl_qubit_spans.add(span(ql) if nq else span(gc))
            elif nq_ != nq:
                self.exp[("NumGateQubitsError",) + (span(ql) if nq else span(gc))] += 1
        elif d is not None and d.id is not None:
            self.exp_itypes[span(ident)] += 1

    def modifiers(self, ms, gs):
        if len(ms) != len(gs):
            raise Align("modifiers")
        for m, g in zip(ms, gs):
            k = kind(m)
            if k == "InvModifier":
                continue
            pe = m[3]
            if k == "PowModifier":
                self.expr(pe, g[1])
            elif not is_none(pe):
                if is_none(g[1]):
                    raise Align("ctrl modifier")
                self.expr(pe, g[1])

    def block_stmts(self, stmts, gs):
        """AST statement list against graph statement list (statements that yield nothing dropped)"""
        gi = 0
        for st in stmts:
            if self.yields_nothing(st):
                self.stmt(st, None)
            else:
                if gi >= len(gs):
                    raise Align("statement list shorter in graph")
                self.stmt(st, gs[gi]); gi += 1
        if gi != len(gs):
            raise Align("statement list longer in graph")

    def yields_nothing(self, st):
        return kind(st) in ("AnnotationStatement", "VersionString", "Include")

    def bos(self, b, g):
        # g = (Block (stmts))
        if kind(g) != "Block":
            raise Align("block")
        if kind(b) == "BosBlock":
            self.block_stmts(b[1][3], g[1])
        else:
            if len(g[1]) != 1:
                raise Align("single statement body")
            self.stmt(b[1], g[1][0])

    def stmt(self, a, g):
        k = kind(a)
        if k == "AnnotationStatement" or k == "VersionString":
            return
        if k == "Include":
            return   # nested include: IncludeNotInGlobalScopeError only; top-level handled by program()
        if kind(g) == "Annotated":
            g = g[1]
        gk = kind(g)
        if k == "IfStmt":
            if gk != "If":
                raise Align("if")
            self.expr(a[3], g[1])
            self.push("local"); self.bos(a[4], g[2]); self.pop()
            self.push("local")
            if not is_none(a[5]):
                self.bos(a[5], g[3])
            self.pop()
        elif k == "WhileStmt":
            if gk != "While":
                raise Align("while")
            self.expr(a[3], g[1])
            self.push("local"); self.bos(a[4], g[2]); self.pop()
        elif k == "ForStmt":
            if gk != "ForStmt":
                raise Align("for")
            name, st, it, body = a[3], a[4], a[5], a[6]
            self.scalar_type(st)
            gi = g[2]
            if not is_none(it[3]):
                if kind(gi) != "IterSet":
                    raise Align("for set")
                self.expr_list(it[3][3], gi[1][1])
            elif not is_none(it[4]):
                if kind(gi) != "IterRange":
                    raise Align("for range")
                self.range_expr(it[4], gi[1])
            else:
                if kind(gi) != "IterExpr":
                    raise Align("for expr")
                self.expr(it[5], gi[1])
            self.push("local")
            self.declare(decode_str(name[3]), "var", span(name), g[1])
            self.bos(body, g[3])
            self.pop()
        elif k == "SwitchCaseStmt":
            if gk != "SwitchCase":
                raise Align("switch")
            self.expr(a[3], g[1])
            if len(a[4]) != len(g[2]):
                raise Align("cases")
            for c, gc in zip(a[4], g[2]):
                self.expr_list(c[3], gc[1])
                self.push("local"); self.block_stmts(c[4][3], gc[2]); self.pop()
            self.push("local")
            if not is_none(a[5]):
                self.block_stmts(a[5][3], g[3])
            self.pop()
        elif k == "ClassicalDeclarationStatement":
            if gk != "DeclareClassical":
                raise Align("classical declaration")
            is_array, st, _c, name, init = a[3], a[4], a[5], a[6], a[7]
            if is_array == "1":
                self.array_decl_nonglobal = self.scope_kinds[-1] != "global"
                if self.scope_kinds[-1] != "global":
                    self.exp_array_notglobal[span(a)] += 1
            self.scalar_type(st)
            if not is_none(init):
                if is_none(g[2]):
                    raise Align("initializer")
                self.expr(init, g[2])                      # initializer first …
            self.declare(decode_str(name[3]), "var", span(a), g[1])   # … then the name is bound
        elif k == "IODeclarationStatement":
            if gk not in ("InputDeclaration", "OutputDeclaration"):
                raise Align("io declaration")
            self.scalar_type(a[4])
            self.declare(decode_str(a[5][3]), "var", span(a[5]), g[1])
        elif k == "QuantumDeclarationStatement":
            if self.scope_kinds[-1] != "global":
                self.exp[("NotInGlobalScopeError",) + span(a)] += 1
            if is_none(a[3]):
                if gk != "DeclareHardwareQubit":
                    raise Align("hardware qubit declaration")
                return
            if gk != "DeclareQuantum":
                raise Align("quantum declaration")
            qt = a[5]
            if not is_none(qt) and not is_none(qt[3]) and not is_none(qt[3][3]) and kind(qt[3][3]) == "Identifier":
                self.use(decode_str(qt[3][3][3]), span(qt[3][3]), None)
            self.declare(decode_str(a[3][3]), "qubit", span(a), g[1])
        elif k == "AssignmentStmt":
            if gk != "Assignment":
                raise Align("assignment")
            ident, rhs, ii = a[3], a[4], a[5]
            lv = g[1]
            if not is_none(ident):
                if kind(lv) != "LIdent":
                    raise Align("lvalue")
                self.expr(rhs, g[2])
                d = self.use(decode_str(ident[3]), span(ident), lv[1])
                dty = self.decl_type(d)
                if d is not None and d.id is not None:
                    if type_is_const(dty):
                        self.exp[("MutateConstError",) + span(a)] += 1
                    elif not type_has_const_flag(dty):
                        self.assign_to_flagless.add(span(a))
            else:
                if kind(lv) != "LIndexed":
                    raise Align("indexed lvalue")
                d = self.indexed_identifier(ii, lv[1])
                self.expr(rhs, g[2])
                if d is not None and d.id is not None and type_is_const(self.decl_type(d)):
                    self.exp[("MutateConstError",) + span(a)] += 1
                    self.indexed_const_assign = True
        elif k in ("BreakStmt", "ContinueStmt", "EndStmt", "PragmaStatement"):
            pass
        elif k == "Gate":
            if gk != "GateDefinition":
                raise Align("gate definition")
            name, ap, qp, body = a[3], a[4], a[5], a[6]
            if self.scope_kinds[-1] != "global":
                self.exp[("NotInGlobalScopeError",) + span(name)] += 1
            self.push("subroutine")
            if not is_none(ap):
                if is_none(g[2]) or len(ap[3]) != len(g[2]):
                    raise Align("gate params")
                for p, s_ in zip(ap[3], g[2]):
                    self.declare(decode_str(p[3]), "const", span(p), s_)
            if not is_none(qp):
                if len(qp[3]) != len(g[3]):
                    raise Align("gate qubits")
                for p, s_ in zip(qp[3], g[3]):
                    self.declare(decode_str(p[3]), "qubit", span(p), s_)
            self.block_stmts(body[3], g[4][1])
            self.pop()
            fresh = decode_str(name[3]) not in self.scopes[-1]
            gd = self.declare(decode_str(name[3]), "gate", span(name), g[1])
            if fresh and gd is not None and gd.what == "gate" and gd.arity is None:
                # the arity that was WRITTEN (repeated parameter names included): the usage rule compares calls with it,
                # not with whatever the table recorded
                gd.arity = (0 if is_none(ap) else len(ap[3]), 0 if is_none(qp) else len(qp[3]))
        elif k == "Def":
            if gk != "DefStmt":
                raise Align("def")
            name, tpl, body, rs = a[3], a[4], a[5], a[6]
            if self.scope_kinds[-1] != "global":
                self.exp[("NotInGlobalScopeError",) + span(name)] += 1
            self.push("subroutine")
            tps = [] if is_none(tpl) else tpl[3]
            if len(tps) != len(g[2]):
                raise Align("def params")
            for p, s_ in zip(tps, g[2]):
                pt = p[3]
                if not is_none(pt) and kind(pt) == "ScalarType":
                    self.scalar_type(pt)
                self.declare(decode_str(p[5][3]), "var", span(p), s_)
            self.block_stmts(body[3], g[3][1])
            self.pop()
            if not is_none(rs):
                self.scalar_type(rs[3])
            self.declare(decode_str(name[3]), "def", span(name), g[1])
        elif k == "Barrier":
            if gk != "Barrier":
                raise Align("barrier")
            self.qubit_list(a[3], g[1])
        elif k == "DelayStmt":
            if gk != "Delay":
                raise Align("delay")
            self.qubit_list(a[3], g[2])
            des = a[4]
            dty = self.expr(des[3], g[1])
            self.itypes_anchor.add(span(des))
            if not dty.startswith("Duration"):
                self.exp_itypes[span(des)] += 1
        elif k == "Reset":
            if gk != "Reset":
                raise Align("reset")
            self.gate_operand(a[3], g[1])
        elif k == "ExprStmt":
            e = a[3]
            ek = kind(e)
            if ek == "GateCallExpr":
                if gk != "GateCall":
                    raise Align("gate call")
                self.gate_call(e, g, [])
            elif ek == "ModifiedGateCallExpr":
                mods, gc, gp = e[3], e[4], e[5]
                if not is_none(gc):
                    if gk != "GateCall":
                        raise Align("modified gate call")
                    self.modifiers(mods, g[4])
                    self.gate_call(gc, g, mods)
                else:
                    if gk != "ModifiedGPhaseCall":
                        raise Align("modified gphase")
                    self.modifiers(mods, g[2])
                    self.expr(gp[3], g[1])
            elif ek == "GPhaseCallExpr":
                if gk != "GPhaseCall":
                    raise Align("gphase")
                self.expr(e[3], g[1])
            else:
                if gk != "ExprStmt":
                    raise Align("expression statement")
                self.expr(e, g[1])
        elif k == "AliasDeclarationStatement":
            if gk != "Alias":
                raise Align("alias")
            self.expr(a[4], g[2])
            self.declare(decode_str(a[3][3]), "alias", span(a), g[1])
        elif k in ("OldStyleDeclarationStatement", "DefCal", "Cal", "DefCalGrammar", "LetStmt", "Measure",
                   "ExternStmt"):
            if gk != "NullStmt":
                raise Align("not-implemented statement")
        else:
            raise Align(f"statement kind {k}")

    def program(self, ast, asg):
        self.exp_array_notglobal = Counter()
        self.assign_to_flagless = set()
        self.indexed_const_assign = False
        self.indexed_scalar_qubit = False
        gi = 0
        for st in ast[3]:
            if kind(st) == "Include":
                fp = st[3]
                if not is_none(fp) and not is_none(fp[3]) and decode_str(fp[3]) == "stdgates.inc":
                    for n in STDGATES:
                        self.declare(n, "gate", span(st), None)
                continue
            if self.yields_nothing(st):
                continue
            if gi >= len(asg):
                raise Align("program shorter in graph")
            self.stmt(st, asg[gi]); gi += 1
        if gi != len(asg):
            raise Align("program longer in graph")


# ------------------------------------------------------------------ the check

def check(src, ast_line, sema_line):
    out = []
    sema = parse_sema_line(sema_line)
    if sema["status"] == "panic":
        out.append(("C03", "no_panic", f"{sema['site']} {sema['msg'][:80]}"))
        return out
    if sema["status"] != "ok":
        return out
    if sema["depth"] != 1:
        out.append(("C03", "scope_balanced", f"depth={sema['depth']}"))
    if not ast_line.startswith("(Program"):
        return out
    ast = parse_sexp(ast_line)
    w = Walker(sema)
    try:
        w.program(ast, sema["asg"])
    except Align as ex:
        out.append(("ORACLE", "align", str(ex)))
        return out
    except (IndexError, TypeError, ValueError, AssertionError) as ex:
        out.append(("ORACLE", "align", f"{type(ex).__name__}: {ex}"))
        return out
    out += w.viol
    actual = Counter((k, a, b) for k, a, b in sema["errors"])
    # C07: scoping diagnostics, as multisets of kind@span
    for kd in SCOPING_KINDS:
        e = Counter({x: c for x, c in w.exp.items() if x[0] == kd})
        a = Counter({x: c for x, c in actual.items() if x[0] == kd})
        for x in (e - a):
            out.append(("C07", "diagnostic_missing", f"{x[0]}@{x[1]}-{x[2]} x{(e - a)[x]}"))
        for x in (a - e):
            out.append(("C07", "diagnostic_spurious", f"{x[0]}@{x[1]}-{x[2]} x{(a - e)[x]}"))
    # C07: reported exactly once (a use is one node; the same diagnostic twice at one span means the
    # node was analysed twice)
    for x, c in actual.items():
        if x[0] in ("UndefVarError", "UndefGateError") and c > 1:
            out.append(("C07", "undeclared_once", f"{x[0]}@{x[1]}-{x[2]} reported {c} times"))
    # C13: usage diagnostics
    for kd in USAGE_KINDS:
        e = Counter({x: c for x, c in w.exp.items() if x[0] == kd})
        a = Counter({x: c for x, c in actual.items() if x[0] == kd})
        if kd == "NumGateQubitsError":
            a = Counter({x: c for x, c in a.items() if (x[1], x[2]) not in w.ctrl_qubit_spans})
        if kd == "NotInGlobalScopeError":
            e = e + Counter({("NotInGlobalScopeError",) + sp_: c for sp_, c in w.exp_array_notglobal.items()})
        for x in (e - a):
            out.append(("C13", "diagnostic_missing", f"{x[0]}@{x[1]}-{x[2]} x{(e - a)[x]}"))
        for x in (a - e):
            out.append(("C13", "diagnostic_spurious", f"{x[0]}@{x[1]}-{x[2]} x{(a - e)[x]}"))
    e = Counter({("IncompatibleTypesError",) + sp_: c for sp_, c in w.exp_itypes.items()})
    a = Counter({x: c for x, c in actual.items()
                 if x[0] == "IncompatibleTypesError" and (x[1], x[2]) in w.itypes_anchor})
    for x in (e - a):
        out.append(("C13", "diagnostic_missing", f"{x[0]}@{x[1]}-{x[2]} x{(e - a)[x]}"))
    for x in (a - e):
        out.append(("C13", "diagnostic_spurious", f"{x[0]}@{x[1]}-{x[2]} x{(a - e)[x]}"))
    return out


# ------------------------------------------------------------------ guards of known findings

def _ast(ast_line):
    try:
        return parse_sexp(ast_line) if ast_line.startswith("(Program") else None
    except (ValueError, IndexError):
        return None


def _any_node(ast_line, pred):
    t = _ast(ast_line)
    return t is not None and any(pred(n) for n in iter_nodes(t))


def _panic_in(sema_line, *needles):
    return sema_line.startswith("PANIC") and any(n in sema_line for n in needles)


def guard_F07(src, ast_line, sema_line):
    """an if statement with an else branch in which a branch is a single statement (not a block):
    the accessors return the first statement child for both branches"""
    def p(n):
        return kind(n) == "IfStmt" and len(n) == 6 and not is_none(n[5]) and \
            (kind(n[4]) == "BosStmt" or kind(n[5]) == "BosStmt")
    return _any_node(ast_line, p)


def guard_F13(src, ast_line, sema_line):
    """a redeclaration whose initializer keeps a const type: declare_classical_helper unwraps"""
    return _panic_in(sema_line, "AlreadyBound")


def guard_F14(src, ast_line, sema_line):
    """designator that is an identifier without a recorded const value, or a non-literal expression"""
    return sema_line.startswith("PANIC") and _site_fn(sema_line) in ("1197", "1209", "1210", "1224")


def guard_F15(src, ast_line, sema_line):
    return _panic_in(sema_line, "expected Type::Def variant") or \
        (sema_line.startswith("PANIC") and _site_fn(sema_line) == "931")


def _site_fn(sema_line):
    m = re.match(r"PANIC \S+?:(\d+)", sema_line)
    return m.group(1) if m else ""


def guard_unsupported(src, ast_line, sema_line):
    """explicit panic!/todo! arms for unsupported operators, literals and expression kinds"""
    return _panic_in(sema_line, "not supported", "unsupported", "Unsupported", "Only integers", "Only floats",
                     "bug in oq3_parser", "bug in oq3_syntax", "Array types are not supported")


def guard_missing_child(src, ast_line, sema_line):
    """unwrap() of an accessor / literal value that is None on a syntax-error-free tree
    (`barrier;`, `gphase();`, `a = 1; -c;`, 2^128 literals, `if (c) ;`, statement bodies that yield
    nothing, `include` with a bad escape)"""
    return _panic_in(sema_line, "called `Option::unwrap()` on a `None` value", "Error in oq3_syntax")


def guard_pre_sema(src, ast_line, sema_line):
    """panic in the lexer/parser/validation layers (C01 domain), e.g. F03 `delay q;`, F05"""
    return sema_line.startswith("PANIC") and ("oq3_parser" in sema_line or "expr_ext.rs" in sema_line)


_walk_cache = {}


def _walk(ast_line, sema_line):
    """the walker after a full parallel walk, or None (cached on the two lines)"""
    key = (ast_line, sema_line)
    if key in _walk_cache:
        return _walk_cache[key]
    w = None
    sema = parse_sema_line(sema_line)
    if sema["status"] == "ok" and ast_line.startswith("(Program"):
        try:
            w = Walker(sema)
            w.program(parse_sexp(ast_line), sema["asg"])
        except (Align, IndexError, TypeError, ValueError, AssertionError):
            w = None
    if len(_walk_cache) > 64:
        _walk_cache.clear()
    _walk_cache[key] = w
    return w


def guard_indexed_scalar_qubit(src, ast_line, sema_line):
    """operand `q[i]` with `q` a scalar qubit: the code reports IncompatibleTypesError (the type is
    not QubitArray) although the symbol is quantum"""
    w = _walk(ast_line, sema_line)
    return w is not None and w.indexed_scalar_qubit


def guard_mutate_flagless(src, ast_line, sema_line):
    """assignment `x = v;` to a resolved symbol whose type has no const flag (qubit, qubit array,
    gate, subroutine, ToDo arrays): `Type::is_const` answers true for every such type, so
    MutateConstError is logged"""
    w = _walk(ast_line, sema_line)
    return w is not None and bool(w.assign_to_flagless)


def guard_indexed_const_assign(src, ast_line, sema_line):
    """`c[i] = v;` with `c` const: the indexed branch of assignment_stmt_to_asg_stmt has no const
    check, so no MutateConstError is logged"""
    w = _walk(ast_line, sema_line)
    return w is not None and w.indexed_const_assign


def guard_assign_self(src, ast_line, sema_line):
    """`AssignmentStmt::identifier()` / `rhs()` return the same identifier node as target and as
    value: `x = ();` (rhs() falls back to the only expression child, the target) and
    `b[0] = r;` (identifier() is the first Identifier child, i.e. the right-hand side, so the statement
    is analysed as `r = r` and the indexed target is dropped)"""
    def p(n):
        return kind(n) == "AssignmentStmt" and not is_none(n[3]) and not is_none(n[4]) and \
            kind(n[4]) == "Identifier" and span(n[4]) == span(n[3])
    return _any_node(ast_line, p)


GUARDS = {
    "F07": guard_F07,
    "F13": guard_F13,
    "F14": guard_F14,
    "F15": guard_F15,
    "unsupported-construct": guard_unsupported,
    "missing-child-unwrap": guard_missing_child,
    "pre-sema-panic": guard_pre_sema,
    "indexed-scalar-qubit-operand": guard_indexed_scalar_qubit,
    "mutate-flagless-type": guard_mutate_flagless,
    "indexed-const-assignment": guard_indexed_const_assign,
    "assignment-target-is-its-value": guard_assign_self,
}


if __name__ == "__main__":
    import sys
    src, ast_line, sema_line = sys.argv[1:4]
    for v in check(src, ast_line, sema_line):
        print(v)
