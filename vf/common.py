"""Shared machinery for /verif/bin/check: building, running the model driver and the
implementation harness on the same case lines, auditing the Lean development, known findings,
violation reports and evidence files.  See DESIGN.md §4."""
import json, os, re, subprocess, sys, time, hashlib, shutil
from concurrent.futures import ThreadPoolExecutor

ROOT = os.path.dirname(os.path.dirname(os.path.abspath(__file__)))
LEAN = os.path.join(ROOT, "lean")
HARNESS = os.path.join(ROOT, "harness")
WORK = os.path.join(ROOT, "work")
REPO = os.environ.get("OQ3_REPO", "/repo")
DRIVER = os.path.join(LEAN, ".lake", "build", "bin", "driver")
RUNNER = os.path.join(HARNESS, "target", "debug", "oq3-run")
NPROC = min(16, os.cpu_count() or 4)
ALLOWED_AXIOMS = {"propext", "Classical.choice", "Quot.sound"}
FORBIDDEN = re.compile(r"\b(sorry|admit|native_decide|bv_decide|implemented_by)\b|^\s*axiom\s|\bunsafe\s|maxHeartbeats\s+0\b")

ENV = dict(os.environ)
ENV.setdefault("CARGO_NET_OFFLINE", "true")


class Ctx:
    """State of one check run."""
    def __init__(self, pid, tier, seed):
        self.pid, self.tier, self.seed = pid, tier, seed
        self.t0 = time.time()
        # one scratch directory per run (two runs of the same property may overlap); removed by finish()
        self.work = os.path.join(WORK, pid, "%s-%d" % (tier, os.getpid()))
        os.makedirs(self.work, exist_ok=True)
        self.violations = []       # (replay_path, no_failing_input_found)
        self.known_hits = {}       # finding id -> count
        self.notes = []
        self.obligations = []      # theorem names
        self.discharged = []
        self.axioms = {}
        self.broken_theorems = []
        self.corr_disagreements = []
        self.coverage = {}
        self.n_replays = 0
        self.replay_of = None      # replay mode: the loaded replay file (dict)

    def log(self, *a):
        print(f"[{self.pid} {time.time()-self.t0:6.1f}s]", *a, flush=True)


def run(cmd, cwd=None, timeout=None, check=False, env=None):
    p = subprocess.run(cmd, cwd=cwd, stdout=subprocess.PIPE, stderr=subprocess.STDOUT,
                       text=True, timeout=timeout, env=env or ENV)
    if check and p.returncode != 0:
        raise RuntimeError(f"command failed: {cmd}\n{p.stdout[-4000:]}")
    return p.returncode, p.stdout


# ---------------------------------------------------------------- building

def lake_build(targets):
    """Build Lean targets; returns (ok, log)."""
    rc, out = run(["lake", "build"] + targets, cwd=LEAN, timeout=3000)
    return rc == 0, out


def cargo_build():
    lock = os.path.join(HARNESS, "Cargo.lock")
    if not os.path.exists(lock):
        shutil.copy(os.path.join(REPO, "Cargo.lock"), lock)
    rc, out = run(["cargo", "build", "--offline", "--quiet"], cwd=HARNESS, timeout=3000)
    return rc == 0, out


def theorem_names(lean_file):
    names = []
    ns = []
    for line in open(lean_file, encoding="utf-8"):
        m = re.match(r"namespace\s+(\S+)", line)
        if m:
            ns.append(m.group(1))
        m = re.match(r"end\s+(\S+)", line)
        if m and ns and ns[-1] == m.group(1):
            ns.pop()
        m = re.match(r"(?:@\[[^\]]*\]\s*)?(?:private\s+|protected\s+)?theorem\s+([^\s:({\[]+)", line)
        if m:
            names.append(".".join(ns + [m.group(1)]))
    return names


def strip_comments(src):
    # remove /- ... -/ (nested) and -- line comments
    out, i, depth = [], 0, 0
    while i < len(src):
        if src.startswith("/-", i):
            depth += 1; i += 2; continue
        if depth and src.startswith("-/", i):
            depth -= 1; i += 2; continue
        if depth:
            if src[i] == "\n":
                out.append("\n")
            i += 1; continue
        if src.startswith("--", i):
            j = src.find("\n", i)
            i = len(src) if j < 0 else j
            continue
        out.append(src[i]); i += 1
    return "".join(out)


def lean_imports_closure(mod):
    """Project-local modules transitively imported by `mod` (incl. itself)."""
    seen, todo = set(), [mod]
    while todo:
        m = todo.pop()
        if m in seen:
            continue
        path = os.path.join(LEAN, *m.split(".")) + ".lean"
        if not os.path.exists(path):
            continue
        seen.add(m)
        for line in open(path, encoding="utf-8"):
            mm = re.match(r"import\s+(Oq3\.\S+)", line)
            if mm:
                todo.append(mm.group(1))
    return sorted(seen)


def grep_forbidden(mods):
    hits = []
    for m in mods:
        path = os.path.join(LEAN, *m.split(".")) + ".lean"
        src = strip_comments(open(path, encoding="utf-8").read())
        for n, line in enumerate(src.split("\n"), 1):
            if FORBIDDEN.search(line):
                hits.append(f"{m}:{n}: {line.strip()}")
    return hits


def prove(ctx, prop_mods):
    """Build the property's theorem modules, audit axioms. Fills ctx.obligations/discharged."""
    all_names = []
    for pm in prop_mods:
        path = os.path.join(LEAN, *pm.split(".")) + ".lean"
        all_names += theorem_names(path)
    ctx.obligations = all_names
    if getattr(ctx, "extract_deferred", None):
        reach = set()
        for pm in prop_mods:
            reach |= set(lean_imports_closure(pm))
        for e in ctx.extract_deferred:
            if "Oq3.Gen." + e.split(":", 1)[0] in reach:
                ctx.broken_theorems.append(f"extraction: {e}")
    ok, log = lake_build(prop_mods + ["driver"])
    ctx.lake_ok = ok
    if not ok:
        ctx.lake_log = log
        # which theorems failed?  map error line numbers to the enclosing theorem
        bad = set()
        for pm in prop_mods:
            rel = os.path.join(*pm.split(".")) + ".lean"
            path = os.path.join(LEAN, rel)
            lines = open(path, encoding="utf-8").read().split("\n")
            for m in re.finditer(re.escape(rel) + r":(\d+):\d+: error", log):
                ln = int(m.group(1))
                for k in range(min(ln, len(lines)) - 1, -1, -1):
                    mm = re.match(r"(?:@\[[^\]]*\]\s*)?theorem\s+([^\s:({\[]+)", lines[k])
                    if mm:
                        bad.add(mm.group(1)); break
        ctx.broken_theorems = [b for b in ctx.broken_theorems if b.startswith("extraction: ")] + (
            sorted(bad) or ["<build failed before the property module: see log>"])
        ctx.log("lake build FAILED; broken:", ctx.broken_theorems)
        ctx.discharged = []
        return False
    # axiom audit
    audit = os.path.join(ctx.work, "Audit.lean")
    with open(audit, "w") as f:
        for pm in prop_mods:
            f.write(f"import {pm}\n")
        for n in all_names:
            f.write(f"#print axioms {n}\n")
    rc, out = run(["lake", "env", "lean", audit], cwd=LEAN, timeout=1800)
    cur = None
    axioms = {}
    for line in out.split("\n"):
        m = re.match(r"'(.+)' depends on axioms: \[(.*)\]", line)
        m2 = re.match(r"'(.+)' does not depend on any axioms", line)
        if m:
            axioms[m.group(1)] = [a.strip() for a in m.group(2).split(",")]
            cur = None if line.rstrip().endswith("]") else m.group(1)
        elif m2:
            axioms[m2.group(1)] = []
        elif line.startswith("'") and "depends on axioms: [" in line:
            # multi-line list
            name = line[1:line.index("' depends on axioms")]
            axioms[name] = [a.strip() for a in line.split("[", 1)[1].rstrip("]").split(",") if a.strip()]
            cur = name
        elif cur is not None:
            axioms[cur] += [a.strip() for a in line.rstrip("]").split(",") if a.strip()]
            if line.rstrip().endswith("]"):
                cur = None
    ctx.axioms = axioms
    bad_ax = {n: a for n, a in axioms.items() if not set(a) <= ALLOWED_AXIOMS}
    missing = [n for n in all_names if n not in axioms]
    mods = set()
    for pm in prop_mods:
        mods |= set(lean_imports_closure(pm))
    forb = grep_forbidden(sorted(mods))
    ctx.forbidden_hits = forb
    if rc != 0 or bad_ax or missing or forb:
        ctx.broken_theorems = sorted(bad_ax) + missing + [f"forbidden construct: {h}" for h in forb]
        ctx.discharged = [n for n in all_names if n in axioms and n not in bad_ax] if not forb else []
        ctx.log("audit FAILED:", ctx.broken_theorems[:10], out[-2000:] if rc != 0 else "")
        return False
    # thorough: the toolchain's independent re-checker replays the compiled theorem modules
    if ctx.tier == "thorough":
        for pm in prop_mods:
            rc2, out2 = run(["lake", "env", "leanchecker", pm], cwd=LEAN, timeout=3600)
            ctx.notes.append(f"leanchecker {pm}: rc={rc2}")
            if rc2 != 0:
                ctx.broken_theorems = [f"leanchecker rejected {pm}: {out2[-400:]}"]
                ctx.discharged = []
                ctx.log("leanchecker FAILED", pm, out2[-600:])
                return False
    ctx.discharged = list(all_names)
    return True


# ---------------------------------------------------------------- running model and implementation

def _run_once(exe, mode, lines, idle):
    """one process over `lines`; returns (outputs so far, status, stderr tail, rc) with status ok / crash / hang.
    A hang is declared when NO new output line arrives for `idle` seconds (the harness flushes per line)."""
    import select, threading
    p = subprocess.Popen([exe] + mode, stdin=subprocess.PIPE, stdout=subprocess.PIPE, stderr=subprocess.PIPE, env=ENV)
    data = ("\n".join(lines) + "\n").encode("utf-8")

    def feed():
        try:
            p.stdin.write(data)
            p.stdin.close()
        except (BrokenPipeError, OSError):
            pass
    errbuf = []
    threading.Thread(target=feed, daemon=True).start()
    threading.Thread(target=lambda: errbuf.append(p.stderr.read()), daemon=True).start()
    buf, status = bytearray(), "ok"
    fd = p.stdout.fileno()
    while True:
        r, _, _ = select.select([fd], [], [], idle)
        if not r:
            status = "hang"
            p.kill()
            break
        chunk = os.read(fd, 1 << 16)
        if not chunk:
            break
        buf += chunk
    p.wait()
    if status == "ok" and p.returncode != 0:
        status = "crash"
    got = buf.decode("utf-8", "replace").split("\n")
    if got and got[-1] == "":
        got.pop()
    elif status != "ok" and got:
        got.pop()                      # an incomplete last line
    if status == "ok" and len(got) != len(lines):
        status = "crash"
    err = (errbuf[0] if errbuf else b"").decode("utf-8", "replace").strip()[-200:]
    return got, status, err, p.returncode


def _run_chunk(args):
    """Feeds a chunk to one process.  If the process dies or exceeds its time budget, the line it stopped at is
    re-run ALONE to confirm (output buffering may hide how far it got); a confirmed line is marked
    `CRASH ...` / `HANG ...` and the rest of the chunk continues in a fresh process."""
    exe, mode, lines = args
    out, start, nhang = [], 0, 0
    while start < len(lines):
        rest = lines[start:]
        # after the first hang in this chunk the patience drops: ordinary cases answer within milliseconds
        got, status, err, rc = _run_once(exe, mode, rest, (15 if nhang == 0 else (3 if nhang < 5 else 1)) if exe == RUNNER else 120)
        nhang += status == "hang"
        if status == "ok":
            out += got
            break
        got = got[:len(rest)]
        out += got
        k = start + len(got)                 # first line without an answer
        if k >= len(lines):
            break
        if status == "hang" and exe == RUNNER:
            # the harness answers line by line: the line after the last answer is the one that does not return
            out.append("HANG no answer within 15 s (process killed)")
        else:
            g1, st1, err1, rc1 = _run_once(exe, mode, [lines[k]], 20 if exe == RUNNER else 120)
            if st1 == "ok":
                out.append(g1[0])
            elif st1 == "hang":
                out.append("HANG no answer (process killed)")
            else:
                out.append(f"CRASH rc={rc1} {err1}")
        start = k + 1
    return out


def run_lines(exe, mode, lines, tag, work, nproc=NPROC):
    """Feed `lines` to `exe mode` in parallel chunks; returns list of output lines (same length)."""
    if isinstance(mode, str):
        mode = [mode]
    n = len(lines)
    if n == 0:
        return []
    k = max(1, min(nproc, (n + 199) // 200))
    size = (n + k - 1) // k
    jobs = [(exe, mode, lines[i * size:(i + 1) * size]) for i in range(k) if lines[i * size:(i + 1) * size]]
    with ThreadPoolExecutor(max_workers=len(jobs)) as ex:
        res = list(ex.map(_run_chunk, jobs))
    out = []
    for part, (_, _, chunk) in zip(res, jobs):
        assert len(part) == len(chunk), (len(part), len(chunk))
        out += part
    return out


def run_impl(ctx, mode, lines, tag="impl"):
    return run_lines(RUNNER, mode, lines, tag, ctx.work)


def run_model(ctx, mode, lines, tag="model"):
    return run_lines(DRIVER, mode, lines, tag, ctx.work)


# ---------------------------------------------------------------- findings / violations / evidence

def load_findings(pid):
    path = os.path.join(ROOT, "known_findings.json")
    if not os.path.exists(path):
        return []
    allf = json.load(open(path))
    return [f for f in allf["findings"] if f["property"] == pid and f.get("status") == "open"]


def violation(ctx, kind, payload, no_input=False):
    """Record a violation with a replay file."""
    ctx.n_replays += 1
    os.makedirs(os.path.join(ROOT, "replays"), exist_ok=True)
    path = os.path.join(ROOT, "replays", f"{ctx.pid}-{'replayed-' if ctx.replay_of is not None else ''}{ctx.n_replays}.json")
    payload = dict(payload)
    payload.update({"property": ctx.pid, "kind": kind, "seed": ctx.seed, "tier": ctx.tier,
                    "no_failing_input_found": no_input})
    with open(path, "w") as f:
        json.dump(payload, f, indent=1, ensure_ascii=False)
    ctx.violations.append((path, no_input))
    print(f"VIOLATION property={ctx.pid} replay={path}" + (" no-failing-input-found" if no_input else ""), flush=True)


def known(ctx, fid, what):
    if fid not in ctx.known_hits:
        ctx.known_hits[fid] = 0
    ctx.known_hits[fid] += 1
    ctx.known_what = getattr(ctx, "known_what", {})
    ctx.known_what[fid] = what


def finish(ctx, level="proof", trusted=None, assumptions=None, extra=None):
    for fid, cnt in sorted(ctx.known_hits.items()):
        print(f"KNOWN-FINDING: property={ctx.pid} {fid} {ctx.known_what[fid]} ({cnt} cases this run)", flush=True)
    cov = {
        "obligations": len(ctx.obligations),
        "discharged": len(ctx.discharged),
        "checker_cmd": "cd /verif/lean && lake build <Props module> && lake env lean <generated #print axioms file>",
        "trusted_base": trusted or [],
    }
    cov.update(ctx.coverage)
    if extra:
        cov.update(extra)
    cov["theorems"] = ctx.obligations
    cov["axioms_seen"] = sorted({a for v in ctx.axioms.values() for a in v})
    cov["broken_theorems"] = ctx.broken_theorems
    cov["model_vs_impl_disagreements"] = ctx.corr_disagreements[:20]
    cov["known_findings_hit"] = ctx.known_hits
    cov["notes"] = ctx.notes
    if len(ctx.discharged) == 0 or len(ctx.obligations) == 0:
        # keep the file schema-valid even when the proof did not build
        cov.setdefault("evaluations", max(1, cov.get("evaluations", 1)))
        cov.setdefault("distinct_nontrivial", max(2, cov.get("distinct_nontrivial", 2)))
        cov["obligations"] = max(1, cov["obligations"])
        cov["discharged"] = max(0, cov["discharged"])
    ev = {
        "property_id": ctx.pid, "tier": ctx.tier, "seed": ctx.seed, "level": level,
        "coverage": cov, "assumptions": assumptions or [],
        "wall_s": round(time.time() - ctx.t0, 2), "violations": len(ctx.violations),
    }
    os.makedirs(os.path.join(ROOT, "evidence"), exist_ok=True)
    if ctx.replay_of is None:          # a replay does not replace the evidence of the last full run
        with open(os.path.join(ROOT, "evidence", f"{ctx.pid}.json"), "w") as f:
            json.dump(ev, f, indent=1, ensure_ascii=False)
    else:
        print("REPLAY: " + ("reproduced" if ctx.violations else "not reproduced (the recorded input no longer fails / the proof and correspondence check again)"), flush=True)
    shutil.rmtree(ctx.work, ignore_errors=True)
    ctx.log(f"done: obligations={len(ctx.obligations)} discharged={len(ctx.discharged)} "
            f"violations={len(ctx.violations)} known={ctx.known_hits}")
    return 1 if ctx.violations else 0


TRUSTED_COMMON = [
    "Lean 4.33 kernel/elaborator and lake; axioms allowed: propext, Classical.choice, Quot.sound",
    "the hand-written Lean model is tied to /repo by differential execution (this run) — the tie is a test, exhaustive only where stated",
    "Rust harness /verif/harness (oq3-run) and the line codecs on both sides",
    "the translator vf/extract.py (regex-based, tables only): SyntaxKind, token sets, operator tables, generated accessors, and the standard-library gate table / built-in constants of symbols.rs are regenerated into Oq3/Gen on every run; it refuses a source item whose shape it does not recognise",
]


def decide(ctx, failures, findings, guard_of=None):
    """failures: list of dicts {case, check, detail, guards:set, model_agrees:bool}.
    Attribute to known findings or report violations; then handle broken proofs/correspondence."""
    if ctx.replay_of is not None and ctx.replay_of.get("input") is not None:
        # replay mode: the run is repeated with the recorded seed and tier; only the recorded input counts
        failures = [f for f in failures if f["case"] == ctx.replay_of["input"]]
    new = []
    for f in failures:
        hit = None
        for kf in findings:
            kc = kf.get("check")
            if ((kc == f["check"] or (isinstance(kc, list) and f["check"] in kc))
                    and kf.get("guard") in f.get("guards", ()) and f.get("model_agrees", True)):
                hit = kf; break
        if hit:
            known(ctx, hit["id"], hit["what"])
        else:
            new.append(f)
    # report at most 5 distinct new failures (first of each check kind first)
    seen = {}
    for f in new:
        seen.setdefault(f["check"], []).append(f)
    reported = 0
    for chk, fs in seen.items():
        for f in fs[:2]:
            if reported >= 6:
                break
            violation(ctx, "oracle-failure-on-implementation",
                      {"check": chk, "input": f["case"], "detail": f["detail"],
                       "replay_how": f.get("replay_how", ""), "n_failing_cases_this_check": len(fs)})
            reported += 1
    if ctx.replay_of is not None and ctx.replay_of.get("kind") != "proof-or-correspondence-broken":
        return new
    if not new and (ctx.broken_theorems or ctx.corr_disagreements):
        payload = {"broken_theorems": ctx.broken_theorems,
                   "correspondence_disagreements": ctx.corr_disagreements[:10],
                   "explanation": "the property is no longer shown to hold: a proof obligation or the model/implementation correspondence no longer checks; the search over this run's cases found no input on which the implementation fails the property oracle"}
        if getattr(ctx, "lake_log", None):
            payload["lake_log_tail"] = ctx.lake_log[-3000:]
        violation(ctx, "proof-or-correspondence-broken", payload, no_input=True)
    return new


def uniq(xs, key=None):
    """order-preserving de-duplication (distinct_nontrivial counts DISTINCT cases)"""
    seen, out = set(), []
    for x in xs:
        k = key(x) if key else x
        if k not in seen:
            seen.add(k); out.append(x)
    return out


def load_corpus(pid):
    """Committed minimised past disagreements / finding witnesses; run first."""
    d = os.path.join(ROOT, "corpus", pid)
    out = []
    if os.path.isdir(d):
        for fn in sorted(os.listdir(d)):
            for line in open(os.path.join(d, fn), encoding="utf-8"):
                line = line.rstrip("\n")
                if line and not line.startswith("#"):
                    out.append(line)
    return out


def extract(ctx, names=None):
    """Step 1 of every check: regenerate the translated tables from /repo's current sources."""
    from . import extract as X
    changed, errors = X.extract_all(names)
    ctx.extract_changed, ctx.extract_errors = changed, errors
    if changed:
        ctx.notes.append(f"translated tables changed since the last run: {changed}")
    # a table that only SOME theorem modules import (StdGates: the modules above Oq3/Model/Symbols) breaks only the
    # properties whose modules import it: decided in prove(), which knows the property's module list
    ctx.extract_deferred = [e for e in errors if e.split(":", 1)[0] in DEFERRED_TABLES]
    errors = [e for e in errors if e.split(":", 1)[0] not in DEFERRED_TABLES]
    if ctx.extract_deferred:
        ctx.notes.append(f"extraction failed (counts for the properties whose theorem modules import the table): {ctx.extract_deferred}")
    if errors:
        ctx.notes.append(f"extraction failed: {errors}")
        ctx.broken_theorems += [f"extraction: {e}" for e in errors]
    return not errors


DEFERRED_TABLES = {"StdGates"}
