"""Shared lexer→parser→tree pipeline runs (layers I1..I4) for the syntax-level properties."""
import os, re
from . import common as C
from . import gen_text as G

SPECIAL_SITES = {"oq3_verif: no progress": "push_event", "text_of_first_token unwrap": "first_token",
                 "Marker dropped (DropBomb)": "drop", "process": "process",
                 "parse (debug balance assertion)": "parse", "LexedStr::new": "new", "to_input": "to_input"}
_fn_cache = {}


def rust_fn_at(path, line):
    """innermost enclosing `fn` of a panic location in the CURRENT source"""
    key = (path, line)
    if key in _fn_cache:
        return _fn_cache[key]
    name = "?"
    try:
        src = open(path, encoding="utf-8").read().split("\n")
        for i in range(min(line, len(src)) - 1, -1, -1):
            m = re.search(r"\bfn\s+([A-Za-z_0-9]+)", src[i])
            if m:
                name = m.group(1); break
    except OSError:
        name = "?" + os.path.basename(path)
    _fn_cache[key] = name
    return name


def canon_panic(line):
    """canonical panic site of an implementation or model output line, or None"""
    if not line.startswith("PANIC") and not line.startswith("CRASH"):
        return None
    if line.startswith("CRASH"):
        return "CRASH"
    rest = line[6:].strip()
    m = re.match(r"(/\S+\.rs):(\d+)\s*(.*)", rest)
    if m:
        return rust_fn_at(m.group(1), int(m.group(2)))
    if rest in SPECIAL_SITES:
        return SPECIAL_SITES[rest]
    return rest.split("::")[-1].split()[0].rstrip(":") if rest else "?"


def fields(line):
    return dict(kv.split("=", 1) for kv in line.split(";") if "=" in kv)


UNESCAPE_MSGS = ("Literal_must", "Character_must_be_escaped", "Invalid_escape", "Escape_character", "ASCII_hex",
                 "Missing_`", "Unicode_escape", "Byte_literals", "Whitespace_after", "Multiple_lines")


def run(ctx, texts, want_tree=True):
    """Runs all layers on `texts`. Returns dict with per-text records."""
    lines = [G.enc(t) for t in texts]
    ucpath, uctab = G.uclass_table(ctx, texts, C)
    have_model = ctx.lake_ok
    impl_lex = C.run_impl(ctx, "lex", lines, tag="ilex")
    model_lex = C.run_model(ctx, ["lex", ucpath], lines, tag="mlex") if have_model else [None] * len(lines)
    # parser input from the implementation's own previous-layer output
    pin = []
    for l in impl_lex:
        f = fields(l) if l.startswith("raw=") else {}
        pin.append(" ".join(x for x in f.get("input", "").split(",") if x))
    impl_parse = C.run_impl(ctx, "parse", pin, tag="iparse")
    model_parse = C.run_model(ctx, "parse", pin, tag="mparse") if have_model else [None] * len(lines)
    impl_tree = C.run_impl(ctx, "tree", lines, tag="itree") if want_tree else [None] * len(lines)
    model_tree = (C.run_model(ctx, ["tree", ucpath], lines, tag="mtree") if (have_model and want_tree)
                  else [None] * len(lines))
    recs = []
    for i, t in enumerate(texts):
        r = {"text": t, "line": lines[i], "impl_lex": impl_lex[i], "impl_parse": impl_parse[i],
             "impl_tree": impl_tree[i], "pin": pin[i], "dis": []}
        if have_model:
            if impl_lex[i] != model_lex[i]:
                r["dis"].append(("I1/I2 lex", impl_lex[i][:300], model_lex[i][:300]))
            a, b = impl_parse[i], model_parse[i]
            pa, pb = canon_panic(a), canon_panic(b)
            if pa or pb:
                if pa != pb:
                    r["dis"].append(("I3 parse", a[:300], b[:300]))
            else:
                if a != re.sub(r";ipos=\d+$", "", b):
                    r["dis"].append(("I3 parse", a[:300], b[:300]))
            if want_tree:
                a, b = impl_tree[i], model_tree[i]
                pa, pb = canon_panic(a), canon_panic(b)
                if pa or pb:
                    if pa != pb:
                        r["dis"].append(("I4 tree", a[:300], b[:300]))
                else:
                    fa, fb = fields(a), fields(b)
                    ok = fa.get("tree") == fb.get("tree") and fa.get("cl") == fb.get("cl") and fa.get("nerr") == fb.get("nerr")
                    for key in ("errors", "clerrors"):
                        ea = [x for x in fa.get(key, "").split(",") if x]
                        eb = [x for x in fb.get(key, "").split(",") if x]
                        # escape-sequence diagnostics of validate_literal are not modelled
                        ea = [x for x in ea if not x.split(":", 1)[1].startswith(UNESCAPE_MSGS)]
                        if ea != eb:
                            ok = False
                    if not ok:
                        r["dis"].append(("I4 tree", a[:400], b[:400]))
        recs.append(r)
    return recs
