"""Shared lexer→parser→tree pipeline runs (layers I1..I4) for the syntax-level properties."""
import os, re
from . import common as C
from . import gen_text as G

SPECIAL_SITES = {"oq3_verif: no progress": "push_event", "text_of_first_token unwrap": "first_token",
                 "Marker dropped (DropBomb)": "drop", "process": "process",
                 "parse (debug balance assertion)": "parse", "LexedStr::new": "new", "to_input": "to_input"}
_fn_cache = {}


def _mask_rust(src):
    """blank out comments, string and char literals (keeps newlines) so braces can be counted"""
    out, i, n = [], 0, len(src)
    while i < n:
        c = src[i]
        if src.startswith("//", i):
            j = src.find("\n", i); j = n if j < 0 else j
            out.append(" " * (j - i)); i = j
        elif src.startswith("/*", i):
            j = src.find("*/", i + 2); j = n if j < 0 else j + 2
            out.append("".join(ch if ch == "\n" else " " for ch in src[i:j])); i = j
        elif c == '"':
            j = i + 1
            while j < n and src[j] != '"':
                j += 2 if src[j] == "\\" else 1
            j = min(j + 1, n)
            out.append("".join(ch if ch == "\n" else " " for ch in src[i:j])); i = j
        elif c == "'":
            m = re.match(r"'(\\.[^']*|[^'\\])'", src[i:i + 12])
            if m:
                out.append(" " * m.end()); i += m.end()
            else:
                out.append(c); i += 1
        else:
            out.append(c); i += 1
    return "".join(out)


_fn_ranges = {}


def _fn_table(path):
    """[(first_line, last_line, name)] of every `fn` item with a body, from the CURRENT source"""
    if path in _fn_ranges:
        return _fn_ranges[path]
    tab = []
    try:
        src = _mask_rust(open(path, encoding="utf-8").read())
    except OSError:
        _fn_ranges[path] = None
        return None
    for m in re.finditer(r"\bfn\s+([A-Za-z_0-9]+)", src):
        # body: first `{` before any `;` at nesting depth 0 of () and []
        i, par = m.end(), 0
        while i < len(src):
            ch = src[i]
            if ch in "([":
                par += 1
            elif ch in ")]":
                par -= 1
            elif ch == ";" and par == 0:
                i = -1; break
            elif ch == "{" and par == 0:
                break
            i += 1
        if i < 0 or i >= len(src):
            continue
        depth, j = 0, i
        while j < len(src):
            if src[j] == "{":
                depth += 1
            elif src[j] == "}":
                depth -= 1
                if depth == 0:
                    break
            j += 1
        tab.append((src.count("\n", 0, m.start()) + 1, src.count("\n", 0, j) + 1, m.group(1)))
    _fn_ranges[path] = tab
    return tab


def rust_fn_at(path, line):
    """the outermost... no: the innermost `fn` item whose body encloses a panic location, except that
    nested helper fns that do NOT enclose the line are skipped (current source)"""
    key = (path, line)
    if key in _fn_cache:
        return _fn_cache[key]
    tab = _fn_table(path)
    name = "?" + os.path.basename(path) if tab is None else "?"
    best = None
    for a, b, n in tab or []:
        if a <= line <= b and (best is None or a >= best[0]):
            best = (a, b, n)
    if best:
        name = best[2]
    _fn_cache[key] = name
    return name


def canon_panic(line):
    """canonical panic site of an implementation or model output line, or None"""
    if not line.startswith("PANIC") and not line.startswith("CRASH") and not line.startswith("HANG"):
        return None
    if line.startswith("CRASH"):
        return "CRASH"
    if line.startswith("HANG"):
        return "HANG"
    rest = line[6:].strip()
    m = re.match(r"(/\S+\.rs):(\d+)\s*(.*)", rest)
    if m:
        return rust_fn_at(m.group(1), int(m.group(2)))
    if rest in SPECIAL_SITES:
        return SPECIAL_SITES[rest]
    return rest.split()[0].rstrip(":").split("::")[-1] if rest else "?"


def strip_msgs(parse_line):
    """parser step lists compared modulo the WORDING of diagnostics (`R:<message>` -> `R`): no property
    depends on message text"""
    return re.sub(r"(^|[ =])R:\S+", r"\1R", parse_line)


def err_positions(errs):
    """`a-b:message,...` -> ['a-b', ...]"""
    return [x.split(":", 1)[0] for x in errs.split(",") if x]


def split_top(sexp):
    """the top-level elements of one parenthesised list `(a (b c) d)` -> ['a', '(b c)', 'd']"""
    s = sexp.strip()
    if s.startswith("(") and s.endswith(")"):
        s = s[1:-1]
    out, depth, cur = [], 0, []
    for ch in s:
        if ch == "(":
            depth += 1
        elif ch == ")":
            depth -= 1
        if ch == " " and depth == 0:
            if cur:
                out.append("".join(cur)); cur = []
        else:
            cur.append(ch)
    if cur:
        out.append("".join(cur))
    return out


def fields(line):
    return dict(kv.split("=", 1) for kv in line.split(";") if "=" in kv)


UNESCAPE_MSGS = ("Literal_must", "Character_must_be_escaped", "Invalid_escape", "Escape_character", "ASCII_hex",
                 "Missing_`", "Unicode_escape", "Byte_literals", "Whitespace_after", "Multiple_lines")


def run(ctx, texts, want_tree=True):
    """Runs all layers on `texts`. Returns dict with per-text records."""
    lines = [G.enc(t) for t in texts]
    ucpath, uctab = G.uclass_table(ctx, texts, C)
    have_model = ctx.lake_ok
    impl_lex = C.run_impl(ctx, "lex", lines, tag="ilex")
    model_lex = C.run_model(ctx, ["lex", ucpath], lines, tag="mlex") if have_model else [None] * len(lines)
    # parser input from the implementation's own previous-layer output
    pin = []
    for l in impl_lex:
        f = fields(l) if l.startswith("raw=") else {}
        pin.append(" ".join(x for x in f.get("input", "").split(",") if x))
    impl_parse = C.run_impl(ctx, "parse", pin, tag="iparse")
    model_parse = C.run_model(ctx, "parse", pin, tag="mparse") if have_model else [None] * len(lines)
    # a text on which the lexer layer already did not return is not fed to the later layers again
    dead = {i for i, l in enumerate(impl_lex) if l.startswith(("HANG", "CRASH"))}
    if want_tree:
        live = [i for i in range(len(lines)) if i not in dead]
        tl = dict(zip(live, C.run_impl(ctx, "tree", [lines[i] for i in live], tag="itree")))
        impl_tree = [tl.get(i, impl_lex[i]) for i in range(len(lines))]
    else:
        impl_tree = [None] * len(lines)
    model_tree = (C.run_model(ctx, ["tree", ucpath], lines, tag="mtree") if (have_model and want_tree)
                  else [None] * len(lines))
    recs = []
    for i, t in enumerate(texts):
        r = {"text": t, "line": lines[i], "impl_lex": impl_lex[i], "impl_parse": impl_parse[i],
             "impl_tree": impl_tree[i], "pin": pin[i], "dis": []}
        if have_model:
            if impl_lex[i] != model_lex[i]:
                r["dis"].append(("I1/I2 lex", impl_lex[i][:300], model_lex[i][:300]))
            a, b = impl_parse[i], model_parse[i]
            pa, pb = canon_panic(a), canon_panic(b)
            if pa or pb:
                if pa != pb:
                    r["dis"].append(("I3 parse", a[:300], b[:300]))
            else:
                if strip_msgs(a) != strip_msgs(re.sub(r";ipos=\d+$", "", b)):
                    r["dis"].append(("I3 parse", a[:300], b[:300]))
            if want_tree:
                a, b = impl_tree[i], model_tree[i]
                pa, pb = canon_panic(a), canon_panic(b)
                if pa or pb:
                    if pa != pb:
                        r["dis"].append(("I4 tree", a[:300], b[:300]))
                else:
                    fa, fb = fields(a), fields(b)
                    ok = fa.get("tree") == fb.get("tree") and fa.get("cl") == fb.get("cl") and fa.get("nerr") == fb.get("nerr")
                    for key in ("errors", "clerrors"):
                        ea = [x for x in fa.get(key, "").split(",") if x]
                        eb = [x for x in fb.get(key, "").split(",") if x]
                        # escape-sequence diagnostics of validate_literal are not modelled
                        ea = [x for x in ea if not x.split(":", 1)[1].startswith(UNESCAPE_MSGS)]
                        if [x.split(":", 1)[0] for x in ea] != [x.split(":", 1)[0] for x in eb]:
                            ok = False
                    if not ok:
                        r["dis"].append(("I4 tree", a[:400], b[:400]))
        recs.append(r)
    return recs
