"""C17 — analysis is invariant under layout and renaming, monotone under appending statements, deterministic."""
import random
from . import common as C
from . import gen_text as G
from . import gen_prog as GP
from . import pipeline as PL
from . import semapipe as SP
from . import oracle_sema_c as OC


def perturb(text, rnd):
    """one occurrence of a user identifier replaced by a NEAR name (case variant, prefix, extension, look-alike):
    the two names are distinct identifiers, so the result must still be invariant under renaming them apart —
    a hidden relation between names (case-insensitive or prefix look-up, normalisation) breaks that"""
    toks = OC.tokenize(text)
    idx = [i for i, (k, t) in enumerate(toks) if k == "ident" and t not in OC.RESERVED
           and not (i > 0 and toks[i - 1][0] in ("num", "str"))]
    if not idx:
        return None
    i = rnd.choice(idx)
    t = toks[i][1]
    cands = [t.upper(), t.lower(), t.capitalize(), t.swapcase(), t + "_", t + "0", "_" + t, t[:-1] if len(t) > 1 else t + "x",
             t.replace("u", "µ").replace("a", "а") if any(c in t for c in "ua") else t + "é"]
    used = {x for k, x in toks if k == "ident"}
    cands = [c for c in cands if c != t and c not in OC.RESERVED and c not in used and (c[0].isalpha() or c[0] == "_")]
    if not cands:
        return None
    new = rnd.choice(cands)
    return "".join(new if j == i else x for j, (k, x) in enumerate(toks))


NEAR_PRE = ('include "stdgates.inc";\ngate bell a, b { h a; cx a, b; }\ngate rot(t) a { rz(t) a; }\n'
            'def fsub(int k) -> int { return k; }\nqubit[2] q;\nqubit r;\nint count = 1;\nconst int lim = 4;\n'
            'float[64] ang = 0.5;\nbit[2] cb;\n')
NEAR_USES = [("bell", "{} q[0], q[1];"), ("rot", "{}(ang) r;"), ("h", "{} r;"), ("x", "{} r;"), ("sdg", "{} r;"), ("cx", "{} q[0], q[1];"),
             ("swap", "{} q[0], q[1];"), ("rz", "{}(ang) r;"), ("cphase", "{}(ang) q[0], q[1];"), ("u3", "{}(ang, ang, ang) r;"),
             ("ccx", "{} q[0], q[1], r;"), ("U", "{}(ang, ang, ang) r;"), ("fsub", "count = {}(2);"), ("count", "count = {} + 1;"),
             ("count", "{} = 3;"), ("lim", "int[{}] w;"), ("lim", "count = {};"), ("ang", "rot({}) r;"), ("q", "cb = measure {};"),
             ("r", "reset {};"), ("r", "h {};"), ("cb", "cb = {};"), ("pi", "ang = {};"), ("tau", "ang = {} / 2;")]


def near_use_programs():
    """every KIND of use site (calls of user, standard-library and built-in gates, subroutine calls, variables, constants,
    designators, qubit operands, built-in constants) with the name replaced by each near name of the bound one: the
    near name is a different, unbound identifier, so the program has a fault that must survive renaming it apart —
    a look-up that relates names (case folding, prefixes, normalisation) only for SOME symbol kinds shows up here"""
    out = []
    for name, use in NEAR_USES:
        vs = [name.upper(), name.lower(), name.capitalize(), name.swapcase(), name + "_", "_" + name, name + "0",
              name[:-1] if len(name) > 1 else name + "x", name + "é", name.replace("a", "а").replace("c", "с").replace("x", "х")]
        for v in dict.fromkeys(vs):
            if v != name and v not in OC.RESERVED and (v[0].isalpha() or v[0] == "_") and v not in NEAR_PRE.replace("(", " ").replace(";", " ").split():
                out.append(NEAR_PRE + use.format(v) + "\n")
    return out


def check(ctx):
    C.extract(ctx)
    C.prove(ctx, ["Oq3.Props.C17", "Oq3.Props.C17RenameSym", "Oq3.Props.C17Rename", "Oq3.Props.C17Layout", "Oq3.Props.C17LayoutTrees", "Oq3.Props.C17Lex", "Oq3.Props.C17RenameText", "Oq3.Props.C17RenameTextWit"])
    okb, log = C.cargo_build()
    if not okb:
        C.violation(ctx, "harness-build-failed", {"log": log[-3000:]}, no_input=True)
        return C.finish(ctx, trusted=C.TRUSTED_COMMON)
    q = ctx.tier == "quick"
    rnd = random.Random(ctx.seed)
    base = [G.dec(l) for l in C.load_corpus("sema")] + GP.gen_programs(ctx.seed + 70, 2500 if q else 40000)
    # programs in which the standard library meets names that are already bound (double include, user gates or
    # variables named like standard gates before / after the include): many diagnostics from ONE statement, whose
    # order must not depend on anything but the text
    std = ["x", "y", "z", "h", "s", "t", "sx", "cx", "cz", "swap", "ccx", "rz", "p", "id", "u3"]
    for k in range(60 if q else 600):
        names = rnd.sample(std, rnd.randint(2, 8))
        pre = "".join(rnd.choice([f"gate {n} a {{ }}\n", f"gate {n}(t) a, b {{ }}\n", f"int {n};\n", f"qubit {n};\n"]) for n in names)
        tail = rnd.choice(["qubit q;\nh q;\n", "", 'include "stdgates.inc";\n', "int k = 1;\n"])
        base.append(rnd.choice([pre + 'include "stdgates.inc";\n' + tail,
                                'include "stdgates.inc";\n' + pre + tail,
                                'include "stdgates.inc";\nqubit q;\ninclude "stdgates.inc";\n' + tail]))
    # literal programs: numbers with and without a blank before their unit (`.5ns` / `.5 ns`), version headers
    from . import oracle_sema_b as OB
    base += OB.gen_literal_programs(ctx.seed + 71, 600 if q else 8000)
    near = [perturb(t, rnd) for t in base[: (1500 if q else 20000)]]
    base += [t for t in near if t]
    base += near_use_programs()
    base = C.uniq(base)
    recs, stats = SP.run(ctx, base, tag="c17base")
    lexl = C.run_impl(ctx, "lex", [G.enc(t) for t in base], tag="c17lex")
    variants = []     # (base index, mode, text, mapping)
    for i, (t, r) in enumerate(zip(base, recs)):
        if r["ast"].startswith("SYNTAX") or PL.canon_panic(r["ast"]):
            continue
        ll = lexl[i] if lexl[i].startswith("raw=") else None
        for k in range(2):
            try:
                variants.append((i, "layout", OC.relayout(t, ctx.seed * 131 + i * 7 + k), None))
            except Exception as e:
                ctx.notes.append(f"relayout raised {e!r} on case {i}")
        try:
            nt, mp = OC.rename(t, ctx.seed * 137 + i)
            variants.append((i, "rename", nt, mp))
        except Exception as e:
            ctx.notes.append(f"rename raised {e!r} on case {i}")
        pts = OC.split_points(t, r["ast"])
        # a comment between two top-level statements whose BODY looks like code after a line-break look-alike
        # (bare CR, form feed, vertical tab, U+2028, U+0085): still one comment, so nothing may change
        if pts:
            o = rnd.choice(pts)
            bomb = rnd.choice(["// note\rint zz9 = 1;\n", "// note\x0cqubit zz9;\n", "// a\x0breset zz9;\n", "// a\u2028int zz9;\n",
                               "// a\u0085int zz9;\n", "/* a\r\n@x y\npragma z\n*/", "// x \\\nint zz9;\n".replace("\\\n", "\\") + "\n"])
            bt = t.encode("utf-8")
            variants.append((i, "layout", (bt[:o] + b"\n" + bomb.encode("utf-8") + bt[o:]).decode("utf-8"), None))
        for o in (pts if len(pts) <= 4 else rnd.sample(pts, 4)):
            variants.append((i, "prefix", OC.prefix_at(t, o), None))
        variants.append((i, "twice", t, None))
    variants = C.uniq(variants, key=lambda v: (v[0], v[1], v[2]))
    ctx.log(f"{len(base)} base programs, {len(variants)} variants")
    vout = C.run_impl(ctx, "sema", [G.enc(v[2]) for v in variants], tag="c17var")
    vast = C.run_impl(ctx, "ast", [G.enc(v[2]) for v in variants], tag="c17vast")
    # payloads of the diagnostics (names in RedeclarationError), which the canonical line does not carry: two runs
    tw = [k for k, v in enumerate(variants) if v[1] == "twice"]
    pay1 = dict(zip(tw, C.run_impl(ctx, "semapay", [G.enc(variants[k][2]) for k in tw], tag="c17pay1")))
    pay2 = dict(zip(tw, C.run_impl(ctx, "semapay", [G.enc(variants[k][2]) for k in tw], tag="c17pay2")))
    failures, nontriv, per_mode = [], 0, {}
    for vk, ((i, mode, text, mp), o, va) in enumerate(zip(variants, vout, vast)):
        b = recs[i]["impl"]
        per_mode[mode] = per_mode.get(mode, 0) + 1
        if mode == "twice":
            diffs = [] if o == b else [("determinism", b[:200], o[:200])]
            if not diffs and pay1.get(vk) != pay2.get(vk) and not PL.canon_panic(pay1.get(vk) or ""):
                diffs = [("determinism (diagnostic payloads)", str(pay1.get(vk))[:200], str(pay2.get(vk))[:200])]
        elif mode == "prefix":
            diffs = OC.compare_modulo(o, b, "prefix")
        else:
            if va.startswith("SYNTAX") != recs[i]["ast"].startswith("SYNTAX"):
                diffs = [("syntax-status", recs[i]["ast"][:60], va[:60])]
            else:
                diffs = OC.compare_modulo(b, o, mode, mp)
        if diffs:
            guards = {g for g, fn in OC.GUARDS.items() if fn(base[i], recs[i]["ast"])}
            guards |= {"v:" + g for g, fn in OC.GUARDS.items() if va.startswith("(Program") and fn(text, va)}
            failures.append({"case": G.enc(base[i]), "check": mode,
                             "detail": {"base": base[i], "variant": text, "mapping": mp, "differences": [list(map(str, d))[:3] for d in diffs[:3]]},
                             "guards": guards, "model_agrees": recs[i]["agree"] is True,
                             "replay_how": "oq3-run sema on base and variant; compare with vf/oracle_sema_c.py compare_modulo(mode)"})
        elif o.startswith("asg="):
            nontriv += 1
    # "analysing the same text twice gives equal results" across the two public entry points (string / file), with
    # the program's statements in real include files, CRLF line ends, a leading U+FEFF
    from . import incwrap as IW
    IW.both_entry_points(ctx, base, failures)
    failures.sort(key=lambda f: len(f["case"]))
    C.decide(ctx, failures, C.load_findings("C17"))
    ctx.coverage.update({
        "evaluations": len(variants), "distinct_nontrivial": nontriv,
        "rule": "generated programs (valid or with semantic faults; plus copies in which one identifier occurrence is replaced by a NEAR name: case variant, prefix, extension, look-alike) x 2 random re-layouts (all admissible separators, comments) x 1 random injective renaming avoiding keywords, built-ins and standard gate names x up to 4 split points at top-level statement boundaries x the same text twice; results compared modulo positions / the renaming / as prefixes; non-trivial = variant analysed to a graph and equal modulo the transformation",
        "variants_by_mode": per_mode, "sema_correspondence": dict(stats),
        "traces_validated_against_impl": sum(v for k, v in stats.items() if "agree" in k),
        "correspondence_disagreements": stats.get("disagree", 0) + stats.get("panic-disagree", 0),
    })
    return C.finish(ctx, trusted=C.TRUSTED_COMMON + [
        "layout and renaming invariance are facts about lexer+parser+accessors+pass together; the Lean theorems cover the pass (prefix stability over the I5 statement list, determinism as a function) and C15 covers the lexer half (trivia irrelevance); the composition is checked by this metamorphic run"],
        assumptions=["renamings avoid keywords, built-ins, standard gate names and names already used"])
