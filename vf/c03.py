"""C03 — semantic analysis returns normally and leaves exactly the global scope open."""
from . import semacheck as SC
from . import oracle_sema_a as OA


def check(ctx):
    return SC.run(ctx, "C03", ["Oq3.Props.C03"], [OA], SC.default_programs(ctx),
                  "generated programs (vf/gen_prog.py: every statement arm of the pass, every scalar type x width x const x initializer form, small name pool, wrong arities/kinds, low-probability panic-prone constructs) through parse_source_string; oracle: no panic, depth = 1 at the end; non-trivial = analysed program on which every oracle clause held",
                  trusted=["thread stack depth is outside the model (generated nesting is bounded)"],
                  assumptions=["totality on a `Supported` fragment (sema_total) is NOT proved; panic-freedom is explored by this run, the panic sites are proved to be a fixed finite set (panic_sites)"])
