"""C03 — semantic analysis returns normally and leaves exactly the global scope open."""
from . import semacheck as SC
from . import oracle_sema_a as OA


INC_NAMES = ["lib/stdgates.inc", "./stdgates.inc", "a/b/stdgates.inc", "../stdgates.inc", "stdgates.inc.bak", "mystdgates.inc",
             "STDGATES.INC", "stdgates.inc ", " stdgates.inc", "x.inc", "", ".", "/", "/nonexistent/x.inc", "é.inc", "a b.inc",
             "stdgates", "stdgates.inc/", "x.inc\\n"]


def include_cases(ctx, recs, failures):
    """programs that include files by name (none exists): the pass must return (FileNotFound diagnostics), whatever
    the name looks like; run through the harness mode `include`, which evaluates real includes"""
    import json, random
    from . import common as C
    from . import pipeline as PL
    rnd = random.Random(ctx.seed + 5)
    cases = []
    tails = ["qubit q;\n", "int x = 1;\n", "include \"stdgates.inc\";\nqubit q;\nh q;\n", ""]
    for n in INC_NAMES:
        for t in tails:
            for pre in ("", "int y;\n"):
                cases.append({"id": f"i{len(cases)}", "files": {}, "main": pre + f'include "{n}";\n' + t, "search": rnd.choice([None, ["d1"]]), "env": None})
                cases.append({"id": f"i{len(cases)}", "files": {}, "main": pre + f'include "{n}";\ninclude "{rnd.choice(INC_NAMES)}";\n' + t, "search": None, "env": None})
    out = C.run_impl(ctx, "include", [json.dumps(c) for c in cases], tag="c03inc")
    n = 0
    for c, o in zip(cases, out):
        n += 1
        site = PL.canon_panic(o)
        if site:
            failures.append({"case": json.dumps(c), "check": "no_panic", "detail": {"main": c["main"], "impl": o[:300]},
                             "guards": {"site:" + site}, "model_agrees": True,
                             "replay_how": "echo '<case json>' | /verif/harness/target/debug/oq3-run include"})
    ctx.coverage["include_name_cases"] = n


def check(ctx):
    return SC.run(ctx, "C03", ["Oq3.Props.C03", "Oq3.Props.C03Total", "Oq3.Props.C03Total2"], [OA], SC.default_programs(ctx), post=include_cases, rule=
                  "generated programs (vf/gen_prog.py: every statement arm of the pass, every scalar type x width x const x initializer form, small name pool, wrong arities/kinds, low-probability panic-prone constructs) through parse_source_string; oracle: no panic, depth = 1 at the end; non-trivial = analysed program on which every oracle clause held",
                  trusted=["thread stack depth is outside the model (generated nesting is bounded)"],
                  assumptions=["totality is proved on the syntactic fragment suppStmt only (sema_total_partial); outside it panic-freedom is explored by this run, and the panic sites are proved to be a fixed finite set (panic_sites)"])
