"""Reference-language runs shared by C04 (valid programs are accepted) and C05 (roles / derivation shape).

Programs come from vf/gen_ref.py (derivation tree + printed text under random admissible layout).  The
real front end is run in `tree` mode (CST) and `ast` mode (typed accessors, the view the semantic pass
has); `match_cst` / `match_ast` compare with the derivation.  A mismatch is attributed to a recorded
cause only through predicates over the EXPECTED structure (`attribute`, `attribute_ast`).  To keep a
frequent cause from masking an unrelated new mismatch in the same program, every top-level statement
is additionally run as a program of its own.
"""
from . import common as C
from . import gen_text as G
from . import gen_ref as GR
from . import pipeline as PL


def _isolated(cases):
    out = []
    for c in cases:
        if not c.get("valid", True):
            continue
        st = c["stmts"]
        i = 0
        while i < len(st):
            j = i
            while j < len(st) and st[j]["kind"] == "ANNOTATION_STATEMENT":
                j += 1
            if j >= len(st):
                break
            group = st[i:j + 1]
            text = "".join(e["text"] + ("\n" if e["kind"] in ("ANNOTATION_STATEMENT", "PRAGMA_STATEMENT") else " ") for e in group)
            if len(st) > 1:
                out.append({"text": text, "stmts": group, "valid": True, "isolated": True})
            i = j + 1
    return out


def run_ref(ctx, n, depth=4, seed_off=0, want_ast=True, isolate=True):
    """returns (records, stats); record = {case, cst: [mismatch...], ast: [...]|None, causes_cst, causes_ast}"""
    cases = GR.gen_ref_programs(ctx.seed + seed_off, n, depth) + GR.operator_pair_cases()
    cases = [c for c in cases if c.get("valid", True)]
    if isolate:
        cases += _isolated(cases)
    # de-duplicate by text
    seen, uniq = set(), []
    for c in cases:
        if c["text"] not in seen:
            seen.add(c["text"]); uniq.append(c)
    cases = uniq
    lines = [G.enc(c["text"]) for c in cases]
    trees = C.run_impl(ctx, "tree", lines, tag="ref-tree")
    asts = C.run_impl(ctx, "ast", lines, tag="ref-ast") if want_ast else [None] * len(cases)
    # the Lean model on the same cases: a mismatch is attributed to a recorded cause only if the model (which
    # mirrors the code the findings were recorded against) shows the same tree / the same typed-AST dump
    mtrees = masts = None
    if getattr(ctx, "lake_ok", False):
        ucpath, _ = G.uclass_table(ctx, [c["text"] for c in cases], C)
        mtrees = C.run_model(ctx, ["tree", ucpath], lines, tag="ref-mtree")
        if want_ast:
            masts = C.run_model(ctx, "accessors", trees, tag="ref-macc")
    recs = []
    stats = {"cases": len(cases), "cst_ok": 0, "ast_ok": 0, "cst_attributed": {}, "ast_attributed": {}}
    for k, (c, t, a) in enumerate(zip(cases, trees, asts)):
        r = {"case": c, "line": G.enc(c["text"]), "panic": PL.canon_panic(t), "cst": None, "ast": None,
             "causes_cst": [], "causes_ast": [], "model_agrees_cst": True, "model_agrees_ast": True}
        if mtrees is not None and not r["panic"]:
            ft, fm = PL.fields(t), (PL.fields(mtrees[k]) if not PL.canon_panic(mtrees[k]) else {})
            r["model_agrees_cst"] = ft.get("tree") == fm.get("tree") and PL.err_positions(ft.get("errors", "")) == PL.err_positions(fm.get("errors", ""))
            if not r["model_agrees_cst"] and len(ctx.corr_disagreements) < 20:
                ctx.corr_disagreements.append({"layer": "I4 tree (reference program)", "case": c["text"], "impl": t[:300], "model": mtrees[k][:300]})
        if masts is not None and not r["panic"]:
            r["model_agrees_ast"] = a == masts[k]
            if not r["model_agrees_ast"] and len(ctx.corr_disagreements) < 20:
                ctx.corr_disagreements.append({"layer": "I4/I5 accessors (reference program)", "case": c["text"], "impl": a[:300], "model": masts[k][:300]})
        if r["panic"]:
            recs.append(r)
            continue
        try:
            r["cst"] = GR.match_cst(c, t)
        except Exception as e:                       # a malformed line is a mismatch, never a crash of the check
            r["cst"] = ["match_cst raised %r" % (e,)]
        r["causes_cst"] = GR.attribute(c)
        if not r["cst"]:
            stats["cst_ok"] += 1
        else:
            for k in r["causes_cst"]:
                stats["cst_attributed"][k] = stats["cst_attributed"].get(k, 0) + 1
        if want_ast:
            try:
                r["ast"] = GR.match_ast(c, a)
            except Exception as e:
                r["ast"] = ["match_ast raised %r" % (e,)]
            r["causes_ast"] = GR.attribute_ast(c)
            if not r["ast"]:
                stats["ast_ok"] += 1
            else:
                for k in r["causes_ast"]:
                    stats["ast_attributed"][k] = stats["ast_attributed"].get(k, 0) + 1
        recs.append(r)
    return recs, stats
