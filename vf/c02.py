"""C02 — the syntax tree is lossless; C12 shares the run (diagnostic spans, silent error nodes)."""
import random
from . import common as C
from . import gen_text as G
from . import pipeline as PL
from . import c01

import re
SILENT_ARRAY_TYPE = re.compile(r"\(ARRAY_TYPE \d+ \d+ (?:(?:MUTABLE_KW|READONLY_KW):\S+ (?:(?:WHITESPACE|COMMENT):\S+ )*){1,2}ERROR:")
C02_MARKS = ("leaves do not spell", "gap-or-overlap", "children do not reach", "root ", "token text mismatch")
C12_MARKS = ("diagnostic range", "ERROR node")


def run_check(ctx, pid, prop_mods, marks, text, design_ref):
    C.extract(ctx)
    C.prove(ctx, prop_mods)
    okb, log = C.cargo_build()
    if not okb:
        C.violation(ctx, "harness-build-failed", {"log": log[-3000:]}, no_input=True)
        return C.finish(ctx, trusted=C.TRUSTED_COMMON)
    texts = c01.gen_texts(ctx)
    if pid == "C12":
        texts += C12_EXTRA
    ctx.log(f"{len(texts)} texts")
    recs = PL.run(ctx, texts)
    failures, ndis, nontriv, nerrtrees = [], 0, 0, 0
    for r in recs:
        for d in r["dis"]:
            ndis += 1
            if len(ctx.corr_disagreements) < 20:
                ctx.corr_disagreements.append({"layer": d[0], "case": r["line"], "text": r["text"], "impl": d[1], "model": d[2]})
        t = r["impl_tree"]
        if PL.canon_panic(t):
            continue                     # C01's business
        f = PL.fields(t)
        orc = t.split(";oracle=", 1)[1] if ";oracle=" in t else "FAIL:no-oracle-field"
        if f.get("nerr", "0") != "0":
            nerrtrees += 1
        if orc == "ok":
            nontriv += 1
            continue
        for item in orc[5:].split("|"):
            if any(mk in item for mk in marks):
                guards = set()
                if "ERROR node" in item and SILENT_ARRAY_TYPE.search(f.get("tree", "")):
                    # the blind bump_any of array_type_spec: an ERROR token right after the
                    # mutable/readonly modifier inside an ARRAY_TYPE node
                    guards.add("silent_error_array_type_spec")
                failures.append({"case": r["line"], "check": "oracle", "detail": {"text": r["text"], "what": item},
                                 "guards": guards, "model_agrees": not r["dis"],
                                 "replay_how": "echo '<input>' | /verif/harness/target/debug/oq3-run tree"})
    from . import incwrap as IW
    IW.through_entry_points(ctx, pid, [r["text"] for r in recs], failures)
    nsearch = 0
    if ndis and not failures:
        nsearch = search_near_disagreements(ctx, [r for r in recs if r["dis"]], marks, failures)
    sema_cov = {}
    if pid == "C12":
        sema_cov = sema_ranges(ctx, failures)
        sema_cov["source_file_layer_texts"] = srcfile_ranges(ctx, recs, failures)
        sema_cov["escape_diagnostics"] = escape_layer(ctx)
    failures.sort(key=lambda f: len(f["case"]))
    C.decide(ctx, failures, C.load_findings(pid))
    ctx.coverage.update(sema_cov)
    ctx.coverage.update({
        "evaluations": len(texts), "distinct_nontrivial": nontriv,
        "rule": "same text population as C01 (random rich-alphabet texts, well-formed and malformed lexeme sequences, generated and mutated programs), both entry points; " + text + "; non-trivial = parse returned and the oracle held",
        "traces_validated_against_impl": len(texts) * 3 if ctx.lake_ok else 0,
        "trees_with_error_nodes": nerrtrees,
        "correspondence_disagreements": ndis,
        "samples": [{"text": recs[i]["text"][:100], "tree": (recs[i]["impl_tree"] or "")[:240]} for i in (7, len(recs) - 3) if i < len(recs)],
    })
    return C.finish(ctx, trusted=C.TRUSTED_COMMON + [
        "rowan (green tree, text_range) is modelled as a rose tree with ranges derived from leaf lengths; that the real ranges tile is checked by the oracle on every case",
        "escape-sequence diagnostics of validate_literal (oq3_lexer::unescape) are not modelled; their spans are checked on the implementation only"],
        assumptions=["texts < 2^32 bytes"])


def search_near_disagreements(ctx, drecs, marks, failures, limit=60):
    """The correspondence broke but no case of this run fails the oracle: search the NEIGHBOURHOOD of the disagreeing
    texts (truncations at lexeme boundaries, deletion of one lexeme, of one statement, of everything but one
    statement) for a text on which the implementation fails the property's oracle.  A defect that is masked in the
    disagreeing text by an unrelated diagnostic (e.g. a silent ERROR token next to another error) shows up once the
    other error is cut away."""
    cand = []
    for r in drecs[:limit]:
        t = r["text"]
        toks = re.findall(r"\s+|\w+|.", t, flags=re.S)
        if len(toks) > 80:
            continue
        for i in range(1, len(toks)):
            cand.append("".join(toks[:i])); cand.append("".join(toks[i:]))
        for i in range(len(toks)):
            cand.append("".join(toks[:i] + toks[i + 1:]))
        parts = re.split(r"(?<=[;}\n])", t)
        for i in range(len(parts)):
            cand.append(parts[i]); cand.append("".join(parts[:i] + parts[i + 1:]))
            cand.append(parts[i].rstrip("\n") + ";\nqubit q;\n")
    cand = C.uniq([c for c in cand if c.strip()])[:20000]
    out = C.run_impl(ctx, "tree", [G.enc(c) for c in cand], tag="near")
    for c, t in zip(cand, out):
        if PL.canon_panic(t) or ";oracle=" not in t:
            continue
        orc = t.split(";oracle=", 1)[1]
        if orc == "ok":
            continue
        for item in orc[5:].split("|"):
            if any(mk in item for mk in marks):
                failures.append({"case": G.enc(c), "check": "oracle", "detail": {"text": c, "what": item, "found_by": "search near a model/implementation disagreement"},
                                 "guards": set(), "model_agrees": False,
                                 "replay_how": "echo '<input>' | /verif/harness/target/debug/oq3-run tree"})
    ctx.coverage["searched_near_disagreements"] = len(cand)
    return len(cand)


RENAMES = [("a", "α"), ("b", "bé"), ("c", "ℂ"), ("q", "qµ"), ("r", "ρ"), ("n", "ñ"), ("m", "μ")]


def sema_ranges(ctx, failures):
    """C12, semantic clause: every semantic diagnostic's range is the range of a node of the file's tree
    (hence start <= end <= len on character boundaries)."""
    from . import gen_prog as GP
    from . import semapipe as SP
    q = ctx.tier == "quick"
    progs = GP.gen_programs(ctx.seed + 11, 3000 if q else 40000)
    rnd = random.Random(ctx.seed + 12)
    extra = []
    for p in progs[: len(progs) // 2]:
        # non-ASCII identifiers and string contents
        old, new = rnd.choice(RENAMES)
        extra.append(re.sub(r"(?<![A-Za-z0-9_$.\"])" + old + r"(?![A-Za-z0-9_\"(])", new, p))
    try:
        from . import oracle_sema_c as OC
        laid = []
        for k, p in enumerate(progs[: len(progs) // 2]):
            try:
                laid.append(OC.relayout(p, ctx.seed * 17 + k))     # constructs spread over several lines, comments inside
            except Exception:
                pass
        extra += laid
    except ImportError:
        pass
    progs = ["qubit q;\nqubit q;", "bit b; bit b;", "int[8] x = 1;\nint[8] x\n    = 2;\n", "gate g(a) q { }\nqubit r;\nif (true) g(1.0,\n  2.0) r;", "const int n = 4; int[n] n;", "gate s q {}\ninclude \"stdgates.inc\";",
             "int é = 1; int é = 2;", "float[64] π = 1.0;", "x = y;", "qubit q; h q;", "int ñ; ñ = ñq;"] + progs + extra
    recs, stats = SP.run(ctx, progs, tag="c12sema")
    trees = C.run_impl(ctx, "tree", [G.enc(t) for t in progs], tag="c12sema-tree")
    nerr, nprog = 0, 0
    kinds = {}
    for r, t in zip(recs, trees):
        res = SP.parse_i6(r["impl"])
        if res is None or not res.get("errors"):
            continue
        f = PL.fields(t)
        ranges = {(int(a), int(b)) for a, b in re.findall(r"\((?:[A-Z_0-9]+) (\d+) (\d+)", f.get("tree", ""))}
        nprog += 1
        for e in res["errors"].split(","):
            kind, _, rg = e.partition("@")
            a, _, b = rg.partition("-")
            nerr += 1
            kinds[kind] = kinds.get(kind, 0) + 1
            if (int(a), int(b)) not in ranges:
                failures.append({"case": G.enc(r["text"]), "check": "sema_range_is_node_range",
                                 "detail": {"text": r["text"], "error": e, "what": "semantic diagnostic range is not the range of any node of the tree"},
                                 "guards": set(), "model_agrees": r["agree"] is True,
                                 "replay_how": "echo '<input>' | /verif/harness/target/debug/oq3-run sema   (and `tree` for the node ranges)"})
    ninc = include_ranges(ctx, failures)
    return {"semantic_programs": len(progs), "semantic_programs_with_errors": nprog, "semantic_diagnostics_checked": nerr,
            "include_arrangements_checked": ninc,
            "semantic_diagnostic_kinds": kinds, "sema_correspondence": dict(stats)}


def srcfile_ranges(ctx, recs, failures):
    """the syntax diagnostics as the source-file layer hands them out refer to the text the caller supplied:
    start <= end <= its length, on character boundaries, and they are the diagnostics of the lex-checked parse"""
    sub = [r for r in recs if r["impl_tree"] and not PL.canon_panic(r["impl_tree"])
           and PL.fields(r["impl_tree"]).get("clerrors", "")][: (6000 if ctx.tier == "quick" else 80000)]
    out = C.run_impl(ctx, "srcerrs", [r["line"] for r in sub], tag="c12src")
    for r, o in zip(sub, out):
        if PL.canon_panic(o) or not o.startswith("len="):
            continue
        f = PL.fields(o)
        b = r["text"].encode("utf-8")
        want = PL.err_positions(PL.fields(r["impl_tree"]).get("clerrors", ""))
        got = [x for x in f.get("errs", "").split(",") if x]
        bad = None
        for g in got:
            a, _, e = g.partition("-")
            a, e = int(a), int(e)
            if not (a <= e <= len(b)):
                bad = f"diagnostic range {g} exceeds the text ({len(b)} bytes)"
            elif any(0 < p < len(b) and (b[p] & 0xC0) == 0x80 for p in (a, e)):
                bad = f"diagnostic range {g} is not on character boundaries"
        if bad is None and got != want:
            bad = f"source-file layer reports {got[:6]}, the lex-checked parse {want[:6]}"
        if bad:
            failures.append({"case": r["line"], "check": "oracle", "detail": {"text": r["text"], "what": "diagnostic range (source-file layer): " + bad},
                             "guards": set(), "model_agrees": not r["dis"],
                             "replay_how": "echo '<input>' | /verif/harness/target/debug/oq3-run srcerrs"})
    return len(sub)


def escape_layer(ctx):
    """the escape-sequence diagnostics of string literals: Lean model (Oq3/Model/Unescape.lean) against the real
    diagnostics and against every real `unescape_literal` callback (vf/unescape_corr.py)"""
    if not ctx.lake_ok:
        return {}
    from . import unescape_corr as UC
    q = ctx.tier == "quick"
    rnd = random.Random(ctx.seed + 14)
    exh = list(UC.exhaustive_bodies(3 if q else 4))
    rb = UC.random_bodies(rnd, 8000 if q else 60000)
    texts = list(UC.BIT_TEXTS) + G.escape_texts(rnd, 1500 if q else 8000) + ['"' + b + '"' for b in exh] + [UC.wrap(rnd, b) for b in rb]
    recs, stats = UC.run(ctx, C.uniq(texts))
    out = dict(stats)
    try:
        dbad, dstats = UC.run_direct(ctx, list(dict.fromkeys(exh + rb)))
        out.update({"callbacks: " + k: v for k, v in dstats.items()})
        for r in dbad[:10]:
            if len(ctx.corr_disagreements) < 20:
                ctx.corr_disagreements.append({"layer": "unescape_literal callbacks", "case": r["text"], "impl": str(r.get("impl"))[:300], "model": str(r.get("model"))[:300]})
    except Exception as e:
        ctx.notes.append("direct unescape callbacks not compared: %r" % (e,))
    return out


def parse_semtree(txt):
    """`(path [e,..] [(..) (..)])` -> (path, [errors], [children])"""
    pos = 0

    def node():
        nonlocal pos
        assert txt[pos] == "(", txt[pos:pos + 30]
        pos += 1
        j = txt.index(" [", pos)
        path = txt[pos:j]
        pos = j + 2
        k = txt.index("]", pos)
        errs = [e for e in txt[pos:k].split(",") if e]
        pos = k + 1
        assert txt[pos:pos + 2] == " [", txt[pos:pos + 20]
        pos += 2
        kids = []
        while txt[pos] != "]":
            if txt[pos] == " ":
                pos += 1
                continue
            kids.append(node())
        pos += 1
        assert txt[pos] == ")"
        pos += 1
        return (path, errs, kids)
    return node()


def include_ranges(ctx, failures):
    """semantic clause over include trees: a diagnostic filed under a file has the range of a node of THAT file's
    tree; a file that could not be read has no text, no tree and therefore no diagnostics of its own"""
    import json
    from . import c18
    rnd = random.Random(ctx.seed + 13)
    n = 400 if ctx.tier == "quick" else 6000
    cases = [c18.gen_case(rnd, 100000 + i) for i in range(n)]
    fixed = [{"id": "r1", "files": {}, "main": 'include "nope.inc";\nqubit q;\n', "search": None, "env": None},
             {"id": "r2", "files": {"a.inc": "int a1 = x;\n"}, "main": 'include "nope.inc";\ninclude "a.inc";\nqubit q;\nint q;\n', "search": None, "env": None},
             {"id": "r3", "files": {"a.inc": 'include "deep.inc";\nint é = ü;\n'}, "main": 'include "a.inc";\n', "search": None, "env": None}]
    for c in fixed:
        c["root"] = f"{c18.BASE}/{c['id']}"
    cases = fixed + cases
    out = C.run_impl(ctx, "include", [json.dumps({k: v for k, v in c.items() if k != "root"}) for c in cases], tag="c12inc")
    texts = sorted({c["main"] for c in cases} | {b for c in cases for b in c["files"].values() if b is not None})
    trees = dict(zip(texts, C.run_impl(ctx, "tree", [G.enc(t) for t in texts], tag="c12inc-tree")))

    def ranges_of(text):
        t = trees.get(text)
        if t is None or PL.canon_panic(t):
            return None
        return {(int(a), int(b)) for a, b in re.findall(r"\((?:[A-Z_0-9]+) (\d+) (\d+)", PL.fields(t).get("tree", ""))}
    nchecked = 0
    for c, o in zip(cases, out):
        if ";semtree=" not in o or PL.canon_panic(o):
            continue
        try:
            tree = parse_semtree(o.split(";semtree=", 1)[1])
        except (AssertionError, ValueError):
            continue
        root = c["root"]

        def text_of(path):
            if path == "no file":
                return c["main"]
            rel = path[len("@ROOT@/"):] if path.startswith("@ROOT@/") else (path[len(root) + 1:] if path.startswith(root + "/") else path)
            return c["files"].get(rel)

        def walk(node):
            nonlocal nchecked
            path, errs, kids = node
            text = text_of(path)
            rs = ranges_of(text) if text is not None else None
            for e in errs:
                nchecked += 1
                kind, _, rg = e.partition("@")
                a, _, b = rg.partition("-")
                bad = None
                if text is None:
                    bad = "diagnostic filed under a file that has no text (could not be read)"
                elif rs is not None and (int(a), int(b)) not in rs:
                    bad = "range is not the range of a node of the tree of the file it is filed under"
                if bad:
                    failures.append({"case": json.dumps({k: v for k, v in c.items() if k != "root"}), "check": "sema_range_is_node_range",
                                     "detail": {"file": path, "error": e, "what": bad, "main": c["main"], "result": o[-400:]},
                                     "guards": set(), "model_agrees": True,
                                     "replay_how": "echo '<case json>' | /verif/harness/target/debug/oq3-run include"})
            for k in kids:
                walk(k)
        walk(tree)
    return len(cases)


C12_EXTRA = ["def f(mutable № [int, 3] x) {}", "def f(readonly № [int,3] x) { }", "x = \"a\\qb\";", "π = \"\\u{zz}\";"]


def check(ctx):
    return run_check(ctx, "C02", ["Oq3.Props.C02", "Oq3.Props.C02Full", "Oq3.Props.C02Final", "Oq3.Props.C01"], C02_MARKS,
                     "oracle on the real tree: text() == input, root = SOURCE_FILE spanning [0,len), every node's children tile it, token texts = input slices; model tree (ranges derived from leaves) compared with the real tree incl. all ranges", "§7 C02")
