"""C09 — declarations record exactly the written type; designators; gate/def signatures; gate listing."""
from . import semacheck as SC
from . import oracle_sema_b as OB
from . import c08


def check(ctx):
    return SC.run(ctx, "C09", ["Oq3.Props.C09", "Oq3.Props.C09StdGates"], [OB], c08.progs(ctx),
                  "generated programs + declarations of every form x widths across [1, 2^33] (literal and identifier designators), gate/def signatures, stdgates; oracle: declared kind/const/width per symbol, designator handling, gate and def signatures and parameter bindings, gates() listing")
