"""C15 — well-formed lexemes are classified correctly regardless of neighbours and layout."""
import random
from . import common as C
from . import gen_text as G
from . import gen_lexemes as GL
from . import pipeline as PL


def nontrivia(text, lexline):
    """(kind, text) of the non-trivia entries of the implementation's token table"""
    f = PL.fields(lexline)
    kinds = [k for k in f["kinds"].split(",") if k]
    starts = [int(x) for x in f["starts"].split(",") if x != ""]
    b = text.encode("utf-8")
    out = []
    for i in range(len(kinds) - 1):
        if kinds[i] in ("WHITESPACE", "COMMENT"):
            continue
        out.append([kinds[i], b[starts[i]:starts[i + 1]].decode("utf-8", "replace")])
    return out


def check(ctx):
    C.extract(ctx, ["SyntaxKind"])
    C.prove(ctx, ["Oq3.Props.C15"])
    okb, log = C.cargo_build()
    if not okb:
        C.violation(ctx, "harness-build-failed", {"log": log[-3000:]}, no_input=True)
        return C.finish(ctx, trusted=C.TRUSTED_COMMON)
    n = 40000 if ctx.tier == "quick" else 600000
    rnd = random.Random(ctx.seed)
    cases = []
    for _ in range(n // 2):
        lex = GL.gen_sequence(rnd, 12)
        if lex and lex[-1]["cls"] == "version":
            lex.append({"cls": "punct", "text": ";", "kind": "SEMICOLON"})
        exp = [[l["kind"], l["text"]] for l in lex]
        t1, _ = GL.layout(rnd, lex)
        t2, _ = GL.layout(rnd, lex)            # a second, independent layout of the same lexemes
        cases.append((t1, exp)); cases.append((t2, exp))
    cases = C.uniq(cases, key=lambda c: c[0])
    texts = [c[0] for c in cases]
    ctx.log(f"{len(texts)} lexeme sequences (each lexeme list laid out twice)")
    lines = [G.enc(t) for t in texts]
    ucpath, uctab = G.uclass_table(ctx, texts, C)
    impl = C.run_impl(ctx, "lex", lines)
    model = C.run_model(ctx, ["lex", ucpath], lines) if ctx.lake_ok else [None] * len(lines)
    failures, ndis, nontriv = [], 0, 0
    kinds_hit = {}
    # the ASCII hypotheses of the theorems (AsciiUC), checked against the real tables
    WS = [0x9, 0xA, 0xB, 0xC, 0xD, 0x20, 0x85, 0x200E, 0x200F, 0x2028, 0x2029]
    for cp in range(128):
        fl = uctab.get(cp, "???")
        ch = chr(cp)
        if fl[0] != ("1" if ch.isascii() and ch.isalpha() else "0") or \
           fl[1] != ("1" if ch.isascii() and (ch.isalnum() or ch == "_") else "0"):
            failures.append({"case": "%x" % cp, "check": "ascii_uclass", "detail": f"xid flags {fl} for {ch!r}",
                             "guards": set(), "model_agrees": True})
    wsl = C.run_impl(ctx, "uclass", ["%x" % c for c in WS], tag="wsuc")
    for l in wsl:
        cp, fl = l.split()
        if fl[0] != "0" or fl[1] != "0" or (int(cp, 16) >= 128 and fl[2] != "0"):
            failures.append({"case": cp, "check": "ascii_uclass", "detail": f"whitespace char has class flags {fl}",
                             "guards": set(), "model_agrees": True})
    for i, (t, exp) in enumerate(cases):
        agree = model[i] is None or impl[i] == model[i]
        if not agree:
            ndis += 1
            if len(ctx.corr_disagreements) < 20:
                ctx.corr_disagreements.append({"layer": "I1/I2 lex", "case": lines[i], "text": t, "impl": impl[i][:300], "model": model[i][:300]})
        if not impl[i].startswith("raw="):
            failures.append({"case": lines[i], "check": "returns", "detail": impl[i][:200], "guards": set(), "model_agrees": agree})
            continue
        got = nontrivia(t, impl[i])
        errs = PL.fields(impl[i]).get("errors", "")
        if got != exp:
            failures.append({"case": lines[i], "check": "lexemes_roundtrip",
                             "detail": {"text": t, "expected": exp[:12], "got": got[:12]}, "guards": set(),
                             "model_agrees": agree, "replay_how": "echo '<input>' | /verif/harness/target/debug/oq3-run lex"})
        elif errs:
            failures.append({"case": lines[i], "check": "no_lexical_error", "detail": {"text": t, "errors": errs},
                             "guards": set(), "model_agrees": agree})
        else:
            if len(exp) >= 2:
                nontriv += 1
        for k, _ in exp:
            kinds_hit[k] = kinds_hit.get(k, 0) + 1
    failures.sort(key=lambda f: len(f["case"]))
    C.decide(ctx, failures, C.load_findings("C15"))
    ctx.coverage.update({
        "evaluations": len(cases), "distinct_nontrivial": nontriv,
        "rule": "sequences of <= 12 well-formed lexemes drawn from the lexeme classes of Oq3/Ref/Lexeme.lean (all keywords, type names, punctuations, radices x underscore placements, float shapes, number+unit pairs, identifiers incl. non-ASCII, bit strings, strings, pragmas, annotations, version header) with random admissible separators; each lexeme list is laid out twice independently (trivia-irrelevance); non-trivial = >= 2 lexemes, table equals the lexemes, no lexical error",
        "traces_validated_against_impl": len(cases) if ctx.lake_ok else 0,
        "correspondence_disagreements": ndis, "lexeme_kinds_hit": len(kinds_hit),
        "samples": [{"text": cases[i][0][:100], "lexemes": cases[i][1][:8]} for i in (3, len(cases) - 1)],
    })
    return C.finish(ctx, trusted=C.TRUSTED_COMMON + [
        "the theorems assume AsciiUC (xid_start/xid_continue on ASCII = letters / letters+digits+'_'; the 11 whitespace characters carry no identifier/emoji class): checked against unicode-xid / unicode-properties on every run"],
        assumptions=["lexeme classes and their documented EXCLUSIONS in Oq3/Ref/Lexeme.lean"])
