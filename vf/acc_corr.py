"""Correspondence of the typed-accessor layer (I4 -> I5; property C05 'typed accessors return the
right constituents in the right roles').

For every program text:
  impl  `tree`      : the real CST (I4) with its diagnostics
  impl  `ast`       : the typed-AST dump (I5) printed through the real accessors of oq3_syntax::ast
  model `accessors` : Oq3.Acc.Dump.program (Oq3/Model/Accessors.lean) on the implementation's OWN
                      tree line (DESIGN §5.2 layering: the model is fed the previous layer's real
                      output, so a disagreement localises to the accessor layer)
The two dumps must be equal character for character (`SYNTAX-ERRORS n` lines included).

`run(ctx, texts)` -> (records, stats); disagreements are also appended to ctx.corr_disagreements.
Command line:  python3 -m vf.acc_corr [--n N] [--seed S] [--gen prog|ref|both|special]
"""
import collections
import os
import sys

from . import common as C
from . import gen_text as G


def run(ctx, texts, tag="acc"):
    lines = [G.enc(t) for t in texts]
    tree = C.run_impl(ctx, "tree", lines, tag=tag + "-itree")
    ast = C.run_impl(ctx, "ast", lines, tag=tag + "-iast")
    model = C.run_model(ctx, "accessors", tree, tag=tag + "-macc")
    stats = collections.Counter()
    recs = []
    for i, t in enumerate(texts):
        a, m, tr = ast[i], model[i], tree[i]
        r = {"text": t, "tree": tr, "impl": a, "model": m, "agree": None}
        if tr.startswith(("PANIC", "CRASH", "HANG")) or a.startswith(("PANIC", "CRASH", "HANG")):
            # the implementation panicked before/while producing a tree (parser / validation
            # findings of other properties): there is no I4 input for the accessor layer
            stats["impl-panicked (skipped)"] += 1
        else:
            r["agree"] = a == m
            if a == m:
                stats["agree"] += 1
                stats["agree: syntax-errors" if a.startswith("SYNTAX") else "agree: dump"] += 1
                if "!" in a:
                    stats["agree: dump with a panicking accessor"] += 1
            else:
                stats["disagree"] += 1
                if len(ctx.corr_disagreements) < 20:
                    ctx.corr_disagreements.append({"layer": "I4/I5 accessors", "case": t,
                                                   "impl": a[:600], "model": m[:600]})
        recs.append(r)
    return recs, stats


def run_chain(ctx, texts, tag="accch"):
    """Composition check (text -> I5 entirely inside the model): model `tree` -> model `accessors`
    against impl `ast`.  Escape-sequence diagnostics of string literals are not modelled by the
    tree model (Model/Validation.lean), so those cases are skipped."""
    from . import pipeline as PL
    lines = [G.enc(t) for t in texts]
    ucpath, _ = G.uclass_table(ctx, texts, C)
    itree = C.run_impl(ctx, "tree", lines, tag=tag + "-itree")
    ast = C.run_impl(ctx, "ast", lines, tag=tag + "-iast")
    mtree = C.run_model(ctx, ["tree", ucpath], lines, tag=tag + "-mtree")
    model = C.run_model(ctx, "accessors", mtree, tag=tag + "-macc")
    stats = collections.Counter()
    bad = []
    for i, t in enumerate(texts):
        a, m = ast[i], model[i]
        if a.startswith(("PANIC", "CRASH", "HANG")) or itree[i].startswith(("PANIC", "CRASH", "HANG")):
            stats["impl-panicked (skipped)"] += 1
            continue
        f = PL.fields(itree[i])
        if any(x.split(":", 1)[1].startswith(PL.UNESCAPE_MSGS) for x in f.get("clerrors", "").split(",") if x):
            stats["escape diagnostics (skipped)"] += 1
            continue
        if a == m:
            stats["agree"] += 1
        else:
            stats["disagree"] += 1
            bad.append({"text": t, "impl": a, "model": m})
            if len(ctx.corr_disagreements) < 20:
                ctx.corr_disagreements.append({"layer": "I0..I5 chain", "case": t, "impl": a[:600], "model": m[:600]})
    return bad, stats


def first_diff(a, b):
    n = min(len(a), len(b))
    for i in range(n):
        if a[i] != b[i]:
            return i
    return n


# programs aimed at the hand-written accessors and their panic sites (all syntactically accepted
# or rejected by the real parser as it pleases: the dump must agree either way)
SPECIAL = [
    "if (c) a; else {b;}", "if (c) a; else b;", "if (c) a;", "if (c) {a;} else {b;}", "if (c) {a;}",
    "if (c) {a;} else b;", "if (c) ;", "while (c) ;", "for int i in [0:3] ;", "if ({a;}) {b;}",
    "while (c) {a;}", "while (c) a;", "while ({a;}) {b;}", "for int i in [0:2:8] {a;}", "for int i in {1,2} a;",
    "for uint[8] i in x {a;}", "for i in [0:3] {a;}", "a[0] = b;", "a[0][1] = b[2];", "a = b;", "a = 1; -c;",
    "x = ();", "()();", "a += 1;", "a[1:2] = 3;", "x = a[0][1];", "x = a[0, 1];", "x = a[{1,2}];",
    "gate g a { }", "gate g(t) a, b { U(t,0,0) a; }", "gate g() a { }", "gate g { }", "gate g(a,b) { }",
    "def f(int a, qubit q) -> bit { return measure q; }", "def f() { }", "def f(creg a[2]) { }",
    "def f(readonly array[int[8], 2] a) { }", "def f(qubit[2] q, bit[2] c) -> int[8] { }",
    "inv @ pow(2) @ ctrl @ negctrl(2) @ x q, r;", "ctrl(2) @ gphase(pi);", "gphase(1.5);", "inv @ U(1,2,3) q;",
    "x q;", "cx q[0], q[1];", "cx $0, $1;", "rz(pi/2) q;", "g(1, 2, 3) a, b, c;", "f(1, 2);", "f();",
    "x = 1 + 2 * 3;", "x = (1 + 2) * 3;", "x = -1;", "x = !a;", "x = ~a;", "x = a ** b;", "x = a ++ b;",
    "x = a << 2 >= b;", "x = a || b && c;", "int[32] x = 5;", "const uint x = 0x1F;", "float[64] f = 1.5e3;",
    "complex[float[64]] z = 2.5im;", "duration d = 10ns;", "duration d = 1.5µs;", "stretch s;", "bit[4] b = \"0101\";",
    "bool t = true;", "angle[20] a = pi;", "input int[8] i;", "output bit o;", "qubit q;", "qubit[4] q;",
    "qreg q[4];", "creg c[2];", "array[int[8], 4] a;", "let a = q[0:1];", "let a = q ++ r;",
    "barrier q, r[0];", "barrier;", "delay[10ns] q;", "delay[1ns];", "reset q;", "reset q[0];", "reset $1;",
    "measure q;", "c = measure q;", "c[0] = measure q[0];", "measure q -> c;", "include \"stdgates.inc\";",
    "include \"a\\nb\";", "include \"a\\x41\\u{42}\";", "include \"a\\\n   b\";", "include \"a\\\n\";",
    "include \"a\\\n\n b\";", "include \"\";", "include \"é\";", "include \"a\\qb\";", "include 'x';",
    "OPENQASM 3.0;", "OPENQASM 3;", "pragma foo bar", "#pragma foo bar", "pragma", "#pragma", "pragma é",
    "@ann x y\nqubit q;", "@a\n", "switch (x) { case 1 { a; } case 2, 3 { b; } default { c; } }",
    "switch (x) { default { } }", "switch (x) { case 1 { } }", "break;", "continue;", "end;",
    "return;", "return x;", "return f(x);", "x = int[8](y);", "x = float(y);", "x = bit(y);",
    "x = 1_000;", "x = 0b1010;", "x = 0o17;", "x = 0XfF;", "x = 340282366920938463463374607431768211456;",
    "x = 3ab;", "x = 1.;", "x = .5;", "x = 1e3;", "x = 1.5E-3;", "x = 1e400;", "x = 4e-324;", "x = 1_0.5_0;",
    "x = 0.1;", "x = 123456789.123456789;", "x = 9007199254740993.0;", "x = 5e-324;", "x = 1e23;",
    "x = 1.7976931348623157e308;", "x = 2.2250738585072014e-308;", "x = 1e22;", "x = 1e21;", "x = 0.000001;",
    "x = 1.5ns;", "x = 2dt;", "x = 3ms;", "x = 4us;", "x = 1.0s;", "x = 5 ns;", "x = 1.5e;", "x = 1.5e+;",
    "x = 'a';", "x = \"10\";", "x = '1_0';", "x = [1,2];", "x = {1,2};", "x = a[1:2:3];", "x = a[:2];",
    "x = a[1:];", "x = a[:];", "defcal x q { }", "cal { }", "defcalgrammar \"openpulse\";", "extern f(int) -> int;",
    "box { x q; }", "box[10ns] { }", "x = $0;", "x = sizeof(a);", "x = sizeof(a, 1);",
    "if (a == b) x q; else if (c) y q; else z q;", "if (a) if (b) x q; else y q;",
    "while (a) while (b) x q;", "for int i in [0:1] for int j in [0:1] x q;",
    "if (a) { if (b) { x q; } } else { y q; }", "if (a) for int i in [0:1] x q; else y q;",
    "if (measure q) x q;", "if (c) {a;} else {b;} x = 1;", "while (c) {a;} x q; y q;",
]


def _main():
    import argparse
    from . import gen_prog, gen_ref
    ap = argparse.ArgumentParser()
    ap.add_argument("--n", type=int, default=20000)
    ap.add_argument("--seed", type=int, default=1)
    ap.add_argument("--gen", default="both")
    ap.add_argument("--show", type=int, default=5)
    ap.add_argument("--chain", action="store_true", help="also run text -> model tree -> model accessors")
    a = ap.parse_args()
    if os.environ.get("OQ3_ACC_DRIVER"):      # a driver binary built elsewhere (development)
        C.DRIVER = os.environ["OQ3_ACC_DRIVER"]
    ctx = C.Ctx("acc_corr", "full", a.seed)
    total = collections.Counter()
    sets = []
    if a.gen in ("special", "both", "all"):
        sets.append(("special", SPECIAL))
    if a.gen in ("prog", "both", "all"):
        sets.append(("gen_prog", gen_prog.gen_programs(a.seed, a.n)))
    if a.gen in ("ref", "both", "all"):
        sets.append(("gen_ref", [c["text"] for c in gen_ref.gen_ref_programs(a.seed, a.n)]))
    if a.gen in ("refinv", "all"):
        sets.append(("gen_ref invalid_rate=0.3", [c["text"] for c in gen_ref.gen_ref_programs(a.seed + 7, a.n, invalid_rate=0.3)]))
    if a.gen in ("table", "all"):
        sets.append(("table_programs", gen_prog.table_programs()))
    bad = 0
    for name, texts in sets:
        recs, stats = run(ctx, texts, tag="acc-" + name.split()[0])
        print(f"== {name}: {len(texts)} programs")
        for k in sorted(stats):
            print(f"   {k}: {stats[k]}")
        shown = 0
        for r in recs:
            if r["agree"] is False:
                bad += 1
                if shown < a.show:
                    shown += 1
                    d = first_diff(r["impl"], r["model"])
                    print("   DISAGREE", repr(r["text"][:300]))
                    print("     impl :", r["impl"][max(0, d - 80):d + 120])
                    print("     model:", r["model"][max(0, d - 80):d + 120])
        total.update(stats)
        if a.chain:
            cbad, cstats = run_chain(ctx, texts, tag="accch-" + name.split()[0])
            print("   chain (model tree -> model accessors vs impl ast):", dict(cstats))
            for r in cbad[:a.show]:
                d = first_diff(r["impl"], r["model"])
                print("   CHAIN-DISAGREE", repr(r["text"][:300]))
                print("     impl :", r["impl"][max(0, d - 80):d + 120])
                print("     model:", r["model"][max(0, d - 80):d + 120])
            bad += len(cbad)
    print("TOTAL", dict(total))
    sys.exit(1 if bad else 0)


if __name__ == "__main__":
    _main()
