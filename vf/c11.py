"""C11 — malformed lexemes are always diagnosed and errors gate the later stages."""
import random
from . import common as C
from . import gen_text as G
from . import gen_lexemes as GL
from . import gen_prog as GP
from . import pipeline as PL


def check(ctx):
    C.extract(ctx, ["SyntaxKind"])
    C.prove(ctx, ["Oq3.Props.C11Lex", "Oq3.Props.C11", "Oq3.Props.C11Stages", "Oq3.Props.C11StagesTotal"])
    okb, log = C.cargo_build()
    if not okb:
        C.violation(ctx, "harness-build-failed", {"log": log[-3000:]}, no_input=True)
        return C.finish(ctx, trusted=C.TRUSTED_COMMON)
    q = ctx.tier == "quick"
    mal = C.uniq(GL.gen_malformed(ctx.seed, 20000 if q else 300000), key=lambda d: d["text"])
    texts = [d["text"] for d in mal]
    lines = [G.enc(t) for t in texts]
    ucpath, _ = G.uclass_table(ctx, texts, C)
    impl = C.run_impl(ctx, "lex", lines)
    model = C.run_model(ctx, ["lex", ucpath], lines) if ctx.lake_ok else [None] * len(lines)
    failures, ndis, nontriv, classes = [], 0, 0, {}
    for i, d in enumerate(mal):
        agree = model[i] is None or impl[i] == model[i]
        if not agree:
            ndis += 1
            if len(ctx.corr_disagreements) < 20:
                ctx.corr_disagreements.append({"layer": "I1/I2 lex", "case": lines[i], "impl": impl[i][:300], "model": model[i][:300]})
        if not impl[i].startswith("raw="):
            continue
        f = PL.fields(impl[i])
        starts = [int(x) for x in f["starts"].split(",") if x != ""]
        errs = [int(x) for x in f["errors"].split(",") if x != ""]
        hit = any(starts[e] < d["bad_end"] and starts[e + 1] > d["bad_start"] for e in errs)
        classes[d["class"]] = classes.get(d["class"], 0) + 1
        if hit:
            nontriv += 1
        else:
            failures.append({"case": lines[i], "check": "malformed_flagged",
                             "detail": {"text": d["text"], "class": d["class"], "bad": [d["bad_start"], d["bad_end"]], "errors": f["errors"]},
                             "guards": {"class:" + d["class"]}, "model_agrees": agree,
                             "replay_how": "echo '<input>' | /verif/harness/target/debug/oq3-run lex"})
    # the gate: lex-checked parse returns a tree iff no lexical diagnostic; analysis runs iff no syntax diagnostic
    rnd = random.Random(ctx.seed)
    progs = GP.gen_programs(ctx.seed, 3000 if q else 30000)
    gate_texts = texts[: (4000 if q else 40000)] + progs + G.random_texts(rnd, 4000 if q else 40000, maxlen=12)
    glines = [G.enc(t) for t in gate_texts]
    it = C.run_impl(ctx, "tree", glines, tag="gt")
    il = C.run_impl(ctx, "lex", glines, tag="gl")
    isem = C.run_impl(ctx, "sema", glines, tag="gs")
    ngate = 0
    for t, ln, a, b, c in zip(gate_texts, glines, it, il, isem):
        if PL.canon_panic(a) or not b.startswith("raw="):
            continue
        fa, fb = PL.fields(a), PL.fields(b)
        has_lex_err = fb.get("errors", "") != ""
        ngate += 1
        if (fa.get("cl") == "none") != has_lex_err:
            failures.append({"case": ln, "check": "check_lex_iff", "detail": {"text": t, "cl": fa.get("cl"), "lex_errors": fb.get("errors")},
                             "guards": set(), "model_agrees": True, "replay_how": "oq3-run tree / lex"})
        if fa.get("cl") == "none" and fa.get("clerrors", "").count(",") + 1 != len([x for x in fb["errors"].split(",") if x]):
            failures.append({"case": ln, "check": "check_lex_errors_are_lexical", "detail": {"text": t}, "guards": set(), "model_agrees": True})
        if fa.get("cl") == "none":
            # the always-parse entry point reports every lexical diagnostic too (same range, same message)
            full = fa.get("errors", "").split(",")
            missing = [e for e in fa.get("clerrors", "").split(",") if e and full.count(e) < fa["clerrors"].split(",").count(e)]
            if missing:
                failures.append({"case": ln, "check": "full_parse_keeps_lexical_diagnostics",
                                 "detail": {"text": t, "lexical": fa.get("clerrors", "")[:300], "full_parse": fa.get("errors", "")[:300], "missing": missing[:3]},
                                 "guards": set(), "model_agrees": True, "replay_how": "echo '<input>' | /verif/harness/target/debug/oq3-run tree   (fields errors= and clerrors=)"})
        any_syntax = fa.get("clerrors", "") != ""
        if PL.canon_panic(c):
            continue
        if any_syntax != c.startswith("SYNTAX-ERRORS"):
            failures.append({"case": ln, "check": "gate_on_syntax_errors",
                             "detail": {"text": t, "syntax_errors": fa.get("clerrors", "")[:200], "sema": c[:120]},
                             "guards": set(), "model_agrees": True, "replay_how": "echo '<input>' | oq3-run sema"})
    # the gate over the include tree: a diagnostic in ANY transitively included file skips analysis
    import json
    BAD = ["int = ;", "\"unterminated", "0b;", "x = /* open", "1e;", "qubit[ q;", "OPENQASM 3.x;"]
    icases, expect = [], []
    for depth in (1, 2, 3, 4, 11, 12, 17, 24):
        for bad_at in range(0, depth + 1):            # 0 = the main file, depth = the deepest file; plus: no error
            for bad in BAD[: (3 if q else len(BAD))] + [None]:
                names = [f"f{k}.inc" for k in range(1, depth + 1)]
                texts_ = []
                for k in range(depth + 1):
                    body = [f"int v{k} = {k};"]
                    if k < depth:
                        body.insert(rnd.randint(0, 1), f'include "{names[k]}";')
                    if bad is not None and k == bad_at:
                        body.insert(rnd.randint(0, len(body)), bad)
                    texts_.append("\n".join(body) + "\n")
                files = {names[k - 1]: texts_[k] for k in range(1, depth + 1)}
                icases.append({"id": f"g{len(icases)}", "files": files, "main": texts_[0], "search": None, "env": None})
                expect.append(bad is not None)
    iout = C.run_impl(ctx, "include", [json.dumps(c) for c in icases], tag="gi")
    ninc = 0
    for c, e, o in zip(icases, expect, iout):
        if PL.canon_panic(o) and not e:
            continue                                   # a panic of the analysis proper: C03's business
        ninc += 1
        if o.startswith("SYNTAX-ERRORS") != e:         # incl.: analysis ran (and panicked) although a file has a diagnostic
            failures.append({"case": json.dumps(c), "check": "gate_over_include_tree",
                             "detail": {"files": c["files"], "main": c["main"], "diagnostic_expected_somewhere": e, "result": o[:300]},
                             "guards": set(), "model_agrees": True,
                             "replay_how": "echo '<case json>' | /verif/harness/target/debug/oq3-run include"})
    from . import incwrap as IW
    IW.through_entry_points(ctx, "C11", progs + texts[:2000], failures)
    failures.sort(key=lambda f: len(f["case"]))
    C.decide(ctx, failures, C.load_findings("C11"))
    ctx.coverage.update({
        "evaluations": len(mal) + ngate, "distinct_nontrivial": nontriv,
        "rule": "well-formed lexeme sequences with one malformed lexeme of each class spliced at a lexeme boundary (non-trivial = a lexer diagnostic whose token range meets the malformed lexeme); plus malformed texts, generated programs and random texts through parse_check_lex and the semantic entry point to test the gates; plus chains of real include files of depth 1-4 with a lexical or syntactic error at each level (or none): analysis must be skipped exactly when some file has one",
        "traces_validated_against_impl": len(mal) if ctx.lake_ok else 0,
        "malformed_classes": classes, "gate_cases": ngate, "include_tree_gate_cases": ninc, "correspondence_disagreements": ndis,
        "samples": [{"text": mal[i]["text"][:100], "class": mal[i]["class"]} for i in (0, len(mal) - 1)],
    })
    return C.finish(ctx, trusted=C.TRUSTED_COMMON + [
        "include files are not exercised here (C18 covers the recursive gate over included files)"],
        assumptions=["AsciiUC as in C15"])
