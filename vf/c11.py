"""C11 — malformed lexemes are always diagnosed and errors gate the later stages."""
import random
from . import common as C
from . import gen_text as G
from . import gen_lexemes as GL
from . import gen_prog as GP
from . import pipeline as PL


def check(ctx):
    C.extract(ctx, ["SyntaxKind"])
    C.prove(ctx, ["Oq3.Props.C11Lex", "Oq3.Props.C11"])
    okb, log = C.cargo_build()
    if not okb:
        C.violation(ctx, "harness-build-failed", {"log": log[-3000:]}, no_input=True)
        return C.finish(ctx, trusted=C.TRUSTED_COMMON)
    q = ctx.tier == "quick"
    mal = GL.gen_malformed(ctx.seed, 20000 if q else 300000)
    texts = [d["text"] for d in mal]
    lines = [G.enc(t) for t in texts]
    ucpath, _ = G.uclass_table(ctx, texts, C)
    impl = C.run_impl(ctx, "lex", lines)
    model = C.run_model(ctx, ["lex", ucpath], lines) if ctx.lake_ok else [None] * len(lines)
    failures, ndis, nontriv, classes = [], 0, 0, {}
    for i, d in enumerate(mal):
        agree = model[i] is None or impl[i] == model[i]
        if not agree:
            ndis += 1
            if len(ctx.corr_disagreements) < 20:
                ctx.corr_disagreements.append({"layer": "I1/I2 lex", "case": lines[i], "impl": impl[i][:300], "model": model[i][:300]})
        if not impl[i].startswith("raw="):
            continue
        f = PL.fields(impl[i])
        starts = [int(x) for x in f["starts"].split(",") if x != ""]
        errs = [int(x) for x in f["errors"].split(",") if x != ""]
        hit = any(starts[e] < d["bad_end"] and starts[e + 1] > d["bad_start"] for e in errs)
        classes[d["class"]] = classes.get(d["class"], 0) + 1
        if hit:
            nontriv += 1
        else:
            failures.append({"case": lines[i], "check": "malformed_flagged",
                             "detail": {"text": d["text"], "class": d["class"], "bad": [d["bad_start"], d["bad_end"]], "errors": f["errors"]},
                             "guards": {"class:" + d["class"]}, "model_agrees": agree,
                             "replay_how": "echo '<input>' | /verif/harness/target/debug/oq3-run lex"})
    # the gate: lex-checked parse returns a tree iff no lexical diagnostic; analysis runs iff no syntax diagnostic
    rnd = random.Random(ctx.seed)
    progs = GP.gen_programs(ctx.seed, 3000 if q else 30000)
    gate_texts = texts[: (4000 if q else 40000)] + progs + G.random_texts(rnd, 4000 if q else 40000, maxlen=12)
    glines = [G.enc(t) for t in gate_texts]
    it = C.run_impl(ctx, "tree", glines, tag="gt")
    il = C.run_impl(ctx, "lex", glines, tag="gl")
    isem = C.run_impl(ctx, "sema", glines, tag="gs")
    ngate = 0
    for t, ln, a, b, c in zip(gate_texts, glines, it, il, isem):
        if PL.canon_panic(a) or not b.startswith("raw="):
            continue
        fa, fb = PL.fields(a), PL.fields(b)
        has_lex_err = fb.get("errors", "") != ""
        ngate += 1
        if (fa.get("cl") == "none") != has_lex_err:
            failures.append({"case": ln, "check": "check_lex_iff", "detail": {"text": t, "cl": fa.get("cl"), "lex_errors": fb.get("errors")},
                             "guards": set(), "model_agrees": True, "replay_how": "oq3-run tree / lex"})
        if fa.get("cl") == "none" and fa.get("clerrors", "").count(",") + 1 != len([x for x in fb["errors"].split(",") if x]):
            failures.append({"case": ln, "check": "check_lex_errors_are_lexical", "detail": {"text": t}, "guards": set(), "model_agrees": True})
        any_syntax = fa.get("clerrors", "") != ""
        if PL.canon_panic(c):
            continue
        if any_syntax != c.startswith("SYNTAX-ERRORS"):
            failures.append({"case": ln, "check": "gate_on_syntax_errors",
                             "detail": {"text": t, "syntax_errors": fa.get("clerrors", "")[:200], "sema": c[:120]},
                             "guards": set(), "model_agrees": True, "replay_how": "echo '<input>' | oq3-run sema"})
    failures.sort(key=lambda f: len(f["case"]))
    C.decide(ctx, failures, C.load_findings("C11"))
    ctx.coverage.update({
        "evaluations": len(mal) + ngate, "distinct_nontrivial": nontriv,
        "rule": "well-formed lexeme sequences with one malformed lexeme of each class spliced at a lexeme boundary (non-trivial = a lexer diagnostic whose token range meets the malformed lexeme); plus malformed texts, generated programs and random texts through parse_check_lex and the semantic entry point to test the gates",
        "traces_validated_against_impl": len(mal) if ctx.lake_ok else 0,
        "malformed_classes": classes, "gate_cases": ngate, "correspondence_disagreements": ndis,
        "samples": [{"text": mal[i]["text"][:100], "class": mal[i]["class"]} for i in (0, len(mal) - 1)],
    })
    return C.finish(ctx, trusted=C.TRUSTED_COMMON + [
        "include files are not exercised here (C18 covers the recursive gate over included files)"],
        assumptions=["AsciiUC as in C15"])
