"""C04 — valid OpenQASM 3 programs (reference grammar of vf/gen_ref.py) are accepted with zero diagnostics."""
import os
from . import common as C
from . import refcheck as R

ACCEPT_MARKS = ("diagnostics", "no tree", "parse_check_lex tree", "tree oracle", "stray top-level tokens")


def split_mismatch(items):
    acc = [x for x in (items or []) if x.startswith(ACCEPT_MARKS)]
    shape = [x for x in (items or []) if not x.startswith(ACCEPT_MARKS)]
    return acc, shape


def check(ctx):
    C.extract(ctx)
    mods = ["Oq3.Props.C04", "Oq3.Props.C04Lang", "Oq3.Props.C04Lang2"]
    C.prove(ctx, mods)
    okb, log = C.cargo_build()
    if not okb:
        C.violation(ctx, "harness-build-failed", {"log": log[-3000:]}, no_input=True)
        return C.finish(ctx, trusted=C.TRUSTED_COMMON)
    q = ctx.tier == "quick"
    recs, stats = R.run_ref(ctx, 4000 if q else 60000, depth=3 if q else 4, seed_off=40, want_ast=False)
    failures, nontriv = [], 0
    for r in recs:
        if r["panic"]:
            failures.append({"case": r["line"], "check": "accepted", "detail": {"text": r["case"]["text"], "what": "panic " + r["panic"]},
                             "guards": set(), "model_agrees": False})      # a panic is never one of the recorded acceptance causes
            continue
        acc, _ = split_mismatch(r["cst"])
        if acc:
            failures.append({"case": r["line"], "check": "accepted",
                             "detail": {"text": r["case"]["text"], "what": acc[:3]},
                             "guards": set(r["causes_cst"]), "model_agrees": r["model_agrees_cst"],
                             "replay_how": "echo '<input>' | /verif/harness/target/debug/oq3-run tree   (field errors= must be empty)"})
        else:
            nontriv += 1
    # accepted programs stay accepted when they reach the parser through real include files / the file entry point
    from . import incwrap as IW
    IW.through_entry_points(ctx, "C04", [r["case"]["text"] for r in recs if not r["panic"] and not split_mismatch(r["cst"])[0]], failures)
    failures.sort(key=lambda f: len(f["case"]))
    C.decide(ctx, failures, C.load_findings("C04"))
    ctx.coverage.update({
        "evaluations": len(recs), "distinct_nontrivial": nontriv,
        "rule": "programs derived from the reference grammar (vf/gen_ref.py: every statement kind and expression form the front end claims, depth-bounded), printed with required and redundant parentheses under random admissible layout (blanks of all kinds, nested block comments, line comments, or nothing where lexemes do not fuse), plus every top-level statement of each program as a program of its own and all 19x19 + 3x19x2 operator cases; both parse entry points; non-trivial = accepted with no diagnostic by both",
        "reference_stats": {k: v for k, v in stats.items() if k != "ast_attributed"},
    })
    return C.finish(ctx, trusted=C.TRUSTED_COMMON + [
        "the reference grammar is vf/gen_ref.py (Python); the Lean statement of C04 is about the model grammar on the token strings of the reference language"],
        assumptions=["depth/size bounds of the generator (DESIGN §6)"])
