"""C04 — valid OpenQASM 3 programs (reference grammar of vf/gen_ref.py) are accepted with zero diagnostics."""
import os
from . import common as C
from . import refcheck as R
from . import gen_text as G
from . import pipeline as PL

ACCEPT_MARKS = ("diagnostics", "no tree", "parse_check_lex tree", "tree oracle", "stray top-level tokens")


def split_mismatch(items):
    acc = [x for x in (items or []) if x.startswith(ACCEPT_MARKS)]
    shape = [x for x in (items or []) if not x.startswith(ACCEPT_MARKS)]
    return acc, shape


def check(ctx):
    C.extract(ctx)
    mods = ["Oq3.Props.C04", "Oq3.Props.C04Lang", "Oq3.Props.C04Lang2"]
    C.prove(ctx, mods)
    okb, log = C.cargo_build()
    if not okb:
        C.violation(ctx, "harness-build-failed", {"log": log[-3000:]}, no_input=True)
        return C.finish(ctx, trusted=C.TRUSTED_COMMON)
    q = ctx.tier == "quick"
    recs, stats = R.run_ref(ctx, 4000 if q else 60000, depth=3 if q else 4, seed_off=40, want_ast=False)
    failures, nontriv = [], 0
    for r in recs:
        if r["panic"]:
            failures.append({"case": r["line"], "check": "accepted", "detail": {"text": r["case"]["text"], "what": "panic " + r["panic"]},
                             "guards": set(), "model_agrees": False})      # a panic is never one of the recorded acceptance causes
            continue
        acc, _ = split_mismatch(r["cst"])
        if acc:
            failures.append({"case": r["line"], "check": "accepted",
                             "detail": {"text": r["case"]["text"], "what": acc[:3]},
                             "guards": set(r["causes_cst"]), "model_agrees": r["model_agrees_cst"],
                             "replay_how": "echo '<input>' | /verif/harness/target/debug/oq3-run tree   (field errors= must be empty)"})
        else:
            nontriv += 1
    # literals beyond 128 bits are lexically and syntactically ordinary literals (what the analyser makes of their
    # value is not C04's business): integers of every radix with more significant digits than u128 holds, floats with
    # hundreds of digits, very long bit strings and identifiers
    big = [str(2 ** 128), str(2 ** 128 + 1), str(2 ** 200), "0x" + "F" * 33, "0x" + "f" * 40, "0b" + "1" * 129, "0b" + "10" * 70,
           "0o" + "7" * 44, "1" + "0" * 60 + ".5", "0." + "3" * 400, "1e400", "\"" + "01" * 300 + "\"", "x" * 300]
    btexts = [t % b for b in big for t in ("int[200] v = %s;", "v = %s;", "%s;", "f(%s, 1);", "if (a == %s) { }")]
    bout = C.run_impl(ctx, "tree", [G.enc(t) for t in btexts], tag="big")
    for t, o in zip(btexts, bout):
        if PL.canon_panic(o) or PL.fields(o).get("errors", "") != "" or PL.fields(o).get("clerrors", "") != "":
            failures.append({"case": G.enc(t), "check": "accepted", "detail": {"text": t, "what": (PL.fields(o).get("errors", "") if not PL.canon_panic(o) else o)[:300]},
                             "guards": set(), "model_agrees": False, "replay_how": "echo '<input>' | /verif/harness/target/debug/oq3-run tree   (fields errors= / clerrors= must be empty)"})
    # accepted programs stay accepted when they reach the parser through real include files / the file entry point
    from . import incwrap as IW
    IW.through_entry_points(ctx, "C04", [r["case"]["text"] for r in recs if not r["panic"] and not split_mismatch(r["cst"])[0]], failures)
    failures.sort(key=lambda f: len(f["case"]))
    C.decide(ctx, failures, C.load_findings("C04"))
    ctx.coverage.update({
        "evaluations": len(recs), "distinct_nontrivial": nontriv,
        "rule": "programs derived from the reference grammar (vf/gen_ref.py: every statement kind and expression form the front end claims, depth-bounded), printed with required and redundant parentheses under random admissible layout (blanks of all kinds, nested block comments, line comments, or nothing where lexemes do not fuse), plus every top-level statement of each program as a program of its own and all 19x19 + 3x19x2 operator cases; both parse entry points; non-trivial = accepted with no diagnostic by both",
        "reference_stats": {k: v for k, v in stats.items() if k != "ast_attributed"},
    })
    return C.finish(ctx, trusted=C.TRUSTED_COMMON + [
        "the reference grammar is vf/gen_ref.py (Python); the Lean statement of C04 is about the model grammar on the token strings of the reference language"],
        assumptions=["depth/size bounds of the generator (DESIGN §6)"])
