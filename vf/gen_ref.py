"""Reference-language generator with expected structure (C04 / C05), plain Python 3, stdlib only.

API
---
`gen_ref_programs(seed, n, depth=4, layout="mixed", invalid_rate=0.0, p_red=0.05, p_trail=0.02) -> list[dict]`
    deterministic in `seed` (program i only depends on (seed, i)); 1..8 top-level statements, bodies
    nested up to `depth`; layout "plain" (single blanks, deterministic), "random" (admissible separators
    of gen_lexemes: blanks of all kinds, nested block comments, line comments, or nothing where two
    lexemes do not fuse) or "mixed"; `p_red` = probability of redundant parentheses per expression
    node; `p_trail` = probability of a trailing comma per list (the official grammar admits one in
    every list; recorded as entry["trailing_commas"]); `invalid_rate` = share of programs with an
    injected stray `)` ("valid": False, `stmts` = the statements before the injection).  Every case is
        {"text": str, "stmts": [entry...], "valid": bool}
    entry = {"kind": <CST node kind of the statement as the real grammar names it; an EXPR_STMT carries
                      the kind of its expression child: "EXPR_STMT(GATE_CALL_EXPR)">,
             "text": <exact source text of the statement, first to last non-trivia lexeme>,
             "ast":  <role dict, see below>}
    Nested bodies are lists of such entries.  An annotation is an entry of its own
    (ANNOTATION_STATEMENT) that directly precedes the entry of the statement it annotates.
`operator_pair_cases() -> list[dict]`
    all 19x19 ordered pairs `a o1 b o2 c` and the 3x19x2 unary/binary cases `-a op b`, `a op -b`, each
    as the one-statement program `int x = <expr>;` (a declaration initialiser: this context is parsed
    with `expr_bp(1)` and has no F06 problem).  Fields: text, o1/o2 or unary/op/side, expected (the
    expression under the SPEC grouping), stmts, valid.
`match_cst(case, harness_line) -> list[str]`
    compares the line printed by `oq3-run tree` for `case["text"]` with the expectation; [] = match.
`match_ast(case, ast_line) -> list[str]`
    the same for the typed AST dump of `oq3-run ast` (every field = what one accessor returned, see
    /verif/harness/src/m_ast.rs): the dump is converted to the entry form (expressions to the list
    trees, ParenExpr = ["paren", e]) and compared structurally; additionally `value()` of integer /
    float literals, `str()` of bit strings and `time_unit()` of timing literals are checked against
    the literal text.  Array types/literals, old-style declarations and LetStmt are opaque in the dump.
    `KNOWN_CAUSES_AST` / `attribute_ast(case)`: KNOWN_CAUSES (a CST defect shows in the AST too) plus
      F07_if_then_stmt_else_block   `if (c) a = 1; else { b = 2; }`  true body = the else block, false
                                    body = the then statement (swapped)
      F07_if_then_stmt_else_stmt    `if (c) a = 1; else b = 2;` (also else-if)  both bodies = `a = 1;`
      F07_if_then_stmt_no_else      `if (c) a = 1;`  acquires a false body equal to the then statement
      assign_indexed_lhs_identifier_rhs  `a[0] = b;`  AssignmentStmt::identifier() (first IDENTIFIER
                                    child) returns the RHS `b`, which the semantic pass takes as LHS
`KNOWN_CAUSES`, `attribute(case) -> list[str]`
    cause id -> predicate over a generated case: "this case is expected to mismatch on the unchanged
    parser because of this cause".  Predicates only look at the expected structure.

Expression trees (lists)
------------------------
["bin", op, l, r]  ["pre", op, e]  ["paren", e]  ["call", name, args]  ["index", e, items]
(items: expressions, ["range", start, step|None, stop], or a single ["set", [e...]])
["cast", type, e]  ["id", name]  ["lit", text] (timing/imaginary literal: number and unit concatenated)
["measure", operand]  ["hw", "$0"]  ["set", [e...]]  ["arraylit", [e|arraylit...]]
types: ["type", name, width|None] (complex: width is None or ["type","float",w]),
       ["qubit", width|None], ["array", base_type, [dim...]].
EVERY pair of parentheses of the text is a ["paren", e] node (= PAREN_EXPR of the CST), the ones the
SPEC table requires as well as the redundant ones; removing the paren nodes gives the abstract tree.
Printing is therefore structure-directed and a spec-conforming parser recovers exactly `ast`.

Statement role dicts
--------------------
CLASSICAL_DECLARATION_STATEMENT {"const","type","name","init"}; QUANTUM_DECLARATION_STATEMENT
{"type":["qubit",w],"name"}; OLD_STYLE_DECLARATION_STATEMENT {"reg","name","size"};
I_O_DECLARATION_STATEMENT {"io","type","name"}; ASSIGNMENT_STMT {"lhs","op":"=","rhs"};
EXPR_STMT(BIN_EXPR) with a compound operator {"lhs","op","rhs"}; other expression statements
{"expr"}; ALIAS_DECLARATION_STATEMENT {"name","value"}; gate calls (EXPR_STMT(GATE_CALL_EXPR |
MODIFIED_GATE_CALL_EXPR | G_PHASE_CALL_EXPR)) {"modifiers","name","args": list|None,"qubits"};
EXPR_STMT(MEASURE_EXPRESSION) {"target": None,"operand"}; RESET/BARRIER {"operands"}; DELAY_STMT
{"duration","operands"}; IF_STMT {"cond","then","else","then_block","else_block"} (else-if = else
list holding one IF_STMT entry, else_block False); WHILE_STMT {"cond","body","body_block"}; FOR_STMT
{"type","var","iterable","body","body_block"}; SWITCH_CASE_STMT {"target","cases":[{"values","body"}],
"default"}; GATE {"name","params": list|None (None = no parentheses),"qubits","body"}; DEF {"name",
"params":[{"type","name"}],"ret","body"}; BREAK_STMT/CONTINUE_STMT/END_STMT {}; PRAGMA_STATEMENT /
ANNOTATION_STATEMENT {"text"}; INCLUDE {"path"}; EXPR_STMT(RETURN_EXPR) {"value"}.

Spec precedence used for the expected grouping (higher binds tighter): || 1, && 2, | 3, ^ 4, & 5,
== != 6, < <= > >= 7, << >> 8, + - 9, * / % 10, unary - ! ~ 11, ** 12 (right-assoc), postfix above.
A prefix expression as RIGHT operand never needs parentheses (`a ** -b`), as left operand of `**` it
does (`(-a) ** b`).

Known causes (all confirmed on the unchanged parser, minimal examples)
----------------------------------------------------------------------
F06_assign_binary_rhs        `x = a + b;`   `=` has binding power 12: the RHS stops at `a`, diagnostics.
F08_pow_power_assoc          `a ** b * c`, `a ** b ** c`   `**` has power 7 and is left-associative.
F08_equality_vs_relational   `a == b < c`   one level for == != < <= > >=.
F08_bitwise_vs_comparison    `a & b == c`   | ^ & bind tighter than comparisons.
F08_unary_vs_pow             `-a ** b`      prefix operand parsed at power 255: `(-a) ** b`.
unary_tilde_rejected         `int x = ~a;`  `~` is handled in `lhs` but missing from LHS_FIRST/EXPR_FIRST,
                                            so `expr_bp` refuses every expression that starts with `~`
                                            (at any operand position).
assign_then_operator_stmt    `x = 1; -y;`   after an ASSIGNMENT_STMT (semicolon included) the Pratt loop
                                            goes on: one BIN_EXPR(ASSIGNMENT_STMT - y), no diagnostic.
F09_let_stmt_kind            `h q; let a = q;`, `{ let a = q; }`  `stmt` yields LET_STMT (no NAME node)
                                            where `item` yields ALIAS_DECLARATION_STATEMENT.
for_ident_iterable_stmt_body `for int i in arr h q;`  IDENT IDENT is taken as a gate call `arr h q`.
gate_empty_param_parens      `gate g() q { }`  "expected one or more parameters" (ungrammar allows it).
annotation_single_stmt_body  `if (c) @a b\\n h q;`  the annotation alone becomes the body.
return_cast_value            `def f() { return int(x); }`  `return_expr` only looks at EXPR_FIRST, which has
                                            no type keyword: the value is not parsed ("Expecting semicolon").
stmt_starts_with_sized_cast  `int[8](x) + 1;`  a statement starting with a type that has a designator goes
                                            through `classical_declaration_stmt`, which ends the statement
                                            after the cast (`int(x) + 1;` and `int[8](x);` are fine).
set_trailing_comma           `for int i in {1, 2,} { }`, `a[{1, 2,}]`  the only list flavour that refuses
                                            the trailing comma (its end token is `]`, not `}`).
gphase_trailing_comma        `gphase(x,);`  the argument of gphase is parsed as ONE expression, so `(x,)`
                                            becomes a TUPLE_EXPR (no diagnostic; `U(x,) q;` is fine).

Valid OpenQASM 3 that is left out because the front end does not claim it (neither ungrammar nor
grammar): `measure q -> c;` (no arrow form), `ctrl @ gphase(a) q;` (GPhaseCallExpr has no operand
list), compound operators `~=` and `**=`, ranges with omitted bounds (`a[:2]`, `a[1:]`; RangeExpr has
mandatory start and stop), annotations/comments between the number and the unit of a timing literal
are never written (blanks only, as in the official lexer).  Not generated either: `OPENQASM 3;` header,
defcal/cal/extern/box, anonymous scopes, empty statements, old-style register parameters, array
reference parameters.

Self-check:  python3 gen_ref.py <seed> <n>   (env OQ3_RUN overrides the harness binary).
"""
import os
import random
import re
import sys

try:
    from . import gen_lexemes as GL
    from . import sexp as SX
except ImportError:                                    # run as a script
    sys.path.insert(0, os.path.dirname(os.path.abspath(__file__)))
    import gen_lexemes as GL
    import sexp as SX

# ----------------------------------------------------------------------------- tables

BINOPS = ["||", "&&", "|", "^", "&", "==", "!=", "<", "<=", ">", ">=", "<<", ">>", "+", "-", "*", "/",
          "%", "**"]
UNOPS = ["-", "!", "~"]
SPEC_PREC = {"||": 1, "&&": 2, "|": 3, "^": 4, "&": 5, "==": 6, "!=": 6, "<": 7, "<=": 7, ">": 7,
             ">=": 7, "<<": 8, ">>": 8, "+": 9, "-": 9, "*": 10, "/": 10, "%": 10, "**": 12}
UNARY_PREC = 11
RIGHT_ASSOC = {"**"}
# the table of `current_op` in crates/oq3_parser/src/grammar/expressions.rs at the pinned commit
# (all left-associative); only used by the cause predicates
IMPL_PREC = {"||": 3, "&&": 4, "==": 5, "!=": 5, "<": 5, "<=": 5, ">": 5, ">=": 5, "|": 6, "^": 7,
             "**": 7, "&": 8, "<<": 9, ">>": 9, "+": 10, "-": 10, "*": 11, "/": 11, "%": 11}
# compound assignment operators the ungrammar lists (`~=` and `**=` are not claimed)
COMPOUND = ["+=", "-=", "*=", "/=", "&=", "|=", "^=", "%=", "<<=", ">>="]
EQ_OPS = {"==", "!="}
REL_OPS = {"<", "<=", ">", ">="}
BIT_OPS = {"|", "^", "&"}

VARS = ["a", "b", "c", "x", "y", "n", "m", "k", "θ"]
BITVARS = ["c", "cb", "flag"]
QUBITS = ["q", "r", "qa", "qb"]
GATES = ["h", "cx", "rz", "U", "g1", "mygate"]
FUNCS = ["f", "fn2", "sin", "popcount"]
LOOPVARS = ["i", "j"]
UNITS = ["dt", "ns", "us", "ms", "µs", "s"]
SCALARS = ["int", "uint", "float", "angle", "complex", "bool", "bit", "duration", "stretch"]
WIDTH_TYPES = ["int", "uint", "float", "angle", "bit"]
NON_ITEM_KINDS = ("PRAGMA_STATEMENT", "ANNOTATION_STATEMENT", "OLD_STYLE_DECLARATION_STATEMENT",
                  "ASSIGNMENT_STMT")
_WORDS = set(GL.KEYWORDS) | set(GL.TYPES)


def spec_needs_paren(parent_op, side, child):
    """child: print-ready expression; parent_op None = prefix operator"""
    k = child[0]
    if parent_op is None:
        return k == "bin" and SPEC_PREC[child[1]] < UNARY_PREC
    if parent_op == "++":
        return k in ("bin", "pre")
    pl = SPEC_PREC[parent_op]
    if k == "pre":
        return side == "L" and UNARY_PREC < pl
    if k != "bin":
        return False
    if child[1] == "++":
        return True
    cl = SPEC_PREC[child[1]]
    if cl != pl:
        return cl < pl
    return (side == "L") == (parent_op in RIGHT_ASSOC)


def spec_group(o1, o2):
    """expected tree of `a o1 b o2 c`"""
    a, b, c = ["id", "a"], ["id", "b"], ["id", "c"]
    p1, p2 = SPEC_PREC[o1], SPEC_PREC[o2]
    if p1 > p2 or (p1 == p2 and o1 not in RIGHT_ASSOC):
        return ["bin", o2, ["bin", o1, a, b], c]
    return ["bin", o1, a, ["bin", o2, b, c]]


# ----------------------------------------------------------------------------- generator

class _Gen:
    def __init__(self, rnd, depth, p_red=0.05):
        self.r = rnd
        self.depth = depth
        self.p_red = p_red

    def p(self, x):
        return self.r.random() < x

    def ch(self, xs):
        return self.r.choice(xs)

    # ---------------------------------------------------------------- atoms
    def int_lit(self):
        r = self.r.random()
        if r < 0.7:
            return ["lit", self.ch(["0", "1", "2", "3", "5", "7", "10", "32", "1_000", "255", "1_000_000", "1_2_3_4", "0_0"])]
        return ["lit", self.ch(["0x1F", "0xff", "0b101", "0B11", "0o17", "0X2a", "0x_1_f", "0b1_0_1_0", "0o1_7_7", "0xDEAD_BEEF_00"])]

    def float_lit(self):
        return ["lit", self.ch(["1.5", "0.25", "3.0", "1e3", "2.5e-2", ".5", "6.02E+3", "1_0.2_5", "1_0e1_0", "5.", "0.0e0", "1E-1_0"])]

    def timing_lit(self):
        return ["lit", self.ch(["10", "100", "2", "1.5", "0.5", "20"]) + self.ch(UNITS)]

    def imag_lit(self):
        return ["lit", self.ch(["2", "1.5", "3.0", "0.5"]) + "im"]

    def atom(self):
        r = self.r.random()
        if r < 0.55:
            return ["id", self.ch(VARS)]
        if r < 0.75:
            return self.int_lit()
        if r < 0.83:
            return self.float_lit()
        if r < 0.89:
            return ["lit", self.ch(["true", "false"])]
        if r < 0.94:
            return ["lit", self.ch(['"0101"', '"1"', "'0011'", '"1_0"', '"1_0_1_0_1"', "'1010_0101_1100'", '"0_0_0"', '""'])]
        if r < 0.97:
            return ["id", self.ch(["pi", "tau"])]
        return self.imag_lit()

    # ---------------------------------------------------------------- raw expression trees
    def expr(self, d=3):
        r = self.r.random()
        if d <= 0 or r < 0.40:
            return self.atom()
        if r < 0.74:
            return ["bin", self.ch(BINOPS), self.expr(d - 1), self.expr(d - 1)]
        if r < 0.82:
            return ["pre", self.ch(["-", "-", "!", "!", "~"]), self.expr(d - 1)]
        if r < 0.87:
            return ["call", self.ch(FUNCS), [self.expr(d - 1) for _ in range(self.ch([0, 1, 1, 2, 3]))]]
        if r < 0.93:
            return self.index_expr(d - 1)
        if r < 0.97:
            return ["cast", self.cast_type(), self.expr(d - 1)]
        return ["paren", self.expr(d - 1)]

    def simple(self):
        """small expression: atom, or one operator over atoms"""
        r = self.r.random()
        if r < 0.7:
            return self.atom()
        if r < 0.9:
            return ["bin", self.ch(BINOPS), self.atom(), self.atom()]
        return ["pre", "-", self.atom()]

    def nonbin(self, d=2):
        """expression whose root is not a binary operator"""
        for _ in range(20):
            e = self.expr(d)
            if e[0] != "bin":
                return e
        return self.atom()

    def item(self):
        """an element of a bracketed / braced list (index item, range bound, set element): any expression may stand
        there, so every class of FIRST token is drawn — cast, call, index expression, parenthesis, each prefix operator"""
        r = self.r.random()
        if r < 0.62:
            return self.simple()
        if r < 0.70:
            return ["cast", self.cast_type(), self.simple()]
        if r < 0.77:
            return ["call", self.ch(FUNCS), [self.simple() for _ in range(self.ch([0, 1, 2]))]]
        if r < 0.83:
            return ["index", ["id", self.ch(VARS)], [self.simple()]]
        if r < 0.89:
            return ["paren", self.simple()]
        if r < 0.96:
            return ["pre", self.ch(["-", "!", "~"]), self.atom()]
        return ["bin", self.ch(BINOPS), ["cast", self.cast_type(), self.atom()], self.atom()]

    def range_(self):
        step = self.item() if self.p(0.35) else None
        return ["range", self.item(), step, self.item()]

    def index_items(self):
        if self.p(0.08):
            return [["set", [self.item() for _ in range(self.ch([1, 2, 3]))]]]
        return [self.range_() if self.p(0.25) else self.item() for _ in range(self.ch([1, 1, 1, 2]))]

    def index_expr(self, d):
        r = self.r.random()
        if r < 0.7:
            base = ["id", self.ch(VARS)]
        elif r < 0.82:
            base = ["call", self.ch(FUNCS), [self.simple() for _ in range(self.ch([0, 1, 2]))]]
        elif r < 0.91:
            base = ["cast", self.cast_type(), self.simple()]
        else:
            base = ["paren", self.expr(max(d, 1))]
        e = ["index", base, self.index_items()]
        while self.p(0.25):
            e = ["index", e, self.index_items()]
        return e

    def width(self):
        r = self.r.random()
        if r < 0.8:
            return ["lit", self.ch(["1", "2", "4", "8", "16", "32", "64"])]
        if r < 0.93:
            return ["id", self.ch(["n", "m"])]
        return ["bin", self.ch(["+", "*", "-"]), ["id", "n"], ["lit", "1"]]

    def scalar_type(self, names=None, pw=0.5):
        t = self.ch(names or SCALARS)
        if t in WIDTH_TYPES and self.p(pw):
            return ["type", t, self.width()]
        if t == "complex" and self.p(0.6):
            return ["type", "complex", ["type", "float", self.width() if self.p(0.6) else None]]
        return ["type", t, None]

    def cast_type(self):
        return self.scalar_type(["int", "uint", "float", "angle", "bool", "bit", "complex"], 0.5)

    def duration_expr(self):
        r = self.r.random()
        if r < 0.55:
            return self.timing_lit()
        if r < 0.7:
            return ["id", self.ch(["d1", "d2", "st"])]
        if r < 0.8:
            return ["bin", "*", self.int_lit(), self.timing_lit()]
        if r < 0.9:
            return ["bin", self.ch(["+", "-"]), self.timing_lit(), ["id", self.ch(["d1", "st"])]]
        if r < 0.95:
            return ["pre", "-", self.timing_lit()]
        return ["bin", "/", ["id", "d1"], self.int_lit()]

    def qubit_operand(self, pool=None, plain=False):
        if pool is not None:
            return ["id", self.ch(pool)]
        r = self.r.random()
        if plain or r < 0.5:
            return ["id", self.ch(QUBITS)]
        if r < 0.8:
            return ["index", ["id", self.ch(QUBITS)], [self.ch([["lit", "0"], ["lit", "1"], ["id", "i"]]) if self.p(0.7) else self.item()]]
        if r < 0.87:
            return ["index", ["id", self.ch(QUBITS)], [["range", ["lit", "0"], None, ["lit", "2"]]]]
        return ["hw", self.ch(["$0", "$1", "$12"])]

    # ---------------------------------------------------------------- print-ready trees
    def ready(self, e, top=False):
        """insert the parentheses the SPEC table requires plus random redundant ones"""
        if e is None:
            return None
        k = e[0]
        if k == "bin":
            op = e[1]
            l, r = self.ready(e[2]), self.ready(e[3])
            if spec_needs_paren(op, "L", l):
                l = ["paren", l]
            if spec_needs_paren(op, "R", r):
                r = ["paren", r]
            out = ["bin", op, l, r]
        elif k == "pre":
            c = self.ready(e[2])
            if spec_needs_paren(None, "R", c):
                c = ["paren", c]
            out = ["pre", e[1], c]
        elif k == "paren":
            out = ["paren", self.ready(e[1])]
        elif k == "call":
            out = ["call", e[1], [self.ready(a) for a in e[2]]]
        elif k == "index":
            out = ["index", self.ready(e[1]), [self.ready_item(i) for i in e[2]]]
        elif k == "cast":
            out = ["cast", self.ready_type(e[1]), self.ready(e[2])]
        elif k == "set":
            return ["set", [self.ready(a) for a in e[1]]]
        elif k == "arraylit":
            return ["arraylit", [self.ready(a) for a in e[1]]]
        elif k == "range":
            return self.ready_item(e)
        elif k == "measure":
            return ["measure", self.ready_operand(e[1])]
        else:
            out = list(e)
        if self.p(self.p_red):
            out = ["paren", out]
        return out

    def ready_item(self, i):
        if i[0] == "range":
            return ["range", self.ready(i[1]), self.ready(i[2]), self.ready(i[3])]
        return self.ready(i)

    def ready_type(self, t):
        if t is None:
            return None
        if t[0] == "type":
            w = t[2]
            if w is not None and w[0] == "type":
                return ["type", t[1], self.ready_type(w)]
            return ["type", t[1], self.ready(w)]
        if t[0] == "qubit":
            return ["qubit", self.ready(t[1])]
        if t[0] == "array":
            return ["array", self.ready_type(t[1]), [self.ready(d) for d in t[2]]]
        raise ValueError(t)

    def ready_operand(self, o):
        """gate operands / lvalues: no redundant parentheses around the operand itself"""
        if o[0] == "index":
            return ["index", self.ready_operand(o[1]), [self.ready_item(i) for i in o[2]]]
        return list(o)

    # ---------------------------------------------------------------- statements
    # every generator returns an entry {"kind", "ast", "_t": printer tag}; "text" is filled in later

    def E(self, tag, kind, ast):
        return {"kind": kind, "text": None, "ast": ast, "_t": tag}

    def lvalue(self):
        if self.p(0.7):
            return ["id", self.ch(VARS)]
        e = ["index", ["id", self.ch(VARS)], self.index_items()]
        if self.p(0.15):
            e = ["index", e, self.index_items()]
        return self.ready_operand(e)

    def s_decl(self, const=False):
        t = self.scalar_type()
        name = self.ch(VARS)
        tn = t[1]
        if tn in ("duration", "stretch"):
            init = self.duration_expr() if (const or self.p(0.6)) else None
            name = self.ch(["d1", "d2", "st"])
        elif tn == "complex":
            init = ["bin", self.ch(["+", "-"]), self.float_lit(), self.imag_lit()] if self.p(0.4) \
                else (self.expr(2) if (const or self.p(0.5)) else None)
        elif tn == "bit" and self.p(0.3):
            init = ["lit", self.ch(['"0101"', '"11"', "'1'", '"1_0_1_0_1"', "'1_1_1'"])]
            name = self.ch(BITVARS)
        else:
            init = self.expr(3) if (const or self.p(0.65)) else None
        return self.E("decl", "CLASSICAL_DECLARATION_STATEMENT",
                      {"const": const, "type": self.ready_type(t), "name": name, "init": self.ready(init)})

    def s_array_decl(self):
        base = self.scalar_type(["int", "uint", "float", "angle", "bool", "complex"], 0.7)
        # up to the seven dimensions the language allows
        dims = [self.ch([["lit", "2"], ["lit", "3"], ["id", "n"]]) for _ in range(self.ch([1, 1, 2, 2, 3, 4, 5, 6, 7]))]
        init = None
        if self.p(0.5) and len(dims) <= 2:
            row = lambda: ["arraylit", [self.simple() for _ in range(self.ch([1, 2, 3]))]]
            init = row() if len(dims) == 1 else ["arraylit", [row() for _ in range(2)]]
        return self.E("decl", "CLASSICAL_DECLARATION_STATEMENT",
                      {"const": False, "type": self.ready_type(["array", base, dims]), "name": "arr",
                       "init": self.ready(init)})

    def s_measure_decl(self):
        t = ["type", "bit", self.width() if self.p(0.4) else None]
        return self.E("decl", "CLASSICAL_DECLARATION_STATEMENT",
                      {"const": False, "type": self.ready_type(t), "name": self.ch(BITVARS),
                       "init": ["measure", self.ready_operand(self.qubit_operand())]})

    def s_qubit(self):
        w = self.width() if self.p(0.5) else None
        return self.E("qdecl", "QUANTUM_DECLARATION_STATEMENT",
                      {"type": ["qubit", self.ready(w)], "name": self.ch(QUBITS)})

    def s_oldreg(self):
        reg = self.ch(["qreg", "creg"])
        return self.E("oldreg", "OLD_STYLE_DECLARATION_STATEMENT",
                      {"reg": reg, "name": self.ch(QUBITS if reg == "qreg" else BITVARS),
                       "size": self.ready(self.width())})

    def s_io(self):
        t = self.scalar_type(["int", "uint", "float", "angle", "complex", "bool", "bit", "duration"])
        return self.E("io", "I_O_DECLARATION_STATEMENT",
                      {"io": self.ch(["input", "output"]), "type": self.ready_type(t), "name": self.ch(VARS)})

    def s_assign(self):
        r = self.r.random()
        if r < 0.5:
            rhs = self.nonbin(2)
        elif r < 0.62:
            rhs = ["paren", self.expr(2)]
        else:
            rhs = self.expr(2)
        return self.E("assign", "ASSIGNMENT_STMT", {"lhs": self.lvalue(), "op": "=", "rhs": self.ready(rhs)})

    def s_measure_assign(self):
        lhs = ["id", self.ch(BITVARS)]
        if self.p(0.4):
            lhs = ["index", lhs, [self.ch([["lit", "0"], ["lit", "1"], ["id", "i"]])]]
        return self.E("assign", "ASSIGNMENT_STMT",
                      {"lhs": lhs, "op": "=", "rhs": ["measure", self.ready_operand(self.qubit_operand())]})

    def s_cassign(self):
        return self.E("assign", "EXPR_STMT(BIN_EXPR)",
                      {"lhs": self.lvalue(), "op": self.ch(COMPOUND), "rhs": self.ready(self.expr(2))})

    def s_alias(self):
        def part():
            q = ["id", self.ch(QUBITS)]
            r = self.r.random()
            if r < 0.4:
                return q
            if r < 0.7:
                return ["index", q, [["range", self.int_lit(), None, self.int_lit()]]]
            if r < 0.85:
                return ["index", q, [["set", [self.int_lit() for _ in range(self.ch([1, 2, 3]))]]]]
            return ["index", q, [self.int_lit()]]
        v = part()
        for _ in range(self.ch([0, 0, 1, 1, 2])):
            v = ["bin", "++", v, part()]
        return self.E("alias", "ALIAS_DECLARATION_STATEMENT", {"name": self.ch(["al", "reg2", "qq"]), "value": v})

    def modifiers(self):
        out = []
        for _ in range(self.ch([1, 1, 1, 2, 2, 3, 4])):
            m = self.ch(["inv", "pow", "ctrl", "negctrl"])
            if m == "inv":
                out.append(["inv"])
            elif m == "pow":
                out.append(["pow", self.ready(self.ch([self.int_lit, self.simple, self.float_lit])())])
            else:
                out.append([m, self.ready(self.ch([self.int_lit, self.simple])()) if self.p(0.4) else None])
        return out

    def s_gatecall(self, ctx, mods=False):
        pool = ctx.get("gq")
        name = self.ch(GATES)
        args = None
        if self.p(0.45):
            n = self.ch([0, 1, 1, 1, 2, 3]) if self.p(0.9) else 0
            args = [self.ready(self.expr(2)) for _ in range(n)]
        qs = [self.ready_operand(self.qubit_operand(pool)) for _ in range(self.ch([1, 1, 1, 2, 2, 3]))]
        m = self.modifiers() if mods else []
        kind = "EXPR_STMT(MODIFIED_GATE_CALL_EXPR)" if m else "EXPR_STMT(GATE_CALL_EXPR)"
        return self.E("gatecall", kind, {"modifiers": m, "name": name, "args": args, "qubits": qs})

    def s_gphase(self, mods=False):
        m = self.modifiers() if mods else []
        kind = "EXPR_STMT(MODIFIED_GATE_CALL_EXPR)" if m else "EXPR_STMT(G_PHASE_CALL_EXPR)"
        return self.E("gatecall", kind,
                      {"modifiers": m, "name": "gphase", "args": [self.ready(self.expr(2))], "qubits": []})

    def s_measure(self):
        return self.E("measure", "EXPR_STMT(MEASURE_EXPRESSION)",
                      {"target": None, "operand": self.ready_operand(self.qubit_operand())})

    def s_reset(self):
        return self.E("reset", "RESET", {"operands": [self.ready_operand(self.qubit_operand())]})

    def s_barrier(self, ctx):
        pool = ctx.get("gq")
        n = self.ch([0, 1, 1, 2, 3])
        return self.E("barrier", "BARRIER",
                      {"operands": [self.ready_operand(self.qubit_operand(pool)) for _ in range(n)]})

    def s_delay(self):
        n = self.ch([0, 1, 1, 1, 2])
        return self.E("delay", "DELAY_STMT",
                      {"duration": self.ready(self.duration_expr()),
                       "operands": [self.ready_operand(self.qubit_operand()) for _ in range(n)]})

    def s_exprstmt(self):
        r = self.r.random()
        if r < 0.5:
            e = ["call", self.ch(FUNCS), [self.expr(2) for _ in range(self.ch([0, 1, 2]))]]
        elif r < 0.7:
            e = ["pre", "-", self.nonbin(1)]
        elif r < 0.85:
            e = ["bin", self.ch(["+", "*", "<", "=="]), ["pre", "-", self.atom()], self.simple()]
        elif r < 0.92:
            e = ["cast", self.cast_type(), self.simple()]
        else:
            e = ["bin", self.ch(BINOPS), ["cast", self.cast_type(), self.simple()], self.simple()]
        e = self.ready(e)
        while _leftmost(e)[0] == "paren":          # a statement does not start with `(` here
            e = _replace_leftmost(e, _leftmost(e)[1])
        return self.E("exprstmt", "EXPR_STMT(%s)" % cst_kind_of(e), {"expr": e})

    def s_return(self):
        r = self.r.random()
        if r < 0.2:
            v = None
        elif r < 0.35:
            v = ["measure", self.qubit_operand()]
        else:
            v = self.expr(2)
        return self.E("return", "EXPR_STMT(RETURN_EXPR)", {"value": self.ready(v)})

    def s_simple_kw(self, kw):
        return self.E("kw", {"break": "BREAK_STMT", "continue": "CONTINUE_STMT", "end": "END_STMT"}[kw], {})

    def s_pragma(self):
        body = self.ch(["foo bar", "user circuit.cutoff = 3", "x y z;", "a // not a comment", "\"quoted\"",
                        "mode=fast /* kept */", "π θ", "1 + 2"])
        return self.E("line", "PRAGMA_STATEMENT",
                      {"text": self.ch(["pragma", "#pragma"]) + self.ch([" ", " ", "\t"]) + body})

    def s_annotation(self):
        name = self.ch(["bind", "reversible", "crosstalk", "noswap", "_tag", "θann"])
        body = self.ch(["", "", " a b", " [2:3]", " word1 // x", " k=v; z", "\ttabbed", " $0, $1"])
        return self.E("line", "ANNOTATION_STATEMENT", {"text": "@" + name + body})

    def s_include(self):
        return self.E("include", "INCLUDE", {"path": self.ch(["stdgates.inc", "qelib1.inc", "my file.qasm", "a/b.inc"])})

    # ---- compound statements
    def body(self, ctx, d, force_block=False, single_ok=True):
        """returns (entries, is_block)"""
        if force_block or not single_ok or self.p(0.5):
            n = self.ch([0, 1, 1, 2, 2, 3])
            out = []
            for _ in range(n):
                out += self.stmt(ctx, d)
            return out, True
        return self.stmt(ctx, d, annotate=0.03), False

    def s_if(self, ctx, d):
        c2 = dict(ctx, top=False)
        cond = self.ready(self.expr(2))
        then, tb = self.body(c2, d - 1)
        els, eb = None, False
        r = self.r.random()
        if r < 0.25 and d > 1:
            els, eb = [self.s_if(c2, d - 1)], False                  # else-if chain
        elif r < 0.6:
            els, eb = self.body(c2, d - 1)
        if els is not None and not tb and _open_if_tail(then[-1]):
            tb = True                                               # dangling else
        return self.E("if", "IF_STMT", {"cond": cond, "then": then, "else": els, "then_block": tb,
                                        "else_block": eb})

    def s_while(self, ctx, d):
        c2 = dict(ctx, top=False, loop=True)
        cond = self.ready(self.expr(2))
        b, bb = self.body(c2, d - 1)
        return self.E("while", "WHILE_STMT", {"cond": cond, "body": b, "body_block": bb})

    def s_for(self, ctx, d):
        c2 = dict(ctx, top=False, loop=True)
        t = self.scalar_type(["int", "uint", "float", "angle", "bit"], 0.4)
        r = self.r.random()
        if r < 0.35:
            it = ["set", [self.item() for _ in range(self.ch([1, 2, 3, 4]))]]
        elif r < 0.7:
            it = self.range_()
        elif r < 0.88:
            it = ["id", self.ch(["arr", "b", "c"])]
        else:
            it = ["index", ["id", self.ch(["arr", "b"])], [self.range_()]]
        it = self.ready_item(it) if it[0] == "range" else (self.ready(it) if it[0] == "set" else self.ready_operand(it))
        b, bb = self.body(c2, d - 1)
        if not bb and it[0] in ("id", "index") and b[0]["_t"] == "exprstmt" \
                and _leftmost(b[0]["ast"]["expr"])[0] == "pre":
            bb = True      # `for int i in arr -y;` would read `arr - y` as the iterable (also per spec)
        return self.E("for", "FOR_STMT", {"type": self.ready_type(t), "var": self.ch(LOOPVARS), "iterable": it,
                                          "body": b, "body_block": bb})

    def s_switch(self, ctx, d):
        c2 = dict(ctx, top=False)
        target = self.ready(self.expr(2))
        cases = []
        for _ in range(self.ch([0, 1, 1, 2, 3])):
            vals = [self.ready(self.ch([self.int_lit, self.int_lit, self.simple])()) for _ in range(self.ch([1, 1, 2, 3]))]
            b, _ = self.body(c2, d - 1, force_block=True)
            cases.append({"values": vals, "body": b})
        default = None
        if not cases or self.p(0.6):
            default, _ = self.body(c2, d - 1, force_block=True)
        return self.E("switch", "SWITCH_CASE_STMT", {"target": target, "cases": cases, "default": default})

    def s_gate(self, d):
        r = self.r.random()
        if r < 0.4:
            params = None
        elif r < 0.43:
            params = []
        else:
            params = self.r.sample(["a", "b", "theta", "λ"], self.ch([1, 1, 2, 3]))
        qubits = self.r.sample(["q", "r", "qa", "qb"], self.ch([1, 1, 2, 3]))
        ctx = {"top": False, "gq": qubits}
        body = []
        for _ in range(self.ch([0, 1, 1, 2, 3])):
            r = self.r.random()
            if r < 0.6:
                body.append(self.s_gatecall(ctx))
            elif r < 0.8:
                body.append(self.s_gatecall(ctx, mods=True))
            elif r < 0.9:
                body.append(self.s_gphase(mods=self.p(0.3)))
            else:
                body.append(self.s_barrier(ctx))
        return self.E("gate", "GATE", {"name": self.ch(GATES[2:]), "params": params, "qubits": qubits, "body": body})

    def s_def(self, d):
        params = []
        names = self.r.sample(["a", "b", "n", "q", "r", "c"], self.ch([0, 1, 1, 2, 3]))
        for nm in names:
            if nm in ("q", "r"):
                t = ["qubit", self.width() if self.p(0.4) else None]
            else:
                t = self.scalar_type()
            params.append({"type": self.ready_type(t), "name": nm})
        ret = self.ready_type(self.scalar_type(["int", "uint", "float", "angle", "complex", "bool", "bit"])) \
            if self.p(0.6) else None
        ctx = {"top": False, "indef": True}
        body = []
        for _ in range(self.ch([0, 1, 2, 2, 3])):
            body += self.stmt(ctx, min(d - 1, 2))
        if self.p(0.6):
            body.append(self.s_return())
        return self.E("def", "DEF", {"name": self.ch(FUNCS[:2] + ["sub1"]), "params": params, "ret": ret, "body": body})

    # ---- dispatch
    def stmt(self, ctx, d, annotate=0.04):
        """a list of entries: annotation entries followed by one statement"""
        out = []
        while self.p(annotate) and len(out) < 2:
            out.append(self.s_annotation())
        out.append(self.stmt1(ctx, d))
        return out

    def stmt1(self, ctx, d):
        top = ctx.get("top", False)
        w = [("decl", 14), ("cdecl", 4), ("mdecl", 2), ("assign", 9), ("massign", 2), ("cassign", 6),
             ("alias", 3), ("gatecall", 9), ("mgatecall", 5), ("gphase", 2), ("measure", 2), ("reset", 2),
             ("barrier", 2), ("delay", 3), ("exprstmt", 2), ("end", 1), ("adecl", 1)]
        if d > 0:
            w += [("if", 6), ("while", 3), ("for", 5), ("switch", 3)]
        if top:
            w += [("qubit", 4), ("oldreg", 3), ("io", 3), ("include", 2), ("pragma", 2), ("gate", 4), ("def", 4)]
        if ctx.get("loop"):
            w += [("break", 3), ("continue", 3)]
        if ctx.get("indef"):
            w += [("return", 4)]
        tot = sum(x for _, x in w)
        r = self.r.random() * tot
        for k, x in w:
            r -= x
            if r < 0:
                break
        if k == "decl":
            return self.s_decl()
        if k == "cdecl":
            return self.s_decl(const=True)
        if k == "adecl":
            return self.s_array_decl()
        if k == "mdecl":
            return self.s_measure_decl()
        if k == "assign":
            return self.s_assign()
        if k == "massign":
            return self.s_measure_assign()
        if k == "cassign":
            return self.s_cassign()
        if k == "alias":
            return self.s_alias()
        if k == "gatecall":
            return self.s_gatecall(ctx)
        if k == "mgatecall":
            return self.s_gatecall(ctx, mods=True)
        if k == "gphase":
            return self.s_gphase(mods=self.p(0.4))
        if k == "measure":
            return self.s_measure()
        if k == "reset":
            return self.s_reset()
        if k == "barrier":
            return self.s_barrier(ctx)
        if k == "delay":
            return self.s_delay()
        if k == "exprstmt":
            return self.s_exprstmt()
        if k in ("end", "break", "continue"):
            return self.s_simple_kw(k)
        if k == "if":
            return self.s_if(ctx, d)
        if k == "while":
            return self.s_while(ctx, d)
        if k == "for":
            return self.s_for(ctx, d)
        if k == "switch":
            return self.s_switch(ctx, d)
        if k == "qubit":
            return self.s_qubit()
        if k == "oldreg":
            return self.s_oldreg()
        if k == "io":
            return self.s_io()
        if k == "include":
            return self.s_include()
        if k == "pragma":
            return self.s_pragma()
        if k == "gate":
            return self.s_gate(d)
        if k == "def":
            return self.s_def(d)
        if k == "return":
            return self.s_return()
        raise ValueError(k)

    def program(self):
        ctx = {"top": True}
        out = []
        for _ in range(self.r.randint(1, 8)):
            out += self.stmt(ctx, self.depth)
        return out


def cst_kind_of(e):
    k = e[0]
    if k == "index":
        b = e
        while b[0] == "index":
            b = b[1]
        return "INDEXED_IDENTIFIER" if b[0] == "id" else "INDEX_EXPR"
    if k == "lit":
        return "TIMING_LITERAL" if _split_timing(e[1]) else "LITERAL"
    return {"bin": "BIN_EXPR", "pre": "PREFIX_EXPR", "paren": "PAREN_EXPR", "call": "CALL_EXPR",
            "cast": "CAST_EXPRESSION", "id": "IDENTIFIER", "measure": "MEASURE_EXPRESSION",
            "hw": "HARDWARE_QUBIT"}[k]


def _split_timing(text):
    """('10', 'ns') for a timing / imaginary literal text, else None"""
    if not text or not (text[0].isdigit() or text[0] == ".") or text[:2].lower() in ("0x", "0b", "0o"):
        return None
    for u in ("µs", "dt", "ns", "us", "ms", "im", "s"):
        if text.endswith(u):
            return text[:-len(u)], u
    return None


def _open_if_tail(e):
    """the statement ends with an `if` that has no `else`: a following `else` would attach to it"""
    k, a = e["kind"], e["ast"]
    if k == "IF_STMT":
        if a["else"] is None:
            return True
        return (not a["else_block"]) and _open_if_tail(a["else"][-1])
    if k in ("WHILE_STMT", "FOR_STMT"):
        return (not a["body_block"]) and _open_if_tail(a["body"][-1])
    return False


def _replace_leftmost(e, new):
    if e[0] == "bin":
        return ["bin", e[1], _replace_leftmost(e[2], new), e[3]]
    if e[0] == "index":
        return ["index", _replace_leftmost(e[1], new), e[2]]
    return new


def _leftmost(e):
    """the sub-expression whose first lexeme is the first lexeme of `e`"""
    while True:
        if e[0] == "bin":
            e = e[2]
        elif e[0] == "index":
            e = e[1]
        else:
            return e


# ----------------------------------------------------------------------------- printing (lexemes)

def _lx(cls, text, nosp=False, glue=False):
    return {"cls": cls, "text": text, "kind": None, "nosp": nosp, "glue": glue}


def _num_cls(t):
    p = t[:2].lower()
    if p == "0x":
        return "hex"
    if p == "0b":
        return "bin"
    if p == "0o":
        return "oct"
    if "." in t or "e" in t.lower():
        return "float"
    return "int"


class _Printer:
    """appends the lexemes of statements to `self.out`; records lexeme index ranges in the entries"""

    def __init__(self, rnd=None, p_trail=0.0):
        self.out = []
        self.rnd = rnd
        self.p_trail = p_trail
        self.stack = []

    def w(self, text, nosp=False):            # word: keyword / identifier / type name
        self.out.append(_lx("word", text, nosp))

    def pn(self, text, nosp=False):           # punctuation / (composite) operator: one lexeme
        self.out.append(_lx("punct", text, nosp))

    def open(self, t, nosp=True):
        self.pn(t, nosp)
        self._after_open = len(self.out)

    def close(self, t):
        self.pn(t, True)

    def tight(self, i):
        """no space (plain mode) before lexeme number i"""
        if i < len(self.out):
            self.out[i]["nosp"] = True

    def lit(self, text):
        tm = _split_timing(text)
        if tm:
            self.out.append(_lx(_num_cls(tm[0]), tm[0], glue=True))
            self.out.append(_lx("word", tm[1], nosp=True))
        elif text[0] in "\"'":
            self.out.append(_lx("str", text))
        elif text in ("true", "false"):
            self.w(text)
        else:
            self.out.append(_lx(_num_cls(text), text))

    def seq(self, xs, f, kind=None):
        """comma-separated list; `kind` names the list flavour: with probability `p_trail` a trailing
        comma is written (every list of the official grammar admits one) and recorded in the entry of
        the innermost enclosing statement as entry["trailing_commas"] = [kind...]"""
        for i, x in enumerate(xs):
            if i:
                self.pn(",", True)
            f(x)
        if kind and xs and self.rnd is not None and self.rnd.random() < self.p_trail:
            self.pn(",", True)
            self.stack[-1].setdefault("trailing_commas", []).append(kind)

    def parens(self, f, nosp=True):
        self.pn("(", nosp)
        i = len(self.out)
        f()
        self.tight(i)
        self.pn(")", True)

    def bracks(self, f, nosp=True):
        self.pn("[", nosp)
        i = len(self.out)
        f()
        self.tight(i)
        self.pn("]", True)

    def type_(self, t):
        if t[0] == "type":
            self.w(t[1])
            if t[2] is not None:
                self.bracks(lambda: self.type_(t[2]) if t[2][0] == "type" else self.expr(t[2]))
        elif t[0] == "qubit":
            self.w("qubit")
            if t[1] is not None:
                self.bracks(lambda: self.expr(t[1]))
        elif t[0] == "array":
            self.w("array")

            def inner():
                self.type_(t[1])
                for d in t[2]:
                    self.pn(",", True)
                    self.expr(d)
            self.bracks(inner)
        else:
            raise ValueError(t)

    def item(self, i):
        if i[0] == "range":
            self.expr(i[1])
            self.pn(":", True)
            j = len(self.out)
            if i[2] is not None:
                self.expr(i[2])
                self.tight(j)
                self.pn(":", True)
                j = len(self.out)
            self.expr(i[3])
            self.tight(j)
        else:
            self.expr(i)

    def expr(self, e):
        k = e[0]
        if k == "id":
            self.w(e[1])
        elif k == "lit":
            self.lit(e[1])
        elif k == "hw":
            self.out.append(_lx("hardware", e[1]))
        elif k == "bin":
            self.expr(e[2])
            self.pn(e[1])
            self.expr(e[3])
        elif k == "pre":
            self.pn(e[1])
            i = len(self.out)
            self.expr(e[2])
            if self.out[i]["cls"] != "punct":
                self.tight(i)
        elif k == "paren":
            self.parens(lambda: self.expr(e[1]), nosp=False)
        elif k == "call":
            self.w(e[1])
            self.parens(lambda: self.seq(e[2], self.expr, "args"))
        elif k == "index":
            self.expr(e[1])
            self.bracks(lambda: self.seq(e[2], self.item, None if e[2][0][0] == "set" else "index"))
        elif k == "cast":
            self.type_(e[1])
            self.parens(lambda: self.expr(e[2]))
        elif k == "measure":
            self.w("measure")
            self.expr(e[1])
        elif k in ("set", "arraylit"):
            self.pn("{")
            i = len(self.out)
            self.seq(e[1], self.expr, k)
            self.tight(i)
            self.pn("}", True)
        elif k == "range":
            self.item(e)
        else:
            raise ValueError(e)

    def block(self, entries):
        self.pn("{")
        for s in entries:
            self.stmt(s)
        self.pn("}")

    def body(self, entries, is_block):
        if is_block:
            self.block(entries)
        else:
            for s in entries:
                self.stmt(s)

    def semi(self):
        self.pn(";", True)

    def stmt(self, s):
        s["_lo"] = len(self.out)
        self.stack.append(s)
        t, a = s["_t"], s["ast"]
        if t == "decl":
            if a["const"]:
                self.w("const")
            self.type_(a["type"])
            self.w(a["name"])
            if a["init"] is not None:
                self.pn("=")
                self.expr(a["init"])
            self.semi()
        elif t == "qdecl":
            self.type_(a["type"])
            self.w(a["name"])
            self.semi()
        elif t == "oldreg":
            self.w(a["reg"])
            self.w(a["name"])
            self.bracks(lambda: self.expr(a["size"]))
            self.semi()
        elif t == "io":
            self.w(a["io"])
            self.type_(a["type"])
            self.w(a["name"])
            self.semi()
        elif t == "assign":
            self.expr(a["lhs"])
            self.pn(a["op"])
            self.expr(a["rhs"])
            self.semi()
        elif t == "alias":
            self.w("let")
            self.w(a["name"])
            self.pn("=")
            self.expr(a["value"])
            self.semi()
        elif t == "gatecall":
            for m in a["modifiers"]:
                self.w(m[0])
                if len(m) > 1 and m[1] is not None:
                    self.parens(lambda: self.expr(m[1]))
                self.pn("@")
            self.w(a["name"])
            if a["args"] is not None:
                self.parens(lambda: self.seq(a["args"], self.expr,
                                             "gphase_args" if a["name"] == "gphase" else "args"))
            self.seq(a["qubits"], self.expr, "qubits")
            self.semi()
        elif t == "measure":
            self.w("measure")
            self.expr(a["operand"])
            self.semi()
        elif t in ("reset", "barrier"):
            self.w(t)
            self.seq(a["operands"], self.expr, "qubits" if t == "barrier" else None)
            self.semi()
        elif t == "delay":
            self.w("delay")
            self.bracks(lambda: self.expr(a["duration"]))
            self.seq(a["operands"], self.expr, "qubits")
            self.semi()
        elif t == "exprstmt":
            self.expr(a["expr"])
            self.semi()
        elif t == "return":
            self.w("return")
            if a["value"] is not None:
                self.expr(a["value"])
            self.semi()
        elif t == "kw":
            self.w({"BREAK_STMT": "break", "CONTINUE_STMT": "continue", "END_STMT": "end"}[s["kind"]])
            self.semi()
        elif t == "line":
            self.out.append(_lx("pragma" if s["kind"] == "PRAGMA_STATEMENT" else "annotation", a["text"]))
        elif t == "include":
            self.w("include")
            self.out.append(_lx("str", '"' + a["path"] + '"'))
            self.semi()
        elif t == "if":
            self.w("if")
            self.parens(lambda: self.expr(a["cond"]), nosp=False)
            self.body(a["then"], a["then_block"])
            if a["else"] is not None:
                self.w("else")
                self.body(a["else"], a["else_block"])
        elif t == "while":
            self.w("while")
            self.parens(lambda: self.expr(a["cond"]), nosp=False)
            self.body(a["body"], a["body_block"])
        elif t == "for":
            self.w("for")
            self.type_(a["type"])
            self.w(a["var"])
            self.w("in")
            it = a["iterable"]
            if it[0] == "range":
                self.bracks(lambda: self.item(it), nosp=False)
            else:
                self.expr(it)
            self.body(a["body"], a["body_block"])
        elif t == "switch":
            self.w("switch")
            self.parens(lambda: self.expr(a["target"]), nosp=False)
            self.pn("{")
            for c in a["cases"]:
                self.w("case")
                self.seq(c["values"], self.expr, "case")
                self.block(c["body"])
            if a["default"] is not None:
                self.w("default")
                self.block(a["default"])
            self.pn("}")
        elif t == "gate":
            self.w("gate")
            self.w(a["name"])
            if a["params"] is not None:
                self.parens(lambda: self.seq(a["params"], self.w, "gate_params"))
            self.seq(a["qubits"], self.w, "gate_qubits")
            self.block(a["body"])
        elif t == "def":
            self.w("def")
            self.w(a["name"])

            def one(p):
                self.type_(p["type"])
                self.w(p["name"])
            self.parens(lambda: self.seq(a["params"], one, "def_params"))
            if a["ret"] is not None:
                self.pn("->")
                self.type_(a["ret"])
            self.block(a["body"])
        else:
            raise ValueError(t)
        self.stack.pop()
        s["_hi"] = len(self.out)


# ----------------------------------------------------------------------------- layout

def _layout_random(rnd, lex):
    """like gen_lexemes.layout (same separator source, same `follows` discipline) but returns the
    separators so that lexeme offsets are known; number and unit of a timing literal are separated by
    nothing or blanks only"""
    seps = [""] * len(lex)
    rest = ""
    for i in range(len(lex) - 1, -1, -1):
        l = lex[i]
        sep = None
        for _ in range(200):
            if l["glue"]:
                cand = rnd.choice(["", "", "", " ", "  ", "\t"])
            else:
                cand = GL.gen_sep(rnd, rest, need_nl_first=False, may_be_empty=True)
                if GL.ends_line(l) and not ((cand + rest) == "" or (cand + rest)[0] == "\n"):
                    cand = GL.gen_sep(rnd, rest, need_nl_first=True, may_be_empty=False)
            if GL.follows(l, cand + rest):
                sep = cand
                break
        if sep is None:
            sep = " " if l["glue"] else "\n"
            assert GL.follows(l, sep + rest), (l, sep + rest)
        seps[i] = sep
        rest = l["text"] + sep + rest
    lead = GL.gen_sep(rnd, rest, need_nl_first=False, may_be_empty=True) if rnd.random() < 0.3 else ""
    return lead, seps


def _layout_plain(lex):
    seps = [""] * len(lex)
    for i, l in enumerate(lex):
        if i + 1 == len(lex):
            seps[i] = "\n" if GL.ends_line(l) else ""
            break
        nxt = lex[i + 1]
        if GL.ends_line(l):
            seps[i] = "\n"
        elif nxt["nosp"] and GL.follows(l, nxt["text"]):
            seps[i] = ""
        else:
            seps[i] = " "
            assert GL.follows(l, " " + nxt["text"]), (l, nxt)
    return "", seps


def _assemble(lex, lead, seps):
    """text and the character span of every lexeme"""
    parts, spans, pos = [lead], [], len(lead)
    for l, s in zip(lex, seps):
        spans.append((pos, pos + len(l["text"])))
        parts.append(l["text"])
        parts.append(s)
        pos += len(l["text"]) + len(s)
    return "".join(parts), spans


def _entries(xs):
    """all entries of a statement list, nested ones included, in source order"""
    for e in xs:
        yield e
        a = e["ast"]
        k = e["kind"]
        if k == "IF_STMT":
            yield from _entries(a["then"])
            if a["else"] is not None:
                yield from _entries(a["else"])
        elif k in ("WHILE_STMT", "FOR_STMT", "GATE", "DEF"):
            yield from _entries(a["body"])
        elif k == "SWITCH_CASE_STMT":
            for c in a["cases"]:
                yield from _entries(c["body"])
            if a["default"] is not None:
                yield from _entries(a["default"])


def _finish(rnd, stmts, mode, inject=False, p_trail=0.0):
    pr = _Printer(rnd, p_trail)
    for s in stmts:
        pr.stmt(s)
    lex = pr.out
    if inject:
        # a stray `)` at a statement boundary: never valid
        cut = rnd.choice([s["_lo"] for s in stmts] + [len(lex)])
        lex.insert(cut, _lx("punct", ")"))
        for e in _entries(stmts):
            for f in ("_lo", "_hi"):
                if e[f] > cut or (f == "_lo" and e[f] == cut):
                    e[f] += 1
    if mode == "plain":
        lead, seps = _layout_plain(lex)
    else:
        lead, seps = _layout_random(rnd, lex)
    text, spans = _assemble(lex, lead, seps)
    for e in _entries(stmts):
        e["text"] = text[spans[e["_lo"]][0]:spans[e["_hi"] - 1][1]]
        del e["_lo"], e["_hi"], e["_t"]
    return text


def gen_ref_programs(seed, n, depth=4, layout="mixed", invalid_rate=0.0, p_red=0.05, p_trail=0.02):
    assert layout in ("random", "plain", "mixed")
    out = []
    for i in range(n):
        rnd = random.Random(seed * 1000003 + i)
        g = _Gen(rnd, depth, p_red)
        stmts = g.program()
        mode = layout if layout != "mixed" else ("plain" if rnd.random() < 0.3 else "random")
        bad = rnd.random() < invalid_rate
        text = _finish(rnd, stmts, mode, inject=bad, p_trail=p_trail)
        out.append({"text": text, "stmts": stmts, "valid": not bad})
    return out


def _single_decl_case(expr, extra):
    s = {"kind": "CLASSICAL_DECLARATION_STATEMENT", "text": None, "_t": "decl",
         "ast": {"const": False, "type": ["type", "int", None], "name": "x", "init": expr}}
    text = _finish(None, [s], "plain")
    d = {"text": text}
    d.update(extra)
    d.update({"expected": expr, "stmts": [s], "valid": True})
    return d


def operator_pair_cases():
    """`int x = a o1 b o2 c;` for all ordered pairs, `int x = -a op b;` / `int x = a op -b;` for all
    unary x binary pairs; `expected` is the grouping of the SPEC table"""
    out = []
    for o1 in BINOPS:
        for o2 in BINOPS:
            out.append(_single_decl_case(spec_group(o1, o2), {"o1": o1, "o2": o2}))
    a, b = ["id", "a"], ["id", "b"]
    for u in UNOPS:
        for op in BINOPS:
            if SPEC_PREC[op] > UNARY_PREC:
                e = ["pre", u, ["bin", op, a, b]]
            else:
                e = ["bin", op, ["pre", u, a], b]
            out.append(_single_decl_case(e, {"unary": u, "op": op, "side": "L"}))
            out.append(_single_decl_case(["bin", op, a, ["pre", u, b]], {"unary": u, "op": op, "side": "R"}))
    return out


# ----------------------------------------------------------------------------- CST -> entry

_TRIVIA = ("WHITESPACE", "COMMENT")


def _kids(x):
    return [c for c in x[3:] if SX.kind(c) not in _TRIVIA]


def _nodes(x):
    return [c for c in x[3:] if SX.is_node(c)]


def _toks(x):
    return [c for c in x[3:] if not SX.is_node(c) and SX.kind(c) not in _TRIVIA]


def _tk(x, kinds):
    return [c for c in _toks(x) if SX.kind(c) in kinds]


def _first_tok(x):
    if not SX.is_node(x):
        return None if SX.kind(x) in _TRIVIA else x
    for c in x[3:]:
        t = _first_tok(c)
        if t is not None:
            return t
    return None


def _last_tok(x):
    if not SX.is_node(x):
        return None if SX.kind(x) in _TRIVIA else x
    for c in reversed(x[3:]):
        t = _last_tok(c)
        if t is not None:
            return t
    return None


def _span_text(x, src):
    a, b = _first_tok(x), _last_tok(x)
    if a is None:
        return ""
    s = int(a.split(":", 3)[1])
    e = int(b.split(":", 3)[2])
    return src[s:e].decode("utf-8", "replace")


def _name(x):
    """text of a NAME / IDENTIFIER / PARAM / HARDWARE_QUBIT node or of an IDENT token"""
    if SX.is_node(x):
        t = _toks(x)
        return SX.leaf_text(t[0]) if t else None
    return SX.leaf_text(x)


def cst_type(n):
    k = n[0]
    if k in ("SCALAR_TYPE", "QUBIT_TYPE"):
        ts = _toks(n)
        name = SX.leaf_text(ts[0]) if ts else None
        w = None
        for c in _nodes(n):
            if c[0] == "DESIGNATOR":
                ns = _nodes(c)
                w = cst_expr(ns[0]) if len(ns) == 1 else ["?designator"] + [cst_expr(y) for y in ns]
            elif c[0] == "SCALAR_TYPE":
                w = cst_type(c)
            else:
                w = ["?", c[0]]
        if name == "qubit":
            return ["qubit", w]
        return ["type", name, w]
    if k == "ARRAY_TYPE":
        ns = _nodes(n)
        return ["array", cst_type(ns[0]) if ns else None, [cst_expr(y) for y in ns[1:]]]
    return ["?type", k]


def _expr_list(n):
    """EXPRESSION_LIST / QUBIT_LIST / ARG_LIST -> list of items"""
    if n[0] == "ARG_LIST":
        ns = _nodes(n)
        return _expr_list(ns[0]) if ns else []
    return [cst_expr(c) for c in _nodes(n)]


def _index_items(op):
    ns = _nodes(op)
    if len(ns) == 1 and ns[0][0] == "SET_EXPRESSION":
        return [cst_expr(ns[0])]
    if len(ns) == 1 and ns[0][0] == "EXPRESSION_LIST":
        return _expr_list(ns[0])
    return [["?index"] + [cst_expr(c) for c in ns]]


def cst_expr(n):
    if not SX.is_node(n):
        return ["?token", SX.kind(n)]
    k = n[0]
    ns = _nodes(n)
    ts = _toks(n)
    if k == "BIN_EXPR" and len(ns) == 2 and len(ts) == 1:
        return ["bin", SX.leaf_text(ts[0]), cst_expr(ns[0]), cst_expr(ns[1])]
    if k == "PREFIX_EXPR" and len(ns) == 1 and len(ts) == 1:
        return ["pre", SX.leaf_text(ts[0]), cst_expr(ns[0])]
    if k == "PAREN_EXPR" and len(ns) == 1:
        return ["paren", cst_expr(ns[0])]
    if k == "CALL_EXPR" and len(ns) == 2 and ns[0][0] == "IDENTIFIER" and ns[1][0] == "ARG_LIST":
        return ["call", _name(ns[0]), _expr_list(ns[1])]
    if k == "INDEXED_IDENTIFIER" and ns and ns[0][0] == "IDENTIFIER":
        e = cst_expr(ns[0])
        for op in ns[1:]:
            e = ["index", e, _index_items(op)]
        return e
    if k == "INDEX_EXPR" and len(ns) == 2 and ns[1][0] == "INDEX_OPERATOR":
        return ["index", cst_expr(ns[0]), _index_items(ns[1])]
    if k == "CAST_EXPRESSION" and len(ns) == 2:
        return ["cast", cst_type(ns[0]), cst_expr(ns[1])]
    if k == "IDENTIFIER" and len(ts) == 1 and not ns:
        return ["id", SX.leaf_text(ts[0])]
    if k == "LITERAL" and len(ts) == 1 and not ns:
        return ["lit", SX.leaf_text(ts[0])]
    if k == "TIMING_LITERAL" and len(ns) == 2:
        a, b = cst_expr(ns[0]), cst_expr(ns[1])
        if a[0] == "lit" and b[0] == "id":
            return ["lit", a[1] + b[1]]
    if k == "MEASURE_EXPRESSION" and len(ns) == 1:
        return ["measure", cst_expr(ns[0])]
    if k == "HARDWARE_QUBIT" and len(ts) == 1:
        return ["hw", SX.leaf_text(ts[0])]
    if k == "RANGE_EXPR" and len(ns) in (2, 3):
        xs = [cst_expr(c) for c in ns]
        return ["range", xs[0], xs[1] if len(xs) == 3 else None, xs[-1]]
    if k == "SET_EXPRESSION" and len(ns) == 1:
        return ["set", _expr_list(ns[0])]
    if k == "ARRAY_LITERAL":
        return ["arraylit", [cst_expr(c) for c in ns]]
    return ["?" + k] + [cst_expr(c) if SX.is_node(c) else SX.leaf_text(c) for c in _kids(n)]


def _strip_paren(e):
    return e[1] if e and e[0] == "paren" else ["?noparen", e]


def _gate_call(n):
    """GATE_CALL_EXPR / G_PHASE_CALL_EXPR / MODIFIED_GATE_CALL_EXPR -> role dict"""
    k = n[0]
    ns = _nodes(n)
    if k == "MODIFIED_GATE_CALL_EXPR":
        mods = []
        inner = None
        for c in ns:
            ck = c[0]
            cn = _nodes(c)
            arg = _strip_paren(cst_expr(cn[0])) if cn else None
            if ck == "INV_MODIFIER":
                mods.append(["inv"] if arg is None else ["inv", arg])
            elif ck == "POW_MODIFIER":
                mods.append(["pow", arg])
            elif ck == "CTRL_MODIFIER":
                mods.append(["ctrl", arg])
            elif ck == "NEG_CTRL_MODIFIER":
                mods.append(["negctrl", arg])
            else:
                inner = c
        d = _gate_call(inner) if inner is not None else {"name": None, "args": None, "qubits": []}
        d["modifiers"] = mods
        return d
    if k == "G_PHASE_CALL_EXPR":
        return {"modifiers": [], "name": "gphase", "args": [_strip_paren(cst_expr(c)) for c in ns], "qubits": []}
    if k == "GATE_CALL_EXPR":
        d = {"modifiers": [], "name": None, "args": None, "qubits": []}
        for c in ns:
            if c[0] == "IDENTIFIER":
                d["name"] = _name(c)
            elif c[0] == "ARG_LIST":
                d["args"] = _expr_list(c)
            elif c[0] == "QUBIT_LIST":
                d["qubits"] = _expr_list(c)
            else:
                d["?"] = c[0]
        return d
    return {"?": k}


def _body(n, src):
    """BLOCK_EXPR -> (entries, True); any other statement node -> ([entry], False)"""
    if n[0] == "BLOCK_EXPR":
        return [cst_entry(c, src) for c in _nodes(n)], True
    return [cst_entry(n, src)], False


def cst_entry(n, src):
    k = n[0]
    ns = _nodes(n)
    ts = _toks(n)
    kind = k
    ast = None
    if k == "EXPR_STMT":
        inner = ns[0] if ns else None
        ik = inner[0] if inner is not None else "?"
        kind = "EXPR_STMT(%s)" % ik
        if ik in ("GATE_CALL_EXPR", "MODIFIED_GATE_CALL_EXPR", "G_PHASE_CALL_EXPR"):
            ast = _gate_call(inner)
        elif ik == "MEASURE_EXPRESSION":
            e = cst_expr(inner)
            ast = {"target": None, "operand": e[1] if e[0] == "measure" else e}
        elif ik == "RETURN_EXPR":
            rn = _nodes(inner)
            ast = {"value": cst_expr(rn[0]) if rn else None}
        else:
            e = cst_expr(inner) if inner is not None else None
            if e and e[0] == "bin" and e[1] in COMPOUND:
                ast = {"lhs": e[2], "op": e[1], "rhs": e[3]}
            else:
                ast = {"expr": e}
    elif k == "CLASSICAL_DECLARATION_STATEMENT":
        ast = {"const": bool(_tk(n, ("CONST_KW",))), "type": None, "name": None, "init": None}
        for c in ns:
            if c[0] in ("SCALAR_TYPE", "ARRAY_TYPE") and ast["type"] is None:
                ast["type"] = cst_type(c)
            elif c[0] == "NAME" and ast["name"] is None:
                ast["name"] = _name(c)
            else:
                ast["init"] = cst_expr(c) if ast["init"] is None else ["?two", ast["init"], cst_expr(c)]
    elif k == "QUANTUM_DECLARATION_STATEMENT":
        ast = {"type": cst_type(ns[0]) if ns else None, "name": _name(ns[1]) if len(ns) > 1 else None}
    elif k == "OLD_STYLE_DECLARATION_STATEMENT":
        ast = {"reg": None, "name": None, "size": None}
        if ns and ns[0][0] == "OLD_TYPED_PARAM":
            pt = _toks(ns[0])
            ast["reg"] = SX.leaf_text(pt[0]) if pt else None
            ast["name"] = SX.leaf_text(pt[1]) if len(pt) > 1 else None
            pn = _nodes(ns[0])
            if pn:
                it = _index_items(pn[0])
                ast["size"] = it[0] if len(it) == 1 else ["?size", it]
    elif k == "I_O_DECLARATION_STATEMENT":
        ast = {"io": SX.leaf_text(ts[0]) if ts else None, "type": cst_type(ns[0]) if ns else None,
               "name": _name(ns[1]) if len(ns) > 1 else None}
    elif k == "ASSIGNMENT_STMT":
        ast = {"lhs": cst_expr(ns[0]) if ns else None, "op": "=",
               "rhs": cst_expr(ns[1]) if len(ns) > 1 else None}
        if len(ns) > 2:
            ast["?"] = len(ns)
    elif k in ("ALIAS_DECLARATION_STATEMENT", "LET_STMT"):
        if k == "LET_STMT":
            idt = _tk(n, ("IDENT",))
            ast = {"name": SX.leaf_text(idt[0]) if idt else None, "value": cst_expr(ns[0]) if ns else None}
        else:
            ast = {"name": _name(ns[0]) if ns else None, "value": cst_expr(ns[1]) if len(ns) > 1 else None}
    elif k == "RESET":
        ast = {"operands": [cst_expr(c) for c in ns]}
    elif k == "BARRIER":
        ast = {"operands": _expr_list(ns[0]) if ns else []}
    elif k == "DELAY_STMT":
        ast = {"duration": None, "operands": []}
        for c in ns:
            if c[0] == "DESIGNATOR":
                dn = _nodes(c)
                ast["duration"] = cst_expr(dn[0]) if len(dn) == 1 else ["?designator"]
            elif c[0] == "QUBIT_LIST":
                ast["operands"] = _expr_list(c)
    elif k == "IF_STMT":
        ast = {"cond": cst_expr(ns[0]) if ns else None, "then": None, "else": None, "then_block": False,
               "else_block": False}
        if len(ns) > 1:
            ast["then"], ast["then_block"] = _body(ns[1], src)
        if len(ns) > 2:
            ast["else"], ast["else_block"] = _body(ns[2], src)
        if len(ns) > 3 or (len(ns) > 2) != bool(_tk(n, ("ELSE_KW",))):
            ast["?"] = len(ns)
    elif k == "WHILE_STMT":
        ast = {"cond": cst_expr(ns[0]) if ns else None, "body": None, "body_block": False}
        if len(ns) > 1:
            ast["body"], ast["body_block"] = _body(ns[1], src)
        if len(ns) > 2:
            ast["?"] = len(ns)
    elif k == "FOR_STMT":
        ast = {"type": None, "var": None, "iterable": None, "body": None, "body_block": False}
        rest = []
        for c in ns:
            if c[0] == "SCALAR_TYPE" and ast["type"] is None:
                ast["type"] = cst_type(c)
            elif c[0] == "NAME" and ast["var"] is None:
                ast["var"] = _name(c)
            elif c[0] == "FOR_ITERABLE" and ast["iterable"] is None:
                inn = _nodes(c)
                ast["iterable"] = cst_expr(inn[0]) if len(inn) == 1 else ["?iterable"]
            else:
                rest.append(c)
        if rest:
            ast["body"], ast["body_block"] = _body(rest[0], src)
        if len(rest) > 1:
            ast["?"] = len(rest)
    elif k == "SWITCH_CASE_STMT":
        ast = {"target": cst_expr(ns[0]) if ns else None, "cases": [], "default": None}
        for c in ns[1:]:
            if c[0] == "CASE_EXPR":
                cn = _nodes(c)
                vals = _expr_list(cn[0]) if cn and cn[0][0] == "EXPRESSION_LIST" else ["?values"]
                body = _body(cn[1], src)[0] if len(cn) > 1 and cn[1][0] == "BLOCK_EXPR" else ["?body"]
                ast["cases"].append({"values": vals, "body": body})
            elif c[0] == "BLOCK_EXPR" and ast["default"] is None and _tk(n, ("DEFAULT_KW",)):
                ast["default"] = _body(c, src)[0]
            else:
                ast["?"] = c[0]
    elif k == "GATE":
        ast = {"name": None, "params": None, "qubits": None, "body": None}
        for c in ns:
            if c[0] == "NAME":
                ast["name"] = _name(c)
            elif c[0] == "PARAM_LIST":
                names = [_name(p) for p in _nodes(c)]
                if _tk(c, ("L_PAREN",)):
                    ast["params"] = names
                else:
                    ast["qubits"] = names
            elif c[0] == "BLOCK_EXPR":
                ast["body"] = _body(c, src)[0]
            else:
                ast["?"] = c[0]
    elif k == "DEF":
        ast = {"name": None, "params": None, "ret": None, "body": None}
        for c in ns:
            if c[0] == "NAME":
                ast["name"] = _name(c)
            elif c[0] == "TYPED_PARAM_LIST":
                ps = []
                for p in _nodes(c):
                    pn = _nodes(p)
                    if p[0] == "TYPED_PARAM" and len(pn) == 2:
                        ps.append({"type": cst_type(pn[0]), "name": _name(pn[1])})
                    else:
                        ps.append({"?": p[0]})
                ast["params"] = ps
            elif c[0] == "RETURN_SIGNATURE":
                rn = _nodes(c)
                ast["ret"] = cst_type(rn[0]) if rn else ["?ret"]
            elif c[0] == "BLOCK_EXPR":
                ast["body"] = _body(c, src)[0]
            else:
                ast["?"] = c[0]
    elif k in ("BREAK_STMT", "CONTINUE_STMT", "END_STMT"):
        ast = {}
    elif k in ("PRAGMA_STATEMENT", "ANNOTATION_STATEMENT"):
        ast = {"text": SX.leaf_text(ts[0]) if ts else None}
    elif k == "INCLUDE":
        p = None
        if ns and ns[0][0] == "FILE_PATH":
            ft = _toks(ns[0])
            p = SX.leaf_text(ft[0])[1:-1] if ft else None
        ast = {"path": p}
    else:
        ast = {"?cst": k}
    return {"kind": kind, "text": _span_text(n, src), "ast": ast}


def _diff(exp, got, path, out, limit=6):
    if len(out) >= limit or (isinstance(got, str) and got == "<any>"):
        return
    if isinstance(exp, dict) and isinstance(got, dict):
        for key in exp:
            if key == "trailing_commas":
                continue
            if key not in got:
                out.append("%s: missing %s" % (path, key))
            else:
                _diff(exp[key], got[key], path + "." + key, out, limit)
        for key in got:
            if key not in exp:
                out.append("%s: unexpected %s=%r" % (path, key, got[key]))
    elif isinstance(exp, list) and isinstance(got, list):
        if len(exp) != len(got):
            out.append("%s: length %d expected, %d found (%s | %s)" % (path, len(exp), len(got), _short(exp), _short(got)))
            return
        for i, (a, b) in enumerate(zip(exp, got)):
            _diff(a, b, "%s[%d]" % (path, i), out, limit)
    elif exp != got or type(exp) is not type(got):
        out.append("%s: expected %s, found %s" % (path, _short(exp), _short(got)))


def _short(x):
    s = repr(x)
    return s if len(s) < 160 else s[:157] + "..."


def parse_harness_line(line):
    """dict of the fields of one `oq3-run tree` output line; {"PANIC": msg} for a panic"""
    if not line.startswith("tree="):
        return {"PANIC": line}
    out = {}
    for part in line.split(";"):
        k, _, v = part.partition("=")
        out[k] = v
    return out


def match_cst(case, tree_sexp_line):
    """[] iff the real parser accepted `case["text"]` without diagnostics and its CST has exactly the
    expected statements (kinds, text spans, roles, expression grouping)"""
    f = parse_harness_line(tree_sexp_line.rstrip("\n"))
    if "PANIC" in f:
        return ["no tree: " + f["PANIC"][:200]]
    out = []
    if f.get("errors"):
        out.append("diagnostics: " + f["errors"][:300])
    if f.get("clerrors") and f.get("clerrors") != f.get("errors"):
        out.append("diagnostics (check-lex): " + f["clerrors"][:300])
    if f.get("cl") != "same":
        out.append("parse_check_lex tree: " + str(f.get("cl")))
    if f.get("oracle") != "ok":
        out.append("tree oracle: " + str(f.get("oracle")))
    root = SX.parse(f["tree"])
    src = case["text"].encode("utf-8")
    if root[0] != "SOURCE_FILE":
        return out + ["root is " + str(root[0])]
    stray = _toks(root)
    if stray:
        out.append("stray top-level tokens: " + " ".join(SX.kind(t) for t in stray[:5]))
    got = [cst_entry(c, src) for c in _nodes(root)]
    exp = case["stmts"]
    if [e["kind"] for e in exp] != [g["kind"] for g in got]:
        out.append("top-level kinds: expected %s, found %s" % (_short([e["kind"] for e in exp]),
                                                                 _short([g["kind"] for g in got])))
        return out
    _diff(exp, got, "stmts", out)
    return out


# ----------------------------------------------------------------------------- known causes

def _walk(x):
    """every list / dict node of the expected structure"""
    yield x
    if isinstance(x, dict):
        for v in x.values():
            if isinstance(v, (dict, list)):
                yield from _walk(v)
    elif isinstance(x, list):
        for v in x:
            if isinstance(v, (dict, list)):
                yield from _walk(v)


def _is(x, tag, n):
    return isinstance(x, list) and len(x) == n and x[0] == tag


def impl_regroups(parent_op, side, child_op):
    """an unparenthesised `child_op` operand on `side` of `parent_op` is torn apart by the table of the
    implementation (all operators left-associative there)"""
    pl, cl = IMPL_PREC[parent_op], IMPL_PREC[child_op]
    return cl < pl if side == "L" else cl <= pl


def _pair_cause(o1, o2):
    if "**" in (o1, o2):
        return "F08_pow_power_assoc"
    s = {o1, o2}
    if s & EQ_OPS and s & REL_OPS:
        return "F08_equality_vs_relational"
    if s & BIT_OPS and s & (EQ_OPS | REL_OPS):
        return "F08_bitwise_vs_comparison"
    return "F08_other_pair"


def _bin_pair_causes(case):
    out = set()
    for x in _walk(case["stmts"]):
        if _is(x, "bin", 4) and x[1] in IMPL_PREC:
            for side, c in (("L", x[2]), ("R", x[3])):
                if _is(c, "bin", 4) and c[1] in IMPL_PREC and impl_regroups(x[1], side, c[1]):
                    out.add(_pair_cause(x[1], c[1]))
    return out


def _all_entries(case):
    return list(_entries(case["stmts"]))


def _stmt_lists(case):
    """every statement list of the program with its context: (entries, is_block_or_top)"""
    yield case["stmts"], True
    for e in _entries(case["stmts"]):
        a, k = e["ast"], e["kind"]
        if k == "IF_STMT":
            yield a["then"], a["then_block"]
            if a["else"] is not None:
                yield a["else"], a["else_block"]
        elif k in ("WHILE_STMT", "FOR_STMT"):
            yield a["body"], a["body_block"]
        elif k in ("GATE", "DEF"):
            yield a["body"], True
        elif k == "SWITCH_CASE_STMT":
            for c in a["cases"]:
                yield c["body"], True
            if a["default"] is not None:
                yield a["default"], True


def _is_plain_assign(e):
    return e["kind"] == "ASSIGNMENT_STMT" and e["ast"]["op"] == "="


def _tail_is_assign(e):
    """the last lexeme of the statement is the `;` of an `=` assignment"""
    k, a = e["kind"], e["ast"]
    if _is_plain_assign(e):
        return True
    if k == "IF_STMT":
        if a["else"] is not None:
            return (not a["else_block"]) and _tail_is_assign(a["else"][-1])
        return (not a["then_block"]) and _tail_is_assign(a["then"][-1])
    if k in ("WHILE_STMT", "FOR_STMT"):
        return (not a["body_block"]) and _tail_is_assign(a["body"][-1])
    return False


def _first_word(text):
    m = re.match(r"[^\W\d]\w*", text)
    return m.group(0) if m else None


def _starts_with_identifier(text):
    w = _first_word(text)
    return w is not None and w not in _WORDS


def c_f06(case):
    return any(_is_plain_assign(e) and _is(e["ast"]["rhs"], "bin", 4) for e in _all_entries(case))


def c_tilde(case):
    return any(_is(x, "pre", 3) and x[1] == "~" for x in _walk(case["stmts"]))


def c_unary_pow(case):
    return any(_is(x, "pre", 3) and _is(x[2], "bin", 4) for x in _walk(case["stmts"]))


def c_assign_then_operator(case):
    for xs, _ in _stmt_lists(case):
        for a, b in zip(xs, xs[1:]):
            if _tail_is_assign(a) and b["text"].startswith("-"):
                return True
    return False


def c_let_stmt(case):
    item_mode = True
    for e in case["stmts"]:
        if e["kind"] == "ALIAS_DECLARATION_STATEMENT" and not item_mode:
            return True
        if e["kind"].startswith("EXPR_STMT") or e["kind"] in NON_ITEM_KINDS:
            x = e["ast"].get("expr")
            if not (x is not None and x[0] == "cast" and x[1][2] is not None):
                item_mode = False      # (`int[8](x);` is handled by `opt_item`, like a declaration)
    top = set(id(e) for e in case["stmts"])
    return any(e["kind"] == "ALIAS_DECLARATION_STATEMENT" and id(e) not in top for e in _all_entries(case))


def c_for_ident(case):
    for e in _all_entries(case):
        if e["kind"] == "FOR_STMT":
            a = e["ast"]
            if _is(a["iterable"], "id", 2) and not a["body_block"] and _starts_with_identifier(a["body"][0]["text"]):
                return True
    return False


def c_gate_empty_parens(case):
    return any(e["kind"] == "GATE" and e["ast"]["params"] == [] for e in _all_entries(case))


def c_annotated_single_body(case):
    return any((not blk) and xs and xs[0]["kind"] == "ANNOTATION_STATEMENT" for xs, blk in _stmt_lists(case))


def c_return_cast(case):
    for e in _all_entries(case):
        if e["kind"] == "EXPR_STMT(RETURN_EXPR)" and e["ast"]["value"] is not None \
                and _leftmost(e["ast"]["value"])[0] == "cast":
            return True
    return False


def c_sized_cast_stmt(case):
    for e in _all_entries(case):
        x = e["ast"].get("expr") if e["kind"].startswith("EXPR_STMT") else None
        if x is not None and x[0] != "cast":
            l = _leftmost(x)
            if l[0] == "cast" and l[1][2] is not None:
                return True
    return False


def c_set_trailing_comma(case):
    return any("set" in e.get("trailing_commas", ()) for e in _all_entries(case))


def c_gphase_trailing_comma(case):
    return any("gphase_args" in e.get("trailing_commas", ()) for e in _all_entries(case))


KNOWN_CAUSES = {
    "F06_assign_binary_rhs": c_f06,
    "F08_pow_power_assoc": lambda c: "F08_pow_power_assoc" in _bin_pair_causes(c),
    "F08_equality_vs_relational": lambda c: "F08_equality_vs_relational" in _bin_pair_causes(c),
    "F08_bitwise_vs_comparison": lambda c: "F08_bitwise_vs_comparison" in _bin_pair_causes(c),
    "F08_other_pair": lambda c: "F08_other_pair" in _bin_pair_causes(c),
    "F08_unary_vs_pow": c_unary_pow,
    "unary_tilde_rejected": c_tilde,
    "assign_then_operator_stmt": c_assign_then_operator,
    "F09_let_stmt_kind": c_let_stmt,
    "for_ident_iterable_stmt_body": c_for_ident,
    "gate_empty_param_parens": c_gate_empty_parens,
    "annotation_single_stmt_body": c_annotated_single_body,
    "return_cast_value": c_return_cast,
    "stmt_starts_with_sized_cast": c_sized_cast_stmt,
    "set_trailing_comma": c_set_trailing_comma,
    "gphase_trailing_comma": c_gphase_trailing_comma,
}


def attribute(case):
    return [cid for cid, pred in KNOWN_CAUSES.items() if pred(case)]


# ----------------------------------------------------------------------------- typed AST (mode `ast`)
# The dump of /verif/harness/src/m_ast.rs: `(Program s e (<stmt>...))`, every node `(Kind s e fields...)`
# in the order the accessors are called there; `_` = None, `!` = the accessor panicked, strings are
# `x<hex code points>`.  It is converted to the entry form of the generator and compared with `_diff`;
# what the dump does not contain (array types and literals, old-style declarations, LetStmt) is `_ANY`.

_ANY = "<any>"
_AST_KIND = {"IfStmt": "IF_STMT", "WhileStmt": "WHILE_STMT", "ForStmt": "FOR_STMT",
             "SwitchCaseStmt": "SWITCH_CASE_STMT",
             "ClassicalDeclarationStatement": "CLASSICAL_DECLARATION_STATEMENT",
             "IODeclarationStatement": "I_O_DECLARATION_STATEMENT",
             "QuantumDeclarationStatement": "QUANTUM_DECLARATION_STATEMENT",
             "AssignmentStmt": "ASSIGNMENT_STMT", "BreakStmt": "BREAK_STMT", "ContinueStmt": "CONTINUE_STMT",
             "EndStmt": "END_STMT", "Gate": "GATE", "Def": "DEF", "Barrier": "BARRIER",
             "DelayStmt": "DELAY_STMT", "Reset": "RESET", "Include": "INCLUDE",
             "PragmaStatement": "PRAGMA_STATEMENT", "AnnotationStatement": "ANNOTATION_STATEMENT",
             "AliasDeclarationStatement": "ALIAS_DECLARATION_STATEMENT",
             "OldStyleDeclarationStatement": "OLD_STYLE_DECLARATION_STATEMENT", "LetStmt": "LET_STMT",
             "VersionString": "VERSION_STRING", "DefCal": "DEF_CAL", "Cal": "CAL",
             "DefCalGrammar": "DEF_CAL_GRAMMAR", "Measure": "MEASURE", "ExternStmt": "EXTERN_STMT"}
_AST_EXPR_KIND = {"GateCallExpr": "GATE_CALL_EXPR", "ModifiedGateCallExpr": "MODIFIED_GATE_CALL_EXPR",
                  "GPhaseCallExpr": "G_PHASE_CALL_EXPR", "MeasureExpression": "MEASURE_EXPRESSION",
                  "ReturnExpr": "RETURN_EXPR", "BinExpr": "BIN_EXPR", "CallExpr": "CALL_EXPR",
                  "PrefixExpr": "PREFIX_EXPR", "CastExpression": "CAST_EXPRESSION",
                  "IndexedIdentifier": "INDEXED_IDENTIFIER", "IndexExpr": "INDEX_EXPR",
                  "Identifier": "IDENTIFIER", "Literal": "LITERAL", "TimingLiteral": "TIMING_LITERAL",
                  "ParenExpr": "PAREN_EXPR", "HardwareQubit": "HARDWARE_QUBIT", "RangeExpr": "RANGE_EXPR",
                  "BlockExprE": "BLOCK_EXPR", "ArrayLiteral": "ARRAY_LITERAL", "ArrayExpr": "ARRAY_EXPR"}
_AST_BINOP = {"Logic.And": "&&", "Logic.Or": "||", "Arith.Add": "+", "Arith.Mul": "*", "Arith.Sub": "-",
              "Arith.Div": "/", "Arith.Rem": "%", "Arith.Shl": "<<", "Arith.Shr": ">>", "Arith.BitXor": "^",
              "Arith.BitOr": "|", "Arith.BitAnd": "&", "Cmp.Eq": "==", "Cmp.Neq": "!=", "Cmp.Lt": "<",
              "Cmp.Le": "<=", "Cmp.Gt": ">", "Cmp.Ge": ">=", "Concat": "++", "Power": "**", "Assign": "=",
              "Assign.Add": "+=", "Assign.Sub": "-=", "Assign.Mul": "*=", "Assign.Div": "/=",
              "Assign.Rem": "%=", "Assign.Shl": "<<=", "Assign.Shr": ">>=", "Assign.BitXor": "^=",
              "Assign.BitOr": "|=", "Assign.BitAnd": "&="}
_AST_UNOP = {"Neg": "-", "LogicNot": "!", "Not": "~"}
_AST_TYPE = {"Angle": "angle", "Bit": "bit", "Bool": "bool", "Complex": "complex", "Duration": "duration",
             "Float": "float", "Int": "int", "Stretch": "stretch", "UInt": "uint", "Qubit": "qubit"}
_TIME_UNIT = {"ns": "NanoSecond", "ms": "MilliSecond", "us": "MicroSecond", "µs": "MicroSecond",
              "s": "Second", "dt": "Cycle", "im": "Imaginary"}


def _hx(a):
    """decode an `x<hex>` string atom; anything else (`_`, `!`, a node) is returned as a marker"""
    if isinstance(a, str) and a[:1] == "x":
        return SX.unhex(a[1:])
    return ["?str", a]


def _is_node(x, kind=None):
    return isinstance(x, list) and x and isinstance(x[0], str) and (kind is None or x[0] == kind)


def _ast_name(x):
    """(Name s e text) / (Identifier ...) / (Param ...) / (HardwareQubit ...) -> text"""
    if _is_node(x) and len(x) == 4:
        return _hx(x[3])
    return ["?name", x if isinstance(x, str) else x[0] if x else None]


def _ast_lit(n):
    """(Literal s e <kind>) -> ["lit", text]; a wrong `value()` adds a third element"""
    k = n[3] if len(n) > 3 else "?"
    if not _is_node(k):
        return ["!lit", k]
    if k[0] == "IntNumber":
        t = _hx(k[1])
        try:
            want = str(int(t.replace("_", ""), 0)) if not (t[:1] == "0" and t[1:].isdigit()) else str(int(t))
        except (ValueError, AttributeError):
            want = "?"
        return ["lit", t] if k[2] == want else ["lit", t, "value()=%s" % k[2]]
    if k[0] == "FloatNumber":
        t = _hx(k[1])
        v = _hx(k[2])
        try:
            ok = float(v) == float(t.replace("_", ""))
        except (ValueError, TypeError, AttributeError):
            ok = False
        return ["lit", t] if ok else ["lit", t, "value()=%s" % (v,)]
    if k[0] == "BitString":
        t = _hx(k[1])
        v = _hx(k[2])
        return ["lit", t] if isinstance(t, str) and v == t[1:-1] else ["lit", t, "str()=%s" % (v,)]
    if k[0] == "Bool":
        return ["lit", "true" if k[1] == "1" else "false"]
    return ["?lit", k[0]]


def ast_type(n):
    if n == "_":
        return None
    if _is_node(n, "ScalarType") and len(n) == 6:
        name = _AST_TYPE.get(n[3], "?" + str(n[3]))
        w = None
        if n[4] != "_":
            w = ast_expr(n[4][3]) if _is_node(n[4], "Designator") and len(n[4]) == 4 else ["?designator"]
        if n[5] != "_":
            inner = ast_type(n[5])
            w = inner if w is None else ["?both", w, inner]
        return ["qubit", w] if name == "qubit" else ["type", name, w]
    if _is_node(n, "ArrayRefType"):
        return ["array", _ANY, _ANY]
    return ["?type", n if isinstance(n, str) else n[0]]


def _ast_exprlist(n):
    """(ExpressionList s e (e...)) / (QubitList s e (op...)) / (ArgList s e <ExpressionList|_>) -> list"""
    if n == "_":
        return None
    if _is_node(n, "ArgList"):
        r = _ast_exprlist(n[3])
        return [] if r is None else r
    if _is_node(n) and n[0] in ("ExpressionList", "QubitList") and len(n) == 4:
        return [ast_expr(x) for x in n[3]]
    return [["?list", n if isinstance(n, str) else n[0]]]


def _ast_index_items(op):
    if _is_node(op, "IndexOperator") and len(op) == 4:
        k = op[3]
        if _is_node(k, "SetExpression"):
            return [ast_expr(k)]
        if _is_node(k, "ExpressionList"):
            return _ast_exprlist(k)
    return [["?index", op if isinstance(op, str) else op[0]]]


def ast_expr(n):
    if n == "_":
        return None
    if not _is_node(n):
        return ["!", n]
    k = n[0]
    f = n[3:]
    if k == "BinExpr" and len(f) == 3:
        return ["bin", _AST_BINOP.get(f[0], "?" + str(f[0])), ast_expr(f[1]), ast_expr(f[2])]
    if k == "PrefixExpr" and len(f) == 2:
        return ["pre", _AST_UNOP.get(f[0], "?" + str(f[0])), ast_expr(f[1])]
    if k == "ParenExpr" and len(f) == 1:
        return ["paren", ast_expr(f[0])]
    if k == "Literal":
        return _ast_lit(n)
    if k == "TimingLiteral" and len(f) == 3:
        unit = _hx(f[1])
        lit = ast_expr(f[2])
        if isinstance(unit, str) and lit and lit[0] == "lit" and len(lit) == 2:
            out = ["lit", lit[1] + unit]
            if _TIME_UNIT.get(unit) != f[0]:
                out.append("time_unit()=%s" % f[0])
            return out
        return ["?timing", unit, lit]
    if k == "Identifier":
        return ["id", _ast_name(n)]
    if k == "HardwareQubit":
        return ["hw", _ast_name(n)]
    if k == "RangeExpr" and len(f) == 3:
        return ["range", ast_expr(f[0]), ast_expr(f[1]), ast_expr(f[2])]
    if k == "IndexExpr" and len(f) == 2:
        return ["index", ast_expr(f[0]), _ast_index_items(f[1])]
    if k == "IndexedIdentifier" and len(f) == 2:
        e = ast_expr(f[0])
        for op in f[1]:
            e = ["index", e, _ast_index_items(op)]
        return e
    if k == "MeasureExpression" and len(f) == 1:
        return ["measure", ast_expr(f[0])]
    if k == "CastExpression" and len(f) == 2:
        return ["cast", ast_type(f[0]), ast_expr(f[1])]
    if k == "CallExpr" and len(f) == 2:
        return ["call", _ast_name(f[1]) if f[1] != "_" else None, _ast_exprlist(f[0])]
    if k == "SetExpression" and len(f) == 1:
        return ["set", _ast_exprlist(f[0])]
    if k == "ArrayLiteral":
        return ["arraylit", _ANY]
    return ["?" + k]


def _ast_gate_call(n):
    k = n[0]
    f = n[3:]
    if k == "GateCallExpr" and len(f) == 3:
        return {"modifiers": [], "name": _ast_name(f[2]) if f[2] != "_" else None,
                "args": _ast_exprlist(f[1]), "qubits": _ast_exprlist(f[0]) or []}
    if k == "GPhaseCallExpr" and len(f) == 1:
        return {"modifiers": [], "name": "gphase", "args": [_strip_paren(ast_expr(f[0]))], "qubits": []}
    if k == "ModifiedGateCallExpr" and len(f) == 3:
        mods = []
        for m in f[0]:
            tag = {"InvModifier": "inv", "PowModifier": "pow", "CtrlModifier": "ctrl",
                   "NegCtrlModifier": "negctrl"}.get(m[0], "?" + m[0])
            if tag == "inv":
                mods.append(["inv"])
            else:
                arg = m[3] if len(m) > 3 else "_"
                mods.append([tag, None if arg == "_" else _strip_paren(ast_expr(arg))])
        if f[1] != "_" and f[2] == "_":
            d = _ast_gate_call(f[1])
        elif f[2] != "_" and f[1] == "_":
            d = _ast_gate_call(f[2])
        else:
            d = {"?": "gate_call_expr and g_phase_call_expr: %s %s" % (f[1] != "_", f[2] != "_")}
        d["modifiers"] = mods
        return d
    return {"?": k}


def _ast_block(n, src):
    """(BlockExpr s e (stmt...)) -> entries"""
    if _is_node(n, "BlockExpr") and len(n) == 4:
        return [ast_entry(x, src) for x in n[3]]
    return [{"?": n if isinstance(n, str) else n[0]}]


def _ast_bos(n, src):
    """(BosBlock <BlockExpr>) / (BosStmt <stmt>) / `!` / `_` -> (entries|None, is_block)"""
    if n == "_":
        return None, False
    if _is_node(n, "BosBlock") and len(n) == 2:
        return _ast_block(n[1], src), True
    if _is_node(n, "BosStmt") and len(n) == 2:
        return [ast_entry(n[1], src)], False
    return [{"!": n if isinstance(n, str) else n[0]}], False


def _ast_opt_name(x):
    return None if x == "_" else _ast_name(x)


def ast_entry(n, src):
    if not _is_node(n) or len(n) < 3:
        return {"kind": "?", "text": None, "ast": {"?": _short(n)}}
    k = n[0]
    f = n[3:]
    text = src[int(n[1]):int(n[2])].decode("utf-8", "replace")
    kind = _AST_KIND.get(k, "?" + k)
    ast = {"?ast": k}
    if k == "ExprStmt" and len(f) == 1:
        inner = f[0]
        ik = inner[0] if _is_node(inner) else str(inner)
        kind = "EXPR_STMT(%s)" % _AST_EXPR_KIND.get(ik, "?" + ik)
        if ik in ("GateCallExpr", "ModifiedGateCallExpr", "GPhaseCallExpr"):
            ast = _ast_gate_call(inner)
        elif ik == "MeasureExpression":
            ast = {"target": None, "operand": ast_expr(inner[3]) if len(inner) == 4 else ["?"]}
        elif ik == "ReturnExpr":
            ast = {"value": ast_expr(inner[3]) if len(inner) == 4 else ["?"]}
        else:
            e = ast_expr(inner)
            if e and e[0] == "bin" and e[1] in COMPOUND:
                ast = {"lhs": e[2], "op": e[1], "rhs": e[3]}
            else:
                ast = {"expr": e}
    elif k == "ClassicalDeclarationStatement" and len(f) == 5:
        if f[0] == "1":
            ty = ["array", _ANY, _ANY] if f[1] == "_" else ["?array+scalar"]
        else:
            ty = ast_type(f[1])
        ast = {"const": f[2] == "1", "type": ty, "name": _ast_opt_name(f[3]), "init": ast_expr(f[4])}
    elif k == "IODeclarationStatement" and len(f) == 4:
        ty = ["array", _ANY, _ANY] if f[0] == "1" else ast_type(f[1])
        ast = {"io": "input" if f[3] == "1" else "output", "type": ty, "name": _ast_opt_name(f[2])}
    elif k == "QuantumDeclarationStatement" and len(f) == 3:
        qt = f[2]
        if _is_node(qt, "QubitType") and len(qt) == 4:
            w = None if qt[3] == "_" else (ast_expr(qt[3][3]) if len(qt[3]) == 4 else ["?"])
            ty = ["qubit", w]
        else:
            ty = ["?qubit_type", qt]
        ast = {"type": ty, "name": _ast_opt_name(f[0]) if f[1] == "_" else ["?hardware", _ast_name(f[1])]}
    elif k == "AssignmentStmt" and len(f) == 3:
        # the protocol of `assignment_stmt_to_asg_stmt`: `identifier()` decides; only if it is None the
        # LHS is `indexed_identifier()`.  (For `a = b[0];` `indexed_identifier()` returns the RHS, which
        # the pass never looks at; for `a[0] = b;` `identifier()` returns the RHS `b`: a real mismatch.)
        lhs = ast_expr(f[0]) if f[0] != "_" else ast_expr(f[2])
        ast = {"lhs": lhs, "op": "=", "rhs": ast_expr(f[1])}
    elif k == "AliasDeclarationStatement" and len(f) == 2:
        ast = {"name": _ast_opt_name(f[0]), "value": ast_expr(f[1])}
    elif k in ("BreakStmt", "ContinueStmt", "EndStmt"):
        ast = {}
    elif k in ("OldStyleDeclarationStatement", "LetStmt"):
        ast = _ANY
    elif k == "Reset" and len(f) == 1:
        ast = {"operands": [ast_expr(f[0])] if f[0] != "_" else []}
    elif k == "Barrier" and len(f) == 1:
        ast = {"operands": _ast_exprlist(f[0]) or []}
    elif k == "DelayStmt" and len(f) == 2:
        d = f[1]
        ast = {"duration": ast_expr(d[3]) if _is_node(d, "Designator") and len(d) == 4 else ["?designator"],
               "operands": _ast_exprlist(f[0]) or []}
    elif k == "Include" and len(f) == 1:
        ast = {"path": _hx(f[0][3]) if _is_node(f[0], "FilePath") and len(f[0]) == 4 else ["?file"]}
    elif k == "PragmaStatement" and len(f) == 1:
        body = _hx(f[0])
        head = "#pragma" if text.startswith("#") else "pragma"
        ast = {"text": head + body if isinstance(body, str) else body}
    elif k == "AnnotationStatement" and len(f) == 1:
        ast = {"text": _hx(f[0])}
    elif k == "IfStmt" and len(f) == 3:
        then, tb = _ast_bos(f[1], src)
        els, eb = _ast_bos(f[2], src)
        ast = {"cond": ast_expr(f[0]), "then": then, "else": els, "then_block": tb, "else_block": eb}
    elif k == "WhileStmt" and len(f) == 2:
        body, bb = _ast_bos(f[1], src)
        ast = {"cond": ast_expr(f[0]), "body": body, "body_block": bb}
    elif k == "ForStmt" and len(f) == 4:
        it = f[2]
        iterable = ["?iterable"]
        if _is_node(it, "ForIterable") and len(it) == 6:
            s_, r_, e_ = it[3], it[4], it[5]
            if s_ != "_" and r_ == "_" and e_ == "_":
                iterable = ast_expr(s_)
            elif s_ == "_" and r_ != "_":
                # a RangeExpr is an Expr as well: `for_iterable_expr()` returns the same node
                iterable = ast_expr(r_) if e_ == "_" or e_ == r_ else ["?range+expr", ast_expr(r_), ast_expr(e_)]
            elif s_ == "_" and r_ == "_" and e_ != "_":
                iterable = ast_expr(e_)
        body, bb = _ast_bos(f[3], src)
        ast = {"type": ast_type(f[1]), "var": _ast_opt_name(f[0]), "iterable": iterable, "body": body,
               "body_block": bb}
    elif k == "SwitchCaseStmt" and len(f) == 3:
        cases = []
        for c in f[1]:
            if _is_node(c, "CaseExpr") and len(c) == 5:
                cases.append({"values": _ast_exprlist(c[3]), "body": None if c[4] == "_" else _ast_block(c[4], src)})
            else:
                cases.append({"?": _short(c)})
        ast = {"target": ast_expr(f[0]), "cases": cases, "default": None if f[2] == "_" else _ast_block(f[2], src)}
    elif k == "Gate" and len(f) == 4:
        def plist(p):
            if p == "_":
                return None
            if _is_node(p, "ParamList") and len(p) == 4:
                return [_ast_name(x) for x in p[3]]
            return ["?paramlist"]
        ast = {"name": _ast_opt_name(f[0]), "params": plist(f[1]), "qubits": plist(f[2]),
               "body": None if f[3] == "_" else _ast_block(f[3], src)}
    elif k == "Def" and len(f) == 4:
        ps = ["?params"]
        if _is_node(f[1], "TypedParamList") and len(f[1]) == 4:
            ps = []
            for p in f[1][3]:
                if _is_node(p, "TypedParam") and len(p) == 6 and p[4] == "0":
                    ps.append({"type": ast_type(p[3]), "name": _ast_opt_name(p[5])})
                else:
                    ps.append({"?": _short(p)})
        ret = None
        if f[3] != "_":
            ret = ast_type(f[3][3]) if _is_node(f[3], "ReturnSignature") and len(f[3]) == 4 else ["?ret"]
        ast = {"name": _ast_opt_name(f[0]), "params": ps, "ret": ret,
               "body": None if f[2] == "_" else _ast_block(f[2], src)}
    return {"kind": kind, "text": text, "ast": ast}


def match_ast(case, ast_line):
    """[] iff the typed AST printed by `oq3-run ast` for `case["text"]` has exactly the expected
    statements with every constituent in the expected role (C05: condition / then / else, loop variable /
    type / iterable / body, gate name / params / qubits / body, def signature, declared type / name /
    initializer, range start / step / stop, modifier order, argument and operand order, index operator
    nesting, operator kinds with lhs / rhs, literal values and time units)"""
    line = ast_line.rstrip("\n")
    if not line.startswith("(Program "):
        return ["no AST: " + line[:200]]
    root = SX.parse(line)
    src = case["text"].encode("utf-8")
    if len(root) != 4 or not isinstance(root[3], list):
        return ["malformed dump"]
    out = []
    if (int(root[1]), int(root[2])) != (0, len(src)):
        out.append("Program range %s-%s, text has %d bytes" % (root[1], root[2], len(src)))
    got = [ast_entry(x, src) for x in root[3]]
    exp = case["stmts"]
    if [e["kind"] for e in exp] != [g["kind"] for g in got]:
        out.append("top-level kinds: expected %s, found %s" % (_short([e["kind"] for e in exp]),
                                                                 _short([g["kind"] for g in got])))
        return out
    _diff(exp, got, "stmts", out)
    return out


def _ifs(case):
    return [e["ast"] for e in _all_entries(case) if e["kind"] == "IF_STMT"]


KNOWN_CAUSES_AST = dict(KNOWN_CAUSES)
KNOWN_CAUSES_AST.update({
    # F07: IfStmt::then_branch_stmt / else_branch_stmt are both `support::child` (the first Stmt child),
    # then_branch_block is "the first BlockExpr child"
    "F07_if_then_stmt_else_block": lambda c: any(
        (not a["then_block"]) and a["else"] is not None and a["else_block"] for a in _ifs(c)),
    "F07_if_then_stmt_else_stmt": lambda c: any(
        (not a["then_block"]) and a["else"] is not None and not a["else_block"] for a in _ifs(c)),
    "F07_if_then_stmt_no_else": lambda c: any((not a["then_block"]) and a["else"] is None for a in _ifs(c)),
    # AssignmentStmt::identifier() is `support::child`: the first IDENTIFIER child, i.e. the RHS of
    # `a[0] = b;` -- the semantic pass then assigns to `b`
    "assign_indexed_lhs_identifier_rhs": lambda c: any(
        _is_plain_assign(e) and e["ast"]["lhs"][0] == "index" and _is(e["ast"]["rhs"], "id", 2)
        for e in _all_entries(c)),
})


def attribute_ast(case):
    return [cid for cid, pred in KNOWN_CAUSES_AST.items() if pred(case)]



# ----------------------------------------------------------------------------- self-check

def encode_case(text):
    return ".".join("%x" % ord(ch) for ch in text)


def run_harness(texts, exe=None, chunk=2000, timeout=600, mode="tree"):
    """one output line per text"""
    import subprocess
    from concurrent.futures import ThreadPoolExecutor
    exe = exe or os.environ.get("OQ3_RUN") or os.path.join(
        os.path.dirname(os.path.dirname(os.path.abspath(__file__))), "harness", "target", "debug", "oq3-run")

    def one(part):
        inp = "\n".join(encode_case(t) for t in part) + "\n"
        p = subprocess.run([exe, mode], input=inp.encode("utf-8"), stdout=subprocess.PIPE,
                           stderr=subprocess.PIPE, timeout=timeout)
        got = p.stdout.decode("utf-8", "replace").split("\n")
        if got and got[-1] == "":
            got.pop()
        return got[:len(part)] + ["CRASH rc=%s" % p.returncode] * (len(part) - len(got))
    parts = [texts[i:i + chunk] for i in range(0, len(texts), chunk)]
    with ThreadPoolExecutor(max_workers=min(8, max(1, len(parts)))) as ex:
        res = list(ex.map(one, parts))
    return [l for r in res for l in r]


def coverage(cases):
    kinds, ops = {}, {}
    for c in cases:
        for e in _all_entries(c):
            kinds[e["kind"]] = kinds.get(e["kind"], 0) + 1
        for x in _walk(c["stmts"]):
            if isinstance(x, list) and x and isinstance(x[0], str):
                if x[0] == "bin" and len(x) == 4:
                    ops["bin " + x[1]] = ops.get("bin " + x[1], 0) + 1
                elif x[0] == "pre" and len(x) == 3:
                    ops["pre " + x[1]] = ops.get("pre " + x[1], 0) + 1
                elif x[0] in ("paren", "call", "index", "cast", "range", "set", "measure", "hw", "inv", "pow",
                              "ctrl", "negctrl", "arraylit", "array", "qubit"):
                    ops[x[0]] = ops.get(x[0], 0) + 1
                elif x[0] == "type" and len(x) == 3:
                    key = "type %s%s" % (x[1], "[w]" if x[2] is not None else "")
                    ops[key] = ops.get(key, 0) + 1
            if isinstance(x, dict) and "op" in x and "lhs" in x:
                ops["assign " + x["op"]] = ops.get("assign " + x["op"], 0) + 1
    return kinds, ops


def _role_coverage(cases):
    """the shapes C05 asks for: range arity per position, chained index operators per base kind,
    if/else body combinations"""
    out = {}

    def bump(k):
        out[k] = out.get(k, 0) + 1

    def chain(e):
        n = 0
        while _is(e, "index", 3):
            n += 1
            e = e[1]
        return n, e
    for c in cases:
        for e in _all_entries(c):
            a = e["ast"]
            if e["kind"] == "FOR_STMT":
                it = a["iterable"]
                if it[0] == "range":
                    bump("for-iterable range/%d" % (3 if it[2] is not None else 2))
                else:
                    bump("for-iterable " + ("slice" if it[0] == "index" else it[0]))
            elif e["kind"] == "IF_STMT":
                els = "none" if a["else"] is None else (
                    "block" if a["else_block"] else ("else-if" if a["else"][-1]["kind"] == "IF_STMT" else "stmt"))
                bump("if then=%s else=%s" % ("block" if a["then_block"] else "stmt", els))
        seen = set()
        for x in _walk(c["stmts"]):
            if _is(x, "index", 3) and id(x) not in seen:
                n, base = chain(x)
                y = x
                while _is(y, "index", 3):
                    seen.add(id(y))
                    y = y[1]
                bump("index chain x%d on %s" % (min(n, 3), base[0] if isinstance(base, list) else "?"))
            if _is(x, "index", 3):
                for it in x[2]:
                    if _is(it, "range", 4):
                        bump("index item range/%d" % (3 if it[2] is not None else 2))
    return out


def _tally(cases, lines, match, attr):
    ok, residual, unexplained, over = 0, {}, [], []
    for c, l in zip(cases, lines):
        m = match(c, l)
        causes = attr(c)
        if not m:
            ok += 1
            if causes:
                over.append((c, causes))
        elif causes:
            for cid in causes:
                residual.setdefault(cid, []).append(c)
        else:
            unexplained.append((c, m))
    return {"cases": len(cases), "ok": ok, "residual": residual, "unexplained": unexplained, "over": over}


def _print_tally(title, r, causes):
    print("%s: cases %d, matched %d" % (title, r["cases"], r["ok"]))
    print("  attributed per cause (a case may have several causes):")
    for cid in causes:
        xs = r["residual"].get(cid, [])
        print("    %-36s %d" % (cid, len(xs)))
        for c in sorted(xs, key=lambda c: len(c["text"]))[:2]:
            print("        %r" % c["text"][:160])
    print("  mismatching with NO matching cause: %d" % len(r["unexplained"]))
    for c, m in sorted(r["unexplained"], key=lambda cm: len(cm[0]["text"]))[:10]:
        print("        %r\n           %s" % (c["text"][:300], m[:2]))
    print("  flagged by a cause but matching (over-attribution): %d" % len(r["over"]))
    for c, cs in sorted(r["over"], key=lambda cc: len(cc[0]["text"]))[:10]:
        print("        %s %r" % (cs, c["text"][:200]))


def self_check(seed, n, depth=4, verbose=True, ast=True):
    """generate, run the real front end, match; returns the CST tally with the AST tally under "ast".
    On the unchanged tree both `unexplained` lists are empty."""
    cases = gen_ref_programs(seed, n, depth) + operator_pair_cases()
    texts = [c["text"] for c in cases]
    r = _tally(cases, run_harness(texts), match_cst, attribute)
    r["ast"] = _tally(cases, run_harness(texts, mode="ast"), match_ast, attribute_ast) if ast else None
    if verbose:
        kinds, ops = coverage(cases[:n])
        print("cases: %d (%d programs + %d operator cases)" % (len(cases), n, len(cases) - n))
        print("statement kinds:")
        for k in sorted(kinds):
            print("  %-45s %d" % (k, kinds[k]))
        print("operators / expression forms:")
        print("  " + "  ".join("%s:%d" % (k, ops[k]) for k in sorted(ops)))
        roles = _role_coverage(cases[:n])
        print("role shapes:")
        print("  " + "  ".join("[%s]:%d" % (k, roles[k]) for k in sorted(roles)))
        _print_tally("CST (match_cst, accepted without diagnostics and structure as expected)", r, KNOWN_CAUSES)
        if ast:
            _print_tally("typed AST (match_ast, accessor roles)", r["ast"], KNOWN_CAUSES_AST)
    return r


if __name__ == "__main__":
    _seed = int(sys.argv[1]) if len(sys.argv) > 1 else 1
    _n = int(sys.argv[2]) if len(sys.argv) > 2 else 2000
    _r = self_check(_seed, _n)
    sys.exit(0 if not _r["unexplained"] and not _r["ast"]["unexplained"] else 1)
