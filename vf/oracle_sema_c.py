"""Oracle C for the semantic layer (pure Python 3, no dependencies, independent of the Lean model).

C06  `check(src, ast_line, sema_line)`  — structure preservation.  The expected skeleton of the
     semantic graph is computed from the I5 typed-AST dump alone (statement kinds in source order,
     blocks, roles, operand / argument / qubit-operand / index / modifier order, operator identity,
     literal class and value, names of the referenced symbols, annotations attached to the FOLLOWING
     statement, pragma text verbatim) and compared node by node with the skeleton of the I6 `asg=`
     (symbol ids are resolved to names through `symbols=`).  Types are not compared (C08/C09);
     implicit casts are admitted exactly where the pass may insert one.

C17  metamorphic helpers used by the orchestrator:
     `relayout(src, seed)`, `rename(src, seed)`, `split_points(src, ast_line)`,
     `compare_modulo(sema_a, sema_b, mode, mapping=None)`.

`GUARDS`  name -> predicate(src, ast_line): syntactic guards of the known genuine defects that make
     `check` fail on the unchanged tree (F07, F08b, nested annotations).

Formats: I5 = `(Program s e (stmt...))` (harness/src/m_ast.rs), I6 = `asg=..;symbols=..;errors=..;
depth=..;gates=..` (harness/src/m_sema.rs).  Strings are `x` + dot-separated hex code points.
"""
import random
import re

# =============================================================================== S-expressions

_TOK = re.compile(r"\(|\)|[^\s()]+")


def parse_sexp(s):
    """nested lists of atoms (str)"""
    toks = _TOK.findall(s)
    pos = 0

    def rd():
        nonlocal pos
        t = toks[pos]
        pos += 1
        if t == "(":
            out = []
            while toks[pos] != ")":
                out.append(rd())
            pos += 1
            return out
        if t == ")":
            raise ValueError("unbalanced )")
        return t

    v = rd()
    if pos != len(toks):
        raise ValueError("trailing tokens")
    return v


def unhex(a):
    """`x61.62` -> 'ab'; `x` -> ''"""
    if not isinstance(a, str) or not a.startswith("x"):
        return None
    body = a[1:]
    if body == "":
        return ""
    return "".join(chr(int(h, 16)) for h in body.split("."))


def fields(line):
    return dict(kv.split("=", 1) for kv in line.split(";") if "=" in kv)


def is_node(n, kind=None):
    return isinstance(n, list) and n and isinstance(n[0], str) and (kind is None or n[0] == kind)


# =============================================================================== skeletons
# a skeleton is (label, [children]); ("?cast", [x]) = x, or x under one implicit Cast;
# a label ending in ":?" on the ASG side is a wildcard for the part after the last ':'.

def N(label, *children):
    return (label, list(children))


ABSENT = N("_")
BROKEN = N("<accessor-none-or-panicked>")


def optcast(x):
    return ("?cast", [x])


ARITH_I6 = {"BitXOr": "BitXor"}


def _lit_int(neg, value):
    return N("Lit.Int" + ("-" if neg else "+") + ":" + str(value))


def exp_literal(n, neg=False):
    """(Literal s e kind)"""
    k = n[3]
    if k == "!":
        return BROKEN
    if is_node(k, "IntNumber"):
        return _lit_int(neg, k[2])
    if is_node(k, "FloatNumber"):
        v = unhex(k[2])
        return N("Lit.Float:" + ("-" if neg else "") + (v if v is not None else "?"))
    if is_node(k, "BitString"):
        v = unhex(k[2])
        return N("Lit.BitString:" + (v if v is not None else "?"))
    if is_node(k, "Bool"):
        return N("Lit.Bool:" + k[1])
    return N("Lit." + str(k))          # Byte / Char / String: the pass panics on them


def exp_timing(n, neg=False):
    """(TimingLiteral s e unit identtext literal)"""
    unit, lit = n[3], n[5]
    if not is_node(lit, "Literal") or unit in ("_", "!"):
        return BROKEN
    k = lit[3]
    sign = "-" if neg else "+"
    if unit == "Imaginary":
        if is_node(k, "IntNumber"):
            return N("Lit.ImInt%s:%s" % (sign, k[2]))
        if is_node(k, "FloatNumber"):
            return N("Lit.ImFloat:" + ("-" if neg else "") + str(unhex(k[2])))
        return BROKEN
    if is_node(k, "IntNumber"):
        return N("Lit.TimingInt%s:%s:%s" % (sign, k[2], unit))
    if is_node(k, "FloatNumber"):
        return N("Lit.TimingFloat%s:%s:%s" % (sign, unhex(k[2]), unit))
    return BROKEN


def exp_opt_expr(n):
    """skeleton of an optional expression role: absent -> ABSENT"""
    if n == "_":
        return ABSENT
    return exp_expr(n)


def exp_expr(n):
    if not is_node(n):
        return BROKEN
    k = n[0]
    if k == "PrefixExpr":
        op, e = n[3], n[4]
        if op == "Neg":
            if is_node(e, "Literal") and is_node(e[3]) and e[3][0] in ("IntNumber", "FloatNumber"):
                return exp_literal(e, neg=True)
            if is_node(e, "TimingLiteral"):
                return exp_timing(e, neg=True)
            return N("Un.Minus", exp_opt_expr(e))
        if op == "Not":
            return N("Un.BitNot", exp_opt_expr(e))
        if op == "LogicNot":
            return N("Un.Not", exp_opt_expr(e))
        return BROKEN
    if k == "ParenExpr":
        return exp_opt_expr(n[3])
    if k == "BinExpr":
        op = n[3]
        label = {"Arith." + a: "Arith." + a for a in
                 ("Add", "Mul", "Sub", "Div", "Rem", "Shl", "Shr", "BitXor", "BitOr", "BitAnd")}.get(op, op)
        return N("Bin." + label, optcast(exp_opt_expr(n[4])), optcast(exp_opt_expr(n[5])))
    if k == "Literal":
        return exp_literal(n)
    if k == "TimingLiteral":
        return exp_timing(n)
    if k == "Identifier":
        return N("Ident:" + str(unhex(n[3])))
    if k == "HardwareQubit":
        return N("HwQubit:" + str(unhex(n[3])))
    if k == "RangeExpr":
        return N("Range", *exp_range(n))
    if k == "IndexExpr":
        return N("IndexExpr", exp_opt_expr(n[3]), exp_index_op(n[4]))
    if k == "IndexedIdentifier":
        return exp_indexed_ident(n)
    if k == "MeasureExpression":
        return N("Measure", exp_gate_operand(n[3]))
    if k == "ReturnExpr":
        return N("Return", exp_opt_expr(n[3]))
    if k == "CastExpression":
        return N("Cast", exp_opt_expr(n[4]))
    if k == "CallExpr":
        name = unhex(n[4][3]) if is_node(n[4], "Identifier") else "?"
        return N("Call:" + str(name), exp_arg_list(n[3]))
    return N("<unsupported:%s>" % k)


def exp_range(n):
    return [exp_opt_expr(n[3]), exp_opt_expr(n[4]), exp_opt_expr(n[5])]


def exp_expr_list(n):
    """(ExpressionList s e (exprs)) -> list"""
    if not is_node(n, "ExpressionList"):
        return [BROKEN]
    return [exp_expr(e) for e in n[3]]


def exp_set(n):
    """(SetExpression s e explist) -> list"""
    if not is_node(n, "SetExpression"):
        return [BROKEN]
    return exp_expr_list(n[3])


def exp_index_op(n):
    if not is_node(n, "IndexOperator"):
        return BROKEN
    k = n[3]
    if is_node(k, "SetExpression"):
        return N("IxSet", *exp_set(k))
    if is_node(k, "ExpressionList"):
        return N("IxList", *exp_expr_list(k))
    return BROKEN


def exp_indexed_ident(n, label="IndexedIdent"):
    name = unhex(n[3][3]) if is_node(n[3], "Identifier") else "?"
    return N("%s:%s" % (label, name), *[exp_index_op(ix) for ix in n[4]])


def exp_gate_operand(n):
    if is_node(n, "HardwareQubit"):
        return N("GateOperand", N("HwQubit:" + str(unhex(n[3]))))
    if is_node(n, "Identifier"):
        return N("GateOperand", N("Ident:" + str(unhex(n[3]))))
    if is_node(n, "IndexedIdentifier"):
        return N("GateOperand", exp_indexed_ident(n))
    return BROKEN


def exp_qubit_list(n):
    if not is_node(n, "QubitList"):
        return N("Qubits", BROKEN)
    return N("Qubits", *[exp_gate_operand(g) for g in n[3]])


def exp_arg_list(n):
    if n == "_":
        return ABSENT
    if not is_node(n, "ArgList"):
        return BROKEN
    return N("Args", *exp_expr_list(n[3]))


def exp_modifier(m):
    k = m[0]
    if k == "InvModifier":
        return N("Inv")
    inner = m[3]
    e = exp_opt_expr(inner[3]) if is_node(inner, "ParenExpr") else ABSENT
    return N({"PowModifier": "Pow", "CtrlModifier": "Ctrl", "NegCtrlModifier": "NegCtrl"}[k], e)


def exp_gate_call(g, mods):
    name = unhex(g[5][3]) if is_node(g[5], "Identifier") else "?"
    return N("GateCall:" + str(name), exp_arg_list(g[4]), exp_qubit_list(g[3]), N("Modifiers", *mods))


def exp_block(n):
    """(BlockExpr s e (stmts)) -> list of statement skeletons"""
    if not is_node(n, "BlockExpr"):
        return [BROKEN]
    return exp_stmts(n[3])


def exp_body(n):
    """BlockOrStmt dump: (BosBlock block) | (BosStmt stmt) | !"""
    if is_node(n, "BosBlock"):
        return exp_block(n[1])
    if is_node(n, "BosStmt"):
        return exp_stmts([n[1]])
    return [BROKEN]


def _name(n):
    return str(unhex(n[3])) if is_node(n, "Name") else "?"


def exp_stmt(n):
    """skeleton of the ASG statement `n` should become, or None"""
    k = n[0]
    if k == "IfStmt":
        els = N("NoElse") if n[5] == "_" else N("Else", *exp_body(n[5]))
        return N("If", exp_opt_expr(n[3]), N("Then", *exp_body(n[4])), els)
    if k == "WhileStmt":
        return N("While", exp_opt_expr(n[3]), N("Body", *exp_body(n[4])))
    if k == "ForStmt":
        it = n[5]
        if not is_node(it, "ForIterable"):
            itk = BROKEN
        elif it[3] != "_":
            itk = N("IterSet", *exp_set(it[3]))
        elif it[4] != "_":
            itk = N("IterRange", *exp_range(it[4]))
        elif it[5] != "_":
            itk = N("IterExpr", exp_expr(it[5]))
        else:
            itk = BROKEN
        return N("For:" + _name(n[3]), itk, N("Body", *exp_body(n[6])))
    if k == "SwitchCaseStmt":
        cases = []
        for c in n[4]:
            vals = exp_expr_list(c[3]) if c[3] != "_" else [BROKEN]
            cases.append(N("Case", N("Values", *vals), N("Body", *exp_block(c[4]))))
        d = N("NoDefault") if n[5] == "_" else N("Default", *exp_block(n[5]))
        return N("Switch", exp_opt_expr(n[3]), N("Cases", *cases), d)
    if k == "ClassicalDeclarationStatement":
        init = ABSENT if n[7] == "_" else optcast(exp_expr(n[7]))
        return N("DeclareClassical:" + _name(n[6]), init)
    if k == "IODeclarationStatement":
        return N(("InputDeclaration:" if n[6] == "1" else "OutputDeclaration:") + _name(n[5]))
    if k == "QuantumDeclarationStatement":
        if n[3] == "_":
            return N("DeclareHardwareQubit:" + (str(unhex(n[4][3])) if is_node(n[4]) else "?"))
        return N("DeclareQuantum:" + _name(n[3]))
    if k == "AssignmentStmt":
        if n[3] != "_":
            lv = N("LIdent:" + str(unhex(n[3][3])))
        elif is_node(n[5], "IndexedIdentifier"):
            lv = exp_indexed_ident(n[5], "LIndexed")
        else:
            lv = BROKEN
        return N("Assignment", lv, optcast(exp_opt_expr(n[4])))
    if k in ("BreakStmt", "ContinueStmt", "EndStmt"):
        return N(k[:-4])
    if k == "Gate":
        ap = ABSENT if n[4] == "_" else N("Params", *[N("Sym:" + str(unhex(p[3]))) for p in n[4][3]])
        qp = N("Qubits", *([N("Sym:" + str(unhex(p[3]))) for p in n[5][3]] if is_node(n[5]) else [BROKEN]))
        return N("GateDefinition:" + _name(n[3]), ap, qp, N("Body", *exp_block(n[6])))
    if k == "Def":
        ps = []
        if is_node(n[4], "TypedParamList"):
            ps = [N("Sym:" + _name(p[5])) for p in n[4][3]]
        return N("DefStmt:" + _name(n[3]), N("Params", *ps), N("Body", *exp_block(n[5])))
    if k == "Barrier":
        return N("Barrier", exp_qubit_list(n[3]))
    if k == "DelayStmt":
        d = exp_opt_expr(n[4][3]) if is_node(n[4], "Designator") else BROKEN
        return N("Delay", d, exp_qubit_list(n[3]))
    if k == "Reset":
        return N("Reset", exp_gate_operand(n[3]))
    if k in ("Include", "VersionString", "AnnotationStatement"):
        return None
    if k == "ExprStmt":
        e = n[3]
        if is_node(e, "GateCallExpr"):
            return exp_gate_call(e, [])
        if is_node(e, "ModifiedGateCallExpr"):
            mods = [exp_modifier(m) for m in e[3]]
            if is_node(e[4], "GateCallExpr"):
                return exp_gate_call(e[4], mods)
            arg = exp_opt_expr(e[5][3]) if is_node(e[5], "GPhaseCallExpr") else BROKEN
            return N("ModifiedGPhaseCall", arg, N("Modifiers", *mods))
        if is_node(e, "GPhaseCallExpr"):
            return N("GPhaseCall", exp_opt_expr(e[3]))
        return N("ExprStmt", exp_opt_expr(e))
    if k == "PragmaStatement":
        return N("Pragma:" + str(unhex(n[3])))
    if k == "AliasDeclarationStatement":
        return N("Alias:" + _name(n[3]), exp_opt_expr(n[4]))
    if k in ("OldStyleDeclarationStatement", "DefCal", "Cal", "DefCalGrammar", "LetStmt", "Measure", "ExternStmt"):
        return N("NullStmt")
    return N("<unknown-stmt:%s>" % k)


def exp_stmts(stmts):
    """translations in source order; statements without translation are dropped; annotations are
    attached to the statement that follows them (in the same list)"""
    out, pending = [], []
    for s in stmts:
        if is_node(s, "AnnotationStatement"):
            pending.append(str(unhex(s[3])))
            continue
        k = exp_stmt(s)
        if k is None:
            continue
        if pending:
            k = N("Annotated", k, N("Annotations", *[N(a) for a in pending]))
            pending = []
        out.append(k)
    return out


# ------------------------------------------------------------------------------- ASG side

class Syms:
    def __init__(self, field):
        self.names, self.types = {}, {}
        for ent in [e for e in field.split(",") if e]:
            i, nm, ty = ent.split(":", 2)
            self.names[int(i)] = unhex(nm)
            self.types[int(i)] = ty

    def name(self, sym):
        if sym.startswith("ok:"):
            return self.names.get(int(sym[3:]), "<dangling-id>")
        return "?"


def asg_texpr(n, S):
    if not is_node(n, "T"):
        return N("<not-a-texpr>")
    return asg_expr(n[2], S)


def asg_opt_texpr(n, S):
    return ABSENT if n == "_" else asg_texpr(n, S)


def asg_texprs(l, S):
    return [asg_texpr(e, S) for e in l]


def asg_literal(l):
    if l == "Array":
        return N("Lit.Array")
    k = l[0]
    if k == "Bool":
        return N("Lit.Bool:" + l[1])
    if k == "Int":
        return N("Lit.Int%s:%s" % (l[2], l[1]))
    if k == "Float":
        return N("Lit.Float:" + l[1][2:])
    if k == "ImInt":
        return N("Lit.ImInt%s:%s" % (l[2], l[1]))
    if k == "ImFloat":
        return N("Lit.ImFloat:" + l[1][2:])
    if k == "BitString":
        return N("Lit.BitString:" + l[1][2:])
    if k == "TimingInt":
        return N("Lit.TimingInt%s:%s:%s" % (l[2], l[1], l[3]))
    if k == "TimingFloat":
        return N("Lit.TimingFloat%s:%s:%s" % (l[2], l[1][2:], l[3]))
    return N("<literal:%s>" % k)


def asg_index_op(n, S):
    return N({"IxSet": "IxSet", "IxList": "IxList"}[n[0]], *asg_texprs(n[1], S))


def asg_indexed_ident(n, S, label="IndexedIdent"):
    return N("%s:%s" % (label, S.name(n[1])), *[asg_index_op(ix, S) for ix in n[2]])


def asg_expr(e, S):
    if e == "NullExpr":
        return N("NullExpr")
    k = e[0]
    if k == "Bin":
        op = e[1]
        if op.startswith("Arith."):
            op = "Arith." + ARITH_I6.get(op[6:], op[6:])
        return N("Bin." + op, asg_texpr(e[2], S), asg_texpr(e[3], S))
    if k == "Un":
        return N("Un." + e[1], asg_texpr(e[2], S))
    if k == "Lit":
        return asg_literal(e[1])
    if k == "Cast":
        return N("Cast", asg_texpr(e[2], S))
    if k == "Ident":
        return N("Ident:" + S.name(e[1]))
    if k == "HwQubit":
        return N("HwQubit:" + str(unhex(e[1])))
    if k == "IndexExpr":
        return N("IndexExpr", asg_texpr(e[1], S), asg_index_op(e[2], S))
    if k == "IndexedIdent":
        return asg_indexed_ident(e, S)
    if k == "GateOperand":
        g = e[1]
        if g[0] == "GoIdent":
            return N("GateOperand", N("Ident:" + S.name(g[1])))
        if g[0] == "GoHw":
            return N("GateOperand", N("HwQubit:" + str(unhex(g[1]))))
        return N("GateOperand", asg_indexed_ident(g[1], S))
    if k == "Return":
        return N("Return", asg_opt_texpr(e[1], S))
    if k == "Call":
        args = ABSENT if e[2] == "_" else N("Args", *asg_texprs(e[2], S))
        return N("Call:" + S.name(e[1]), args)
    if k == "Measure":
        return N("Measure", asg_texpr(e[1], S))
    if k == "Set":
        return N("Set", *asg_texprs(e[1], S))
    if k == "Range":
        return N("Range", asg_texpr(e[1], S), asg_opt_texpr(e[2], S), asg_texpr(e[3], S))
    return N("<expr:%s>" % k)


def asg_modifier(m, S):
    if m == "Inv":
        return N("Inv")
    return N(m[0], asg_opt_texpr(m[1], S) if m[0] != "Pow" else asg_texpr(m[1], S))


def asg_block(b, S):
    """(Block (stmts)) -> list"""
    return [asg_stmt(s, S) for s in b[1]]


def asg_stmt(s, S):
    if isinstance(s, str):
        return N({"Break": "Break", "Continue": "Continue", "End": "End"}.get(s, s))
    k = s[0]
    if k == "Alias":
        return N("Alias:" + S.name(s[1]), asg_texpr(s[2], S))
    if k == "Annotated":
        return N("Annotated", asg_stmt(s[1], S), N("Annotations", *[N(str(unhex(a))) for a in s[2]]))
    if k == "Assignment":
        lv = s[1]
        lvk = N("LIdent:" + S.name(lv[1])) if lv[0] == "LIdent" else asg_indexed_ident(lv[1], S, "LIndexed")
        return N("Assignment", lvk, asg_texpr(s[2], S))
    if k == "Barrier":
        return N("Barrier", ABSENT if s[1] == "_" else N("Qubits", *asg_texprs(s[1], S)))
    if k == "BlockStmt":
        return N("BlockStmt", *asg_block(s[1], S))
    if k == "DeclareClassical":
        return N("DeclareClassical:" + S.name(s[1]), asg_opt_texpr(s[2], S))
    if k == "DeclareQuantum":
        return N("DeclareQuantum:" + S.name(s[1]))
    if k == "DeclareHardwareQubit":
        return N("DeclareHardwareQubit:" + str(unhex(s[1])))
    if k == "DefStmt":
        return N("DefStmt:" + S.name(s[1]), N("Params", *[N("Sym:" + S.name(p)) for p in s[2]]),
                 N("Body", *asg_block(s[3], S)))
    if k == "Delay":
        return N("Delay", asg_texpr(s[1], S), N("Qubits", *asg_texprs(s[2], S)))
    if k == "ExprStmt":
        return N("ExprStmt", asg_texpr(s[1], S))
    if k == "ForStmt":
        it = s[2]
        if it[0] == "IterSet":
            itk = N("IterSet", *asg_texprs(it[1][1], S))
        elif it[0] == "IterRange":
            r = it[1]
            itk = N("IterRange", asg_texpr(r[1], S), asg_opt_texpr(r[2], S), asg_texpr(r[3], S))
        else:
            itk = N("IterExpr", asg_texpr(it[1], S))
        return N("For:" + S.name(s[1]), itk, N("Body", *asg_block(s[3], S)))
    if k == "GPhaseCall":
        return N("GPhaseCall", asg_texpr(s[1], S))
    if k == "GateCall":
        args = ABSENT if s[2] == "_" else N("Args", *asg_texprs(s[2], S))
        return N("GateCall:" + S.name(s[1]), args, N("Qubits", *asg_texprs(s[3], S)),
                 N("Modifiers", *[asg_modifier(m, S) for m in s[4]]))
    if k == "GateDefinition":
        ps = ABSENT if s[2] == "_" else N("Params", *[N("Sym:" + S.name(p)) for p in s[2]])
        return N("GateDefinition:" + S.name(s[1]), ps, N("Qubits", *[N("Sym:" + S.name(p)) for p in s[3]]),
                 N("Body", *asg_block(s[4], S)))
    if k == "InputDeclaration" or k == "OutputDeclaration":
        return N(k + ":" + S.name(s[1]))
    if k == "If":
        els = N("NoElse") if s[3] == "_" else N("Else", *asg_block(s[3], S))
        return N("If", asg_texpr(s[1], S), N("Then", *asg_block(s[2], S)), els)
    if k == "Include":
        return N("Include:" + str(unhex(s[1])))
    if k == "ModifiedGPhaseCall":
        return N("ModifiedGPhaseCall", asg_texpr(s[1], S), N("Modifiers", *[asg_modifier(m, S) for m in s[2]]))
    if k == "Pragma":
        return N("Pragma:" + str(unhex(s[1])))
    if k == "Reset":
        return N("Reset", asg_texpr(s[1], S))
    if k == "SwitchCase":
        cases = [N("Case", N("Values", *asg_texprs(c[1], S)), N("Body", *[asg_stmt(x, S) for x in c[2]]))
                 for c in s[2]]
        d = N("NoDefault") if s[3] == "_" else N("Default", *[asg_stmt(x, S) for x in s[3]])
        return N("Switch", asg_texpr(s[1], S), N("Cases", *cases), d)
    if k == "While":
        return N("While", asg_texpr(s[1], S), N("Body", *asg_block(s[2], S)))
    return N("<stmt:%s>" % k)


# ------------------------------------------------------------------------------- comparison

def _label_eq(exp, got):
    if exp == got:
        return True
    if got.endswith(":?") or got.endswith(":<dangling-id>"):
        # unresolved symbol (MissingBinding / AlreadyBound): the name cannot be checked
        return exp.rsplit(":", 1)[0] == got.rsplit(":", 1)[0] if got.endswith(":?") else False
    return False


def show(k, depth=3):
    if depth == 0:
        return "…"
    l, ch = k
    return l if not ch else "(%s %s)" % (l, " ".join(show(c, depth - 1) for c in ch))


def match(exp, got, path="", optional_cast=False):
    """None if the ASG skeleton `got` is the expected one, else (path, expected, got)"""
    el, ech = exp
    if el == "?cast":
        return match(ech[0], got, path, True)
    gl, gch = got
    if gl == "Cast":
        if el == "Cast":
            r = match(ech[0], gch[0], path + "/Cast")
            if r is None or not optional_cast:
                return r
            # the outer Cast may be the implicit one, wrapped around the explicit cast
            r2 = match(exp, gch[0], path + "/(implicit Cast)")
            if r2 is None:
                return None
            return r2 if r2[0].count("/") > r[0].count("/") else r
        if optional_cast:
            return match(exp, gch[0], path + "/(implicit Cast)")
        return (path, show(exp), show(got))
    if not _label_eq(el, gl):
        return (path, show(exp), show(got))
    if len(ech) != len(gch):
        return (path + "/" + el, "%d children: %s" % (len(ech), show(exp)), "%d children: %s" % (len(gch), show(got)))
    for i, (a, b) in enumerate(zip(ech, gch)):
        r = match(a, b, "%s/%s[%d]" % (path, el, i))
        if r is not None:
            return r
    return None


def _check_name(exp_text, got_text, path):
    """a check name that separates the signatures of the known defects from everything else"""
    nested = path.count("/") > 0
    if got_text.startswith("(Annotated") and not exp_text.startswith("(Annotated"):
        return "annotation_leaked_from_block" if not nested else "annotation_attachment"
    if exp_text.startswith("(Annotated") and not got_text.startswith("(Annotated"):
        return "annotation_dropped_in_block" if nested else "annotation_attachment"
    if "Annotations" in path.rsplit("/", 1)[-1] or (exp_text.startswith("(Annotated") and got_text.startswith("(Annotated")):
        return "annotation_attachment"
    if exp_text.startswith("(Bin.Power") and got_text.startswith("(Bin.Concat"):
        return "power_stored_as_concat"
    if exp_text.startswith(("(Bin.", "(Un.", "Bin.", "Un.")) and got_text.startswith(("(Bin.", "(Un.", "Bin.", "Un.")):
        return "operator_identity"
    if exp_text.startswith(("Lit.", "(Lit.")) and got_text.startswith(("Lit.", "(Lit.")):
        return "literal_class"
    if exp_text.startswith(("Pragma", "(Pragma")):
        return "pragma_verbatim"
    if "children" in exp_text:
        return "order_and_arity"
    return "kind_and_role"


# ------------------------------------------------------------------------------- F07 from spans

def _walk(n, f, top=True, in_block=False):
    """f(node, in_block) on every dumped node"""
    if not isinstance(n, list):
        return
    if is_node(n):
        f(n, in_block)
        inner = in_block or n[0] == "BlockExpr" or n[0] in ("BosStmt",)
        for c in n[1:]:
            _walk(c, f, False, inner)
    else:
        for c in n:
            _walk(c, f, False, in_block)


def _body_span(b):
    if is_node(b, "BosBlock") or is_node(b, "BosStmt"):
        return int(b[1][1]), int(b[1][2])
    return None


def check_if_branches(src, ast):
    """F07 detector, from spans only: `if (c) T else E` — T must precede E inside the statement,
    the two must be distinct nodes, and the text between them must be the `else` keyword"""
    out = []
    bsrc = src.encode("utf-8")

    def f(n, _):
        if n[0] != "IfStmt":
            return
        s, e = int(n[1]), int(n[2])
        t = _body_span(n[4])
        el = _body_span(n[5]) if n[5] != "_" else None
        if t is None:
            return
        text = bsrc[s:e].decode("utf-8", "replace")
        if not (s <= t[0] and t[1] <= e):
            out.append(("C06", "if_branch_roles", "then-body %s outside the statement %s: %r" % (t, (s, e), text)))
            return
        if el is not None:
            between = bsrc[t[1]:el[0]].decode("utf-8", "replace") if t[1] <= el[0] else None
            if t == el:
                out.append(("C06", "if_branch_roles", "then and else bodies are the same node %s: %r" % (t, text)))
            elif between is None or "else" not in between:
                out.append(("C06", "if_branch_roles", "then-body %s does not precede else-body %s: %r" % (t, el, text)))
        else:
            # no else role reported: there must be no `else` keyword after the then-body at this level
            rest = bsrc[t[1]:e].decode("utf-8", "replace")
            # (`else ;` — an empty statement — legitimately has no else body)
            if re.match(r"\s*else\b\s*[^;\s]", _strip_comments(rest)):
                out.append(("C06", "if_branch_roles", "else branch dropped: %r" % text))

    _walk(ast, f)
    return out


def _strip_comments(t):
    t = re.sub(r"//[^\n]*", " ", t)
    return re.sub(r"/\*.*?\*/", " ", t, flags=re.S)


# ------------------------------------------------------------------------------- the C06 check

def check_pragma_text(src, ast, got_texts):
    """"pragma text verbatim", from the SOURCE: the text the graph carries for the i-th pragma is what follows the
    directive word (`pragma` / `#pragma`) in the source span of the i-th pragma statement — not what the accessor
    `pragma_text()` says (the typed-AST dump is produced by that accessor)"""
    out = []
    bsrc = src.encode("utf-8")
    spans = []

    def f(n, _):
        if n[0] == "PragmaStatement":
            spans.append((int(n[1]), int(n[2])))
    _walk(ast, f)
    if len(spans) != len(got_texts):
        return out
    for (s_, e_), g in zip(spans, got_texts):
        text = bsrc[s_:e_].decode("utf-8", "replace")
        body = text[7:] if text.startswith("#pragma") else (text[6:] if text.startswith("pragma") else None)
        if body is not None and g != body:
            out.append(("C06", "pragma_verbatim", "pragma %r: the graph carries %r, the source says %r" % (text, g, body)))
    return out


def check(src, ast_line, sema_line):
    """-> list of (property_id, check_name, detail); [] when nothing is wrong or nothing is checkable
    (syntax errors, panic, unsupported include: other properties' business)"""
    if not ast_line.startswith("(Program") or not sema_line.startswith("asg="):
        return []
    ast = parse_sexp(ast_line)
    f = fields(sema_line)
    S = Syms(f.get("symbols", ""))
    got = [asg_stmt(s, S) for s in parse_sexp(f["asg"])]
    exp = exp_stmts(ast[3])
    out = []
    out += check_if_branches(src, ast)
    try:
        ptexts = []

        def g_(n):
            if isinstance(n, (list, tuple)):
                if len(n) >= 1 and isinstance(n[0], str) and n[0].startswith("Pragma:"):
                    ptexts.append(n[0][7:])
                for c in n:
                    g_(c)
        g_(got)
        out += check_pragma_text(src, ast, ptexts)
    except Exception:
        pass
    if len(exp) != len(got):
        out.append(("C06", "top_level_order",
                    "expected %d statements, graph has %d: expected kinds %s, got %s"
                    % (len(exp), len(got), [e[0] for e in exp], [g[0] for g in got])))
    for i, (a, b) in enumerate(zip(exp, got)):
        r = match(a, b, "stmt[%d]" % i)
        if r is not None:
            path, et, gt = r
            out.append(("C06", _check_name(et, gt, path), "%s: expected %s, got %s" % (path, et, gt)))
    return out


# ------------------------------------------------------------------------------- guards

def _any(ast_line, pred):
    if not ast_line.startswith("(Program"):
        return False
    hit = []

    def f(n, in_block):
        if pred(n, in_block):
            hit.append(1)

    _walk(parse_sexp(ast_line), f)
    return bool(hit)


def guard_f07(src, ast_line):
    """an if statement whose then or else body is not a block"""
    return _any(ast_line, lambda n, _: n[0] == "IfStmt" and (not is_node(n[4], "BosBlock")
                                                             or (n[5] != "_" and not is_node(n[5], "BosBlock"))))


def guard_power(src, ast_line):
    """a `**` expression"""
    return _any(ast_line, lambda n, _: n[0] == "BinExpr" and n[3] == "Power")


def guard_nested_annotation(src, ast_line):
    """an annotation that is not a top-level statement"""
    return _any(ast_line, lambda n, in_block: n[0] == "AnnotationStatement" and in_block)


GUARDS = {
    "F07": guard_f07,                       # oq3_syntax: single-statement if/else bodies
    "F08b": guard_power,                    # `**` -> ConcatenationOp
    "nested-annotation": guard_nested_annotation,   # pending annotations leak to the enclosing top-level stmt
}

# check name -> the guard that must hold for the failure to be the known defect
KNOWN_SIGNATURES = {
    "if_branch_roles": "F07",
    "power_stored_as_concat": "F08b",
    "annotation_leaked_from_block": "nested-annotation",
    "annotation_dropped_in_block": "nested-annotation",
}


def attribute(src, ast_line, failures):
    """split `failures` into (known, residual): a failure is known iff its check name is the
    signature of a known defect and that defect's guard holds on this program"""
    known, residual = [], []
    for f in failures:
        g = KNOWN_SIGNATURES.get(f[1])
        if g is not None and GUARDS[g](src, ast_line):
            known.append((g,) + tuple(f))
        else:
            residual.append(f)
    return known, residual


# =============================================================================== tokenizer

WS = "\t\n\x0b\x0c\r \u0085\u200e\u200f\u2028\u2029"


def _id_start(c):
    return c == "_" or (c != "" and c.isidentifier())


def _id_cont(c):
    return c != "" and ("a" + c).isidentifier()


def _eat_dec(s, i):
    j, has = i, False
    while j < len(s) and (s[j] == "_" or s[j].isdigit() and s[j].isascii()):
        has = has or s[j] != "_"
        j += 1
    return j, has


def _eat_hex(s, i):
    j, has = i, False
    while j < len(s) and (s[j] == "_" or s[j] in "0123456789abcdefABCDEF"):
        has = has or s[j] != "_"
        j += 1
    return j, has


def _exponent(s, i):
    if i < len(s) and s[i] in "+-":
        i += 1
    return _eat_dec(s, i)[0]


def _timing_suffix(s, i):
    if s[i:i + 1] == "s":
        return True
    return s[i:i + 2] in ("dt", "ns", "us", "ms", "µs", "im")


def _suffix(s, i):
    if i < len(s) and _id_start(s[i]):
        i += 1
        while i < len(s) and _id_cont(s[i]):
            i += 1
    return i


def _number(s, i):
    """s[i] is an ASCII digit; returns end of the literal token (oq3_lexer::Cursor::number + suffix)"""
    j = i + 1
    early = False
    if s[i] == "0":
        c = s[j:j + 1]
        if c == "b" or c == "o":
            j, has = _eat_dec(s, j + 1)
            early = not has
        elif c == "x":
            j, has = _eat_hex(s, j + 1)
            early = not has
        elif c != "" and (c in "0123456789_"):
            j, _ = _eat_dec(s, j)
        elif c in (".", "e", "E") and c != "":
            pass
        else:
            early = True
    else:
        j, _ = _eat_dec(s, j)
    if not early:
        c = s[j:j + 1]
        if c == ".":
            j += 1
            if s[j:j + 1].isdigit() and s[j:j + 1].isascii():
                j, _ = _eat_dec(s, j)
                if s[j:j + 1] in ("e", "E") and s[j:j + 1] != "":
                    j = _exponent(s, j + 1)
        elif c in ("e", "E") and c != "":
            j = _exponent(s, j + 1)
    if not _timing_suffix(s, j):
        j = _suffix(s, j)
    return j


def _string(s, i, q):
    j = i + 1
    while j < len(s):
        c = s[j]
        if c == q:
            return _suffix(s, j + 1)
        if c == "\\" and s[j + 1:j + 2] in ("\\", q) and s[j + 1:j + 2] != "":
            j += 2
            continue
        j += 1
    return j


def tokenize(src):
    """[(kind, text)], kinds: ws line block ident num str hw pragma annot version punct unknown.
    Mirrors oq3_lexer::Cursor::advance_token on the alphabet of the generated programs."""
    out, i, n = [], 0, len(src)
    while i < n:
        c = src[i]
        if c == "/" and src[i + 1:i + 2] == "/":
            j = src.find("\n", i)
            j = n if j < 0 else j
            out.append(("line", src[i:j]))
        elif c == "/" and src[i + 1:i + 2] == "*":
            depth, j = 1, i + 2
            while j < n and depth:
                if src[j] == "/" and src[j + 1:j + 2] == "*":
                    depth, j = depth + 1, j + 2
                elif src[j] == "*" and src[j + 1:j + 2] == "/":
                    depth, j = depth - 1, j + 2
                else:
                    j += 1
            out.append(("block", src[i:j]))
        elif c in WS:
            j = i
            while j < n and src[j] in WS:
                j += 1
            out.append(("ws", src[i:j]))
        elif c == "p" and src.startswith("pragma", i) and src[i + 6:i + 7] != "" and src[i + 6] in WS:
            j = src.find("\n", i)
            j = n if j < 0 else j
            out.append(("pragma", src[i:j]))
        elif c == "#" and src.startswith("#pragma", i) and src[i + 7:i + 8] != "" and src[i + 7] in WS:
            j = src.find("\n", i)
            j = n if j < 0 else j
            out.append(("pragma", src[i:j]))
        elif c == "#" and src.startswith("#dim", i):
            j = i + 4
            out.append(("punct", src[i:j]))
        elif c == "O" and src.startswith("OPENQASM", i) and src[i + 8:i + 9] != "" and src[i + 8] in WS:
            j = i + 8
            while j < n and src[j] in WS:
                j += 1
            j2, has = _eat_dec(src, j)
            if has:
                j = j2
                if src[j:j + 1] == ".":
                    j3, has3 = _eat_dec(src, j + 1)
                    j = j3 if has3 else j + 1
            out.append(("version", src[i:j]))
        elif _id_start(c):
            j = i + 1
            while j < n and _id_cont(src[j]):
                j += 1
            out.append(("ident", src[i:j]))
        elif c.isdigit() and c.isascii():
            j = _number(src, i)
            out.append(("num", src[i:j]))
        elif c == "." and src[i + 1:i + 2].isdigit() and src[i + 1:i + 2].isascii():
            j, _ = _eat_dec(src, i + 1)
            if src[j:j + 1] in ("e", "E") and src[j:j + 1] != "":
                j = _exponent(src, j + 1)
            if not _timing_suffix(src, j):
                j = _suffix(src, j)
            out.append(("num", src[i:j]))
        elif c == "@" and _id_start(src[i + 1:i + 2]):
            j = src.find("\n", i)
            j = n if j < 0 else j
            out.append(("annot", src[i:j]))
        elif c == "$":
            j, has = _eat_dec(src, i + 1)
            out.append(("hw", src[i:j]) if has else ("punct", "$"))
            j = j if has else i + 1
        elif c == '"' or c == "'":
            j = _string(src, i, c)
            out.append(("str", src[i:j]))
        elif c in ";,(){}[]~?:=!<>-&|+*^%/.@#":
            j = i + 1
            out.append(("punct", c))
        else:
            j = i + 1
            out.append(("unknown", c))
        i = j
    return out


TRIVIA = ("ws", "line", "block")


def tokens_from_lex(src, lex_line):
    """the same list built from `oq3-run lex` output (`raw=Kind:len,...`), lengths in bytes"""
    raw = fields(lex_line).get("raw", "")
    b = src.encode("utf-8")
    out, pos = [], 0
    for ent in [e for e in raw.split(",") if e]:
        parts = ent.split(":")
        kind = parts[0]
        ln = int(parts[1])
        text = b[pos:pos + ln].decode("utf-8")
        pos += ln
        k = {"Whitespace": "ws", "LineComment": "line", "Ident": "ident", "Pragma": "pragma",
             "Annotation": "annot", "HardwareIdent": "hw"}.get(kind)
        if k is None:
            if kind.startswith("BlockComment"):
                k = "block"
            elif kind.startswith("Lit.Int") or kind.startswith("Lit.Float"):
                k = "num"
            elif kind.startswith("Lit."):
                k = "str"
            elif kind.startswith("OpenQasmVersionStmt"):
                k = "version"
            else:
                k = "punct"
        out.append((k, text))
    return out


# =============================================================================== relayout

def _rand_ws(r):
    return "".join(r.choice([" ", " ", " ", "\t", "\n", "\r\n", "  "]) for _ in range(r.randint(1, 3)))


def _rand_comment_text(r):
    t = "".join(r.choice("abc xyz01_+-;.#@$\"'π/!*") for _ in range(r.randint(0, 8)))
    # may start with `/`, `*`, `!` (banner and doc-comment spellings `/*/ x */`, `/** x */`, `/// x`, `//! x`); never
    # opens or closes a block comment inside, never ends in `/` or `*`
    if "/*" in t or "*/" in t or t.endswith(("/", "*")):
        return t.replace("*", "x").rstrip("/")
    return t


def _rand_sep(r, may_be_empty):
    x = r.random()
    if may_be_empty and x < 0.3:
        return ""
    if x < 0.7:
        return _rand_ws(r)
    if x < 0.85:
        return _rand_ws(r) + "/*" + _rand_comment_text(r) + "*/" + _rand_ws(r)
    return _rand_ws(r) + "//" + _rand_comment_text(r) + "\n" + (_rand_ws(r) if r.random() < 0.5 else "")


def _glued(a, b):
    """no separator may be inserted between adjacent tokens a b"""
    (ka, ta), (kb, tb) = a, b
    if ka == "punct" and kb == "punct":
        return True                      # composite operators (and, conservatively, any punctuation pair)
    if ka in ("num", "str") and kb == "ident":
        return True                      # time unit / imaginary suffix directly after the number
    if ta == "." or tb == ".":
        return True
    if ka == "unknown" or kb == "unknown":
        return True
    return False


_PLAIN_NUM = re.compile(r"(\d[\d_]*(\.\d[\d_]*)?|\.\d[\d_]*)([eE][+-]?\d[\d_]*)?")


def _num_unit(a, b):
    """a plain decimal integer / float (no radix prefix, no trailing dot, no `1.e3`, which this lexer reads as `1.` with
    a suffix: finding N01's territory) followed by a time / imaginary unit"""
    (ka, ta), (kb, tb) = a, b
    return ka == "num" and kb == "ident" and tb in UNITS and _PLAIN_NUM.fullmatch(ta) is not None


def relayout(src, seed, lex_line=None):
    """the same non-trivia tokens with different admissible whitespace / comments.
    Kept: a line break after pragma / annotation / line-comment lexemes; at least one separator
    wherever the original had one; no separator inside composite operators or between a number and
    its unit.  Deterministic in `seed`."""
    r = random.Random(seed)
    toks = tokens_from_lex(src, lex_line) if lex_line else tokenize(src)
    nt, gaps, gap = [], [], False
    lead = False
    for k, t in toks:
        if k in TRIVIA:
            gap = True
            continue
        if nt:
            gaps.append(gap)
        else:
            lead = gap
        nt.append((k, t))
        gap = False
    if not nt:
        return src
    out = [_rand_sep(r, True) if r.random() < 0.5 else ""]
    for i, tok in enumerate(nt):
        if tok[0] == "version":
            # the blanks between `OPENQASM` and the version number are layout too
            m = re.fullmatch(r"OPENQASM(\s+)(\S.*)", tok[1], flags=re.S)
            if m:
                tok = (tok[0], "OPENQASM" + r.choice([" ", "\t", "  ", "\n", " \t ", "\n  "]) + m.group(2))
        out.append(tok[1])
        ends_line = tok[0] in ("pragma", "annot")
        if i + 1 < len(nt):
            if _num_unit(tok, nt[i + 1]):
                # a decimal number and its time / imaginary unit are two lexemes with or without blanks between them
                # (`.5ns` = `.5 ns`): the gap is free in BOTH directions
                sep = r.choice(["", "", " ", "  ", "\t"])
            elif gaps[i]:
                sep = _rand_sep(r, False)
            elif _glued(tok, nt[i + 1]):
                sep = ""
            else:
                sep = _rand_sep(r, True)
            if ends_line and not sep.startswith("\n"):
                sep = "\n" + sep
            out.append(sep)
        else:
            tail = _rand_sep(r, True) if r.random() < 0.5 else ""
            if ends_line and tail and not tail.startswith("\n"):
                tail = "\n" + tail
            out.append(tail)
    return "".join(out)


# =============================================================================== rename

KEYWORDS = {"OPENQASM", "barrier", "box", "cal", "const", "def", "defcal", "defcalgrammar", "delay",
            "extern", "gate", "gphase", "include", "let", "measure", "pragma", "dim", "reset", "break",
            "case", "continue", "default", "else", "end", "for", "if", "in", "return", "switch",
            "while", "array", "creg", "input", "mutable", "output", "qreg", "qubit", "readonly",
            "void", "ctrl", "inv", "negctrl", "pow", "false", "true",
            "angle", "bit", "bool", "complex", "duration", "float", "int", "stretch", "uint",
            "sizeof", "durationof"}
BUILTINS = {"pi", "π", "euler", "ℇ", "tau", "τ", "U", "gphase"}
STDGATES = {"x", "y", "z", "h", "s", "sdg", "t", "tdg", "sx", "id", "p", "rx", "ry", "rz", "phase", "u1",
            "u2", "u3", "cx", "cy", "cz", "ch", "swap", "CX", "cp", "crx", "cry", "crz", "cphase", "cu",
            "ccx", "cswap"}
UNITS = {"dt", "ns", "us", "ms", "µs", "s", "im"}
RESERVED = KEYWORDS | BUILTINS | STDGATES | UNITS


def rename(src, seed, lex_line=None):
    """(new source, {old: new}): every user identifier consistently replaced by a fresh one.
    Not renamed: keywords, type names, built-ins, standard gate names, time units; nothing inside
    pragmas, annotations, strings, comments is touched."""
    r = random.Random(seed)
    toks = tokens_from_lex(src, lex_line) if lex_line else tokenize(src)
    used = {t for k, t in toks if k == "ident"}
    mapping = {}
    out = []
    prev = None
    for k, t in toks:
        if k == "ident" and t not in RESERVED and not (prev is not None and prev[0] in ("num", "str")):
            if t not in mapping:
                while True:
                    style = r.randint(0, 4)
                    if style == 4:
                        # fresh identifiers that START like a keyword, a directive, a type or a unit and go on with a
                        # digit / underscore / letter: still ordinary identifiers
                        cand = r.choice(["pragma", "OPENQASM", "include", "int", "gate", "def", "dim", "im", "ns", "dt", "measure",
                                         "reset", "let", "if", "for", "in", "true", "pi", "U", "ctrl", "inv", "pow", "bit", "end"]) \
                            + r.choice(["1", "_", "2x", "_a", "0", "s9"]) + ("" if r.random() < 0.5 else str(len(mapping)))
                    elif style == 0:
                        cand = "v%d_%s" % (len(mapping), "".join(r.choice("abcdefgh") for _ in range(3)))
                    elif style == 1:
                        cand = "_%s%d" % (r.choice(["q", "k", "ww", "Zed"]), r.randint(0, 999))
                    elif style == 2:
                        cand = "%s_%d" % (r.choice(["alpha", "Beta", "θ", "ñu", "x_y"]), len(mapping))
                    else:
                        cand = t + "_" + "".join(r.choice("mnopqr") for _ in range(2))
                    if cand not in RESERVED and cand not in used and cand not in mapping.values():
                        break
                mapping[t] = cand
            out.append(mapping[t])
        else:
            out.append(t)
        prev = (k, t)
    return "".join(out), mapping


# =============================================================================== split points

def split_points(src, ast_line):
    """byte offsets (into the UTF-8 text) of the ends of the top-level statements: the prefix
    `src_bytes[:o]` consists of whole top-level statements.  The last statement's end is omitted
    (it gives the whole program)."""
    if not ast_line.startswith("(Program"):
        return []
    ast = parse_sexp(ast_line)
    ends = [int(s[2]) for s in ast[3]]
    return sorted(set(ends[:-1]))


def prefix_at(src, offset):
    return src.encode("utf-8")[:offset].decode("utf-8")


# =============================================================================== comparison of two I6 lines

_PANIC_RE = re.compile(r"^(PANIC\s+\S+)")


def _outcome(line):
    if line.startswith("asg="):
        return "ok"
    m = _PANIC_RE.match(line)
    if m:
        return m.group(1)
    return line.split(" ")[0] if line else "EMPTY"


def _split_top(s):
    """top-level items of `(a b (c d))` as strings"""
    assert s.startswith("(") and s.endswith(")"), s[:40]
    items, depth, cur = [], 0, []
    for tok in _TOK.findall(s[1:-1]):
        if tok == "(":
            depth += 1
        elif tok == ")":
            depth -= 1
        cur.append(tok)
        if depth == 0:
            items.append(" ".join(cur).replace("( ", "(").replace(" )", ")"))
            cur = []
    return items


def _errs(f, with_spans):
    es = [e for e in f.get("errors", "").split(",") if e]
    return es if with_spans else [e.split("@")[0] for e in es]


def _syms(f):
    out = []
    for ent in [e for e in f.get("symbols", "").split(",") if e]:
        i, nm, ty = ent.split(":", 2)
        out.append((int(i), unhex(nm), ty))
    return out


def _gates(f):
    return [g for g in f.get("gates", "").split(",") if g]


def compare_modulo(sema_a, sema_b, mode, mapping=None):
    """differences between two I6 lines, [] if none.
    mode 'layout': equal graph, symbols, scope depth, gates; diagnostics equal in kind and order
                   (positions may differ).
    mode 'rename': as layout, and symbol / gate names related by `mapping` (old -> new; names not
                   in the mapping are unchanged).
    mode 'prefix': a is the result for a prefix of b's program (cut at a top-level statement
                   boundary): a's statements, symbols, diagnostics (WITH positions) and gates are
                   prefixes of b's.  Annotations still pending at the end of a's program are not in
                   a's graph at all and sit on b's next emitted statement, which is beyond the
                   prefix: nothing to discount.  If b's analysis returns normally so must a's."""
    oa, ob = _outcome(sema_a), _outcome(sema_b)
    if mode in ("layout", "rename"):
        if oa != ob:
            return [("outcome", oa, ob)]
        if oa != "ok":
            return []
    else:
        if ob != "ok":
            return []                    # nothing to be a prefix of
        if oa != "ok":
            return [("outcome", "prefix: %s" % oa, "whole: ok")]
    fa, fb = fields(sema_a), fields(sema_b)
    diffs = []
    if mode in ("layout", "rename"):
        if fa["asg"] != fb["asg"]:
            sa, sb = _split_top(fa["asg"]), _split_top(fb["asg"])
            i = next((i for i, (x, y) in enumerate(zip(sa, sb)) if x != y), min(len(sa), len(sb)))
            diffs.append(("asg", "stmt %d: %s" % (i, sa[i][:200] if i < len(sa) else "<none>"),
                          "stmt %d: %s" % (i, sb[i][:200] if i < len(sb) else "<none>")))
        ea, eb = _errs(fa, False), _errs(fb, False)
        if ea != eb:
            diffs.append(("errors", ",".join(ea), ",".join(eb)))
        if fa.get("depth") != fb.get("depth"):
            diffs.append(("depth", fa.get("depth"), fb.get("depth")))
        sa, sb = _syms(fa), _syms(fb)
        m = mapping or {}
        if mode == "layout":
            if sa != sb:
                diffs.append(("symbols", str(sa[:40]), str(sb[:40])))
            if _gates(fa) != _gates(fb):
                diffs.append(("gates", fa.get("gates"), fb.get("gates")))
        else:
            ra = [(i, m.get(nm, nm), ty) for i, nm, ty in sa]
            if ra != sb:
                diffs.append(("symbols", str(ra[:40]), str(sb[:40])))
            ga = []
            for g in _gates(fa):
                nm, rest = g.split(":", 1)
                ga.append(m.get(nm, nm) + ":" + rest)
            if ga != _gates(fb):
                diffs.append(("gates", ",".join(ga), fb.get("gates")))
        return diffs
    # prefix
    sa, sb = _split_top(fa["asg"]), _split_top(fb["asg"])
    if sa != sb[:len(sa)]:
        i = next((i for i, (x, y) in enumerate(zip(sa, sb)) if x != y), min(len(sa), len(sb)))
        diffs.append(("asg-prefix", "stmt %d: %s" % (i, sa[i][:200] if i < len(sa) else "<none>"),
                      "stmt %d: %s" % (i, sb[i][:200] if i < len(sb) else "<none>")))
    ya, yb = _syms(fa), _syms(fb)
    if ya != yb[:len(ya)]:
        diffs.append(("symbols-prefix", str(ya[-5:]), str(yb[:len(ya)][-5:])))
    ea, eb = _errs(fa, True), _errs(fb, True)
    if ea != eb[:len(ea)]:
        diffs.append(("errors-prefix", ",".join(ea), ",".join(eb)))
    ga, gb = _gates(fa), _gates(fb)
    if ga != gb[:len(ga)]:
        diffs.append(("gates-prefix", ",".join(ga), ",".join(gb)))
    if fa.get("depth") != fb.get("depth"):
        diffs.append(("depth", fa.get("depth"), fb.get("depth")))
    return diffs


# =============================================================================== validation driver

def _enc(t):
    return ".".join("%x" % ord(c) for c in t)


def _run(mode, texts, exe="/verif/harness/target/debug/oq3-run"):
    import subprocess
    inp = "\n".join(_enc(t) for t in texts) + "\n"
    p = subprocess.run([exe, mode], input=inp, capture_output=True, text=True)
    lines = p.stdout.split("\n")
    if len(lines) < len(texts):
        raise RuntimeError("oq3-run %s: %d lines for %d cases (%s)" % (mode, len(lines), len(texts), p.stderr[:300]))
    return lines[:len(texts)]


def validate(seed=1, n=2000, verbose=True, relayouts=2, renames=1, max_splits=6):
    """C06 oracle + the three metamorphic relations on `n` generated programs, through oq3-run.
    Returns a dict of counters and residual lists."""
    import os
    import sys
    sys.path.insert(0, os.path.dirname(os.path.dirname(os.path.abspath(__file__))))
    from vf.gen_prog import gen_programs
    progs = gen_programs(seed, n)
    asts = _run("ast", progs)
    semas = _run("sema", progs)
    lexes = _run("lex", progs)
    res = {"n": n, "checked": 0, "c06_fail": 0, "c06_unguarded": [], "c06_by_guard": {}, "tok_mismatch": [],
           "layout": 0, "layout_diff": [], "rename": 0, "rename_diff": [], "prefix": 0, "prefix_diff": []}
    rel_src, rel_meta = [], []
    for i, (p, a, s, lx) in enumerate(zip(progs, asts, semas, lexes)):
        # tokenizer faithfulness
        if lx.startswith("raw="):
            mine = [(k, t) for k, t in tokenize(p)]
            ref = tokens_from_lex(p, lx)
            if [t for _, t in mine] != [t for _, t in ref]:
                res["tok_mismatch"].append(p)
        if a.startswith("(Program") and s.startswith("asg="):
            res["checked"] += 1
            fails = check(p, a, s)
            if fails:
                res["c06_fail"] += 1
                known, residual = attribute(p, a, fails)
                if residual:
                    res["c06_unguarded"].append((p, residual[:2]))
                for g in sorted({k[0] for k in known}):
                    res["c06_by_guard"][g] = res["c06_by_guard"].get(g, 0) + 1
        if not a.startswith("(Program"):
            continue
        for k in range(relayouts):
            rel_src.append(relayout(p, seed * 1000 + k))
            rel_meta.append(("layout", i, None))
        for k in range(renames):
            t, m = rename(p, seed * 1000 + k)
            rel_src.append(t)
            rel_meta.append(("rename", i, m))
        sp = split_points(p, a)
        if len(sp) > max_splits:
            sp = random.Random(seed + i).sample(sp, max_splits)
        for o in sp:
            rel_src.append(prefix_at(p, o))
            rel_meta.append(("prefix", i, o))
    rel_sema = _run("sema", rel_src) if rel_src else []
    for (mode, i, extra), t, sb in zip(rel_meta, rel_src, rel_sema):
        if mode == "prefix":
            d = compare_modulo(sb, semas[i], "prefix")
        else:
            d = compare_modulo(semas[i], sb, mode, extra)
        res[mode] += 1
        if d:
            res[mode + "_diff"].append((progs[i], t, d[:2]))
    if verbose:
        print("programs %d, C06 checked %d, C06 failing %d (by guard %s), unguarded %d; tokenizer mismatches %d"
              % (n, res["checked"], res["c06_fail"], res["c06_by_guard"], len(res["c06_unguarded"]),
                 len(res["tok_mismatch"])))
        for m in ("layout", "rename", "prefix"):
            print("%s: %d runs, %d differences" % (m, res[m], len(res[m + "_diff"])))
    return res


if __name__ == "__main__":
    import sys
    seed = int(sys.argv[1]) if len(sys.argv) > 1 else 1
    n = int(sys.argv[2]) if len(sys.argv) > 2 else 2000
    r = validate(seed, n)
    for key in ("c06_unguarded", "tok_mismatch", "layout_diff", "rename_diff", "prefix_diff"):
        for item in r[key][:5]:
            print(key, repr(item)[:1500])
