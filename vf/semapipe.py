"""Shared run of the semantic layer (I5 -> I6) for properties C03, C06-C10, C13, C17.

For every program text:
  impl  `ast`   : the implementation's own typed-AST view (I5) or SYNTAX-ERRORS
  impl  `sema`  : the real `syntax_to_semantics` result as one canonical I6 line, or PANIC <site>
  model `sema`  : the Lean model `Oq3.Sema.analyze` run on the I5 line, same I6 format
The model is fed the implementation's own previous-layer output (DESIGN §5.2 layering), so a
disagreement here localises to the semantic pass.
"""
import collections
from . import common as C
from . import gen_text as G
from . import pipeline as PL


def parse_i6(line):
    """asg=..;symbols=..;errors=..;depth=..;gates=.. -> dict (None if not a result line)"""
    if not line.startswith("asg="):
        return None
    out = {}
    # `;` never occurs inside fields (names are hex, messages are not printed)
    for kv in line.split(";"):
        k, _, v = kv.partition("=")
        out[k] = v
    return out


def run(ctx, progs, tag="sema"):
    lines = [G.enc(t) for t in progs]
    ast = C.run_impl(ctx, "ast", lines, tag=tag + "-iast")
    isema = C.run_impl(ctx, "sema", lines, tag=tag + "-isema")
    have_model = ctx.lake_ok
    idx = [i for i, a in enumerate(ast) if not a.startswith("SYNTAX") and not a.startswith("PANIC")
           and not a.startswith(("CRASH", "HANG"))]
    msema = {}
    if have_model:
        out = C.run_model(ctx, "sema", [ast[i] for i in idx], tag=tag + "-msema")
        msema = dict(zip(idx, out))
    stats = collections.Counter()
    recs = []
    for i, t in enumerate(progs):
        a, m = isema[i], msema.get(i)
        r = {"text": t, "ast": ast[i], "impl": a, "model": m, "agree": None, "panic": PL.canon_panic(a)}
        if ast[i].startswith("SYNTAX"):
            stats["syntax-errors (skipped)"] += 1
        elif i not in msema and have_model:
            stats["ast-dump-panicked (skipped)"] += 1
        elif m is not None:
            if m.startswith("BAD-AST"):
                # the I5 dump contains a panicked text accessor (`!`): outside the model's domain
                stats["bad-ast (skipped)"] += 1
            else:
                pa, pb = r["panic"], PL.canon_panic(m)
                if pa or pb:
                    r["agree"] = pa == pb
                    stats["panic-agree" if pa == pb else "panic-disagree"] += 1
                else:
                    r["agree"] = a == m
                    stats["agree" if a == m else "disagree"] += 1
                if r["agree"] is False and len(ctx.corr_disagreements) < 20:
                    ctx.corr_disagreements.append({"layer": "I5/I6 sema", "case": t, "impl": a[:500], "model": m[:500]})
        recs.append(r)
    return recs, stats


def chain_agree(ctx, progs, tag="chainx"):
    """per text: does the WHOLE pipeline inside the model (lexer, parser, events, builder, accessors, pass) give the
    implementation's result?  True / False / None (outside the model's domain: escape diagnostics, BAD-AST)"""
    if not progs:
        return []
    lines = [G.enc(t) for t in progs]
    ucpath, _ = G.uclass_table(ctx, progs, C)
    isema = C.run_impl(ctx, "sema", lines, tag=tag + "-isema")
    itree = C.run_impl(ctx, "tree", lines, tag=tag + "-itree")
    mtree = C.run_model(ctx, ["tree", ucpath], lines, tag=tag + "-mtree")
    mast = C.run_model(ctx, "accessors", mtree, tag=tag + "-macc")
    idx = [i for i, a in enumerate(mast) if a.startswith("(Program")]
    msema = dict(zip(idx, C.run_model(ctx, "sema", [mast[i] for i in idx], tag=tag + "-msema")))
    out = []
    for i, t in enumerate(progs):
        a = isema[i]
        f = PL.fields(itree[i]) if not PL.canon_panic(itree[i]) else {}
        if any(x.split(":", 1)[1].startswith(PL.UNESCAPE_MSGS) for x in f.get("clerrors", "").split(",") if ":" in x):
            out.append(None); continue
        m = "SYNTAX-ERRORS" if mast[i].startswith("SYNTAX") else (msema[i] if i in msema else mast[i])
        if m.startswith("BAD-AST"):
            out.append(None); continue
        pa, pb = PL.canon_panic(a), PL.canon_panic(m)
        if m.startswith("NO-TREE"):
            same = pa is not None
        elif pa or pb:
            same = pa == pb
        else:
            same = a == m or (a.startswith("SYNTAX") and m.startswith("SYNTAX"))
        out.append(same)
    return out


def run_chain(ctx, progs, tag="chain"):
    """The WHOLE pipeline inside the model: text -> model `tree` (lexer, parser, events, builder) -> model
    `accessors` (typed AST) -> model `sema`, against the implementation's `sema` on the same text.  Cases whose
    tree carries escape-sequence diagnostics (oq3_lexer::unescape is not modelled) are skipped."""
    lines = [G.enc(t) for t in progs]
    ucpath, _ = G.uclass_table(ctx, progs, C)
    isema = C.run_impl(ctx, "sema", lines, tag=tag + "-isema")
    itree = C.run_impl(ctx, "tree", lines, tag=tag + "-itree")
    mtree = C.run_model(ctx, ["tree", ucpath], lines, tag=tag + "-mtree")
    mast = C.run_model(ctx, "accessors", mtree, tag=tag + "-macc")
    idx = [i for i, a in enumerate(mast) if a.startswith("(Program")]
    msema = dict(zip(idx, C.run_model(ctx, "sema", [mast[i] for i in idx], tag=tag + "-msema")))
    stats = collections.Counter()
    for i, t in enumerate(progs):
        a = isema[i]
        f = PL.fields(itree[i]) if not PL.canon_panic(itree[i]) else {}
        if any(x.split(":", 1)[1].startswith(PL.UNESCAPE_MSGS) for x in f.get("clerrors", "").split(",") if ":" in x):
            stats["escape diagnostics (skipped)"] += 1
            continue
        if mast[i].startswith("SYNTAX"):
            m = "SYNTAX-ERRORS"
        elif i in msema:
            m = msema[i]
        else:
            m = mast[i]                      # NO-TREE / BAD-TREE / CL-DIFF
        if m.startswith("BAD-AST"):
            stats["bad-ast (skipped)"] += 1
            continue
        pa, pb = PL.canon_panic(a), PL.canon_panic(m)
        if m.startswith("NO-TREE"):
            same = pa is not None           # the parse layers panicked in both
        elif pa or pb:
            same = pa == pb
        else:
            same = a == m or (a.startswith("SYNTAX") and m.startswith("SYNTAX"))
        stats["agree" if same else "disagree"] += 1
        if not same and len(ctx.corr_disagreements) < 20:
            ctx.corr_disagreements.append({"layer": "whole pipeline inside the model (text -> graph)", "case": t,
                                           "impl": a[:500], "model": m[:500]})
    return stats
