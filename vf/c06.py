"""C06 — the semantic graph preserves the program's structure, order and operators."""
import os
from . import semacheck as SC
from . import oracle_sema_c as OC
from . import common as C


def progs(ctx):
    from . import gen_ref as GR
    q = ctx.tier == "quick"
    # reference-language programs nest deeper and have every body combination; gen_prog has the faults
    ref = [c["text"] for c in GR.gen_ref_programs(ctx.seed + 60, 2500 if q else 40000, depth=4 if q else 5) if c.get("valid", True)]
    return SC.default_programs(ctx, ref)


def chain(ctx, recs, failures):
    """text -> graph entirely inside the Lean model, against the real pipeline"""
    from . import semapipe as SP
    if not ctx.lake_ok:
        return
    q = ctx.tier == "quick"
    texts = [r["text"] for r in recs][: (3000 if q else 40000)]
    ctx.coverage["whole_pipeline_in_model"] = dict(SP.run_chain(ctx, texts))


def check(ctx):
    return SC.run(ctx, "C06", ["Oq3.Props.C06"], [OC], progs(ctx), post=chain, rule=
                  "generated programs (gen_prog: all statement arms, faults) + reference-language programs (gen_ref: all statement kinds nested to depth 4 (thorough: 5), block and single-statement bodies in every combination, every operator); oracle: the skeleton of the graph predicted from the typed-AST dump alone (statement kinds in source order, blocks, roles, operand/argument/qubit/index/modifier order, operator identity, literal class and value, referenced names, annotations on the FOLLOWING statement, pragma text verbatim) compared node by node with the real graph")
