"""C06 — the semantic graph preserves the program's structure, order and operators."""
import os
from . import semacheck as SC
from . import oracle_sema_c as OC
from . import common as C


def progs(ctx):
    from . import gen_ref as GR
    q = ctx.tier == "quick"
    # reference-language programs nest deeper and have every body combination; gen_prog has the faults
    ref = [c["text"] for c in GR.gen_ref_programs(ctx.seed + 60, 2500 if q else 40000, depth=4 if q else 5) if c.get("valid", True)]
    return SC.default_programs(ctx, ref)


def chain(ctx, recs, failures):
    """text -> graph entirely inside the Lean model, against the real pipeline"""
    from . import semapipe as SP
    if not ctx.lake_ok:
        return
    q = ctx.tier == "quick"
    texts = [r["text"] for r in recs][: (3000 if q else 40000)]
    ctx.coverage["whole_pipeline_in_model"] = dict(SP.run_chain(ctx, texts))


def includes_in_place(ctx, recs, failures):
    """C06's include clause on real files: the graph of a program with includes equals the graph of the program with
    the included texts spliced in place (same statements in the same order, annotations pending at an include
    attached to the first statement it expands to).  Arrangements and the splice are C18's (vf/c18.py)."""
    import json, random, re
    from . import c18
    from . import gen_text as G
    from . import pipeline as PL
    rnd = random.Random(ctx.seed + 61)
    n = 500 if ctx.tier == "quick" else 8000
    cases = [c18.clean_case(rnd, 200000 + i) if i % 2 else c18.gen_case(rnd, 200000 + i) for i in range(n)]
    out = C.run_impl(ctx, "include", [json.dumps({k: v for k, v in c.items() if k != "root"}) for c in cases], tag="c06inc")
    spl, idx = [], []
    for i, c in enumerate(cases):
        if c18.NESTED_INC.search(c["main"]):
            continue
        t = c18.splice(c, c["main"])
        if t is not None:
            spl.append(t); idx.append(i)
    sp = dict(zip(idx, zip(spl, C.run_impl(ctx, "sema", [G.enc(t) for t in spl], tag="c06spl"))))
    nchk = 0
    for i, c in enumerate(cases):
        a = out[i]
        if i not in sp or not a.startswith("asg=") or not sp[i][1].startswith("asg="):
            continue
        nchk += 1
        fa, fs = PL.fields(a), PL.fields(sp[i][1])
        if fa["asg"] != fs["asg"]:
            failures.append({"case": json.dumps({k: v for k, v in c.items() if k != "root"}), "check": "includes_in_place",
                             "detail": {"main": c["main"], "spliced": sp[i][0], "with_includes": fa["asg"][:400], "spliced_graph": fs["asg"][:400]},
                             "guards": set(), "model_agrees": True,
                             "replay_how": "echo '<case json>' | /verif/harness/target/debug/oq3-run include ; compare asg= with oq3-run sema on the spliced text"})
    ctx.coverage["include_arrangements_compared"] = nchk


def post_all(ctx, recs, failures):
    chain(ctx, recs, failures)
    includes_in_place(ctx, recs, failures)


def check(ctx):
    return SC.run(ctx, "C06", ["Oq3.Props.C06"], [OC], progs(ctx), post=post_all, rule=
                  "generated programs (gen_prog: all statement arms, faults) + reference-language programs (gen_ref: all statement kinds nested to depth 4 (thorough: 5), block and single-statement bodies in every combination, every operator); oracle: the skeleton of the graph predicted from the typed-AST dump alone (statement kinds in source order, blocks, roles, operand/argument/qubit/index/modifier order, operator identity, literal class and value, referenced names, annotations on the FOLLOWING statement, pragma text verbatim) compared node by node with the real graph")
