"""C07 — identifiers resolve by lexical scoping; ids name the identifier as written; scoping diagnostics."""
from . import semacheck as SC
from . import oracle_sema_a as OA


def check(ctx):
    return SC.run(ctx, "C07", ["Oq3.Props.C07"], [OA], SC.default_programs(ctx),
                  "generated programs with a small name pool (constant shadowing, redeclaration, undeclared uses, uses before declaration, names bound in sibling scopes); oracle: scoping recomputed with a stack of dicts over the typed AST and compared with every symbol reference of the graph and with the scoping diagnostics as multisets of kind@span")
