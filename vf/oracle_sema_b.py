"""Independent oracle for properties C08, C09, C10 (semantic pass of oq3_semantics).

Inputs per case: the source text, the I5 line (`oq3-run ast`) and the I6 line (`oq3-run sema`).
The expected behaviour is re-derived from the property statements in /verif/properties.jsonl
(ids C08, C09, C10); the Lean model is never consulted.  Pure standard library.

    check(src, ast_line, sema_line) -> [(property_id, check_name, detail), ...]
    GUARDS[finding_id](src, ast_line, sema_line, failure) -> bool
    FINDINGS[finding_id] = {"what": ..., "witness": ...}
    gen_literal_programs(seed, n), gen_decl_programs(seed, n)

`detail` is a `k=v;k=v` string (see `kv`), so that guards can read the facts a failure is about and
re-verify them against the source and the I6 line.

COUNTS (a module level Counter) is incremented once per *evaluated* clause, keyed by check name,
so that a runner can see which checks are vacuous.
"""
import collections
import math
import re
import sys

COUNTS = collections.Counter()

TWO32 = 1 << 32
TWO128 = 1 << 128

# --------------------------------------------------------------------------------------------
# S-expressions, hex strings, types
# --------------------------------------------------------------------------------------------
_TOK = re.compile(r"[()]|[^\s()]+")


def parse_sexp(s, pos=0):
    """parse ONE S-expression starting at s[pos] (which must be '('); returns (tree, end_pos).
    lists are Python lists, atoms are strings"""
    stack = []
    cur = None
    for m in _TOK.finditer(s, pos):
        t = m.group()
        if t == "(":
            new = []
            if cur is not None:
                cur.append(new)
                stack.append(cur)
            cur = new
        elif t == ")":
            if not stack:
                return cur, m.end()
            cur = stack.pop()
        else:
            if cur is None:
                return t, m.end()
            cur.append(t)
    raise ValueError("unbalanced S-expression")


def unhex(h):
    """`x` + dot separated hex code points -> str"""
    if not h.startswith("x"):
        raise ValueError("not a hex string: %r" % h)
    h = h[1:]
    return "" if h == "" else "".join(chr(int(c, 16)) for c in h.split("."))


def tohex(s):
    return "x" + ".".join("%x" % ord(c) for c in s)


SCALAR_W = ("Int", "UInt", "Float", "Angle", "Complex")
SCALAR_NW = ("Bit", "Bool", "Duration", "Stretch")
TOWER = ("Int", "UInt", "Float", "Complex")
SPECIAL = ("Bit", "BitArray", "Bool", "Duration", "Stretch")
CLASSICAL = SCALAR_W + SCALAR_NW + ("BitArray",)


def tinfo(t):
    """type string -> (kind, width, const): width is int / None ('-' or not applicable) /
    a dims string for arrays with more than one dimension; const is True/False/None"""
    p = t.split("_")
    k = p[0]
    if k in SCALAR_W:
        return k, (None if p[1] == "-" else int(p[1])), p[2] == "c"
    if k in SCALAR_NW:
        return k, None, p[1] == "c"
    if k == "BitArray":
        return k, (int(p[1]) if p[1].isdigit() else p[1]), p[2] == "c"
    if k == "QubitArray":
        return k, (int(p[1]) if p[1].isdigit() else p[1]), None
    return k, None, None


def eq_upto_const(a, b):
    if a == b:
        return True
    ka, wa, _ = tinfo(a)
    kb, wb, _ = tinfo(b)
    return ka == kb and ka in CLASSICAL and wa == wb


def sub_parts(t):
    """`Sub_<n>_<ret...>` -> (n, ret type string)"""
    p = t.split("_", 2)
    return int(p[1]), p[2]


# --------------------------------------------------------------------------------------------
# I6 line
# --------------------------------------------------------------------------------------------
class Sema:
    __slots__ = ("asg", "symbols", "errors", "depth", "gates")


_SYM = re.compile(r"(?:^|,)(\d+):(x[0-9a-f.]*):")


def parse_sema(line):
    if not line.startswith("asg=("):
        return None
    r = Sema()
    r.asg, end = parse_sexp(line, 4)
    rest = line[end:]
    m = re.match(r";symbols=(.*?);errors=(.*?);depth=(\d+);gates=(.*)$", rest)
    if not m:
        raise ValueError("bad I6 line tail: %r" % rest[:80])
    syms, errs, depth, gates = m.groups()
    r.symbols = {}
    ms = list(_SYM.finditer(syms))
    for i, mm in enumerate(ms):
        stop = ms[i + 1].start() if i + 1 < len(ms) else len(syms)
        r.symbols[int(mm.group(1))] = (unhex(mm.group(2)), syms[mm.end():stop])
    r.errors = []
    if errs:
        for e in errs.split(","):
            k, sp = e.split("@")
            s, t = sp.split("-")
            r.errors.append((k, int(s), int(t)))
    r.depth = int(depth)
    r.gates = []
    if gates:
        for g in gates.split(","):
            nm, a, b = g.rsplit(":", 2)
            r.gates.append((nm, int(a), int(b)))
    return r


TYPE_DIAG = ("IncompatibleTypesError", "CastError", "IncompatibleDimensionError")
WIDTH_DIAG = ("InvalidDesignatorError", "ConstIntegerError")


def kv(detail):
    """inverse of `mk`: 'a=1;b=x' -> {'a': '1', 'b': 'x'}"""
    out = {}
    for part in detail.split(";"):
        if "=" in part:
            k, v = part.split("=", 1)
            out[k] = v
    return out


def mk(**kw):
    return ";".join("%s=%s" % (k, v) for k, v in kw.items())


# --------------------------------------------------------------------------------------------
# per-case context
# --------------------------------------------------------------------------------------------
class Unaligned(Exception):
    """the parallel walk met a shape it cannot pair; the subtree is skipped (never a failure)"""


class Ctx:
    def __init__(self, src, ast, sema):
        self.src = src
        self.bsrc = src.encode("utf-8")
        self.ast = ast
        self.sema = sema
        self.fails = []
        self._seen = set()
        self.top_consts = None  # name -> info about single top-level declarations (lazy)

    def text(self, s, e):
        return self.bsrc[s:e].decode("utf-8", errors="replace")

    def fail(self, pid, check, **kw):
        f = (pid, check, mk(**kw))
        if f not in self._seen:
            self._seen.add(f)
            self.fails.append(f)

    def count(self, check):
        COUNTS[check] += 1

    def sym_type(self, sym):
        """'ok:7' -> type string of symbol 7, else None"""
        if sym.startswith("ok:"):
            k = int(sym[3:])
            if k in self.sema.symbols:
                return self.sema.symbols[k][1]
        return None

    def has_err(self, kinds, s, e):
        return any(k in kinds and a == s and b == e for k, a, b in self.sema.errors)

    def has_err_within(self, kinds, s, e):
        return any(k in kinds and s <= a and b <= e for k, a, b in self.sema.errors)


def is_T(t):
    return isinstance(t, list) and len(t) == 3 and t[0] == "T" and isinstance(t[1], str)


def strip_paren(a):
    while isinstance(a, list) and a[0] == "ParenExpr":
        a = a[3]
    return a


# --------------------------------------------------------------------------------------------
# C10: literal values recomputed from the source text
# --------------------------------------------------------------------------------------------
_INT_CANON = re.compile(
    r"^(?:0[bB](?P<b>[01_]*[01][01_]*)|0[oO](?P<o>[0-7_]*[0-7][0-7_]*)"
    r"|0[xX](?P<x>[0-9a-fA-F_]*[0-9a-fA-F][0-9a-fA-F_]*)|(?P<d>[0-9][0-9_]*))$"
)
# underscores anywhere inside the digit runs (the property's "underscores anywhere allowed")
_FLOAT_CANON = re.compile(
    r"^(?:[0-9][0-9_]*(?:\.[0-9_]*)?|\.[0-9][0-9_]*)(?:[eE][+-]?[0-9_]*[0-9][0-9_]*)?$"
)
_BITSTR_CANON = re.compile(r"^(?:\"([01_]*)\"|'([01_]*)')$")

UNITS = {
    "s": "Second",
    "ms": "MilliSecond",
    "us": "MicroSecond",
    "µs": "MicroSecond",
    "ns": "NanoSecond",
    "dt": "Cycle",
    "im": "Imaginary",
}


def int_text_value(text):
    """mathematical value of an integer literal spelling, or None when the text is not one"""
    m = _INT_CANON.match(text)
    if not m:
        return None
    for g, base in (("b", 2), ("o", 8), ("x", 16), ("d", 10)):
        if m.group(g) is not None:
            return int(m.group(g).replace("_", ""), base)
    return None


def float_text_value(text):
    if not _FLOAT_CANON.match(text):
        return None
    try:
        return float(text.replace("_", ""))
    except ValueError:
        return None


def same_float(x, y):
    if math.isnan(x) or math.isnan(y):
        return False
    return x == y and math.copysign(1.0, x) == math.copysign(1.0, y)


def py_float(s):
    try:
        return float(s)
    except ValueError:
        return None


def literal_source_facts(c, lit):
    """`lit` = (Literal s e <kind>) of the I5 dump.  Checks the accessor values carried by the dump
    against the source text.  Returns a dict: cls in int/float/bits/bool/other, value, ok"""
    s, e = int(lit[1]), int(lit[2])
    k = lit[3]
    text = c.text(s, e)
    if k == "!" or not isinstance(k, list):
        return {"cls": "other", "text": text, "ok": False}
    kind = k[0]
    if kind == "IntNumber":
        c.count("accessor_text")
        if unhex(k[1]) != text:
            c.fail("C10", "accessor_text", span="%d-%d" % (s, e), src=tohex(text), got=k[1])
        v = int_text_value(text)
        if v is None:
            c.count("int_suffix_accepted")
            c.fail("C10", "int_suffix_accepted", span="%d-%d" % (s, e), text=tohex(text), accessor=k[2])
            return {"cls": "int", "text": text, "ok": False}
        c.count("int_suffix_accepted")
        c.count("accessor_int")
        if not (k[2].isdigit() and int(k[2]) == v):
            c.fail("C10", "accessor_int", span="%d-%d" % (s, e), text=tohex(text), want=v, got=k[2])
        return {"cls": "int", "text": text, "value": v, "ok": True}
    if kind == "FloatNumber":
        c.count("accessor_text")
        if unhex(k[1]) != text:
            c.fail("C10", "accessor_text", span="%d-%d" % (s, e), src=tohex(text), got=k[1])
        v = float_text_value(text)
        if v is None:
            c.count("float_suffix_accepted")
            c.fail("C10", "float_suffix_accepted", span="%d-%d" % (s, e), text=tohex(text), accessor=k[2])
            return {"cls": "float", "text": text, "ok": False}
        c.count("float_suffix_accepted")
        c.count("accessor_float")
        got = None if k[2] == "_" else py_float(unhex(k[2]))
        if got is None or not same_float(got, v):
            c.fail("C10", "accessor_float", span="%d-%d" % (s, e), text=tohex(text), want=repr(v), got=k[2])
        return {"cls": "float", "text": text, "value": v, "ok": True}
    if kind == "BitString":
        c.count("accessor_text")
        if unhex(k[1]) != text:
            c.fail("C10", "accessor_text", span="%d-%d" % (s, e), src=tohex(text), got=k[1])
        m = _BITSTR_CANON.match(text)
        if not m:
            c.count("bitstring_suffix_accepted")
            c.fail("C10", "bitstring_suffix_accepted", span="%d-%d" % (s, e), text=tohex(text), accessor=k[2])
            return {"cls": "bits", "text": text, "ok": False, "dropped": k[2] == "_"}
        c.count("bitstring_suffix_accepted")
        body = m.group(1) if m.group(1) is not None else m.group(2)
        c.count("accessor_bits")
        if k[2] == "_" or unhex(k[2]) != body:
            c.fail("C10", "accessor_bits", span="%d-%d" % (s, e), want=tohex(body), got=k[2])
        return {"cls": "bits", "text": text, "value": body, "ok": True, "dropped": k[2] == "_"}
    if kind == "Bool":
        want = {"true": "1", "false": "0"}.get(text)
        c.count("accessor_bool")
        if want is None or k[1] != want:
            c.fail("C10", "accessor_bool", span="%d-%d" % (s, e), text=tohex(text), got=k[1])
        return {"cls": "bool", "text": text, "value": want, "ok": want is not None}
    return {"cls": "other", "text": text, "ok": False}


def all_ast_literals(n, out):
    if isinstance(n, list):
        if n and n[0] == "Literal" and len(n) == 4:
            out.append(n)
            return
        for x in n:
            all_ast_literals(x, out)


def check_lit(c, lit, t, neg):
    """AST (Literal ..) against ASG (T ty (Lit (..)))"""
    f = lit_facts(c, lit)
    e = t[2]
    if not (isinstance(e, list) and e[0] == "Lit"):
        raise Unaligned("literal vs %r" % (e[0] if isinstance(e, list) else e))
    L = e[1]
    sp = "%s-%s" % (lit[1], lit[2])
    if not f["ok"]:
        return
    if f["cls"] == "int":
        c.count("int_value_neg" if neg else "int_value")
        want = ["Int", str(f["value"]), "-" if neg else "+"]
        if L != want:
            c.fail("C10", "int_value_neg" if neg else "int_value", span=sp, text=tohex(f["text"]),
                   want=" ".join(want), got=" ".join(map(str, L)))
    elif f["cls"] == "float":
        c.count("float_value_neg" if neg else "float_value")
        want = -f["value"] if neg else f["value"]
        got = py_float(L[1][2:]) if (L[0] == "Float" and len(L) == 2 and L[1].startswith("f:")) else None
        if got is None or not same_float(got, want):
            c.fail("C10", "float_value_neg" if neg else "float_value", span=sp, text=tohex(f["text"]),
                   want=repr(want), got=" ".join(map(str, L)))
    elif f["cls"] == "bits":
        c.count("bitstring_value")
        k = sum(1 for ch in f["value"] if ch in "01")
        if L != ["BitString", "b:" + f["value"]]:
            c.fail("C10", "bitstring_value", span=sp, want=f["value"], got=" ".join(map(str, L)))
        c.count("bitstring_width")
        if t[1] != "BitArray_%d_c" % k:
            c.fail("C10", "bitstring_width", span=sp, want="BitArray_%d_c" % k, got=t[1])
    elif f["cls"] == "bool":
        c.count("bool_value")
        if L != ["Bool", f["value"]]:
            c.fail("C10", "bool_value", span=sp, want=f["value"], got=" ".join(map(str, L)))


_LIT_CACHE_KEY = "_lit_cache"


def lit_facts(c, lit):
    cache = c.__dict__.setdefault(_LIT_CACHE_KEY, {})
    key = (lit[1], lit[2])
    if key not in cache:
        cache[key] = literal_source_facts(c, lit)
    return cache[key]


def check_timing(c, tl, t, neg):
    """AST (TimingLiteral s e unit identtext (Literal..)) against ASG (T ty (Lit (..)))"""
    s, e = int(tl[1]), int(tl[2])
    lit = tl[5]
    sp = "%d-%d" % (s, e)
    if not (isinstance(lit, list) and lit[0] == "Literal"):
        raise Unaligned("timing literal without literal")
    f = lit_facts(c, lit)
    unit_text = c.text(int(lit[2]), e).strip()
    want_unit = UNITS.get(unit_text)
    c.count("accessor_unit")
    if want_unit is None or tl[3] != want_unit or tl[4] == "_" or tl[4] == "!" or unhex(tl[4]) != unit_text:
        c.fail("C10", "accessor_unit", span=sp, unit=tohex(unit_text), got=tl[3])
        return
    ex = t[2]
    if not (isinstance(ex, list) and ex[0] == "Lit"):
        raise Unaligned("timing literal vs non literal")
    L = ex[1]
    if not f["ok"] or f["cls"] not in ("int", "float"):
        return
    sign = "-" if neg else "+"
    if want_unit == "Imaginary":
        if f["cls"] == "int":
            c.count("imag_int_value")
            want = ["ImInt", str(f["value"]), sign]
            if L != want:
                c.fail("C10", "imag_int_value", span=sp, want=" ".join(want), got=" ".join(map(str, L)))
        else:
            c.count("imag_float_value")
            want = -f["value"] if neg else f["value"]
            got = py_float(L[1][2:]) if (L[0] == "ImFloat" and len(L) == 2 and L[1].startswith("f:")) else None
            if got is None or not same_float(got, want):
                c.fail("C10", "imag_float_value", span=sp, want=repr(want), got=" ".join(map(str, L)))
        return
    if f["cls"] == "int":
        c.count("timing_int_value")
        want = ["TimingInt", str(f["value"]), sign, want_unit]
        if L != want:
            c.fail("C10", "timing_int_value", span=sp, want=" ".join(want), got=" ".join(map(str, L)))
    else:
        c.count("timing_float_value")
        ok = (L[0] == "TimingFloat" and len(L) == 4 and L[1].startswith("f:") and L[2] == sign
              and L[3] == want_unit)
        got = py_float(L[1][2:]) if ok else None
        if got is None or not same_float(got, f["value"]):
            c.fail("C10", "timing_float_value", span=sp, want="%r %s %s" % (f["value"], sign, want_unit),
                   got=" ".join(map(str, L)))


# --------------------------------------------------------------------------------------------
# C08 (a): well_typed, over every (T type expr) of the graph (needs no pairing with the AST)
# --------------------------------------------------------------------------------------------
RANK = {"Int": 0, "UInt": 0, "Float": 1, "Complex": 2}


def lit_class_type(c, t):
    """expected type of a literal node; None = no opinion"""
    L = t[2][1]
    if not isinstance(L, list):
        return None
    k = L[0]
    if k == "Int":
        return "Int_128_c"
    if k == "Float":
        return "Float_64_c"
    if k == "Bool":
        return "Bool_c"
    if k == "BitString":
        body = L[1][2:] if len(L) > 1 else ""
        return "BitArray_%d_c" % sum(1 for ch in body if ch in "01")
    if k in ("TimingInt", "TimingFloat"):
        return "Duration_c"
    return None


def le_tower(a, b):
    """a <= b in the numeric tower (kind and width); a, b type strings of tower kinds"""
    ka, wa, _ = tinfo(a)
    kb, wb, _ = tinfo(b)
    if ka == kb:
        if wb is None:
            return True
        if wa is None:
            return False
        return wa <= wb
    if ka in ("Int", "UInt") and kb in ("Int", "UInt"):
        return False  # signed / unsigned are incomparable
    return RANK[ka] < RANK[kb]


def operand_original(t, tau):
    """operand of an arithmetic node of type tau: the candidate 'original' types.  A user-written
    cast cannot be told from an inserted one here, so both readings are returned."""
    out = [t[1]]
    e = t[2]
    if isinstance(e, list) and e[0] == "Cast" and e[1] == tau and is_T(e[2]) and e[2][1] != tau:
        out.append(e[2][1])
    return out


def well_typed(c, n):
    """recursive over the whole asg S-expression"""
    if not isinstance(n, list):
        return
    if is_T(n):
        ty, e = n[1], n[2]
        head = e[0] if isinstance(e, list) else e
        if head == "Lit":
            L = e[1]
            lk = L[0] if isinstance(L, list) else L
            if lk == "ImInt":
                c.count("imaginary_int_literal_type")
                if not (ty.startswith("Complex_") and ty.endswith("_c")):
                    c.fail("C08", "imaginary_int_literal_type", lit=" ".join(map(str, L)), got=ty)
            elif lk == "ImFloat":
                c.count("well_typed.literal")
                if not (ty.startswith("Complex_") and ty.endswith("_c")):
                    c.fail("C08", "well_typed", rule="literal", lit=" ".join(map(str, L)), got=ty)
            else:
                want = lit_class_type(c, n)
                if want is not None:
                    c.count("well_typed.literal")
                    if ty != want:
                        c.fail("C08", "well_typed", rule="literal", lit=" ".join(map(str, L)), want=want, got=ty)
        elif head == "Cast":
            c.count("well_typed.cast")
            if ty != e[1]:
                c.fail("C08", "well_typed", rule="cast", want=e[1], got=ty)
        elif head == "Measure":
            ot = e[1][1] if is_T(e[1]) else None
            if ot in ("Qubit", "HardwareQubit"):
                c.count("well_typed.measure")
                if ty != "Bit_n":
                    c.fail("C08", "well_typed", rule="measure", operand=ot, want="Bit_n", got=ty)
            elif ot is not None and ot.startswith("QubitArray_"):
                c.count("well_typed.measure")
                want = "BitArray_%s_n" % ot.split("_", 1)[1]
                if ty != want:
                    c.fail("C08", "well_typed", rule="measure", operand=ot, want=want, got=ty)
            else:
                c.count("measure_nonquantum_operand(not checked)")
        elif head == "Un":
            if e[1] in ("Minus", "BitNot") and is_T(e[2]):
                c.count("well_typed.unary")
                if ty != e[2][1]:
                    c.fail("C08", "well_typed", rule="unary", want=e[2][1], got=ty)
        elif head == "Bin":
            op = e[1]
            if op.startswith("Arith.") and is_T(e[2]) and is_T(e[3]):
                for side, o in (("l", e[2]), ("r", e[3])):
                    c.count("well_typed.arith_operand")
                    oe = o[2]
                    if not (o[1] == ty and (True if not (isinstance(oe, list) and oe[0] == "Cast") else oe[1] == ty)):
                        c.fail("C08", "well_typed", rule="arith_operand", side=side, node=ty, operand=o[1])
                if ty != "Void":
                    arith_common_type(c, op, ty, e[2], e[3])
            else:
                c.count("todo_typed_binary(not checked)")
        elif head in ("Ident",):
            st = c.sym_type(e[1])
            c.count("well_typed.ident")
            want = st if e[1].startswith("ok:") else "Undefined"
            if want is None or ty != want:
                c.fail("C08", "well_typed", rule="ident", sym=e[1], want=want, got=ty)
        elif head == "GateOperand":
            g = e[1]
            if isinstance(g, list) and g[0] == "GoIdent":
                c.count("well_typed.ident")
                want = c.sym_type(g[1]) if g[1].startswith("ok:") else "Undefined"
                if want is None or ty != want:
                    c.fail("C08", "well_typed", rule="gate_operand_ident", sym=g[1], want=want, got=ty)
            elif isinstance(g, list) and g[0] == "GoHw":
                c.count("well_typed.ident")
                if ty != "HardwareQubit":
                    c.fail("C08", "well_typed", rule="gate_operand_hw", got=ty)
        elif head == "HwQubit":
            c.count("well_typed.ident")
            if ty != "HardwareQubit":
                c.fail("C08", "well_typed", rule="hwqubit", got=ty)
        elif head == "Call":
            st = c.sym_type(e[1])
            if st is not None and st.startswith("Sub_"):
                c.count("well_typed.call")
                if ty != sub_parts(st)[1]:
                    c.fail("C08", "well_typed", rule="call", want=sub_parts(st)[1], got=ty)
        elif head == "Return":
            c.count("well_typed.return")
            want = e[1][1] if is_T(e[1]) else "Void"
            if ty != want:
                c.fail("C08", "well_typed", rule="return", want=want, got=ty)
    for x in n:
        well_typed(c, x)


def arith_common_type(c, op, tau, l, r):
    """tau must be an upper bound of the (original) operand types when both are tower types"""
    cands = [(a, b) for a in operand_original(l, tau) for b in operand_original(r, tau)]
    cands = [(a, b) for a, b in cands if tinfo(a)[0] in TOWER and tinfo(b)[0] in TOWER]
    if not cands:
        c.count("arith_nontower(not checked)")
        return
    c.count("arith_common_type")
    if tinfo(tau)[0] not in TOWER:
        c.fail("C08", "arith_common_type", op=op, node=tau, l=cands[0][0], r=cands[0][1])
        return
    for a, b in cands:
        if le_tower(a, tau) and le_tower(b, tau):
            return
        # division of integers yields a float of unspecified width
        if op == "Arith.Div" and tinfo(a)[0] in ("Int", "UInt") and tinfo(b)[0] in ("Int", "UInt") \
                and tau == "Float_-_n":
            return
    a, b = cands[-1]
    c.fail("C08", "arith_common_type", op=op, node=tau, l=a, r=b)


# --------------------------------------------------------------------------------------------
# C09: the written type of a declaration
# --------------------------------------------------------------------------------------------
BUILTIN_NAMES = ("pi", "π", "euler", "ℇ", "tau", "τ", "U")
STD_GATES = (
    [(n, 0, 1) for n in ("x", "y", "z", "h", "s", "sdg", "t", "tdg", "sx", "id")]
    + [(n, 1, 1) for n in ("p", "rx", "ry", "rz", "phase", "u1")]
    + [("u2", 2, 1), ("u3", 3, 1)]
    + [(n, 0, 2) for n in ("cx", "cy", "cz", "ch", "swap", "CX")]
    + [(n, 1, 2) for n in ("cp", "crx", "cry", "crz", "cphase")]
    + [("cu", 4, 2)]
    + [(n, 0, 3) for n in ("ccx", "cswap")]
)
KIND_OF_WRITTEN = {
    "Int": ("Int",), "UInt": ("UInt",), "Float": ("Float",), "Angle": ("Angle",), "Complex": ("Complex",),
    "Bool": ("Bool",), "Duration": ("Duration",), "Stretch": ("Stretch",),
    "Bit": ("Bit", "BitArray"), "Qubit": ("Qubit", "QubitArray"),
}


def wspec_of(c, desg):
    """designator node -> ('none',) | ('lit', w, s, e) | ('nonint', s, e) | ('ident', name, s, e) | ('other',)"""
    if desg == "_" or not isinstance(desg, list):
        return ("none",)
    ex = desg[3]
    if ex == "_":
        return ("none",)
    if not isinstance(ex, list):
        return ("other",)
    if ex[0] == "Literal":
        k = ex[3]
        if isinstance(k, list) and k[0] == "IntNumber":
            f = lit_facts(c, ex)
            if f["ok"]:
                return ("lit", f["value"], int(ex[1]), int(ex[2]))
            return ("other",)
        lit_facts(c, ex)
        return ("nonint", int(ex[1]), int(ex[2]))
    if ex[0] == "Identifier" and ex[3] not in ("!", "_"):
        return ("ident", unhex(ex[3]), int(ex[1]), int(ex[2]))
    return ("other",)


def scalar_designator(st):
    """(ScalarType s e Kind desg inner): the designator that carries the width"""
    if st[5] != "_" and isinstance(st[5], list):
        return st[5][4]
    return st[4]


def name_bindings(n, out):
    """all binding occurrences (Name / Param nodes) of the AST: name -> count"""
    if isinstance(n, list) and n:
        if n[0] == "Name" and len(n) == 4 and isinstance(n[3], str) and n[3].startswith("x"):
            out[unhex(n[3])] += 1
        elif n[0] == "Param" and len(n) == 4 and isinstance(n[3], str) and n[3].startswith("x"):
            out[unhex(n[3])] += 1
        for x in n:
            name_bindings(x, out)


def top_consts(c):
    """name -> facts, for names bound exactly once in the whole program, by a top-level classical or
    IO declaration (anything else is out of reach of this oracle's name resolution)"""
    if c.top_consts is not None:
        return c.top_consts
    counts = collections.Counter()
    name_bindings(c.ast, counts)
    has_std = any(is_std_include(s) for s in c.ast[3])
    out = {}
    for s in c.ast[3]:
        if not isinstance(s, list):
            continue
        nm = None
        if s[0] == "ClassicalDeclarationStatement" and s[3] == "0" and isinstance(s[6], list) \
                and isinstance(s[4], list) and s[6][3].startswith("x"):
            nm = unhex(s[6][3])
            info = {"form": "classical", "const": s[5] == "1", "kind": s[4][3], "end": int(s[2]), "init": None}
            ex = s[7]
            if isinstance(ex, list) and ex[0] == "Literal" and isinstance(ex[3], list) and ex[3][0] == "IntNumber":
                f = lit_facts(c, ex)
                if f["ok"]:
                    info["init"] = ("int", f["value"], False)
            elif isinstance(ex, list) and ex[0] == "PrefixExpr" and ex[3] == "Neg" and isinstance(ex[4], list) \
                    and ex[4][0] == "Literal" and isinstance(ex[4][3], list) and ex[4][3][0] == "IntNumber":
                f = lit_facts(c, ex[4])
                if f["ok"]:
                    info["init"] = ("int", f["value"], True)
            elif ex != "_":
                info["init"] = ("other",)
        elif s[0] == "IODeclarationStatement" and s[3] == "0" and isinstance(s[5], list) and isinstance(s[4], list) \
                and s[5][3].startswith("x"):
            nm = unhex(s[5][3])
            info = {"form": "io", "const": False, "kind": s[4][3], "end": int(s[2]), "init": None}
        if nm is None or counts[nm] != 1 or nm in BUILTIN_NAMES:
            continue
        if has_std and any(nm == g[0] for g in STD_GATES):
            continue
        out[nm] = info
    c.top_consts = out
    return out


def is_std_include(s):
    return (isinstance(s, list) and s[0] == "Include" and isinstance(s[3], list)
            and s[3][3] == tohex("stdgates.inc"))


def check_width(c, ws, recorded, where, actual):
    """ws = width spec written; recorded = the number in the recorded type (None when absent)"""
    tag = ws[0]
    if tag == "none":
        c.count("declared_type.width_absent")
        if recorded is not None:
            c.fail("C09", "declared_type", where=where, part="width", want="-", got=actual)
    elif tag == "lit":
        w, s, e = ws[1], ws[2], ws[3]
        if w < TWO32:
            c.count("declared_type.width_literal")
            if recorded != w:
                c.fail("C09", "declared_type", where=where, part="width", want=w, got=actual)
        else:
            c.count("width_truncated")
            if not c.has_err_within(WIDTH_DIAG, s - 1, e + 1):
                c.fail("C09", "width_truncated", where=where, span="%d-%d" % (s, e), written=w,
                       recorded="-" if recorded is None else recorded, got=actual)
            elif recorded is not None and recorded != w:
                c.fail("C09", "width_replaced", where=where, span="%d-%d" % (s, e), written=w, recorded=recorded)
    elif tag == "nonint":
        c.count("nonint_designator_diagnosed")
        if not c.has_err(("ConstIntegerError", "InvalidDesignatorError"), ws[1], ws[2]):
            c.fail("C09", "nonint_designator_diagnosed", where=where, span="%d-%d" % (ws[1], ws[2]), got=actual)
    elif tag == "ident":
        name, s, e = ws[1], ws[2], ws[3]
        info = top_consts(c).get(name)
        if info is None or s < info["end"]:
            c.count("designator_ident(unresolved, not checked)")
            return
        sp = "%d-%d" % (s, e)
        diag = c.has_err(WIDTH_DIAG, s, e)
        rec = "-" if recorded is None else recorded
        if info["form"] == "classical" and info["const"] and info["kind"] in ("Int", "UInt"):
            if info["init"] is None or info["init"][0] != "int":
                c.count("designator_ident(unresolved, not checked)")
                return
            _, v, neg = info["init"]
            if not neg and v < TWO32:
                c.count("const_designator")
                if recorded != v:
                    c.fail("C09", "const_designator", where=where, span=sp, name=tohex(name), value=v, recorded=rec)
            else:
                c.count("const_designator_diag")
                if not diag:
                    c.fail("C09", "const_designator_diag", where=where, span=sp, name=tohex(name),
                           value=("-%d" % v) if neg else v, recorded=rec)
                c.count("designator_substituted_zero")
                if recorded is not None:
                    c.fail("C09", "designator_substituted_zero", where=where, span=sp, name=tohex(name),
                           value=("-%d" % v) if neg else v, recorded=rec)
        elif info["form"] == "classical" and info["const"]:
            c.count("nonint_const_designator")
            if not diag:
                c.fail("C09", "nonint_const_designator", where=where, span=sp, name=tohex(name),
                       kind=info["kind"], recorded=rec)
        else:
            c.count("nonconst_designator_silent")
            if not diag:
                c.fail("C09", "nonconst_designator_silent", where=where, span=sp, name=tohex(name),
                       kind=info["kind"], recorded=rec)


def check_declared(c, where, sym, st, const):
    """the symbol bound for a declaration with written scalar type `st` carries exactly that type"""
    actual = c.sym_type(sym)
    if actual is None or not isinstance(st, list) or st[0] != "ScalarType":
        return
    wk = st[3]
    if wk not in KIND_OF_WRITTEN:
        return
    ak, aw, ac = tinfo(actual)
    c.count("declared_type.kind")
    if ak not in KIND_OF_WRITTEN[wk]:
        c.fail("C09", "declared_type", where=where, part="kind", written=wk, got=actual)
        return
    if wk != "Qubit":
        c.count("declared_type.const")
        if ac != const:
            c.fail("C09", "declared_type", where=where, part="const", want="c" if const else "n", got=actual)
    if wk in ("Bool", "Duration", "Stretch"):
        return
    ws = wspec_of(c, scalar_designator(st))
    recorded = aw if ak not in ("Bit", "Qubit") else None
    if wk in ("Bit", "Qubit") and ws[0] == "lit" and ws[1] < TWO32 and ak in ("Bit", "Qubit"):
        c.count("declared_type.width_literal")
        c.fail("C09", "declared_type", where=where, part="register", want=ws[1], got=actual)
        return
    check_width(c, ws, recorded, where, actual)


def written_type_string(c, st, const):
    """type string of a written scalar type when it can be computed without name resolution, else None"""
    if not isinstance(st, list) or st[0] != "ScalarType" or st[3] not in KIND_OF_WRITTEN:
        return None
    wk = st[3]
    cc = "c" if const else "n"
    if wk in ("Bool", "Duration", "Stretch"):
        return "%s_%s" % (wk, cc)
    ws = wspec_of(c, scalar_designator(st))
    if ws[0] == "none":
        w = None
    elif ws[0] == "lit" and ws[1] < TWO32:
        w = ws[1]
    else:
        return None
    if wk == "Bit":
        return "Bit_%s" % cc if w is None else "BitArray_%d_%s" % (w, cc)
    if wk == "Qubit":
        return "Qubit" if w is None else "QubitArray_%d" % w
    return "%s_%s_%s" % (wk, "-" if w is None else w, cc)


# --------------------------------------------------------------------------------------------
# parallel walk: expressions
# --------------------------------------------------------------------------------------------
def ast_cast_depth(a):
    d = 0
    a = strip_paren(a)
    while isinstance(a, list) and a[0] == "CastExpression":
        d += 1
        a = strip_paren(a[4])
    return d


def asg_cast_depth(t):
    d = 0
    while is_T(t) and isinstance(t[2], list) and t[2][0] == "Cast":
        d += 1
        t = t[2][2]
    return d


def dropped_literal(c, a):
    """a bit-string literal whose accessor returned None: the pass produces NO expression for it"""
    a0 = a
    if isinstance(a0, list) and a0[0] == "Literal" and isinstance(a0[3], list) and a0[3][0] == "BitString" \
            and a0[3][2] == "_":
        lit_facts(c, a0)
        return True
    return False


def align(c, a, t, inserted_ok=False):
    """pair AST expression `a` with ASG texpr `t`.  Returns the texpr that corresponds to `a` itself
    (i.e. below a cast inserted by the pass, if `inserted_ok`)."""
    if not is_T(t):
        raise Unaligned("not a texpr")
    if inserted_ok:
        da, dt = ast_cast_depth(a), asg_cast_depth(t)
        if dt == da + 1:
            inner = t[2][2]
            walk_expr(c, a, inner)
            return inner
        if dt != da:
            raise Unaligned("cast depth")
    walk_expr(c, a, t)
    return t


def expect(e, head, n=None):
    if not (isinstance(e, list) and e and e[0] == head and (n is None or len(e) == n)):
        raise Unaligned("expected %s got %r" % (head, e[0] if isinstance(e, list) and e else e))


def align_list(c, exprs, ts):
    exprs = [x for x in exprs if not dropped_literal(c, x)]
    if not isinstance(ts, list) or len(exprs) != len(ts):
        raise Unaligned("list length")
    for x, t in zip(exprs, ts):
        try:
            align(c, x, t)
        except Unaligned:
            COUNTS["(unaligned expression)"] += 1


def align_index_op(c, io, ix):
    # (IndexOperator s e (SetExpression s e (ExpressionList s e (..))) | (ExpressionList s e (..)))
    expect(io, "IndexOperator", 4)
    k = io[3]
    if not isinstance(k, list):
        raise Unaligned("index kind")
    if k[0] == "SetExpression":
        expect(ix, "IxSet", 2)
        align_list(c, k[3][3] if isinstance(k[3], list) else [], ix[1])
    elif k[0] == "ExpressionList":
        expect(ix, "IxList", 2)
        align_list(c, k[3], ix[1])
    else:
        raise Unaligned("index kind")


def align_indexed_ident(c, a, e):
    # (IndexedIdentifier s e ident (ops)) vs (IndexedIdent sym (ix..))
    expect(a, "IndexedIdentifier", 5)
    expect(e, "IndexedIdent", 3)
    if len(a[4]) != len(e[2]):
        raise Unaligned("index operators")
    for io, ix in zip(a[4], e[2]):
        align_index_op(c, io, ix)


def align_gate_operand(c, a, t):
    if not is_T(t):
        raise Unaligned("gate operand")
    expect(t[2], "GateOperand", 2)
    g = t[2][1]
    if a[0] == "HardwareQubit":
        expect(g, "GoHw", 2)
    elif a[0] == "Identifier":
        expect(g, "GoIdent", 2)
    elif a[0] == "IndexedIdentifier":
        expect(g, "GoIndexed", 2)
        align_indexed_ident(c, a, g[1])
    else:
        raise Unaligned("gate operand kind")


def align_range(c, a, e):
    expect(a, "RangeExpr", 6)
    expect(e, "Range", 4)
    align(c, a[3], e[1])
    if a[4] != "_":
        align(c, a[4], e[2])
    elif e[2] != "_":
        raise Unaligned("range step")
    align(c, a[5], e[3])


def walk_expr(c, a, t):
    a = strip_paren(a)
    if not isinstance(a, list):
        raise Unaligned("missing expression")
    e = t[2]
    k = a[0]
    if k == "Literal":
        check_lit(c, a, t, False)
    elif k == "TimingLiteral":
        check_timing(c, a, t, False)
    elif k == "PrefixExpr":
        if a[3] != "Neg":
            raise Unaligned("prefix op")
        inner = a[4]
        if isinstance(inner, list) and inner[0] == "Literal" and isinstance(inner[3], list) \
                and inner[3][0] in ("IntNumber", "FloatNumber"):
            check_lit(c, inner, t, True)
        elif isinstance(inner, list) and inner[0] == "TimingLiteral":
            check_timing(c, inner, t, True)
        else:
            expect(e, "Un", 3)
            align(c, inner, e[2])
    elif k == "BinExpr":
        expect(e, "Bin", 4)
        op = e[1]
        arith = op.startswith("Arith.")
        lo = align(c, a[4], e[2], inserted_ok=arith)
        ro = align(c, a[5], e[3], inserted_ok=arith)
        if arith:
            arith_void(c, a, t, lo, ro)
    elif k == "Identifier":
        expect(e, "Ident", 2)
    elif k == "HardwareQubit":
        expect(e, "HwQubit", 2)
    elif k == "RangeExpr":
        align_range(c, a, e)
    elif k == "IndexExpr":
        expect(e, "IndexExpr", 3)
        align(c, a[3], e[1])
        align_index_op(c, a[4], e[2])
    elif k == "IndexedIdentifier":
        align_indexed_ident(c, a, e)
    elif k == "MeasureExpression":
        expect(e, "Measure", 2)
        align_gate_operand(c, a[3], e[1])
    elif k == "ReturnExpr":
        expect(e, "Return", 2)
        if a[3] != "_":
            align(c, a[3], e[1])
        elif e[1] != "_":
            raise Unaligned("return value")
    elif k == "CastExpression":
        expect(e, "Cast", 3)
        want = written_type_string(c, a[3], True)
        if want is not None:
            c.count("cast_written_type")
            if not eq_upto_const(want, e[1]):
                c.fail("C08", "cast_written_type", span="%s-%s" % (a[1], a[2]), want=want, got=e[1])
        align(c, a[4], e[2])
    elif k == "CallExpr":
        expect(e, "Call", 3)
        if a[3] != "_" and isinstance(a[3], list):
            el = a[3][3]
            align_list(c, el[3] if isinstance(el, list) else [], e[2])
    else:
        raise Unaligned("expression kind %s" % k)


UNDEFINITE = ("Void", "ToDo", "Undefined")


def arith_void(c, a, t, lo, ro):
    """an arithmetic node typed Void: both operand types definite => a diagnostic must exist"""
    if t[1] != "Void":
        return
    lt, rt = lo[1], ro[1]
    if lt in UNDEFINITE or rt in UNDEFINITE:
        c.count("arith_void(operand undefined, not checked)")
        return
    c.count("arith_void_undiagnosed")
    s, e = int(a[1]), int(a[2])
    if c.has_err_within(TYPE_DIAG + ("UndefVarError",), s, e):
        return
    c.fail("C08", "arith_void_undiagnosed", span="%d-%d" % (s, e), op=t[2][1], l=lt, r=rt)


# ==CONTINUE==
