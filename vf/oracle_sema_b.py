"""Independent oracle for properties C08, C09, C10 (semantic pass of oq3_semantics).

Inputs per case: the source text, the I5 line (`oq3-run ast`) and the I6 line (`oq3-run sema`).
The expected behaviour is re-derived from the property statements in /verif/properties.jsonl
(ids C08, C09, C10); the Lean model is never consulted.  Pure standard library.

    check(src, ast_line, sema_line) -> [(property_id, check_name, detail), ...]
    GUARDS[finding_id](src, ast_line, sema_line, failure) -> bool
    FINDINGS[finding_id] = {"what": ..., "witness": ...}
    gen_literal_programs(seed, n), gen_decl_programs(seed, n)

`detail` is a `k=v;k=v` string (see `kv`), so that guards can read the facts a failure is about and
re-verify them against the source and the I6 line.

COUNTS (a module level Counter) is incremented once per *evaluated* clause, keyed by check name,
so that a runner can see which checks are vacuous.

Check names
  C08  well_typed (rules literal, cast, measure, unary, arith_operand, ident, gate_operand_*, hwqubit,
       call, return), imaginary_int_literal_type, arith_common_type, arith_void_undiagnosed,
       measure_nonquantum_diagnosed, cast_written_type, decl_decision, assign_decision,
       no_silent_downward
  C09  declared_type (parts kind, const, width), width_truncated, width_replaced,
       nonint_designator_diagnosed, const_designator, const_designator_diag,
       designator_substituted_zero, nonconst_designator_silent, nonint_const_designator,
       gate_signature, gate_params, def_signature, def_params, def_return_printed, alias_type,
       gates_listing, stdgates_listing
  C10  accessor_text, accessor_int, accessor_float, accessor_bits, accessor_bool, accessor_unit,
       int_suffix_accepted, float_suffix_accepted, bitstring_suffix_accepted, int_value,
       int_value_neg, float_value, float_value_neg, bitstring_value, bitstring_width, bool_value,
       timing_int_value, timing_float_value, imag_int_value, imag_float_value,
       bitstring_initializer_dropped, literal_reaches_graph

Method: the I5 tree and the I6 graph are walked in parallel (every statement and expression arm of
`syntax_to_semantics.rs` has a pairing rule; a shape that cannot be paired is counted under
"(unaligned ...)" and skipped, never reported), which gives every graph node its source span;
`well_typed` additionally visits every `(T type expr)` of the graph without needing the pairing.

Reading of the property text where it leaves room: an upper-case radix prefix (`0B101`) is a legal
spelling ("either prefix case") and is only required to have the right value; integer literals
>= 2^128 are out of C10's range; const-ness of the common arithmetic type is C20's business and not
checked here; the const flag of a def's return type is taken as the code sets it (const).
"""
import collections
import math
import re
import sys

COUNTS = collections.Counter()

TWO32 = 1 << 32
TWO128 = 1 << 128

# --------------------------------------------------------------------------------------------
# S-expressions, hex strings, types
# --------------------------------------------------------------------------------------------
_TOK = re.compile(r"[()]|[^\s()]+")


def parse_sexp(s, pos=0):
    """parse ONE S-expression starting at s[pos] (which must be '('); returns (tree, end_pos).
    lists are Python lists, atoms are strings"""
    stack = []
    cur = None
    for m in _TOK.finditer(s, pos):
        t = m.group()
        if t == "(":
            new = []
            if cur is not None:
                cur.append(new)
                stack.append(cur)
            cur = new
        elif t == ")":
            if not stack:
                return cur, m.end()
            cur = stack.pop()
        else:
            if cur is None:
                return t, m.end()
            cur.append(t)
    raise ValueError("unbalanced S-expression")


def unhex(h):
    """`x` + dot separated hex code points -> str"""
    if not h.startswith("x"):
        raise ValueError("not a hex string: %r" % h)
    h = h[1:]
    return "" if h == "" else "".join(chr(int(c, 16)) for c in h.split("."))


def tohex(s):
    return "x" + ".".join("%x" % ord(c) for c in s)


SCALAR_W = ("Int", "UInt", "Float", "Angle", "Complex")
SCALAR_NW = ("Bit", "Bool", "Duration", "Stretch")
TOWER = ("Int", "UInt", "Float", "Complex")
SPECIAL = ("Bit", "BitArray", "Bool", "Duration", "Stretch")
CLASSICAL = SCALAR_W + SCALAR_NW + ("BitArray",)


def tinfo(t):
    """type string -> (kind, width, const): width is int / None ('-' or not applicable) /
    a dims string for arrays with more than one dimension; const is True/False/None"""
    p = t.split("_")
    k = p[0]
    if k in SCALAR_W:
        return k, (None if p[1] == "-" else int(p[1])), p[2] == "c"
    if k in SCALAR_NW:
        return k, None, p[1] == "c"
    if k == "BitArray":
        return k, (int(p[1]) if p[1].isdigit() else p[1]), p[2] == "c"
    if k == "QubitArray":
        return k, (int(p[1]) if p[1].isdigit() else p[1]), None
    return k, None, None


def eq_upto_const(a, b):
    if a == b:
        return True
    ka, wa, _ = tinfo(a)
    kb, wb, _ = tinfo(b)
    return ka == kb and ka in CLASSICAL and wa == wb


def sub_parts(t):
    """`Sub_<n>_<ret...>` -> (n, ret type string)"""
    p = t.split("_", 2)
    return int(p[1]), p[2]


# --------------------------------------------------------------------------------------------
# I6 line
# --------------------------------------------------------------------------------------------
class Sema:
    __slots__ = ("asg", "symbols", "errors", "depth", "gates")


_SYM = re.compile(r"(?:^|,)(\d+):(x[0-9a-f.]*):")


def parse_sema(line):
    if not line.startswith("asg=("):
        return None
    r = Sema()
    r.asg, end = parse_sexp(line, 4)
    rest = line[end:]
    m = re.match(r";symbols=(.*?);errors=(.*?);depth=(\d+);gates=(.*)$", rest)
    if not m:
        raise ValueError("bad I6 line tail: %r" % rest[:80])
    syms, errs, depth, gates = m.groups()
    r.symbols = {}
    ms = list(_SYM.finditer(syms))
    for i, mm in enumerate(ms):
        stop = ms[i + 1].start() if i + 1 < len(ms) else len(syms)
        r.symbols[int(mm.group(1))] = (unhex(mm.group(2)), syms[mm.end():stop])
    r.errors = []
    if errs:
        for e in errs.split(","):
            k, sp = e.split("@")
            s, t = sp.split("-")
            r.errors.append((k, int(s), int(t)))
    r.depth = int(depth)
    r.gates = []
    if gates:
        for g in gates.split(","):
            nm, a, b = g.rsplit(":", 2)
            r.gates.append((nm, int(a), int(b)))
    return r


TYPE_DIAG = ("IncompatibleTypesError", "CastError", "IncompatibleDimensionError")
WIDTH_DIAG = ("InvalidDesignatorError", "ConstIntegerError")


def kv(detail):
    """inverse of `mk`: 'a=1;b=x' -> {'a': '1', 'b': 'x'}"""
    out = {}
    for part in detail.split(";"):
        if "=" in part:
            k, v = part.split("=", 1)
            out[k] = v
    return out


def mk(**kw):
    return ";".join("%s=%s" % (k, v) for k, v in kw.items())


# --------------------------------------------------------------------------------------------
# per-case context
# --------------------------------------------------------------------------------------------
class Unaligned(Exception):
    """the parallel walk met a shape it cannot pair; the subtree is skipped (never a failure)"""


class Ctx:
    def __init__(self, src, ast, sema):
        self.src = src
        self.bsrc = src.encode("utf-8")
        self.ast = ast
        self.sema = sema
        self.fails = []
        self._seen = set()
        self.top_consts = None  # name -> info about single top-level declarations (lazy)
        self.visited = set()    # spans of AST literals that were paired with a graph literal
        self.unaligned = False  # some subtree could not be paired

    def text(self, s, e):
        return self.bsrc[s:e].decode("utf-8", errors="replace")

    def fail(self, pid, check, **kw):
        f = (pid, check, mk(**kw))
        if f not in self._seen:
            self._seen.add(f)
            self.fails.append(f)

    def count(self, check):
        COUNTS[check] += 1

    def sym_type(self, sym):
        """'ok:7' -> type string of symbol 7, else None"""
        if sym.startswith("ok:"):
            k = int(sym[3:])
            if k in self.sema.symbols:
                return self.sema.symbols[k][1]
        return None

    def has_err(self, kinds, s, e):
        return any(k in kinds and a == s and b == e for k, a, b in self.sema.errors)

    def has_err_within(self, kinds, s, e):
        return any(k in kinds and s <= a and b <= e for k, a, b in self.sema.errors)


def is_T(t):
    return isinstance(t, list) and len(t) == 3 and t[0] == "T" and isinstance(t[1], str)


def strip_paren(a):
    while isinstance(a, list) and a[0] == "ParenExpr":
        a = a[3]
    return a


# --------------------------------------------------------------------------------------------
# C10: literal values recomputed from the source text
# --------------------------------------------------------------------------------------------
_INT_CANON = re.compile(
    r"^(?:0[bB](?P<b>[01_]*[01][01_]*)|0[oO](?P<o>[0-7_]*[0-7][0-7_]*)"
    r"|0[xX](?P<x>[0-9a-fA-F_]*[0-9a-fA-F][0-9a-fA-F_]*)|(?P<d>[0-9][0-9_]*))$"
)
# underscores anywhere inside the digit runs (the property's "underscores anywhere allowed")
_FLOAT_CANON = re.compile(
    r"^(?:[0-9][0-9_]*(?:\.[0-9_]*)?|\.[0-9][0-9_]*)(?:[eE][+-]?[0-9_]*[0-9][0-9_]*)?$"
)
_BITSTR_CANON = re.compile(r"^(?:\"([01_]*)\"|'([01_]*)')$")

UNITS = {
    "s": "Second",
    "ms": "MilliSecond",
    "us": "MicroSecond",
    "µs": "MicroSecond",
    "ns": "NanoSecond",
    "dt": "Cycle",
    "im": "Imaginary",
}


def int_text_value(text):
    """mathematical value of an integer literal spelling, or None when the text is not one"""
    m = _INT_CANON.match(text)
    if not m:
        return None
    for g, base in (("b", 2), ("o", 8), ("x", 16), ("d", 10)):
        if m.group(g) is not None:
            return int(m.group(g).replace("_", ""), base)
    return None


def float_text_value(text):
    if not _FLOAT_CANON.match(text):
        return None
    try:
        return float(text.replace("_", ""))
    except ValueError:
        return None


def same_float(x, y):
    if math.isnan(x) or math.isnan(y):
        return False
    return x == y and math.copysign(1.0, x) == math.copysign(1.0, y)


def py_float(s):
    try:
        return float(s)
    except ValueError:
        return None


def literal_source_facts(c, lit):
    """`lit` = (Literal s e <kind>) of the I5 dump.  Checks the accessor values carried by the dump
    against the source text.  Returns a dict: cls in int/float/bits/bool/other, value, ok"""
    s, e = int(lit[1]), int(lit[2])
    k = lit[3]
    text = c.text(s, e)
    if k == "!" or not isinstance(k, list):
        return {"cls": "other", "text": text, "ok": False}
    kind = k[0]
    if kind == "IntNumber":
        c.count("accessor_text")
        if unhex(k[1]) != text:
            c.fail("C10", "accessor_text", span="%d-%d" % (s, e), src=tohex(text), got=k[1])
        v = int_text_value(text)
        if v is None:
            c.count("int_suffix_accepted")
            c.fail("C10", "int_suffix_accepted", span="%d-%d" % (s, e), text=tohex(text), accessor=k[2])
            return {"cls": "int", "text": text, "ok": False}
        c.count("int_suffix_accepted")
        if v >= TWO128:
            # outside C10's range [0, 2^128): the accessor returns None and the pass panics on use
            c.count("int_out_of_range(not checked)")
            return {"cls": "int", "text": text, "value": v, "ok": False}
        c.count("accessor_int")
        if not (k[2].isdigit() and int(k[2]) == v):
            c.fail("C10", "accessor_int", span="%d-%d" % (s, e), text=tohex(text), want=v, got=k[2])
        return {"cls": "int", "text": text, "value": v, "ok": True}
    if kind == "FloatNumber":
        c.count("accessor_text")
        if unhex(k[1]) != text:
            c.fail("C10", "accessor_text", span="%d-%d" % (s, e), src=tohex(text), got=k[1])
        v = float_text_value(text)
        if v is None:
            c.count("float_suffix_accepted")
            c.fail("C10", "float_suffix_accepted", span="%d-%d" % (s, e), text=tohex(text), accessor=k[2])
            return {"cls": "float", "text": text, "ok": False}
        c.count("float_suffix_accepted")
        c.count("accessor_float")
        got = None if k[2] == "_" else py_float(unhex(k[2]))
        if got is None or not same_float(got, v):
            c.fail("C10", "accessor_float", span="%d-%d" % (s, e), text=tohex(text), want=repr(v), got=k[2])
        return {"cls": "float", "text": text, "value": v, "ok": True}
    if kind == "BitString":
        c.count("accessor_text")
        if unhex(k[1]) != text:
            c.fail("C10", "accessor_text", span="%d-%d" % (s, e), src=tohex(text), got=k[1])
        m = _BITSTR_CANON.match(text)
        if not m:
            c.count("bitstring_suffix_accepted")
            c.fail("C10", "bitstring_suffix_accepted", span="%d-%d" % (s, e), text=tohex(text), accessor=k[2])
            return {"cls": "bits", "text": text, "ok": False, "dropped": k[2] == "_"}
        c.count("bitstring_suffix_accepted")
        body = m.group(1) if m.group(1) is not None else m.group(2)
        c.count("accessor_bits")
        if k[2] == "_" or unhex(k[2]) != body:
            c.fail("C10", "accessor_bits", span="%d-%d" % (s, e), want=tohex(body), got=k[2])
        return {"cls": "bits", "text": text, "value": body, "ok": True, "dropped": k[2] == "_"}
    if kind == "Bool":
        want = {"true": "1", "false": "0"}.get(text)
        c.count("accessor_bool")
        if want is None or k[1] != want:
            c.fail("C10", "accessor_bool", span="%d-%d" % (s, e), text=tohex(text), got=k[1])
        return {"cls": "bool", "text": text, "value": want, "ok": want is not None}
    return {"cls": "other", "text": text, "ok": False}


def all_ast_literals(n, out):
    if isinstance(n, list):
        if n and n[0] == "Literal" and len(n) == 4:
            out.append(n)
            return
        for x in n:
            all_ast_literals(x, out)


def check_lit(c, lit, t, neg):
    """AST (Literal ..) against ASG (T ty (Lit (..)))"""
    f = lit_facts(c, lit)
    e = t[2]
    if not (isinstance(e, list) and e[0] == "Lit"):
        raise Unaligned("literal vs %r" % (e[0] if isinstance(e, list) else e))
    c.visited.add((lit[1], lit[2]))
    L = e[1]
    sp = "%s-%s" % (lit[1], lit[2])
    if not f["ok"]:
        return
    if f["cls"] == "int":
        c.count("int_value_neg" if neg else "int_value")
        want = ["Int", str(f["value"]), "-" if neg else "+"]
        if L != want:
            c.fail("C10", "int_value_neg" if neg else "int_value", span=sp, text=tohex(f["text"]),
                   want=" ".join(want), got=" ".join(map(str, L)))
    elif f["cls"] == "float":
        c.count("float_value_neg" if neg else "float_value")
        want = -f["value"] if neg else f["value"]
        got = py_float(L[1][2:]) if (L[0] == "Float" and len(L) == 2 and L[1].startswith("f:")) else None
        if got is None or not same_float(got, want):
            c.fail("C10", "float_value_neg" if neg else "float_value", span=sp, text=tohex(f["text"]),
                   want=repr(want), got=" ".join(map(str, L)))
    elif f["cls"] == "bits":
        c.count("bitstring_value")
        k = sum(1 for ch in f["value"] if ch in "01")
        if L != ["BitString", "b:" + f["value"]]:
            c.fail("C10", "bitstring_value", span=sp, want=f["value"], got=" ".join(map(str, L)))
        c.count("bitstring_width")
        if t[1] != "BitArray_%d_c" % k:
            c.fail("C10", "bitstring_width", span=sp, want="BitArray_%d_c" % k, got=t[1])
    elif f["cls"] == "bool":
        c.count("bool_value")
        if L != ["Bool", f["value"]]:
            c.fail("C10", "bool_value", span=sp, want=f["value"], got=" ".join(map(str, L)))


_LIT_CACHE_KEY = "_lit_cache"


def lit_facts(c, lit):
    cache = c.__dict__.setdefault(_LIT_CACHE_KEY, {})
    key = (lit[1], lit[2])
    if key not in cache:
        cache[key] = literal_source_facts(c, lit)
    return cache[key]


def check_timing(c, tl, t, neg):
    """AST (TimingLiteral s e unit identtext (Literal..)) against ASG (T ty (Lit (..)))"""
    s, e = int(tl[1]), int(tl[2])
    lit = tl[5]
    sp = "%d-%d" % (s, e)
    if not (isinstance(lit, list) and lit[0] == "Literal"):
        raise Unaligned("timing literal without literal")
    f = lit_facts(c, lit)
    unit_text = c.text(int(lit[2]), e).strip()
    want_unit = UNITS.get(unit_text)
    c.count("accessor_unit")
    if want_unit is None or tl[3] != want_unit or tl[4] == "_" or tl[4] == "!" or unhex(tl[4]) != unit_text:
        c.fail("C10", "accessor_unit", span=sp, unit=tohex(unit_text), got=tl[3])
        return
    ex = t[2]
    if not (isinstance(ex, list) and ex[0] == "Lit"):
        raise Unaligned("timing literal vs non literal")
    c.visited.add((lit[1], lit[2]))
    L = ex[1]
    if not f["ok"] or f["cls"] not in ("int", "float"):
        return
    sign = "-" if neg else "+"
    if want_unit == "Imaginary":
        if f["cls"] == "int":
            c.count("imag_int_value")
            want = ["ImInt", str(f["value"]), sign]
            if L != want:
                c.fail("C10", "imag_int_value", span=sp, want=" ".join(want), got=" ".join(map(str, L)))
        else:
            c.count("imag_float_value")
            want = -f["value"] if neg else f["value"]
            got = py_float(L[1][2:]) if (L[0] == "ImFloat" and len(L) == 2 and L[1].startswith("f:")) else None
            if got is None or not same_float(got, want):
                c.fail("C10", "imag_float_value", span=sp, want=repr(want), got=" ".join(map(str, L)))
        return
    if f["cls"] == "int":
        c.count("timing_int_value")
        want = ["TimingInt", str(f["value"]), sign, want_unit]
        if L != want:
            c.fail("C10", "timing_int_value", span=sp, want=" ".join(want), got=" ".join(map(str, L)))
    else:
        c.count("timing_float_value")
        ok = (L[0] == "TimingFloat" and len(L) == 4 and L[1].startswith("f:") and L[2] == sign
              and L[3] == want_unit)
        got = py_float(L[1][2:]) if ok else None
        if got is None or not same_float(got, f["value"]):
            c.fail("C10", "timing_float_value", span=sp, want="%r %s %s" % (f["value"], sign, want_unit),
                   got=" ".join(map(str, L)))


# --------------------------------------------------------------------------------------------
# C08 (a): well_typed, over every (T type expr) of the graph (needs no pairing with the AST)
# --------------------------------------------------------------------------------------------
RANK = {"Int": 0, "UInt": 0, "Float": 1, "Complex": 2}


def lit_class_type(c, t):
    """expected type of a literal node; None = no opinion"""
    L = t[2][1]
    if not isinstance(L, list):
        return None
    k = L[0]
    if k == "Int":
        return "Int_128_c"
    if k == "Float":
        return "Float_64_c"
    if k == "Bool":
        return "Bool_c"
    if k == "BitString":
        body = L[1][2:] if len(L) > 1 else ""
        return "BitArray_%d_c" % sum(1 for ch in body if ch in "01")
    if k in ("TimingInt", "TimingFloat"):
        return "Duration_c"
    return None


def le_tower(a, b):
    """a <= b in the numeric tower (kind and width); a, b type strings of tower kinds"""
    ka, wa, _ = tinfo(a)
    kb, wb, _ = tinfo(b)
    if ka == kb:
        if wb is None:
            return True
        if wa is None:
            return False
        return wa <= wb
    if ka in ("Int", "UInt") and kb in ("Int", "UInt"):
        return False  # signed / unsigned are incomparable
    return RANK[ka] < RANK[kb]


def well_typed(c, n):
    """recursive over the whole asg S-expression"""
    if not isinstance(n, list):
        return
    if is_T(n):
        ty, e = n[1], n[2]
        head = e[0] if isinstance(e, list) else e
        if head == "Lit":
            L = e[1]
            lk = L[0] if isinstance(L, list) else L
            if lk == "ImInt":
                c.count("imaginary_int_literal_type")
                if not (ty.startswith("Complex_") and ty.endswith("_c")):
                    c.fail("C08", "imaginary_int_literal_type", lit=" ".join(map(str, L)), got=ty)
            elif lk == "ImFloat":
                c.count("well_typed.literal")
                if not (ty.startswith("Complex_") and ty.endswith("_c")):
                    c.fail("C08", "well_typed", rule="literal", lit=" ".join(map(str, L)), got=ty)
            else:
                want = lit_class_type(c, n)
                if want is not None:
                    c.count("well_typed.literal")
                    if ty != want:
                        c.fail("C08", "well_typed", rule="literal", lit=" ".join(map(str, L)), want=want, got=ty)
        elif head == "Cast":
            c.count("well_typed.cast")
            if ty != e[1]:
                c.fail("C08", "well_typed", rule="cast", want=e[1], got=ty)
        elif head == "Measure":
            ot = e[1][1] if is_T(e[1]) else None
            if ot in ("Qubit", "HardwareQubit"):
                c.count("well_typed.measure")
                if ty != "Bit_n":
                    c.fail("C08", "well_typed", rule="measure", operand=ot, want="Bit_n", got=ty)
            elif ot is not None and ot.startswith("QubitArray_"):
                c.count("well_typed.measure")
                want = "BitArray_%s_n" % ot.split("_", 1)[1]
                if ty != want:
                    c.fail("C08", "well_typed", rule="measure", operand=ot, want=want, got=ty)
            else:
                c.count("measure_nonquantum_operand(not checked)")
        elif head == "Un":
            if e[1] in ("Minus", "BitNot") and is_T(e[2]):
                c.count("well_typed.unary")
                if ty != e[2][1]:
                    c.fail("C08", "well_typed", rule="unary", want=e[2][1], got=ty)
        elif head == "Bin":
            op = e[1]
            if op.startswith("Arith.") and is_T(e[2]) and is_T(e[3]):
                for side, o in (("l", e[2]), ("r", e[3])):
                    c.count("well_typed.arith_operand")
                    oe = o[2]
                    if not (o[1] == ty and (True if not (isinstance(oe, list) and oe[0] == "Cast") else oe[1] == ty)):
                        c.fail("C08", "well_typed", rule="arith_operand", side=side, node=ty, operand=o[1])
            else:
                c.count("todo_typed_binary(not checked)")
        elif head in ("Ident",):
            st = c.sym_type(e[1])
            c.count("well_typed.ident")
            want = st if e[1].startswith("ok:") else "Undefined"
            if want is None or ty != want:
                c.fail("C08", "well_typed", rule="ident", sym=e[1], want=want, got=ty)
        elif head == "GateOperand":
            g = e[1]
            if isinstance(g, list) and g[0] == "GoIdent":
                c.count("well_typed.ident")
                want = c.sym_type(g[1]) if g[1].startswith("ok:") else "Undefined"
                if want is None or ty != want:
                    c.fail("C08", "well_typed", rule="gate_operand_ident", sym=g[1], want=want, got=ty)
            elif isinstance(g, list) and g[0] == "GoHw":
                c.count("well_typed.ident")
                if ty != "HardwareQubit":
                    c.fail("C08", "well_typed", rule="gate_operand_hw", got=ty)
        elif head == "HwQubit":
            c.count("well_typed.ident")
            if ty != "HardwareQubit":
                c.fail("C08", "well_typed", rule="hwqubit", got=ty)
        elif head == "Call":
            st = c.sym_type(e[1])
            if st is not None and st.startswith("Sub_"):
                c.count("well_typed.call")
                if ty != sub_parts(st)[1]:
                    c.fail("C08", "well_typed", rule="call", want=sub_parts(st)[1], got=ty)
        elif head == "Return":
            c.count("well_typed.return")
            want = e[1][1] if is_T(e[1]) else "Void"
            if ty != want:
                c.fail("C08", "well_typed", rule="return", want=want, got=ty)
    for x in n:
        well_typed(c, x)


def arith_common_type(c, op, tau, lo, ro):
    """tau must be an upper bound of the ORIGINAL operand types when both are tower types.  Called
    from the parallel walk, which knows (from the AST) whether a cast was written or inserted, so
    lo / ro are the texprs standing for the written operands."""
    cands = [(lo[1], ro[1])]
    cands = [(a, b) for a, b in cands if tinfo(a)[0] in TOWER and tinfo(b)[0] in TOWER]
    if not cands:
        c.count("arith_nontower(not checked)")
        return
    c.count("arith_common_type")
    if tinfo(tau)[0] not in TOWER:
        c.fail("C08", "arith_common_type", op=op, node=tau, l=cands[0][0], r=cands[0][1])
        return
    for a, b in cands:
        if le_tower(a, tau) and le_tower(b, tau):
            return
        # division of integers yields a float of unspecified width
        if op == "Arith.Div" and tinfo(a)[0] in ("Int", "UInt") and tinfo(b)[0] in ("Int", "UInt") \
                and tau == "Float_-_n":
            return
    a, b = cands[-1]
    c.fail("C08", "arith_common_type", op=op, node=tau, l=a, r=b)


# --------------------------------------------------------------------------------------------
# C09: the written type of a declaration
# --------------------------------------------------------------------------------------------
BUILTIN_NAMES = ("pi", "π", "euler", "ℇ", "tau", "τ", "U")
STD_GATES = (
    [(n, 0, 1) for n in ("x", "y", "z", "h", "s", "sdg", "t", "tdg", "sx", "id")]
    + [(n, 1, 1) for n in ("p", "rx", "ry", "rz", "phase", "u1")]
    + [("u2", 2, 1), ("u3", 3, 1)]
    + [(n, 0, 2) for n in ("cx", "cy", "cz", "ch", "swap", "CX")]
    + [(n, 1, 2) for n in ("cp", "crx", "cry", "crz", "cphase")]
    + [("cu", 4, 2)]
    + [(n, 0, 3) for n in ("ccx", "cswap")]
)
KIND_OF_WRITTEN = {
    "Int": ("Int",), "UInt": ("UInt",), "Float": ("Float",), "Angle": ("Angle",), "Complex": ("Complex",),
    "Bool": ("Bool",), "Duration": ("Duration",), "Stretch": ("Stretch",),
    "Bit": ("Bit", "BitArray"), "Qubit": ("Qubit", "QubitArray"),
}


def wspec_of(c, desg):
    """designator node -> ('none',) | ('lit', w, s, e) | ('nonint', s, e) | ('ident', name, s, e) | ('other',)"""
    if desg == "_" or not isinstance(desg, list):
        return ("none",)
    ex = desg[3]
    if ex == "_":
        return ("none",)
    if not isinstance(ex, list):
        return ("other",)
    if ex[0] == "Literal":
        k = ex[3]
        if isinstance(k, list) and k[0] == "IntNumber":
            f = lit_facts(c, ex)
            if f["ok"]:
                return ("lit", f["value"], int(ex[1]), int(ex[2]))
            return ("other",)
        lit_facts(c, ex)
        return ("nonint", int(ex[1]), int(ex[2]))
    if ex[0] == "Identifier" and ex[3] not in ("!", "_"):
        return ("ident", unhex(ex[3]), int(ex[1]), int(ex[2]))
    return ("other",)


def scalar_designator(st):
    """(ScalarType s e Kind desg inner): the designator that carries the width"""
    if st[5] != "_" and isinstance(st[5], list):
        return st[5][4]
    return st[4]


def name_bindings(n, out):
    """all binding occurrences (Name / Param nodes) of the AST: name -> count"""
    if isinstance(n, list) and n:
        if n[0] == "Name" and len(n) == 4 and isinstance(n[3], str) and n[3].startswith("x"):
            out[unhex(n[3])] += 1
        elif n[0] == "Param" and len(n) == 4 and isinstance(n[3], str) and n[3].startswith("x"):
            out[unhex(n[3])] += 1
        for x in n:
            name_bindings(x, out)


def top_consts(c):
    """name -> facts, for names bound exactly once in the whole program, by a top-level classical or
    IO declaration (anything else is out of reach of this oracle's name resolution)"""
    if c.top_consts is not None:
        return c.top_consts
    counts = collections.Counter()
    name_bindings(c.ast, counts)
    has_std = any(is_std_include(s) for s in c.ast[3])
    out = {}
    for s in c.ast[3]:
        if not isinstance(s, list):
            continue
        nm = None
        if s[0] == "ClassicalDeclarationStatement" and s[3] == "0" and isinstance(s[6], list) \
                and isinstance(s[4], list) and s[6][3].startswith("x"):
            nm = unhex(s[6][3])
            info = {"form": "classical", "const": s[5] == "1", "kind": s[4][3], "end": int(s[2]), "init": None}
            ex = s[7]
            if isinstance(ex, list) and ex[0] == "Literal" and isinstance(ex[3], list) and ex[3][0] == "IntNumber":
                f = lit_facts(c, ex)
                if f["ok"]:
                    info["init"] = ("int", f["value"], False)
            elif isinstance(ex, list) and ex[0] == "PrefixExpr" and ex[3] == "Neg" and isinstance(ex[4], list) \
                    and ex[4][0] == "Literal" and isinstance(ex[4][3], list) and ex[4][3][0] == "IntNumber":
                f = lit_facts(c, ex[4])
                if f["ok"]:
                    info["init"] = ("int", f["value"], True)
            elif ex != "_":
                info["init"] = ("other",)
        elif s[0] == "IODeclarationStatement" and s[3] == "0" and isinstance(s[5], list) and isinstance(s[4], list) \
                and s[5][3].startswith("x"):
            nm = unhex(s[5][3])
            info = {"form": "io", "const": False, "kind": s[4][3], "end": int(s[2]), "init": None}
        if nm is None or counts[nm] != 1 or nm in BUILTIN_NAMES:
            continue
        if has_std and any(nm == g[0] for g in STD_GATES):
            continue
        out[nm] = info
    c.top_consts = out
    return out


def is_std_include(s):
    return (isinstance(s, list) and s[0] == "Include" and isinstance(s[3], list)
            and s[3][3] == tohex("stdgates.inc"))


def check_width(c, ws, recorded, where, actual):
    """ws = width spec written; recorded = the number in the recorded type (None when absent)"""
    tag = ws[0]
    if tag == "none":
        c.count("declared_type.width_absent")
        if recorded is not None:
            c.fail("C09", "declared_type", where=where, part="width", want="-", got=actual)
    elif tag == "lit":
        w, s, e = ws[1], ws[2], ws[3]
        if w < TWO32:
            c.count("declared_type.width_literal")
            if recorded != w:
                c.fail("C09", "declared_type", where=where, part="width", want=w, got=actual)
        else:
            c.count("width_truncated")
            if not c.has_err_within(WIDTH_DIAG, s - 1, e + 1):
                c.fail("C09", "width_truncated", where=where, span="%d-%d" % (s, e), written=w,
                       recorded="-" if recorded is None else recorded, got=actual)
            elif recorded is not None and recorded != w:
                c.fail("C09", "width_replaced", where=where, span="%d-%d" % (s, e), written=w, recorded=recorded)
    elif tag == "nonint":
        c.count("nonint_designator_diagnosed")
        if not c.has_err(("ConstIntegerError", "InvalidDesignatorError"), ws[1], ws[2]):
            c.fail("C09", "nonint_designator_diagnosed", where=where, span="%d-%d" % (ws[1], ws[2]), got=actual)
    elif tag == "ident":
        name, s, e = ws[1], ws[2], ws[3]
        info = top_consts(c).get(name)
        if info is None or s < info["end"]:
            c.count("designator_ident(unresolved, not checked)")
            return
        sp = "%d-%d" % (s, e)
        diag = c.has_err(WIDTH_DIAG, s, e)
        rec = "-" if recorded is None else recorded
        if info["form"] == "classical" and info["const"] and info["kind"] in ("Int", "UInt"):
            if info["init"] is None or info["init"][0] != "int":
                c.count("designator_ident(unresolved, not checked)")
                return
            _, v, neg = info["init"]
            if not neg and v < TWO32:
                c.count("const_designator")
                if recorded != v:
                    c.fail("C09", "const_designator", where=where, span=sp, name=tohex(name), value=v, recorded=rec)
            else:
                c.count("const_designator_diag")
                if not diag:
                    c.fail("C09", "const_designator_diag", where=where, span=sp, name=tohex(name),
                           value=("-%d" % v) if neg else v, recorded=rec)
                c.count("designator_substituted_zero")
                if recorded is not None:
                    c.fail("C09", "designator_substituted_zero", where=where, span=sp, name=tohex(name),
                           value=("-%d" % v) if neg else v, recorded=rec)
        elif info["form"] == "classical" and info["const"]:
            c.count("nonint_const_designator")
            if not diag:
                c.fail("C09", "nonint_const_designator", where=where, span=sp, name=tohex(name),
                       kind=info["kind"], recorded=rec)
        else:
            c.count("nonconst_designator_silent")
            if not diag:
                c.fail("C09", "nonconst_designator_silent", where=where, span=sp, name=tohex(name),
                       kind=info["kind"], recorded=rec)


def check_declared(c, where, sym, st, const):
    """the symbol bound for a declaration with written scalar type `st` carries exactly that type"""
    actual = c.sym_type(sym)
    if actual is None or not isinstance(st, list) or st[0] != "ScalarType":
        return
    wk = st[3]
    if wk not in KIND_OF_WRITTEN:
        return
    ak, aw, ac = tinfo(actual)
    c.count("declared_type.kind")
    if ak not in KIND_OF_WRITTEN[wk]:
        c.fail("C09", "declared_type", where=where, part="kind", written=wk, got=actual)
        return
    if wk != "Qubit":
        c.count("declared_type.const")
        if ac != const:
            c.fail("C09", "declared_type", where=where, part="const", want="c" if const else "n", got=actual)
    if wk in ("Bool", "Duration", "Stretch"):
        return
    ws = wspec_of(c, scalar_designator(st))
    recorded = aw if ak not in ("Bit", "Qubit") else None
    check_width(c, ws, recorded, where, actual)


def written_type_string(c, st, const):
    """type string of a written scalar type when it can be computed without name resolution, else None"""
    if not isinstance(st, list) or st[0] != "ScalarType" or st[3] not in KIND_OF_WRITTEN:
        return None
    wk = st[3]
    cc = "c" if const else "n"
    if wk in ("Bool", "Duration", "Stretch"):
        return "%s_%s" % (wk, cc)
    ws = wspec_of(c, scalar_designator(st))
    if ws[0] == "none":
        w = None
    elif ws[0] == "lit" and ws[1] < TWO32:
        w = ws[1]
    else:
        return None
    if wk == "Bit":
        return "Bit_%s" % cc if w is None else "BitArray_%d_%s" % (w, cc)
    if wk == "Qubit":
        return "Qubit" if w is None else "QubitArray_%d" % w
    return "%s_%s_%s" % (wk, "-" if w is None else w, cc)


# --------------------------------------------------------------------------------------------
# parallel walk: expressions
# --------------------------------------------------------------------------------------------
def ast_cast_depth(a):
    d = 0
    a = strip_paren(a)
    while isinstance(a, list) and a[0] == "CastExpression":
        d += 1
        a = strip_paren(a[4])
    return d


def asg_cast_depth(t):
    d = 0
    while is_T(t) and isinstance(t[2], list) and t[2][0] == "Cast":
        d += 1
        t = t[2][2]
    return d


def dropped_literal(c, a):
    """a bit-string literal whose accessor returned None: the pass produces NO expression for it"""
    a0 = a
    if isinstance(a0, list) and a0[0] == "Literal" and isinstance(a0[3], list) and a0[3][0] == "BitString" \
            and a0[3][2] == "_":
        lit_facts(c, a0)
        c.visited.add((a0[1], a0[2]))
        return True
    return False


def align(c, a, t, inserted_ok=False):
    """pair AST expression `a` with ASG texpr `t`.  Returns the texpr that corresponds to `a` itself
    (i.e. below a cast inserted by the pass, if `inserted_ok`)."""
    if not is_T(t):
        raise Unaligned("not a texpr")
    if inserted_ok:
        da, dt = ast_cast_depth(a), asg_cast_depth(t)
        if dt == da + 1:
            inner = t[2][2]
            walk_expr(c, a, inner)
            return inner
        if dt != da:
            raise Unaligned("cast depth")
    walk_expr(c, a, t)
    return t


def expect(e, head, n=None):
    if not (isinstance(e, list) and e and e[0] == head and (n is None or len(e) == n)):
        raise Unaligned("expected %s got %r" % (head, e[0] if isinstance(e, list) and e else e))


def align_list(c, exprs, ts):
    exprs = [x for x in exprs if not dropped_literal(c, x)]
    if not isinstance(ts, list) or len(exprs) != len(ts):
        raise Unaligned("list length")
    for x, t in zip(exprs, ts):
        try:
            align(c, x, t)
        except Unaligned:
            COUNTS["(unaligned expression)"] += 1
            c.unaligned = True


def align_index_op(c, io, ix):
    # (IndexOperator s e (SetExpression s e (ExpressionList s e (..))) | (ExpressionList s e (..)))
    expect(io, "IndexOperator", 4)
    k = io[3]
    if not isinstance(k, list):
        raise Unaligned("index kind")
    if k[0] == "SetExpression":
        expect(ix, "IxSet", 2)
        align_list(c, k[3][3] if isinstance(k[3], list) else [], ix[1])
    elif k[0] == "ExpressionList":
        expect(ix, "IxList", 2)
        align_list(c, k[3], ix[1])
    else:
        raise Unaligned("index kind")


def align_indexed_ident(c, a, e):
    # (IndexedIdentifier s e ident (ops)) vs (IndexedIdent sym (ix..))
    expect(a, "IndexedIdentifier", 5)
    expect(e, "IndexedIdent", 3)
    if len(a[4]) != len(e[2]):
        raise Unaligned("index operators")
    for io, ix in zip(a[4], e[2]):
        align_index_op(c, io, ix)


def align_gate_operand(c, a, t):
    if not is_T(t):
        raise Unaligned("gate operand")
    expect(t[2], "GateOperand", 2)
    g = t[2][1]
    if a[0] == "HardwareQubit":
        expect(g, "GoHw", 2)
    elif a[0] == "Identifier":
        expect(g, "GoIdent", 2)
    elif a[0] == "IndexedIdentifier":
        expect(g, "GoIndexed", 2)
        align_indexed_ident(c, a, g[1])
    else:
        raise Unaligned("gate operand kind")


def align_range(c, a, e):
    expect(a, "RangeExpr", 6)
    expect(e, "Range", 4)
    align(c, a[3], e[1])
    if a[4] != "_":
        align(c, a[4], e[2])
    elif e[2] != "_":
        raise Unaligned("range step")
    align(c, a[5], e[3])


def walk_expr(c, a, t):
    a = strip_paren(a)
    if not isinstance(a, list):
        raise Unaligned("missing expression")
    e = t[2]
    k = a[0]
    if k == "Literal":
        check_lit(c, a, t, False)
    elif k == "TimingLiteral":
        check_timing(c, a, t, False)
    elif k == "PrefixExpr":
        if a[3] != "Neg":
            raise Unaligned("prefix op")
        inner = a[4]
        if isinstance(inner, list) and inner[0] == "Literal" and isinstance(inner[3], list) \
                and inner[3][0] in ("IntNumber", "FloatNumber"):
            check_lit(c, inner, t, True)
        elif isinstance(inner, list) and inner[0] == "TimingLiteral":
            check_timing(c, inner, t, True)
        else:
            expect(e, "Un", 3)
            align(c, inner, e[2])
    elif k == "BinExpr":
        expect(e, "Bin", 4)
        op = e[1]
        arith = op.startswith("Arith.")
        lo = align(c, a[4], e[2], inserted_ok=arith)
        ro = align(c, a[5], e[3], inserted_ok=arith)
        if arith:
            arith_void(c, a, t, lo, ro)
            if t[1] != "Void":
                arith_common_type(c, op, t[1], lo, ro)
    elif k == "Identifier":
        expect(e, "Ident", 2)
    elif k == "HardwareQubit":
        expect(e, "HwQubit", 2)
    elif k == "RangeExpr":
        align_range(c, a, e)
    elif k == "IndexExpr":
        expect(e, "IndexExpr", 3)
        align(c, a[3], e[1])
        align_index_op(c, a[4], e[2])
    elif k == "IndexedIdentifier":
        align_indexed_ident(c, a, e)
    elif k == "MeasureExpression":
        expect(e, "Measure", 2)
        align_gate_operand(c, a[3], e[1])
        ot = e[1][1]
        if ot not in ("Qubit", "HardwareQubit") and not ot.startswith("QubitArray_"):
            # "a measurement has the bit shape of its operand": a non-quantum operand has none, so
            # the property requires a diagnostic at the operand
            c.count("measure_nonquantum_diagnosed")
            if not c.has_err_within(("IncompatibleTypesError", "UndefVarError"), int(a[3][1]), int(a[3][2])):
                c.fail("C08", "measure_nonquantum_diagnosed", span="%s-%s" % (a[3][1], a[3][2]), operand=ot, got=t[1])
    elif k == "ReturnExpr":
        expect(e, "Return", 2)
        if a[3] != "_":
            align(c, a[3], e[1])
        elif e[1] != "_":
            raise Unaligned("return value")
    elif k == "CastExpression":
        expect(e, "Cast", 3)
        want = written_type_string(c, a[3], True)
        if want is not None:
            c.count("cast_written_type")
            if not eq_upto_const(want, e[1]):
                c.fail("C08", "cast_written_type", span="%s-%s" % (a[1], a[2]), want=want, got=e[1])
        align(c, a[4], e[2])
    elif k == "CallExpr":
        expect(e, "Call", 3)
        if a[3] != "_" and isinstance(a[3], list):
            el = a[3][3]
            align_list(c, el[3] if isinstance(el, list) else [], e[2])
    else:
        raise Unaligned("expression kind %s" % k)


UNDEFINITE = ("Void", "ToDo", "Undefined")


def arith_void(c, a, t, lo, ro):
    """an arithmetic node typed Void: both operand types definite => a diagnostic must exist"""
    if t[1] != "Void":
        return
    lt, rt = lo[1], ro[1]
    if lt in UNDEFINITE or rt in UNDEFINITE:
        c.count("arith_void(operand undefined, not checked)")
        return
    c.count("arith_void_undiagnosed")
    s, e = int(a[1]), int(a[2])
    if c.has_err_within(TYPE_DIAG + ("UndefVarError",), s, e):
        return
    c.fail("C08", "arith_void_undiagnosed", span="%d-%d" % (s, e), op=t[2][1], l=lt, r=rt)


# --------------------------------------------------------------------------------------------
# C08 (b)(c)(d): declaration / assignment decisions
# --------------------------------------------------------------------------------------------
def value_form(t):
    """short description of the ASG expression that stands for the written value"""
    e = t[2]
    if not isinstance(e, list):
        return str(e)
    if e[0] == "Lit" and isinstance(e[1], list):
        L = e[1]
        if L[0] in ("Int", "ImInt"):
            return "Lit:%s%s" % (L[0], L[2])
        if L[0] == "ImFloat":
            return "Lit:ImFloat"
        return "Lit:%s" % L[0]
    return e[0]


def downward(T, V, form):
    """name of the downward-conversion class of (target T, value type V), or None"""
    kt, wt, _ = tinfo(T)
    kvv, wv, cv = tinfo(V)
    if form.startswith("Lit:ImInt") or form == "Lit:ImFloat":
        kvv, wv = "Complex", None
    if kt not in CLASSICAL or kvv not in CLASSICAL:
        return None
    if kvv == "Float" and kt in ("Int", "UInt"):
        return "float_to_int"
    if kvv == "Complex" and kt in ("Float", "Int", "UInt"):
        return "complex_to_real"
    if form == "Lit:Int-" and kt == "UInt":
        return "negative_to_unsigned"
    if kt != kvv and (kt in SPECIAL or kvv in SPECIAL):
        return "special_kind"
    if kt != kvv and "Angle" in (kt, kvv):
        return "angle_kind"
    if kt == kvv and isinstance(wt, int) and isinstance(wv, int) and wt < wv \
            and not form.startswith("Lit:") and not cv:
        return "narrowing"
    return None


def decision(c, which, T, final_t, orig_t, s, e):
    sp = "%d-%d" % (s, e)
    form = value_form(orig_t)
    diag = c.has_err(TYPE_DIAG, s, e)
    casted = final_t is not orig_t
    c.count(which)
    if not (eq_upto_const(final_t[1], T) or diag):
        c.fail("C08", which, span=sp, target=T, value=final_t[1], orig=orig_t[1], form=form, cast=int(casted))
    d = downward(T, orig_t[1], form)
    c.count("no_silent_downward" if d else "no_silent_downward(not downward)")
    if d and not diag:
        c.fail("C08", "no_silent_downward", span=sp, stmt=which.split("_")[0], cls=d, target=T,
               orig=orig_t[1], form=form, cast=int(casted))


# --------------------------------------------------------------------------------------------
# parallel walk: statements
# --------------------------------------------------------------------------------------------
NO_ASG = ("Include", "VersionString", "AnnotationStatement")
NULL_STMTS = ("OldStyleDeclarationStatement", "DefCal", "Cal", "DefCalGrammar", "LetStmt", "Measure", "ExternStmt")


def walk_stmts(c, asts, asgs, top=False):
    asts = [s for s in asts if isinstance(s, list) and s[0] not in NO_ASG]
    if not isinstance(asgs, list) or len(asts) != len(asgs):
        COUNTS["(unaligned statement list)"] += 1
        c.unaligned = True
        return
    for a, g in zip(asts, asgs):
        if top and isinstance(g, list) and g and g[0] == "Annotated":
            g = g[1]
        try:
            walk_stmt(c, a, g)
            COUNTS["(aligned statement)"] += 1
        except Unaligned as ex:
            COUNTS["(unaligned statement)"] += 1
            COUNTS["(unaligned: %s)" % str(ex)[:40]] += 1
            c.unaligned = True
        except (IndexError, TypeError, ValueError) as ex:
            COUNTS["(unaligned statement: shape error)"] += 1
            c.unaligned = True


def walk_bos(c, bos, block):
    expect(block, "Block", 2)
    if not isinstance(bos, list):
        raise Unaligned("body accessor")
    if bos[0] == "BosBlock":
        walk_stmts(c, bos[1][3], block[1])
    elif bos[0] == "BosStmt":
        if len(block[1]) != 1:
            raise Unaligned("single statement body")
        walk_stmts(c, [bos[1]], block[1])
    else:
        raise Unaligned("body")


def walk_qubit_list(c, ql, ts):
    if not isinstance(ql, list) or ql[0] != "QubitList" or len(ql[3]) != len(ts):
        raise Unaligned("qubit list")
    for a, t in zip(ql[3], ts):
        align_gate_operand(c, a, t)


def walk_gate_call(c, gc, g, mods):
    # (GateCallExpr s e qubit_list arg_list identifier) vs (GateCall sym params|_ (qubits) (mods))
    expect(gc, "GateCallExpr", 6)
    expect(g, "GateCall", 5)
    walk_qubit_list(c, gc[3], g[3])
    if gc[4] != "_":
        el = gc[4][3]
        align_list(c, el[3] if isinstance(el, list) else [], g[2])
    walk_modifiers(c, mods, g[4])


def walk_modifiers(c, mods, gm):
    if len(mods) != len(gm):
        raise Unaligned("modifiers")
    for m, x in zip(mods, gm):
        if m[0] == "InvModifier":
            continue
        if not isinstance(x, list):
            raise Unaligned("modifier")
        pe = m[3]
        if pe == "_":
            continue
        if x[1] == "_":
            raise Unaligned("modifier arg")
        align(c, pe, x[1])


def walk_stmt(c, a, g):
    k = a[0]
    s, e = int(a[1]), int(a[2])
    if k == "ClassicalDeclarationStatement":
        expect(g, "DeclareClassical", 3)
        sym, init = g[1], g[2]
        array, st, const, name, ex = a[3], a[4], a[5] == "1", a[6], a[7]
        if array == "0":
            check_declared(c, "classical@%d-%d" % (s, e), sym, st, const)
        if ex == "_":
            if init != "_":
                raise Unaligned("initializer without expression")
            return
        c.count("bitstring_initializer_dropped")
        if init == "_":
            if dropped_literal(c, ex):
                c.fail("C10", "bitstring_initializer_dropped", span="%d-%d" % (s, e))
                return
            raise Unaligned("initializer missing")
        orig = align(c, ex, init, inserted_ok=True)
        if array != "0":
            return
        T = c.sym_type(sym) if sym.startswith("ok:") else written_type_string(c, st, const)
        if T is None:
            c.count("decl_decision(target unknown, not checked)")
            return
        decision(c, "decl_decision", T, init, orig, s, e)
    elif k == "AssignmentStmt":
        expect(g, "Assignment", 3)
        lv, rv = g[1], g[2]
        if a[3] != "_":
            expect(lv, "LIdent", 2)
            orig = align(c, a[4], rv, inserted_ok=True)
            T = c.sym_type(lv[1])
            if T is not None:
                decision(c, "assign_decision", T, rv, orig, s, e)
        else:
            expect(lv, "LIndexed", 2)
            align_indexed_ident(c, a[5], lv[1])
            align(c, a[4], rv)
    elif k == "IODeclarationStatement":
        expect(g, "InputDeclaration" if a[6] == "1" else "OutputDeclaration", 2)
        if a[3] == "0":
            check_declared(c, "io@%d-%d" % (s, e), g[1], a[4], False)
    elif k == "QuantumDeclarationStatement":
        if a[3] == "_":
            expect(g, "DeclareHardwareQubit", 2)
            return
        expect(g, "DeclareQuantum", 2)
        actual = c.sym_type(g[1])
        if actual is not None and isinstance(a[5], list):
            ak, aw, _ = tinfo(actual)
            where = "quantum@%d-%d" % (s, e)
            c.count("declared_type.kind")
            if ak not in ("Qubit", "QubitArray"):
                c.fail("C09", "declared_type", where=where, part="kind", written="Qubit", got=actual)
            else:
                check_width(c, wspec_of(c, a[5][3]), aw if ak == "QubitArray" else None, where, actual)
    elif k == "IfStmt":
        expect(g, "If", 4)
        align(c, a[3], g[1])
        walk_bos(c, a[4], g[2])
        if a[5] != "_":
            walk_bos(c, a[5], g[3])
        elif g[3] != "_":
            raise Unaligned("else")
    elif k == "WhileStmt":
        expect(g, "While", 3)
        align(c, a[3], g[1])
        walk_bos(c, a[4], g[2])
    elif k == "ForStmt":
        expect(g, "ForStmt", 4)
        check_declared(c, "loopvar@%d-%d" % (s, e), g[1], a[4], False)
        it, gi = a[5], g[2]
        if isinstance(it, list) and isinstance(gi, list):
            try:
                if it[3] != "_":
                    expect(gi, "IterSet", 2)
                    el = it[3][3]
                    align_list(c, el[3] if isinstance(el, list) else [], gi[1][1])
                elif it[4] != "_":
                    expect(gi, "IterRange", 2)
                    align_range(c, it[4], gi[1])
                elif it[5] != "_":
                    expect(gi, "IterExpr", 2)
                    align(c, it[5], gi[1])
            except Unaligned:
                COUNTS["(unaligned expression)"] += 1
                c.unaligned = True
        walk_bos(c, a[6], g[3])
    elif k == "SwitchCaseStmt":
        expect(g, "SwitchCase", 4)
        align(c, a[3], g[1])
        if len(a[4]) != len(g[2]):
            raise Unaligned("cases")
        for ca, cg in zip(a[4], g[2]):
            align_list(c, ca[3][3] if isinstance(ca[3], list) else [], cg[1])
            if isinstance(ca[4], list):
                walk_stmts(c, ca[4][3], cg[2])
        if a[5] != "_":
            if g[3] == "_":
                raise Unaligned("default")
            walk_stmts(c, a[5][3], g[3])
    elif k == "Gate":
        expect(g, "GateDefinition", 5)
        walk_gate_def(c, a, g)
    elif k == "Def":
        expect(g, "DefStmt", 5)
        walk_def(c, a, g)
    elif k == "Barrier":
        expect(g, "Barrier", 2)
        walk_qubit_list(c, a[3], g[1])
    elif k == "DelayStmt":
        expect(g, "Delay", 3)
        walk_qubit_list(c, a[3], g[2])
        if isinstance(a[4], list):
            align(c, a[4][3], g[1])
    elif k == "Reset":
        expect(g, "Reset", 2)
        align_gate_operand(c, a[3], g[1])
    elif k == "ExprStmt":
        ex = a[3]
        if not isinstance(ex, list):
            raise Unaligned("empty expression statement")
        if ex[0] == "GateCallExpr":
            walk_gate_call(c, ex, g, [])
        elif ex[0] == "ModifiedGateCallExpr":
            if ex[4] != "_":
                walk_gate_call(c, ex[4], g, ex[3])
            else:
                expect(g, "ModifiedGPhaseCall", 3)
                align(c, ex[5][3], g[1])
                walk_modifiers(c, ex[3], g[2])
        elif ex[0] == "GPhaseCallExpr":
            expect(g, "GPhaseCall", 2)
            align(c, ex[3], g[1])
        else:
            expect(g, "ExprStmt", 2)
            align(c, ex, g[1])
    elif k == "AliasDeclarationStatement":
        expect(g, "Alias", 3)
        align(c, a[4], g[2])
        st = c.sym_type(g[1])
        if st is not None:
            c.count("alias_type")
            if st != g[2][1]:
                c.fail("C09", "alias_type", span="%d-%d" % (s, e), want=g[2][1], got=st)
    elif k == "PragmaStatement":
        expect(g, "Pragma", 2)
    elif k in ("BreakStmt", "ContinueStmt", "EndStmt"):
        if g != {"BreakStmt": "Break", "ContinueStmt": "Continue", "EndStmt": "End"}[k]:
            raise Unaligned(k)
    elif k in NULL_STMTS:
        if g != "NullStmt":
            raise Unaligned(k)
    else:
        raise Unaligned("statement kind %s" % k)


def walk_gate_def(c, a, g):
    # (Gate s e name angle_params|_ qubit_params body) vs (GateDefinition sym params|_ (qubits) (Block ..))
    s, e = int(a[1]), int(a[2])
    sp = "%d-%d" % (s, e)
    aps = a[4][3] if isinstance(a[4], list) else None
    qps = a[5][3] if isinstance(a[5], list) else []
    np_, nq = (len(aps) if aps is not None else 0), len(qps)
    st = c.sym_type(g[1])
    if st is not None:
        c.count("gate_signature")
        if st != "Gate_%d_%d" % (np_, nq):
            c.fail("C09", "gate_signature", span=sp, want="Gate_%d_%d" % (np_, nq), got=st)
    gp = g[2] if isinstance(g[2], list) else []
    c.count("gate_params")
    if (aps is None) != (g[2] == "_") or len(gp) != np_ or len(g[3]) != nq:
        c.fail("C09", "gate_params", span=sp, part="count", want="%d/%d" % (np_, nq), got="%d/%d" % (len(gp), len(g[3])))
    else:
        for sym in gp:
            t = c.sym_type(sym)
            if t is not None:
                c.count("gate_params")
                if t != "Angle_-_c":
                    c.fail("C09", "gate_params", span=sp, part="angle", want="Angle_-_c", got=t)
        for sym in g[3]:
            t = c.sym_type(sym)
            if t is not None:
                c.count("gate_params")
                if t != "Qubit":
                    c.fail("C09", "gate_params", span=sp, part="qubit", want="Qubit", got=t)
    if isinstance(a[6], list):
        expect(g[4], "Block", 2)
        walk_stmts(c, a[6][3], g[4][1])


def walk_def(c, a, g):
    # (Def s e name typed_param_list body return_sig) vs (DefStmt sym (params) (Block ..) rettype)
    s, e = int(a[1]), int(a[2])
    sp = "%d-%d" % (s, e)
    tps = a[4][3] if isinstance(a[4], list) else []
    if len(tps) != len(g[2]):
        c.count("def_params")
        c.fail("C09", "def_params", span=sp, part="count", want=len(tps), got=len(g[2]))
    else:
        for tp, sym in zip(tps, g[2]):
            # (TypedParam s e param_type old name)
            if isinstance(tp[3], list) and tp[3][0] == "ScalarType":
                # parameters are bound non-const (bind_typed_parameter_list passes isconst = false)
                check_declared(c, "defparam@%s-%s" % (tp[1], tp[2]), sym, tp[3], False)
    # The return type is converted with isconst = true by the pass (Def arm of stmt_to_asg_stmt), so
    # the recorded return type is the written scalar type marked const; the property only says
    # "return type", so the const flag of the return type is encoded as the code does it.
    rs = a[6]
    want_ret = "Void"
    if isinstance(rs, list) and isinstance(rs[3], list):
        want_ret = written_type_string(c, rs[3], True)
    st = c.sym_type(g[1])
    if st is not None and st.startswith("Sub_"):
        n, ret = sub_parts(st)
        c.count("def_signature")
        if n != len(tps):
            c.fail("C09", "def_signature", span=sp, part="params", want=len(tps), got=st)
        if want_ret is not None:
            c.count("def_signature")
            if ret != want_ret:
                c.fail("C09", "def_signature", span=sp, part="return", want=want_ret, got=st)
        c.count("def_return_printed")
        if g[4] != ret:
            c.fail("C09", "def_return_printed", span=sp, symbol=ret, stmt=g[4])
    elif st is not None:
        c.count("def_signature")
        c.fail("C09", "def_signature", span=sp, part="kind", got=st)
    if want_ret is not None:
        c.count("def_return_printed")
        if g[4] != want_ret:
            c.fail("C09", "def_return_printed", span=sp, want=want_ret, stmt=g[4])
    if isinstance(a[5], list):
        expect(g[3], "Block", 2)
        walk_stmts(c, a[5][3], g[3][1])


# --------------------------------------------------------------------------------------------
# C09: gate listing
# --------------------------------------------------------------------------------------------
def gates_listing(c):
    sema = c.sema
    want = []
    for k in sorted(sema.symbols):
        nm, ty = sema.symbols[k]
        if ty.startswith("Gate_") and k != 6:  # 6 = the builtin U
            p = ty.split("_")
            want.append((nm, int(p[1]), int(p[2])))
    c.count("gates_listing")
    if want != sema.gates:
        missing = [g for g in want if g not in sema.gates]
        extra = [g for g in sema.gates if g not in want]
        c.fail("C09", "gates_listing",
               missing=",".join("%s:%d:%d" % g for g in missing[:4]),
               extra=",".join("%s:%d:%d" % g for g in extra[:4]), n_want=len(want), n_got=len(sema.gates))
    incs = [s for s in c.ast[3] if is_std_include(s)]
    if incs:
        names = {nm for nm, _ in sema.symbols.values()}
        nred = sum(1 for s in incs if c.has_err(("RedeclarationError",), int(s[1]), int(s[2])))
        c.count("stdgates_listing")
        for g in STD_GATES:
            if g in sema.gates:
                continue
            # bound by the user before the include: then the include must have reported it
            if g[0] in names and nred > 0:
                continue
            c.fail("C09", "stdgates_listing", missing="%s:%d:%d" % g)
            break


def graph_literals(n, out, in_type=False, stmt=None):
    """AST literals that are evaluated as expressions (everything except type designators), each
    with the innermost enclosing statement node"""
    if not isinstance(n, list) or not n:
        return
    if n[0] == "Literal" and len(n) == 4:
        if not in_type:
            out.append((n, stmt))
        return
    if n[0] in ("ScalarType", "QubitType"):
        in_type = True
    if isinstance(n[0], str) and (n[0].endswith("Stmt") or n[0].endswith("Statement")
                                  or n[0] in ("Gate", "Def", "Barrier", "Reset")):
        stmt = n
    for x in n:
        graph_literals(x, out, in_type, stmt)


def literals_reach_graph(c):
    """C10 'for every literal in an accepted program the graph holds its value': every literal in
    expression position must have been paired with a graph literal by the parallel walk"""
    if c.unaligned:
        return
    lits = []
    graph_literals(c.ast, lits)
    for lit, stmt in lits:
        f = lit_facts(c, lit)
        if not f["ok"] and not f.get("dropped"):
            continue
        c.count("literal_reaches_graph")
        if (lit[1], lit[2]) not in c.visited:
            c.fail("C10", "literal_reaches_graph", span="%s-%s" % (lit[1], lit[2]),
                   stmt=stmt[0] if stmt else "-", stmt_span="%s-%s" % (stmt[1], stmt[2]) if stmt else "-")


# --------------------------------------------------------------------------------------------
# entry point
# --------------------------------------------------------------------------------------------
def check(src, ast_line, sema_line):
    """returns (property_id, check_name, detail) for each violated clause"""
    if not ast_line.startswith("(Program") or not sema_line.startswith("asg="):
        return []
    ast, _ = parse_sexp(ast_line, 0)
    sema = parse_sema(sema_line)
    if sema is None:
        return []
    c = Ctx(src, ast, sema)
    # C10 accessor values, for every literal of the tree (designators included)
    lits = []
    all_ast_literals(ast, lits)
    for l in lits:
        lit_facts(c, l)
    # C08 (a)
    well_typed(c, sema.asg)
    # parallel walk: C08 (b)(c)(d), C09 declarations, C10 graph literals
    walk_stmts(c, ast[3], sema.asg, top=True)
    literals_reach_graph(c)
    gates_listing(c)
    return c.fails


# --------------------------------------------------------------------------------------------
# known defects of the unchanged code: guards
# --------------------------------------------------------------------------------------------
def _span(d, key="span"):
    s, e = d[key].split("-")
    return int(s), int(e)


def _slice(src, s, e):
    return src.encode("utf-8")[s:e].decode("utf-8", errors="replace")


def _errors(sema_line):
    sm = parse_sema(sema_line)
    return sm.errors if sm else []


def g_F17(src, ast_line, sema_line, f):
    """literal designator >= 2^32 and the recorded width is exactly value mod 2^32, no diagnostic"""
    if f[:2] != ("C09", "width_truncated"):
        return False
    d = kv(f[2])
    s, e = _span(d)
    w = int_text_value(_slice(src, s, e))
    if w is None or w != int(d["written"]) or w < TWO32 or d["recorded"] == "-":
        return False
    if any(k in WIDTH_DIAG and s - 1 <= a and b <= e + 1 for k, a, b in _errors(sema_line)):
        return False
    return int(d["recorded"]) == w % TWO32


def _narrowed_const(d):
    """target and value of the same width-carrying kind, value const, target non-const and narrower"""
    kt, wt, ct = tinfo(d["target"])
    kv_, wv, cv = tinfo(d["value"])
    return (kt == kv_ and kt in ("Int", "UInt", "Float") and cv is True and ct is False
            and isinstance(wt, int) and (wv is None or wv > wt) and d["cast"] == "0")


def g_F18a(src, ast_line, sema_line, f):
    """`const int n = 3; int[8] y = n;`: a const IDENTIFIER initializer wider than the non-const target"""
    if f[:2] != ("C08", "decl_decision"):
        return False
    d = kv(f[2])
    return d["form"] == "Ident" and _narrowed_const(d)


def g_F18b(src, ast_line, sema_line, f):
    """`int[8] y = 1+2;`: a const non-literal, non-identifier initializer wider than the non-const target"""
    if f[:2] != ("C08", "decl_decision"):
        return False
    d = kv(f[2])
    return d["form"] in ("Bin", "Cast", "Un", "Call") and _narrowed_const(d)


def g_F18c(src, ast_line, sema_line, f):
    """imaginary integer literal typed Int 64 (not complex), hence accepted by int / float targets"""
    d = kv(f[2])
    if f[:2] == ("C08", "imaginary_int_literal_type"):
        return d["lit"].startswith("ImInt ") and d["got"] == "Int_64_c"
    if f[:2] == ("C08", "no_silent_downward"):
        return (d["cls"] == "complex_to_real" and d["form"].startswith("Lit:ImInt") and d["orig"] == "Int_64_c"
                and tinfo(d["target"])[0] in ("Int", "Float"))
    return False


def g_F18d(src, ast_line, sema_line, f):
    """`duration d; d = 1;`: an integer literal assigned to a non-uint target: no cast, no diagnostic"""
    if f[0] != "C08" or f[1] not in ("assign_decision", "no_silent_downward"):
        return False
    d = kv(f[2])
    if f[1] == "no_silent_downward" and d.get("stmt") != "assign":
        return False
    return (d["form"] in ("Lit:Int+", "Lit:Int-") and d["cast"] == "0" and d["orig"] == "Int_128_c"
            and tinfo(d["target"])[0] != "UInt")


_IDENT_TAIL = re.compile(r"^[A-Za-z_µα-ω][A-Za-z0-9_µα-ω]*$")


def g_N01(src, ast_line, sema_line, f):
    """a numeric / bit-string literal with an identifier-like suffix glued on is one token and accepted"""
    if f[0] != "C10" or f[1] not in ("int_suffix_accepted", "float_suffix_accepted", "bitstring_suffix_accepted"):
        return False
    d = kv(f[2])
    s, e = _span(d)
    text = _slice(src, s, e)
    if tohex(text) != d["text"]:
        return False
    canon = {"int_suffix_accepted": int_text_value, "float_suffix_accepted": float_text_value,
             "bitstring_suffix_accepted": lambda x: _BITSTR_CANON.match(x)}[f[1]]
    for i in range(1, len(text)):
        if canon(text[:i]) is not None and _IDENT_TAIL.match(text[i:]):
            # a time unit or `im` glued to a number is NOT this finding: the lexer of the pinned code always splits
            # `5ns`, `.5ns`, `2im` into number + identifier, so such a single token never reaches the accessors there
            if f[1] != "bitstring_suffix_accepted" and text[i:] in ("s", "ms", "us", "µs", "ns", "dt", "im"):
                return False
            return True
    return False


def g_N07(src, ast_line, sema_line, f):
    """bit string with a suffix as initializer: accessor returns None, the initializer silently vanishes"""
    if f[:2] != ("C10", "bitstring_initializer_dropped"):
        return False
    s, e = _span(kv(f[2]))
    return re.search(r"=\s*(\"[01_]*\"|'[01_]*')[A-Za-z_][A-Za-z0-9_]*\s*;?\s*$", _slice(src, s, e)) is not None


def _void_operands(f):
    if f[:2] != ("C08", "arith_void_undiagnosed"):
        return None
    d = kv(f[2])
    return tinfo(d["l"]), tinfo(d["r"])


def g_N02a(src, ast_line, sema_line, f):
    """int with uint (F19c seen from C08): Void, and nothing reported"""
    o = _void_operands(f)
    return o is not None and {o[0][0], o[1][0]} == {"Int", "UInt"}


def g_N02b(src, ast_line, sema_line, f):
    """two complex operands of different width (F19b seen from C08): Void, nothing reported"""
    o = _void_operands(f)
    return o is not None and o[0][0] == o[1][0] == "Complex" and o[0][1] != o[1][1]


def g_N02c(src, ast_line, sema_line, f):
    """two operands of the same non-tower kind but different width / length: Void, nothing reported"""
    o = _void_operands(f)
    return (o is not None and o[0][0] == o[1][0] and o[0][0] in ("Angle", "BitArray", "QubitArray")
            and o[0][1] != o[1][1])


def g_N02d(src, ast_line, sema_line, f):
    """operand kinds differ and at least one is outside int/uint/float/complex: no common type exists,
    the node is typed Void with casts to Void, and nothing is reported"""
    o = _void_operands(f)
    if o is None or (o[0][0] in TOWER and o[1][0] in TOWER):
        return False
    same_kind_widths = o[0][0] == o[1][0] and o[0][0] in ("Angle", "BitArray", "QubitArray")
    return not same_kind_widths


def g_N03(src, ast_line, sema_line, f):
    """division with a complex operand (and no float operand) is typed Float - n"""
    if f[:2] != ("C08", "arith_common_type"):
        return False
    d = kv(f[2])
    ks = (tinfo(d["l"])[0], tinfo(d["r"])[0])
    return d["op"] == "Arith.Div" and d["node"] == "Float_-_n" and "Complex" in ks and "Float" not in ks


def g_N04(src, ast_line, sema_line, f):
    """const designator that does not fit u32 (or is negative): diagnosed, but width 0 is substituted"""
    if f[:2] != ("C09", "designator_substituted_zero"):
        return False
    d = kv(f[2])
    s, e = _span(d)
    return d["recorded"] == "0" and ("InvalidDesignatorError", s, e) in _errors(sema_line)


def g_N05(src, ast_line, sema_line, f):
    """identifier designator naming a non-const variable: the width is dropped without a diagnostic"""
    if f[:2] != ("C09", "nonconst_designator_silent"):
        return False
    d = kv(f[2])
    s, e = _span(d)
    return d["recorded"] == "-" and not any(a == s and b == e for _, a, b in _errors(sema_line))


def g_N06(src, ast_line, sema_line, f):
    """identifier designator naming a const of NON-integer type initialised by an integer literal is
    accepted as a width (or dropped) without a diagnostic"""
    if f[:2] != ("C09", "nonint_const_designator"):
        return False
    d = kv(f[2])
    s, e = _span(d)
    return d["kind"] not in ("Int", "UInt") and not any(a == s and b == e for _, a, b in _errors(sema_line))


def g_N08(src, ast_line, sema_line, f):
    """a gate named U defined in a nested scope is filtered out of gates() by name"""
    if f[:2] != ("C09", "gates_listing"):
        return False
    d = kv(f[2])
    miss = [m for m in d["missing"].split(",") if m]
    return d["extra"] == "" and bool(miss) and all(m.startswith("U:") for m in miss) \
        and int(d["n_want"]) - int(d["n_got"]) == len(miss)


def _find_node(n, kind, s, e):
    if isinstance(n, list) and n:
        if n[0] == kind and len(n) > 2 and n[1] == str(s) and n[2] == str(e):
            return n
        for x in n:
            r = _find_node(x, kind, s, e)
            if r is not None:
                return r
    return None


def g_N09(src, ast_line, sema_line, f):
    """`x[LIT] = y;`: AssignmentStmt::identifier() returns the first Identifier child, which is the
    right-hand side `y` when the target is indexed, so the pass translates `y = y` and the index
    (with its literals) never reaches the graph"""
    if f[:2] != ("C10", "literal_reaches_graph"):
        return False
    d = kv(f[2])
    if d["stmt"] != "AssignmentStmt":
        return False
    ls, le = _span(d)
    ss, se = _span(d, "stmt_span")
    ast, _ = parse_sexp(ast_line, 0)
    st = _find_node(ast, "AssignmentStmt", ss, se)
    if st is None or st[3] == "_" or st[5] == "_" or not isinstance(st[4], list):
        return False
    ident, rhs, ixd = st[3], st[4], st[5]
    return (rhs[0] == "Identifier" and ident[1:3] == rhs[1:3]
            and int(ixd[1]) <= ls and le <= int(ixd[2]))


GUARDS = {
    "F17": g_F17, "F18a": g_F18a, "F18b": g_F18b, "F18c": g_F18c, "F18d": g_F18d,
    "N01": g_N01, "N02a": g_N02a, "N02b": g_N02b, "N02c": g_N02c, "N02d": g_N02d, "N03": g_N03,
    "N04": g_N04, "N05": g_N05, "N06": g_N06, "N07": g_N07, "N08": g_N08, "N09": g_N09,
}

FINDINGS = {
    "F17": {"property": "C09", "checks": ["width_truncated"],
            "what": "literal designator >= 2^32 is truncated (`value as u32`) without a diagnostic",
            "witness": "int[4294967297] x;"},
    "F18a": {"property": "C08", "checks": ["decl_decision"],
             "what": "const identifier initializer wider than the non-const target: no cast, no diagnostic",
             "witness": "const int n = 3; int[8] y = n;"},
    "F18b": {"property": "C08", "checks": ["decl_decision"],
             "what": "const arithmetic / cast / call initializer wider than the non-const target: no cast, no diagnostic",
             "witness": "int[8] y = 1+2;"},
    "F18c": {"property": "C08", "checks": ["imaginary_int_literal_type", "no_silent_downward"],
             "what": "imaginary integer literal is typed Int 64 c instead of complex, so int/float targets accept it",
             "witness": "float f = 2im;"},
    "F18d": {"property": "C08", "checks": ["assign_decision", "no_silent_downward"],
             "what": "integer literal assigned to any non-uint variable: neither cast nor diagnostic",
             "witness": "duration d; d = 1;"},
    "N01": {"property": "C10", "checks": ["int_suffix_accepted", "float_suffix_accepted", "bitstring_suffix_accepted"],
            "what": "identifier-like suffix glued to a literal is lexed into the literal token and the program is accepted",
            "witness": "int x = 3ab;"},
    "N02a": {"property": "C08", "checks": ["arith_void_undiagnosed"],
             "what": "int (op) uint is typed Void with both operands cast to Void; nothing reported (F19c at C08)",
             "witness": "int a; uint b; a + b;"},
    "N02b": {"property": "C08", "checks": ["arith_void_undiagnosed"],
             "what": "complex operands of different widths are typed Void; nothing reported (F19b at C08)",
             "witness": "complex[float[32]] a; complex[float[64]] b; a + b;"},
    "N02c": {"property": "C08", "checks": ["arith_void_undiagnosed"],
             "what": "angle/bit-register operands of different widths are typed Void; nothing reported",
             "witness": "angle[8] a; angle[16] b; a + b;"},
    "N02d": {"property": "C08", "checks": ["arith_void_undiagnosed"],
             "what": "operands without a common type (bit, bool, duration, angle ... mixed) give a Void node; nothing reported",
             "witness": "bool a; duration b; a + b;"},
    "N03": {"property": "C08", "checks": ["arith_common_type"],
            "what": "division with a complex operand and no float operand is typed Float - n (both operands cast down)",
            "witness": "complex c; c / 2;"},
    "N04": {"property": "C09", "checks": ["designator_substituted_zero"],
            "what": "const designator that is negative or >= 2^32: InvalidDesignatorError is logged but width 0 is recorded",
            "witness": "const int n = 5000000000; int[n] x;"},
    "N05": {"property": "C09", "checks": ["nonconst_designator_silent"],
            "what": "designator naming a non-const variable: width silently dropped",
            "witness": "int m; int[m] x;"},
    "N06": {"property": "C09", "checks": ["nonint_const_designator"],
            "what": "designator naming a const of non-integer type is used as a width without a diagnostic",
            "witness": "const float n = 3; int[n] x;"},
    "N07": {"property": "C10", "checks": ["bitstring_initializer_dropped"],
            "what": "bit string with suffix: BitString::str() is None and the initializer disappears from the graph silently",
            "witness": "bit[3] b = \"101\"abc;"},
    "N08": {"property": "C09", "checks": ["gates_listing"],
            "what": "gates() filters by the NAME U, so a user gate named U bound in a nested scope is missing from the listing",
            "witness": "if (true) { gate U q {} }"},
    "N09": {"property": "C10", "checks": ["literal_reaches_graph"],
            "what": "indexed assignment with an identifier right-hand side is translated as `rhs = rhs`: "
                    "AssignmentStmt::identifier() picks the rhs identifier, the index literals never reach the graph",
            "witness": "bit[4] b; bit c; b[1] = c;"},
}


def attribute(src, ast_line, sema_line, failure):
    """finding ids whose guard holds for this failure"""
    out = []
    for fid, g in GUARDS.items():
        try:
            if g(src, ast_line, sema_line, failure):
                out.append(fid)
        except (KeyError, ValueError, IndexError):
            pass
    return out


# --------------------------------------------------------------------------------------------
# generators
# --------------------------------------------------------------------------------------------
import random  # noqa: E402


def _int_values(r):
    k = r.randrange(0, 129)
    c = r.random()
    if c < 0.08:
        return r.choice([0, 1, 2, 7, 8, 9, 10, 15, 16, 255, 256])
    if c < 0.55:
        v = (1 << k) + r.choice([-1, 0, 1])
    else:
        v = r.getrandbits(r.randrange(1, 129))
    return max(0, min(v, TWO128 - 1))


def _underscores(r, digits, allow_leading):
    """insert underscores at random legal places of a digit run"""
    if r.random() < 0.55:
        return digits
    out = []
    for i, ch in enumerate(digits):
        if (i > 0 or allow_leading) and r.random() < 0.25:
            out.append("_" * r.choice([1, 1, 1, 2]))
        out.append(ch)
    if r.random() < 0.15:
        out.append("_" * r.choice([1, 2]))
    return "".join(out)


def _lead0(r, digs):
    """decimal digits with redundant leading zeros, also separated by an underscore (`007`, `0_1`, `00_25`): the
    value is unchanged, but the lexer takes its leading-zero path"""
    if r.random() < 0.12:
        return r.choice(["0", "00", "0_", "0_0", "00_"]) + digs
    return digs


def spell_int(r, v, radices=("d", "b", "o", "x"), upper_prefix=0.08):
    rad = r.choice(radices)
    if rad == "d":
        return _lead0(r, _underscores(r, str(v), False))
    digs = {"b": format(v, "b"), "o": format(v, "o"), "x": format(v, "x")}[rad]
    if rad == "x":
        digs = "".join(ch.upper() if r.random() < 0.5 else ch for ch in digs)
    p = rad.upper() if r.random() < upper_prefix else rad
    return "0" + p + _underscores(r, digs, True)


def spell_float(r, trailing_dot_exp=False):
    ip = str(r.getrandbits(r.choice([1, 4, 10, 30, 64, 100]))) if r.random() < 0.9 else "0"
    fp = "".join(r.choice("0123456789") for _ in range(r.choice([1, 1, 2, 3, 8, 17, 25])))
    ex = ""
    if r.random() < 0.5:
        mag = r.choice([0, 1, 2, 3, 10, 22, 23, 100, 307, 308, 309, 323, 324, 400])
        digs = _underscores(r, str(mag), r.random() < 0.2)
        ex = r.choice("eE") + r.choice(["", "+", "-"]) + digs
    shape = r.choice(["i.f", "i.f", ".f", "i.", "ie", "i.fe"])
    ipu, fpu = _lead0(r, _underscores(r, ip, False)), _underscores(r, fp, False)
    if shape == "i.f":
        return ipu + "." + fpu + ex
    if shape == ".f":
        return "." + fpu + ex
    if shape == "i.":
        # `5.` ; with an exponent only the unsigned form `1.e2` survives the lexer
        if ex and not trailing_dot_exp:
            ex = ex[0] + ex[1:].lstrip("+-")
        return ipu + "." + ex
    if shape == "ie":
        return ipu + (ex or "e3")
    return ipu + "." + fpu + (ex or "E-3")


def spell_bits(r):
    n = r.choice([0, 1, 2, 3, 8, 16, 31, 32, 33, 64, 100, 255, 256])
    n = r.randrange(0, 257) if r.random() < 0.4 else n
    bits = "".join(r.choice("01") for _ in range(n))
    if r.random() < 0.4 and n > 1:
        out = []
        for i, ch in enumerate(bits):
            if i > 0 and r.random() < 0.15:
                out.append("_")
            out.append(ch)
        bits = "".join(out)
        if r.random() < 0.1:
            bits = "_" + bits
        if r.random() < 0.1:
            bits = bits + "_"
    q = r.choice("\"'")
    return q + bits + q


_UNIT_TEXTS = ["s", "ms", "us", "µs", "ns", "dt"]


def gen_literal(r):
    """-> (text, cls) with cls in int float bits bool timing imag"""
    c = r.random()
    if c < 0.36:
        return spell_int(r, _int_values(r)), "int"
    if c < 0.56:
        return spell_float(r, trailing_dot_exp=r.random() < 0.05), "float"
    if c < 0.68:
        return spell_bits(r), "bits"
    if c < 0.73:
        return r.choice(["true", "false"]), "bool"
    num = spell_int(r, _int_values(r), radices=("d", "d", "b", "o"), upper_prefix=0.0) if r.random() < 0.5 \
        else spell_float(r)
    sep = r.choice(["", "", " ", "  "])
    if c < 0.88:
        return num + sep + r.choice(_UNIT_TEXTS), "timing"
    return num + sep + "im", "imag"


def gen_literal_programs(seed, n):
    """small programs that carry literals of every class through contexts the pass can translate"""
    r = random.Random(seed * 1000003 + 17)
    out = []
    for _ in range(n):
        stmts = []
        if r.random() < 0.15:
            stmts.append(r.choice(["/* µτ */", "// π\n", "OPENQASM 3.0;"]))
        for _ in range(r.choice([1, 1, 2, 3])):
            lit, cls = gen_literal(r)
            negable = cls in ("int", "float", "imag")
            ctxs = ["%s;", "x = %s;", "int x = %s;", "a + %s;", "(%s);", "U(%s, 0, pi) $0;", "return %s;",
                    "if (true) { %s; }", "for int i in {%s, 1} { }", "switch (%s) { case 1 { } }",
                    "y[%s];", "gphase(%s);", "const float[64] k = %s;", "float f; f = %s;", "%s * %s;",
                    "let z = %s;", "while (false) y = %s;", "def f() { return %s; }", "int[8](%s);"]
            if negable:
                ctxs += ["-%s;", "- %s;", "x = -%s;", "a + -%s;", "float g = -%s;", "(-%s);", "U(-%s, 1, 2) $1;"]
            if cls == "timing":
                ctxs += ["delay[%s] $0;", "duration d = %s;", "const duration d = %s;", "stretch st = %s;"]
            if cls == "bits":
                ctxs += ["bit[4] b = %s;", "creg c[3]; c = %s;"]
            if cls == "imag":
                ctxs += ["complex c = %s;", "complex[float[32]] c; c = %s;", "float f = %s;"]
            if cls == "int":
                ctxs += ["for int i in [%s:4] { }", "uint u = %s;", "const int n = %s;", "bit[8] b; b[%s] = 1;",
                         # narrow targets x extreme literals
                         "float[32] h = %s;", "float[16] h = %s;", "float[64] h = %s;", "angle[8] ag = %s;", "uint[8] u8 = %s;",
                         "int[8] i8 = %s;", "complex[float[32]] c32 = %s;", "float[32] h; h = %s;"]
            if cls == "bool":
                ctxs += ["bool b = %s;", "if (%s) { }"]
            t = r.choice(ctxs)
            if t.count("%s") == 2:
                l2, c2 = gen_literal(r)
                if c2 in ("bits", "bool") and False:
                    pass
                stmts.append(t % (lit, l2))
            else:
                stmts.append(t % lit)
        if r.random() < 0.03:
            # glued suffixes (N01 / N07)
            stmts.append(r.choice(["int q1 = 3ab;", "0B101;", "0XfF;", "1.5ab;", "bit[3] b2 = \"101\"abc;", "7_x;"]))
        out.append(r.choice([" ", "\n", " /* µ */ "]).join(stmts))
    return out


_W_SWEEP = [1, 2, 3, 8, 16, 31, 32, 63, 64, 128, 1 << 31, (1 << 32) - 1, 1 << 32, (1 << 32) + 1, (1 << 32) + 7,
            1 << 33, (1 << 64) + 5]
_SCALARS = ["int", "uint", "float", "angle", "complex", "bool", "bit", "duration", "stretch"]


def _type_text(r, base, w):
    if base in ("bool", "duration", "stretch") or w is None:
        return base
    if base == "complex":
        return "complex[float[%s]]" % w
    return "%s[%s]" % (base, w)


def _init_for(r, base):
    return {"int": "3", "uint": "3", "float": "1.5", "angle": "0.5", "complex": "1.5im", "bool": "true",
            "bit": "\"1\"", "duration": "3ns", "stretch": "3ns"}[base]


def gen_decl_programs(seed, n):
    """declarations of every form x widths across [1, 2^33] (literal and identifier designators),
    gate / def signatures, arithmetic over operand type pairs, stdgates listing"""
    r = random.Random(seed * 7919 + 5)
    out = []
    ops = ["+", "-", "*", "/", "%", "<<", ">>", "|", "&", "^"]
    smallw = [None, 8, 16, 32, 64]
    for _ in range(n):
        c = r.random()
        base = r.choice(_SCALARS)
        w = r.choice(_W_SWEEP)
        wt = spell_int(r, w, upper_prefix=0.0) if r.random() < 0.3 else str(w)
        if c < 0.2:
            # literal designator sweep over the declaration forms
            form = r.choice(["classical", "const", "io", "qubit", "loop", "defparam", "cast", "nested"])
            ty = _type_text(r, base, wt if r.random() < 0.85 else None)
            if form == "classical":
                p = "%s x;" % ty
            elif form == "const":
                p = "const %s x = %s;" % (ty, _init_for(r, base))
            elif form == "io":
                p = "%s %s x;" % (r.choice(["input", "output"]), ty)
            elif form == "qubit":
                p = r.choice(["qubit[%s] q;", "qreg q[%s];", "bit[%s] b;", "creg c[%s];"]) % wt
            elif form == "loop":
                p = "for %s i in [0:3] { %s; }" % (_type_text(r, r.choice(["int", "uint", "float"]), wt), "i")
            elif form == "defparam":
                p = "def f(%s a, qubit[%s] q, %s b) -> %s { }" % (
                    ty, r.choice([1, 2, 5]), _type_text(r, r.choice(_SCALARS), r.choice(smallw)),
                    _type_text(r, r.choice(_SCALARS), r.choice(smallw)))
            elif form == "cast":
                p = "int a; %s(a);" % _type_text(r, r.choice(["int", "uint", "float", "angle"]), r.choice([None, 8, 32, wt]))
            else:
                p = "if (true) { %s x; } def g() { const %s y = %s; }" % (ty, ty, _init_for(r, base))
        elif c < 0.42:
            # identifier designators
            v = r.choice(_W_SWEEP + [0, 5, 7])
            kind = r.choice(["constint", "constint", "constuint", "constw", "neg", "constfloat", "constangle",
                             "nonconst", "nonconstinit", "input", "constbool"])
            decl = {
                "constint": "const int n = %d;" % v,
                "constuint": "const uint n = %d;" % v,
                "constw": "const int[%d] n = %d;" % (r.choice([8, 16, 32, 64]), v),
                "neg": "const int n = -%d;" % max(v, 1),
                "constfloat": "const float n = %d;" % v,
                "constangle": "const angle[8] n = %d;" % v,
                "nonconst": "%s n;" % r.choice(["int", "uint[8]", "float", "bool", "duration"]),
                "nonconstinit": "int n = %d;" % v,
                "input": "input int n;",
                "constbool": "const complex n = %d;" % v,
            }[kind]
            use = r.choice(["%s x;", "const %s x = 1;", "input %s x;", "qubit[n] q;", "bit[n] b;",
                            "def f(%s a) { }", "for %s i in [0:1] { }", "if (true) { %s x; }", "gate g q { %s x; }"])
            b2 = r.choice(["int", "uint", "float", "angle", "complex", "bit"])
            p = decl + " " + (use % _type_text(r, b2, "n") if "%s" in use else use)
        elif c < 0.55:
            # gate and def signatures
            na, nq = r.randrange(0, 5), r.randrange(1, 5)
            angs = ["a%d" % i for i in range(na)]
            qs = ["q%d" % i for i in range(nq)]
            if r.random() < 0.1 and na > 1:
                angs[1] = angs[0]
            g = "gate g%s %s { %s }" % ("(" + ", ".join(angs) + ")" if (na or r.random() < 0.3) else "",
                                         ", ".join(qs), r.choice(["", "U(0, 0, 0) q0;", "gphase(1.0);"]))
            npar = r.randrange(0, 5)
            pars = []
            for i in range(npar):
                pb = r.choice(_SCALARS + ["qubit"])
                pars.append("%s p%d" % (_type_text(r, pb, r.choice(smallw + [wt])) if pb != "qubit"
                                       else r.choice(["qubit", "qubit[3]"]), i))
            ret = "" if r.random() < 0.3 else " -> " + _type_text(r, r.choice(_SCALARS), r.choice(smallw))
            d = "def f(%s)%s { }" % (", ".join(pars), ret)
            extra = r.choice(["", "qubit z; let al = z;", "qubit[4] z; let al = z[0:1];", "if (true) { gate U q {} }",
                              "include \"stdgates.inc\";", "gate x q { } include \"stdgates.inc\";",
                              "include \"stdgates.inc\"; gate h q { }"])
            p = " ".join(r.sample([g, d, extra], 3))
        elif c < 0.85:
            # arithmetic over operand type pairs; declaration / assignment from each value form
            pool = ["int", "uint", "float", "complex", "complex"] if r.random() < 0.3 else _SCALARS
            ta = _type_text(r, r.choice(pool), r.choice(smallw))
            tb = _type_text(r, r.choice(pool), r.choice(smallw))
            ca = "const " if r.random() < 0.3 else ""
            cb = "const " if r.random() < 0.3 else ""
            ia = " = " + _init_for(r, ta.split("[")[0]) if (ca or r.random() < 0.3) else ""
            ib = " = " + _init_for(r, tb.split("[")[0]) if (cb or r.random() < 0.3) else ""
            tt = _type_text(r, r.choice(_SCALARS), r.choice(smallw))
            val = r.choice(["a %s b" % r.choice(ops), "a", "b", "-a", "(a %s 2)" % r.choice(ops),
                            "a %s 1.5" % r.choice(ops), "%s(a)" % tb, "f(a)", "measure q", "measure qq",
                            "2 %s 3" % r.choice(ops), "a %s b %s a" % (r.choice(ops), r.choice(ops)), "5", "-5", "2.5",
                            "3im", "2.5im", "true", "\"0101\"", "4ns"])
            use = r.choice(["%s;" % val, "%s t = %s;" % (tt, val), "const %s t = %s;" % (tt, val),
                            "%s t; t = %s;" % (tt, val)])
            p = "qubit q; qubit[4] qq; %s%s a%s; %s%s b%s; def f(%s z) -> %s { return z; } %s" % (
                ca, ta, ia, cb, tb, ib, ta, tb, use)
        else:
            # designators in casts / return types / nested forms with suffix spellings
            p = r.choice([
                "include \"stdgates.inc\"; qubit q; h q; cx q, q;",
                "gate cx a, b { } include \"stdgates.inc\";",
                "include \"stdgates.inc\"; include \"stdgates.inc\";",
                "qubit q; gate g(t) a { U(t, 0, 0) a; } g(1.5) q;",
                "const int n = 4; qubit[n] q; bit[n] c; c = measure q;",
                "bit[%s] b = \"101\";" % wt,
                "complex[float[%s]] z = 2.5im;" % wt,
                "input angle[%s] th; output bit[%s] o;" % (r.choice([8, 16]), r.choice([1, 4])),
            ])
        out.append(p)
    return out


# --------------------------------------------------------------------------------------------
# runner
# --------------------------------------------------------------------------------------------
EXE = "/verif/harness/target/debug/oq3-run"


def _enc(s):
    return ".".join("%x" % ord(ch) for ch in s)


def run_harness(mode, srcs, exe=EXE):
    import subprocess
    if not srcs:
        return []
    p = subprocess.run([exe, mode], input="\n".join(_enc(s) for s in srcs) + "\n",
                       capture_output=True, text=True)
    lines = p.stdout.split("\n")
    if lines and lines[-1] == "":
        lines.pop()
    if len(lines) != len(srcs):
        raise RuntimeError("%s %s: %d lines for %d cases (rc=%s)" % (exe, mode, len(lines), len(srcs), p.returncode))
    return lines


def _selftest(exe=EXE):
    """the oracle has teeth: each deliberately corrupted (ast_line, sema_line) pair must be flagged"""
    cases = [
        # (source, which line, old, new, check name that must fire)
        ("int x = 42;", "sema", "(Int 42 +)", "(Int 43 +)", "int_value"),
        ("int[8] x = 5;", "sema", "7:x78:Int_8_n", "7:x78:Int_9_n", "declared_type"),
        ("int[8] x = 5;", "sema", "7:x78:Int_8_n", "7:x78:Int_8_c", "declared_type"),
        ("float[32] x = 5;", "sema", "(T Float_32_n (Cast Float_32_n (T Int_128_c (Lit (Int 5 +)))))",
         "(T Int_128_c (Lit (Int 5 +)))", "decl_decision"),
        ("int x = 2.5;", "sema", "errors=IncompatibleTypesError@0-12", "errors=", "decl_decision"),
        ("int x = 2.5;", "sema", "errors=IncompatibleTypesError@0-12", "errors=", "no_silent_downward"),
        ("1.5;", "sema", "f:1.5", "f:1.5000000000000002", "float_value"),
        ("\"0101\";", "sema", "BitArray_4_c", "BitArray_5_c", "bitstring_width"),
        ("\"0101\";", "sema", "b:0101", "b:0111", "bitstring_value"),
        ("3ns;", "sema", "NanoSecond", "MicroSecond", "timing_int_value"),
        ("-7;", "sema", "(Int 7 -)", "(Int 7 +)", "int_value_neg"),
        ("true;", "sema", "(Bool 1)", "(Bool 0)", "bool_value"),
        ("int a; float b; a + b;", "sema", "(T Float_-_n (Bin", "(T Int_-_n (Bin", "well_typed"),
        ("int[8] a; int[16] b; a + b;", "sema", "(T Int_16_n (Bin Arith.Add (T Int_16_n (Cast Int_16_n (T Int_8_n",
         "(T Int_4_n (Bin Arith.Add (T Int_4_n (Cast Int_4_n (T Int_8_n", "arith_common_type"),
        ("gate g(a) q {}", "sema", "gates=g:1:1", "gates=g:2:1", "gates_listing"),
        ("gate g(a) q {}", "sema", ":Gate_1_1;", ":Gate_2_1;", "gate_signature"),
        ("qubit q; bit b = measure q;", "sema", "(T Bit_n (Measure", "(T Bool_n (Measure", "well_typed"),
        ("0x1F;", "ast", "(IntNumber x30.78.31.46 31)", "(IntNumber x30.78.31.46 32)", "accessor_int"),
        ("int x; x;", "sema", "(T Int_-_n (Ident ok:7))", "(T Float_-_n (Ident ok:7))", "well_typed"),
        ("include \"stdgates.inc\";", "sema", ",cx:0:2", "", "stdgates_listing"),
        ("def f(int[8] a) -> float[32] { return 1.5; }", "sema", "Float_32_c))", "Float_64_c))", "def_return_printed"),
        ("def f(int[8] a) -> float[32] { return 1.5; }", "sema", ":Int_8_n", ":Int_8_c", "declared_type"),
        ("uint u; u = -1;", "sema", "errors=CastError@8-15", "errors=", "assign_decision"),
        ("uint u; u = -1;", "sema", "errors=CastError@8-15", "errors=", "no_silent_downward"),
        ("const int n = 4; bit[n] b;", "sema", "BitArray_4_n", "BitArray_5_n", "const_designator"),
        ("2.5im;", "sema", "(ImFloat f:2.5)", "(ImFloat f:-2.5)", "imag_float_value"),
        ("int[4294967297] x;", "sema", "Int_1_n", "Int_2_n", "width_truncated"),
        ("qubit[3] q;", "sema", "QubitArray_3", "QubitArray_4", "declared_type"),
        ("int[32](1.5);", "sema", "Int_32_c", "Int_16_c", "cast_written_type"),
        ("1_000.5e1;", "ast", "x31.30.30.30.35", "x31.30.30.30.36", "accessor_float"),
    ]
    srcs = sorted({c[0] for c in cases})
    al = dict(zip(srcs, run_harness("ast", srcs, exe)))
    sl = dict(zip(srcs, run_harness("sema", srcs, exe)))
    n = 0
    for src, which, old, new, want in cases:
        a, s = al[src], sl[src]
        base = check(src, a, s)
        base_un = [f for f in base if not attribute(src, a, s, f)]
        assert not base_un, ("selftest base case not clean", src, base_un)
        line = a if which == "ast" else s
        assert old in line, ("selftest: pattern not in line", src, old, line)
        line2 = line.replace(old, new)
        fs = check(src, line2 if which == "ast" else a, line2 if which == "sema" else s)
        new_fs = [f for f in fs if f not in base]
        assert any(f[1] == want for f in new_fs), ("selftest: corruption NOT flagged", src, old, new, want, new_fs)
        # the F17 guard must not absorb a width that is not value mod 2^32
        if want == "width_truncated":
            f = [f for f in new_fs if f[1] == want][0]
            assert not g_F17(src, a, line2, f), "F17 guard too wide"
        n += 1
    # every finding's witness is flagged and attributed to exactly its own finding
    ws = [FINDINGS[k]["witness"] for k in FINDINGS]
    wa, wsem = run_harness("ast", ws, exe), run_harness("sema", ws, exe)
    for k, src, a, s in zip(FINDINGS, ws, wa, wsem):
        fs = check(src, a, s)
        ids = [attribute(src, a, s, f) for f in fs]
        assert any(i == [k] for i in ids), ("witness of %s is not attributed to it" % k, src, fs, ids)
        assert all(len(i) == 1 for i in ids), ("witness of %s has unattributed / ambiguous failures" % k, fs, ids)
    return n, len(ws)


def main(argv=None):
    import argparse
    import time
    ap = argparse.ArgumentParser(description="C08/C09/C10 oracle: validation run on the unchanged code")
    ap.add_argument("--n", type=int, default=20000, help="number of gen_prog cases (spread over 4 seeds)")
    ap.add_argument("--seed", type=int, default=1)
    ap.add_argument("--lit", type=int, default=6000, help="number of gen_literal_programs cases")
    ap.add_argument("--decl", type=int, default=6000, help="number of gen_decl_programs cases")
    ap.add_argument("--exe", default=EXE)
    ap.add_argument("--show", type=int, default=5, help="unattributed failures to print")
    args = ap.parse_args(argv)
    sys.path.insert(0, "/verif/vf")
    import gen_prog
    t0 = time.time()
    nt, nw = _selftest(args.exe)
    print("selftest: %d corruptions flagged, %d finding witnesses attributed" % (nt, nw))
    sets = []
    per = (args.n + 3) // 4
    for i in range(4):
        sets.append(("gen_prog seed %d" % (args.seed + i), gen_prog.gen_programs(args.seed + i, per)))
    sets.append(("table_programs", gen_prog.table_programs()))
    sets.append(("gen_literal_programs", gen_literal_programs(args.seed, args.lit)))
    sets.append(("gen_decl_programs", gen_decl_programs(args.seed, args.decl)))
    COUNTS.clear()
    total = skipped = 0
    skip_kinds = collections.Counter()
    by = collections.Counter()
    unattributed = []
    ambiguous = []
    for name, srcs in sets:
        al = run_harness("ast", srcs, args.exe)
        sl = run_harness("sema", srcs, args.exe)
        ran = 0
        for src, a, s in zip(srcs, al, sl):
            total += 1
            if not a.startswith("(Program") or not s.startswith("asg="):
                skipped += 1
                skip_kinds[(s if not s.startswith("asg=") else a).split(" ")[0]] += 1
                continue
            ran += 1
            for f in check(src, a, s):
                ids = attribute(src, a, s, f)
                if len(ids) == 1:
                    by[(f[0], f[1], ids[0])] += 1
                elif not ids:
                    unattributed.append((src, f, s))
                else:
                    ambiguous.append((src, f, ids))
        print("%-28s %6d cases, %6d analysed" % (name, len(srcs), ran))
    print("cases run: %d   analysed: %d   skipped: %d  %s" % (total, total - skipped, skipped, dict(skip_kinds)))
    print("clauses evaluated per check name:")
    for k in sorted(COUNTS):
        print("  %8d  %s" % (COUNTS[k], k))
    print("failures by (property, check, finding):")
    for k in sorted(by):
        print("  %8d  %s %s -> %s" % (by[k], k[0], k[1], k[2]))
    print("ambiguously attributed failures: %d" % len(ambiguous))
    for src, f, ids in ambiguous[:args.show]:
        print("   ", ids, f, repr(src)[:200])
    print("unattributed failures: %d" % len(unattributed))
    for src, f, s in unattributed[:args.show]:
        print("   ", f)
        print("      src:", repr(src)[:300])
    print("elapsed %.1fs" % (time.time() - t0))
    return 1 if (unattributed or ambiguous) else 0


if __name__ == "__main__":
    sys.exit(main())
