"""C08 — every typed expression is well typed; declaration/assignment decisions; no silent downward conversion."""
from . import semacheck as SC
from . import oracle_sema_b as OB


def progs(ctx):
    q = ctx.tier == "quick"
    return SC.default_programs(ctx, OB.gen_decl_programs(ctx.seed, 2500 if q else 40000) + OB.gen_literal_programs(ctx.seed, 1000 if q else 20000))


def typing_diagnostics_through_includes(ctx, recs, failures):
    """a type mismatch is diagnosed wherever the offending statement is written: the typing diagnostics of a program
    with (nested) real includes, collected over the whole include tree, are those of the spliced text"""
    import json, random, re
    from . import c18
    from . import common as C
    from . import gen_text as G
    from . import pipeline as PL
    rnd = random.Random(ctx.seed + 81)
    n = 300 if ctx.tier == "quick" else 5000
    cases = [c18.chain_case(rnd, 300000 + i) for i in range(n)]
    out = C.run_impl(ctx, "include", [json.dumps({k: v for k, v in c.items() if k != "root"}) for c in cases], tag="c08inc")
    spl = [c18.splice(c, c["main"]) for c in cases]
    sp = C.run_impl(ctx, "sema", [G.enc(t or "") for t in spl], tag="c08spl")
    TY = ("IncompatibleTypesError", "IncompatibleDimensionError", "CastError")
    nchk = 0
    for c, a, t, b in zip(cases, out, spl, sp):
        if t is None or not a.startswith("asg=") or not b.startswith("asg="):
            continue
        nchk += 1
        tree = sorted(k for k in re.findall(r"([A-Za-z]+)@\d+-\d+", a.split(";semtree=", 1)[1]) if k in TY)
        flat = sorted(x.split("@")[0] for x in PL.fields(b).get("errors", "").split(",") if x.split("@")[0] in TY)
        if tree != flat:
            failures.append({"case": json.dumps({k: v for k, v in c.items() if k != "root"}), "check": "diagnosed_through_includes",
                             "detail": {"main": c["main"], "files": c["files"], "typing_diagnostics_with_includes": tree, "of_spliced_text": flat},
                             "guards": set(), "model_agrees": True,
                             "replay_how": "echo '<case json>' | /verif/harness/target/debug/oq3-run include ; compare semtree= with errors= of oq3-run sema on the spliced text"})
    ctx.coverage["include_chains_compared"] = nchk


def check(ctx):
    return SC.run(ctx, "C08", ["Oq3.Props.C08", "Oq3.Props.C08Prog"], [OB], progs(ctx), post=typing_diagnostics_through_includes, rule=
                  "generated programs + declaration/arithmetic programs over operand type pairs x widths x const; oracle: typing rules re-derived per graph node (literal, cast, measure, unary, arithmetic common type and operand casts, identifiers, gate operands, calls, return), declaration and assignment decision tables, no silent downward conversion")
