"""C08 — every typed expression is well typed; declaration/assignment decisions; no silent downward conversion."""
from . import semacheck as SC
from . import oracle_sema_b as OB


def progs(ctx):
    q = ctx.tier == "quick"
    return SC.default_programs(ctx, OB.gen_decl_programs(ctx.seed, 2500 if q else 40000) + OB.gen_literal_programs(ctx.seed, 1000 if q else 20000))


def check(ctx):
    return SC.run(ctx, "C08", ["Oq3.Props.C08", "Oq3.Props.C08Prog"], [OB], progs(ctx),
                  "generated programs + declaration/arithmetic programs over operand type pairs x widths x const; oracle: typing rules re-derived per graph node (literal, cast, measure, unary, arithmetic common type and operand casts, identifiers, gate operands, calls, return), declaration and assignment decision tables, no silent downward conversion")
