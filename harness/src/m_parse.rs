// Mode `parse` (stub; filled in with the grammar correspondence).
pub fn line(_line: &str) -> String {
    "not-implemented".into()
}
