// Mode `parse`: the real parser (`oq3_parser::TopEntryPoint::SourceFile.parse`) on one case
// line, printed in the canonical I3 form (see /verif/DESIGN.md §2.1 and
// /verif/lean/Oq3/Driver/Parse.lean, which prints the grammar model's view in the same form).
//
// Case line: space-separated `SyntaxKind` names (their `Debug` form), each optionally suffixed
// with `+` when the token is joint with the next one; the empty line is the empty input.
//
// Output: `pos=<sum of n_input_tokens>;steps=<S1> <S2> …;bal=1` with steps `E:<KIND>`, `X`,
// `T:<KIND>:<n>`, `R:<message with spaces replaced by _>`; `bal=1` because the debug balance
// assertions of `TopEntryPoint::parse` are compiled in and did not fire.  A panic is
// `PANIC <file>:<line> <message>`.
use crate::codec::last_panic;
use oq3_parser::{Input, Step, SyntaxKind, TopEntryPoint};
use std::cell::RefCell;
use std::collections::HashMap;
use std::panic::{catch_unwind, AssertUnwindSafe};

thread_local! {
    static KINDS: RefCell<Option<HashMap<String, SyntaxKind>>> = const { RefCell::new(None) };
}

fn kind_by_name(name: &str) -> Option<SyntaxKind> {
    KINDS.with(|k| {
        let mut k = k.borrow_mut();
        let map = k.get_or_insert_with(|| {
            let mut m = HashMap::new();
            for d in 0..=(SyntaxKind::__LAST as u16) {
                let kind = SyntaxKind::from(d);
                m.insert(format!("{:?}", kind), kind);
            }
            m
        });
        map.get(name).copied()
    })
}

/// `A+ B` = push(A); was_joint(); push(B): `was_joint` marks the last pushed token as joint
/// with the next one.
fn build_input(line: &str) -> Result<Input, String> {
    let mut input = Input::default();
    for w in line.split(' ') {
        if w.is_empty() {
            continue;
        }
        let (name, joint) = match w.strip_suffix('+') {
            Some(n) => (n, true),
            None => (w, false),
        };
        let kind = kind_by_name(name).ok_or_else(|| format!("unknown kind {name}"))?;
        input.push(kind);
        if joint {
            input.was_joint();
        }
    }
    Ok(input)
}

fn run(input: &Input) -> String {
    let out = TopEntryPoint::SourceFile.parse(input);
    let mut pos: usize = 0;
    let mut steps: Vec<String> = Vec::new();
    for step in out.iter() {
        match step {
            Step::Enter { kind } => steps.push(format!("E:{:?}", kind)),
            Step::Exit => steps.push("X".to_string()),
            Step::Token {
                kind,
                n_input_tokens,
            } => {
                pos += n_input_tokens as usize;
                steps.push(format!("T:{:?}:{}", kind, n_input_tokens));
            }
            Step::Error { msg } => steps.push(format!("R:{}", msg.replace(' ', "_"))),
            Step::FloatSplit { ends_in_dot } => steps.push(format!("F:{}", ends_in_dot as u8)),
        }
    }
    format!("pos={};steps={};bal=1", pos, steps.join(" "))
}

pub fn line(line: &str) -> String {
    let input = match build_input(line) {
        Ok(i) => i,
        Err(e) => return format!("bad-case {e}"),
    };
    match catch_unwind(AssertUnwindSafe(|| run(&input))) {
        Ok(s) => s,
        Err(_) => format!("PANIC {}", last_panic()),
    }
}
