// Direct tie of the Lean model `Oq3.Unescape.unescapeLiteral` (lean/Oq3/Model/Unescape.lean) to
// `oq3_lexer::unescape::unescape_literal`: `validate_literal` drops the END of every callback range
// and the two warnings, so they cannot be observed through the `tree` mode of `oq3-run`.
//
// One request per line: `cb <Str|BitStr> <hex code points of the literal's CONTENTS>`
// answer: every callback in order, `cbs=<start>-<end>:<Ok|EscapeError variant>,...`
// (same protocol as the third request form of `driver unescape`).
use oq3_lexer::unescape::{unescape_literal, Mode};
use std::io::{self, BufRead, Write};

fn unhex(s: &str) -> Option<String> {
    if s.is_empty() {
        return Some(String::new());
    }
    s.split('.')
        .map(|x| u32::from_str_radix(x, 16).ok().and_then(char::from_u32))
        .collect()
}

fn answer(line: &str) -> String {
    let ws: Vec<&str> = line.split_whitespace().collect();
    if ws.len() < 2 || ws.len() > 3 || ws[0] != "cb" {
        return "bad-line".into();
    }
    let mode = match ws[1] {
        "Str" => Mode::Str,
        "BitStr" => Mode::BitStr,
        _ => return "bad-line".into(),
    };
    let text = match unhex(if ws.len() == 3 { ws[2] } else { "" }) {
        Some(t) => t,
        None => return "bad-line".into(),
    };
    let r = std::panic::catch_unwind(|| {
        let mut out: Vec<String> = Vec::new();
        unescape_literal(&text, mode, &mut |range, res| {
            let what = match res {
                Ok(_) => "Ok".to_string(),
                Err(e) => format!("{e:?}"),
            };
            out.push(format!("{}-{}:{}", range.start, range.end, what));
        });
        format!("cbs={}", out.join(","))
    });
    r.unwrap_or_else(|_| "PANIC unescape_literal".into())
}

fn main() {
    let stdin = io::stdin();
    let stdout = io::stdout();
    let mut out = io::BufWriter::new(stdout.lock());
    for line in stdin.lock().lines() {
        writeln!(out, "{}", answer(&line.unwrap())).unwrap();
        out.flush().unwrap();
    }
}
