// Mode `tree` (I4): source text -> the real CST (both entry points), its diagnostics, and the
// property oracle of C02/C12 evaluated on the real tree:
//   tree=<sexp>;errors=<start-end:msg,...>;cl=<none|same|DIFF>;clerrors=<...>;oracle=<ok|FAIL:...>
// sexp: nodes `(KIND start end child...)`, tokens `KIND:start:end:<hex text>`.
use crate::codec::last_panic;
use oq3_syntax::{SourceFile, SyntaxKind, SyntaxNode};
use rowan::NodeOrToken;
use std::panic::{catch_unwind, AssertUnwindSafe};

fn hex(s: &str) -> String {
    s.chars()
        .map(|c| format!("{:x}", c as u32))
        .collect::<Vec<_>>()
        .join(".")
}

pub fn unhex(line: &str) -> Option<String> {
    if line.is_empty() {
        return Some(String::new());
    }
    line.split('.')
        .map(|x| u32::from_str_radix(x, 16).ok().and_then(char::from_u32))
        .collect()
}

fn sexp(node: &SyntaxNode, out: &mut String, oracle: &mut Vec<String>, text: &str) {
    let r = node.text_range();
    let (s, e): (usize, usize) = (r.start().into(), r.end().into());
    out.push_str(&format!("({:?} {} {}", node.kind(), s, e));
    // oracle: children tile the parent
    let mut pos = s;
    let mut n = 0;
    for ch in node.children_with_tokens() {
        let cr = ch.text_range();
        let (cs, ce): (usize, usize) = (cr.start().into(), cr.end().into());
        if cs != pos {
            oracle.push(format!("gap-or-overlap in {:?}@{}-{} at {}", node.kind(), s, e, cs));
        }
        pos = ce;
        n += 1;
        out.push(' ');
        match ch {
            NodeOrToken::Node(c) => sexp(&c, out, oracle, text),
            NodeOrToken::Token(t) => {
                if text.get(cs..ce) != Some(t.text()) {
                    oracle.push(format!("token text mismatch at {cs}-{ce}"));
                }
                out.push_str(&format!("{:?}:{}:{}:{}", t.kind(), cs, ce, hex(t.text())));
            }
        }
    }
    if n > 0 && pos != e {
        oracle.push(format!("children do not reach the end of {:?}@{}-{}", node.kind(), s, e));
    }
    out.push(')');
}

fn count_error_nodes(node: &SyntaxNode) -> usize {
    node.descendants_with_tokens()
        .filter(|x| x.kind() == SyntaxKind::ERROR)
        .count()
}

fn show_errors(errs: &[oq3_syntax::SyntaxError], text: &str, oracle: &mut Vec<String>) -> String {
    errs.iter()
        .map(|e| {
            let r = e.range();
            let (s, en): (usize, usize) = (r.start().into(), r.end().into());
            if !(s <= en && en <= text.len() && text.is_char_boundary(s) && text.is_char_boundary(en)) {
                oracle.push(format!("diagnostic range {s}-{en} invalid for text of {} bytes", text.len()));
            }
            format!("{}-{}:{}", s, en, e.message().replace(' ', "_").replace(';', "%3b").replace(',', "%2c").replace('\r', "%0d").replace('\n', "%0a"))
        })
        .collect::<Vec<_>>()
        .join(",")
}

pub fn line(line: &str) -> String {
    let text = match unhex(line) {
        Some(t) => t,
        None => return "bad-line".into(),
    };
    let r = catch_unwind(AssertUnwindSafe(|| {
        let mut oracle: Vec<String> = Vec::new();
        let p = SourceFile::parse(&text);
        let root = p.syntax_node();
        let mut out = String::new();
        sexp(&root, &mut out, &mut oracle, &text);
        if root.text().to_string() != text {
            oracle.push("leaves do not spell the input".into());
        }
        if root.kind() != SyntaxKind::SOURCE_FILE {
            oracle.push("root is not SOURCE_FILE".into());
        }
        let rr = root.text_range();
        if usize::from(rr.start()) != 0 || usize::from(rr.end()) != text.len() {
            oracle.push("root does not span [0,len)".into());
        }
        let nerr_nodes = count_error_nodes(&root);
        if nerr_nodes > 0 && p.errors().is_empty() {
            oracle.push(format!("{nerr_nodes} ERROR node(s)/token(s) but no diagnostic"));
        }
        let errors = show_errors(p.errors(), &text, &mut oracle);
        // the lex-checked entry point
        let q = SourceFile::parse_check_lex(&text);
        let clerrors = show_errors(q.errors(), &text, &mut oracle);
        let cl = if q.have_parse() {
            let mut out2 = String::new();
            let mut o2 = Vec::new();
            sexp(&q.syntax_node(), &mut out2, &mut o2, &text);
            if out2 == out {
                "same"
            } else {
                "DIFF"
            }
        } else {
            "none"
        };
        let orc = if oracle.is_empty() {
            "ok".to_string()
        } else {
            format!("FAIL:{}", oracle.join("|").replace(';', ","))
        };
        format!("tree={out};errors={errors};cl={cl};clerrors={clerrors};nerr={nerr_nodes};oracle={orc}")
    }));
    match r {
        Ok(s) => s,
        Err(_) => format!("PANIC {}", last_panic()),
    }
}
