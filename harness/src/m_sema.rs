// Mode `sema` — interface I6 (DESIGN.md §2.1): the result of the real semantic pass on one source
// text, as ONE canonical line.
//
// case line = source text, dot-separated lowercase hex code points
// output    = `SYNTAX-ERRORS`                         if `any_syntax_errors()`
//           | `PANIC <file>:<line> <msg>`             if the pipeline panicked
//           | `UNSUPPORTED-INCLUDE`                   if a top-level include other than
//                                                     "stdgates.inc" was evaluated (the model has no
//                                                     file system yet; explicit outcome there too)
//           | `asg=(<stmt>...);symbols=<id:name(hex):type,...>;errors=<Kind@s-e,...>;depth=<n>;gates=<name:np:nq,...>`
//
// The ASG is walked through its public accessors only (`IndexExpression` through the
// `oq3_verif` hook `verif_parts`).  Every `TExpr` is `(T <type> <expr>)` with the type printed by
// `codec::show_t`, spaces replaced by `_`.  See the grammar in the final report / Driver/Sema.lean.
use crate::codec::{last_panic, show_t};
use crate::m_ast::{decode_src, hex};
use oq3_semantics::asg;
use oq3_semantics::semantic_error::SemanticErrorKind;
use oq3_semantics::symbols::{SymbolError, SymbolIdResult, SymbolTable};
use oq3_semantics::syntax_to_semantics::analyze_source;
use oq3_semantics::types::Type;
use oq3_source_file::SourceTrait;
use std::panic::{catch_unwind, AssertUnwindSafe};
use std::path::PathBuf;

fn ty(t: &Type) -> String {
    show_t(t).replace(' ', "_")
}

fn sym(s: &SymbolIdResult) -> String {
    match s {
        Ok(id) => format!("ok:{}", SymbolTable::verif_id_value(id)),
        Err(SymbolError::MissingBinding) => "err:MissingBinding".into(),
        Err(SymbolError::AlreadyBound) => "err:AlreadyBound".into(),
    }
}

fn opt<T>(o: Option<T>, f: impl FnOnce(T) -> String) -> String {
    match o {
        Some(x) => f(x),
        None => "_".into(),
    }
}

fn list<'a, T: 'a>(it: impl IntoIterator<Item = &'a T>, f: impl Fn(&'a T) -> String) -> String {
    let v: Vec<String> = it.into_iter().map(f).collect();
    format!("({})", v.join(" "))
}

fn b(x: bool) -> &'static str {
    if x {
        "1"
    } else {
        "0"
    }
}

fn sign(x: bool) -> &'static str {
    if x {
        "+"
    } else {
        "-"
    }
}

fn time_unit(u: &asg::TimeUnit) -> &'static str {
    match u {
        asg::TimeUnit::Second => "Second",
        asg::TimeUnit::MilliSecond => "MilliSecond",
        asg::TimeUnit::MicroSecond => "MicroSecond",
        asg::TimeUnit::NanoSecond => "NanoSecond",
        asg::TimeUnit::Cycle => "Cycle",
    }
}

fn literal(l: &asg::Literal) -> String {
    use asg::Literal::*;
    match l {
        Bool(v) => format!("(Bool {})", b(*v.value())),
        Int(v) => format!("(Int {} {})", v.value(), sign(*v.sign())),
        Float(v) => format!("(Float f:{})", v.value()),
        ImaginaryInt(v) => format!("(ImInt {} {})", v.value(), sign(*v.sign())),
        ImaginaryFloat(v) => format!("(ImFloat f:{})", v.value()),
        BitString(v) => format!("(BitString b:{})", v.value()),
        TimingIntLiteral(v) => format!(
            "(TimingInt {} {} {})",
            v.value(),
            sign(*v.sign()),
            time_unit(v.time_unit())
        ),
        TimingFloatLiteral(v) => format!(
            "(TimingFloat f:{} {} {})",
            v.value(),
            sign(*v.sign()),
            time_unit(v.time_unit())
        ),
        Array => "Array".into(),
    }
}

fn arith_op(op: &asg::ArithOp) -> &'static str {
    use asg::ArithOp::*;
    match op {
        Add => "Add",
        Sub => "Sub",
        Mul => "Mul",
        Div => "Div",
        Mod => "Mod",
        Rem => "Rem",
        Shl => "Shl",
        Shr => "Shr",
        BitXOr => "BitXOr",
        BitOr => "BitOr",
        BitAnd => "BitAnd",
    }
}

fn binary_op(op: &asg::BinaryOp) -> String {
    match op {
        asg::BinaryOp::ArithOp(a) => format!("Arith.{}", arith_op(a)),
        asg::BinaryOp::CmpOp(asg::CmpOp::Eq) => "Cmp.Eq".into(),
        asg::BinaryOp::CmpOp(asg::CmpOp::Neq) => "Cmp.Neq".into(),
        asg::BinaryOp::ConcatenationOp => "Concat".into(),
        asg::BinaryOp::PowerOp => "Power".into(),
    }
}

fn unary_op(op: &asg::UnaryOp) -> &'static str {
    match op {
        asg::UnaryOp::Minus => "Minus",
        asg::UnaryOp::Not => "Not",
        asg::UnaryOp::BitNot => "BitNot",
    }
}

fn index_operator(i: &asg::IndexOperator) -> String {
    match i {
        asg::IndexOperator::SetExpression(s) => format!("(IxSet {})", list(s.expressions(), texpr)),
        asg::IndexOperator::ExpressionList(l) => format!("(IxList {})", list(&l.expressions, texpr)),
    }
}

fn indexed_identifier(i: &asg::IndexedIdentifier) -> String {
    format!(
        "(IndexedIdent {} {})",
        sym(i.identifier()),
        list(i.indexes(), index_operator)
    )
}

fn range_expression(r: &asg::RangeExpression) -> String {
    format!(
        "(Range {} {} {})",
        texpr(r.start()),
        opt(r.step(), texpr),
        texpr(r.stop())
    )
}

fn set_expression(s: &asg::SetExpression) -> String {
    format!("(Set {})", list(s.expressions(), texpr))
}

fn expr(e: &asg::Expr) -> String {
    use asg::Expr::*;
    match e {
        BinaryExpr(x) => format!(
            "(Bin {} {} {})",
            binary_op(x.op()),
            texpr(x.left()),
            texpr(x.right())
        ),
        UnaryExpr(x) => format!("(Un {} {})", unary_op(x.op()), texpr(x.operand())),
        Literal(l) => format!("(Lit {})", literal(l)),
        Cast(c) => format!("(Cast {} {})", ty(c.get_type()), texpr(c.operand())),
        Identifier(s) => format!("(Ident {})", sym(s)),
        HardwareQubit(h) => format!("(HwQubit {})", hex(h.identifier())),
        IndexExpression(ix) => {
            let (e, i) = ix.verif_parts();
            format!("(IndexExpr {} {})", texpr(e), index_operator(i))
        }
        IndexedIdentifier(i) => indexed_identifier(i),
        GateOperand(g) => format!(
            "(GateOperand {})",
            match g {
                asg::GateOperand::Identifier(s) => format!("(GoIdent {})", sym(s)),
                asg::GateOperand::HardwareQubit(h) => format!("(GoHw {})", hex(h.identifier())),
                asg::GateOperand::IndexedIdentifier(i) =>
                    format!("(GoIndexed {})", indexed_identifier(i)),
            }
        ),
        Return(r) => format!("(Return {})", opt(r.value(), texpr)),
        SubroutineCall(c) => format!(
            "(Call {} {})",
            sym(c.name()),
            opt(c.params(), |p| list(p, texpr))
        ),
        MeasureExpression(m) => format!("(Measure {})", texpr(m.operand())),
        SetExpression(s) => set_expression(s),
        RangeExpression(r) => range_expression(r),
        NullExpr => "NullExpr".into(),
    }
}

fn texpr(t: &asg::TExpr) -> String {
    format!("(T {} {})", ty(t.get_type()), expr(t.expression()))
}

fn modifier(m: &asg::GateModifier) -> String {
    match m {
        asg::GateModifier::Inv => "Inv".into(),
        asg::GateModifier::Pow(e) => format!("(Pow {})", texpr(e)),
        asg::GateModifier::Ctrl(e) => format!("(Ctrl {})", opt(e.as_ref(), texpr)),
        asg::GateModifier::NegCtrl(e) => format!("(NegCtrl {})", opt(e.as_ref(), texpr)),
    }
}

fn block(bl: &asg::Block) -> String {
    format!("(Block {})", list(bl.statements(), stmt))
}

fn stmt(s: &asg::Stmt) -> String {
    use asg::Stmt::*;
    match s {
        Alias(a) => format!("(Alias {} {})", sym(a.name()), texpr(a.rhs())),
        AnnotatedStmt(a) => format!(
            "(Annotated {} {})",
            stmt(a.statement()),
            list(a.annotations(), |an| hex(an.annotation_text()))
        ),
        Assignment(a) => format!(
            "(Assignment {} {})",
            match a.lvalue() {
                asg::LValue::Identifier(s) => format!("(LIdent {})", sym(s)),
                asg::LValue::IndexedIdentifier(i) => format!("(LIndexed {})", indexed_identifier(i)),
            },
            texpr(a.rvalue())
        ),
        Barrier(x) => format!("(Barrier {})", opt(x.qubits(), |q| list(q, texpr))),
        Block(x) => format!("(BlockStmt {})", block(x)),
        Box => "Box".into(),
        Break => "Break".into(),
        Cal => "Cal".into(),
        Continue => "Continue".into(),
        DeclareClassical(d) => format!(
            "(DeclareClassical {} {})",
            sym(d.name()),
            opt(d.initializer(), texpr)
        ),
        DeclareQuantum(d) => format!("(DeclareQuantum {})", sym(d.name())),
        DeclareHardwareQubit(d) => {
            format!("(DeclareHardwareQubit {})", hex(d.name().identifier()))
        }
        DefStmt(d) => format!(
            "(DefStmt {} {} {} {})",
            sym(d.name()),
            list(d.params(), sym),
            block(d.block()),
            ty(d.return_type())
        ),
        DefCal => "DefCal".into(),
        Delay(d) => format!("(Delay {} {})", texpr(d.duration()), list(d.qubits(), texpr)),
        End => "End".into(),
        ExprStmt(e) => format!("(ExprStmt {})", texpr(e)),
        Extern => "Extern".into(),
        ForStmt(f) => format!(
            "(ForStmt {} {} {})",
            sym(f.loop_var()),
            match f.iterable() {
                asg::ForIterable::SetExpression(s) => format!("(IterSet {})", set_expression(s)),
                asg::ForIterable::RangeExpression(r) =>
                    format!("(IterRange {})", range_expression(r)),
                asg::ForIterable::Expr(e) => format!("(IterExpr {})", texpr(e)),
            },
            block(f.loop_body())
        ),
        GPhaseCall(g) => format!("(GPhaseCall {})", texpr(g.arg())),
        GateCall(g) => format!(
            "(GateCall {} {} {} {})",
            sym(g.name()),
            opt(g.params(), |p| list(p, texpr)),
            list(g.qubits(), texpr),
            list(g.modifiers(), modifier)
        ),
        GateDefinition(g) => format!(
            "(GateDefinition {} {} {} {})",
            sym(g.name()),
            opt(g.params(), |p| list(p, sym)),
            list(g.qubits(), sym),
            block(g.block())
        ),
        InputDeclaration(d) => format!("(InputDeclaration {})", sym(d.name())),
        OutputDeclaration(d) => format!("(OutputDeclaration {})", sym(d.name())),
        If(i) => format!(
            "(If {} {} {})",
            texpr(i.condition()),
            block(i.then_branch()),
            opt(i.else_branch(), block)
        ),
        Include(i) => format!("(Include {})", hex(i.file_path())),
        ModifiedGPhaseCall(g) => format!(
            "(ModifiedGPhaseCall {} {})",
            texpr(g.arg()),
            list(g.modifiers(), modifier)
        ),
        NullStmt => "NullStmt".into(),
        OldStyleDeclaration => "OldStyleDeclaration".into(),
        Pragma(p) => format!("(Pragma {})", hex(p.pragma_text())),
        Reset(r) => format!("(Reset {})", texpr(r.gate_operand())),
        SwitchCaseStmt(s) => format!(
            "(SwitchCase {} {} {})",
            texpr(s.control()),
            list(s.cases(), |c| format!(
                "(Case {} {})",
                list(c.control_values(), texpr),
                list(c.statements(), stmt)
            )),
            opt(s.default_block(), |d| list(d, stmt))
        ),
        While(w) => format!("(While {} {})", texpr(w.condition()), block(w.loop_body())),
    }
}

pub fn error_kind(k: &SemanticErrorKind) -> &'static str {
    use SemanticErrorKind::*;
    match k {
        UndefVarError => "UndefVarError",
        UndefGateError => "UndefGateError",
        RedeclarationError(_) => "RedeclarationError",
        ConstIntegerError => "ConstIntegerError",
        IncompatibleTypesError => "IncompatibleTypesError",
        IncompatibleDimensionError => "IncompatibleDimensionError",
        TooManyIndexes => "TooManyIndexes",
        CastError => "CastError",
        MutateConstError => "MutateConstError",
        NotInGlobalScopeError => "NotInGlobalScopeError",
        IncludeNotInGlobalScopeError => "IncludeNotInGlobalScopeError",
        ReturnInGlobalScopeError => "ReturnInGlobalScopeError",
        NumGateParamsError => "NumGateParamsError",
        NumGateQubitsError => "NumGateQubitsError",
        NumDefParamsError => "NumDefParamsError",
        FileNotFound => "FileNotFound",
        PermissionDenied => "PermissionDenied",
        IsADirectory => "IsADirectory",
        InvalidFilename => "InvalidFilename",
        InvalidDesignatorError => "InvalidDesignatorError",
        IOError => "IOError",
        NotImplementedError => "NotImplementedError",
    }
}

fn run(src: &str) -> String {
    // The two steps of `syntax_to_semantics::parse_source_string(src, None)`, with the
    // include check in between (so that the outcome does not depend on what analysis does later).
    let parsed = oq3_source_file::parse_source_string(src, None, None::<&[PathBuf]>);
    if parsed.have_syntax_errors() {
        return "SYNTAX-ERRORS".into();
    }
    if !parsed.included().is_empty() {
        return "UNSUPPORTED-INCLUDE".into();
    }
    let result = analyze_source(parsed);
    if result.any_syntax_errors() {
        return "SYNTAX-ERRORS".into();
    }
    show_result(&result)
}

/// the canonical I6 line of an analysis result (shared with mode `include`)
pub fn show_result<T: SourceTrait>(
    result: &oq3_semantics::syntax_to_semantics::ParseResult<T>,
) -> String {
    let asg_s = list(result.program().stmts(), stmt);
    let table = result.symbol_table();
    let n = table.verif_num_symbols();
    let symbols: Vec<String> = (0..n)
        .map(|i| {
            let (name, t) = table.verif_symbol(i);
            format!("{}:{}:{}", i, hex(name), ty(t))
        })
        .collect();
    let errors: Vec<String> = result
        .semantic_errors()
        .iter()
        .map(|e| {
            let r = e.range();
            format!(
                "{}@{}-{}",
                error_kind(e.kind()),
                u32::from(r.start()),
                u32::from(r.end())
            )
        })
        .collect();
    let gates: Vec<String> = table
        .gates()
        .map(|(name, _id, np, nq)| format!("{name}:{np}:{nq}"))
        .collect();
    format!(
        "asg={};symbols={};errors={};depth={};gates={}",
        asg_s,
        symbols.join(","),
        errors.join(","),
        table.verif_scope_depth(),
        gates.join(",")
    )
}

/// Mode `semapay`: the PAYLOADS of the semantic diagnostics in order (today only `RedeclarationError(name)` has
/// one), `-` for a diagnostic without payload: part of the result of an analysis that the canonical I6 line does
/// not carry (used by the determinism clause of C17).
fn run_payloads(src: &str) -> String {
    let parsed = oq3_source_file::parse_source_string(src, None, None::<&[PathBuf]>);
    if parsed.have_syntax_errors() {
        return "SYNTAX-ERRORS".into();
    }
    if !parsed.included().is_empty() {
        return "UNSUPPORTED-INCLUDE".into();
    }
    let result = analyze_source(parsed);
    let pay: Vec<String> = result
        .semantic_errors()
        .iter()
        .map(|e| match e.kind() {
            SemanticErrorKind::RedeclarationError(name) => hex(name),
            _ => "-".to_string(),
        })
        .collect();
    format!("epay={}", pay.join(","))
}

/// Mode `srcerrs`: the syntax diagnostics as the SOURCE-FILE layer (`oq3_source_file::parse_source_string`) hands
/// them out: `len=<bytes>;errs=<start>-<end>,...` (C12: ranges refer to the text the caller supplied).
fn run_srcerrs(src: &str) -> String {
    use oq3_source_file::SourceTrait as _;
    let parsed = oq3_source_file::parse_source_string(src, None, None::<&[PathBuf]>);
    let errs: Vec<String> = match parsed.syntax_ast() {
        Some(ast) => ast
            .errors()
            .iter()
            .map(|e| {
                let r = e.range();
                format!("{}-{}", u32::from(r.start()), u32::from(r.end()))
            })
            .collect(),
        None => vec![],
    };
    format!("len={};errs={}", src.len(), errs.join(","))
}

pub fn srcerrs_line(line: &str) -> String {
    let src = match decode_src(line) {
        Some(s) => s,
        None => return "bad-case".into(),
    };
    match catch_unwind(AssertUnwindSafe(|| run_srcerrs(&src))) {
        Ok(s) => s,
        Err(_) => format!("PANIC {}", last_panic().replace(['\n', '\r'], " ")),
    }
}

pub fn payload_line(line: &str) -> String {
    let src = match decode_src(line) {
        Some(s) => s,
        None => return "bad-case".into(),
    };
    match catch_unwind(AssertUnwindSafe(|| run_payloads(&src))) {
        Ok(s) => s,
        Err(_) => format!("PANIC {}", last_panic().replace(['\n', '\r'], " ")),
    }
}

pub fn line(line: &str) -> String {
    let src = match decode_src(line) {
        Some(s) => s,
        None => return "bad-case".into(),
    };
    match catch_unwind(AssertUnwindSafe(|| run(&src))) {
        Ok(s) => s,
        Err(_) => format!("PANIC {}", last_panic().replace(['\n', '\r'], " ")),
    }
}
