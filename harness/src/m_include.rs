// Mode `include` (I7): one case line = a JSON object describing a file-system arrangement
//   {"id": "c17", "files": {"d1/a.inc": "<text>", ...}, "main": "<text with @ROOT@ for the
//    absolute sandbox path>", "search": ["d1","d2"] | null, "env": ["d2"] | null}
// The arrangement is realised under <workdir>/inc/<id>/ (removed afterwards), the process
// changes into it, QASM3_PATH is set/unset, and the real pipeline
// `parse_source_string_with_path_search` runs.  Output: the I6 line of the result plus
//   ;inc=<tree of included files: (path nsyn include_error [sem errors] children...)>
// with the sandbox path replaced by @ROOT@.
use crate::codec::last_panic;
use crate::m_sema::{error_kind, show_result};
use oq3_semantics::semantic_error::SemanticErrorList;
use oq3_semantics::syntax_to_semantics::{parse_source_file_with_search, parse_source_string_with_path_search, ParseResult};
use oq3_source_file::{SourceFile, SourceTrait};
use serde_json::Value;
use std::panic::{catch_unwind, AssertUnwindSafe};
use std::path::{Path, PathBuf};

fn rel(p: &Path, root: &Path) -> String {
    let s = lossy_ff(p);
    let r = root.to_string_lossy().to_string();
    s.replace(&r, "@ROOT@")
}

/// `@FF@` in a path of a case stands for the single raw byte 0xFF: a path that is NOT valid UTF-8 (file names,
/// search-list and QASM3_PATH entries may be arbitrary bytes on Unix; the case file itself is JSON text)
fn os_ff(s: &str) -> PathBuf {
    use std::os::unix::ffi::OsStringExt;
    let mut out: Vec<u8> = Vec::new();
    let mut rest = s;
    while let Some(i) = rest.find("@FF@") {
        out.extend_from_slice(rest[..i].as_bytes());
        out.push(0xFF);
        rest = &rest[i + 4..];
    }
    out.extend_from_slice(rest.as_bytes());
    PathBuf::from(std::ffi::OsString::from_vec(out))
}

/// inverse of `os_ff` for printing: raw 0xFF bytes are shown as `@FF@` (other invalid bytes lossily)
fn lossy_ff(p: &Path) -> String {
    use std::os::unix::ffi::OsStrExt;
    let b = p.as_os_str().as_bytes();
    let mut out = String::new();
    let mut cur: Vec<u8> = Vec::new();
    for &x in b {
        if x == 0xFF {
            out.push_str(&String::from_utf8_lossy(&cur));
            cur.clear();
            out.push_str("@FF@");
        } else {
            cur.push(x);
        }
    }
    out.push_str(&String::from_utf8_lossy(&cur));
    out
}

fn show_src(f: &SourceFile, root: &Path) -> String {
    let nsyn = f.ast().map_or(0, |a| a.errors().len());
    let has_ast = f.ast().is_some();
    let ie = match f.include_error() {
        Some(e) => match e.error {
            std::io::ErrorKind::NotFound => "NotFound".to_string(),
            std::io::ErrorKind::PermissionDenied => "PermissionDenied".to_string(),
            _ => "Other".to_string(),
        },
        None => "-".into(),
    };
    let kids: Vec<String> = f.included_files().iter().map(|c| show_src(c, root)).collect();
    format!(
        "({} ast={} nsyn={} ioerr={} [{}])",
        rel(f.file_path(), root),
        if has_ast { 1 } else { 0 },
        nsyn,
        ie,
        kids.join(" ")
    )
}

fn show_errs(l: &SemanticErrorList, root: &Path) -> String {
    let own: Vec<String> = l
        .iter()
        .map(|e| {
            let r = e.range();
            format!("{}@{}-{}", error_kind(e.kind()), u32::from(r.start()), u32::from(r.end()))
        })
        .collect();
    let kids: Vec<String> = l.include_errors().iter().map(|c| show_errs(c, root)).collect();
    format!(
        "({} [{}] [{}])",
        rel(l.source_file_path(), root),
        own.join(","),
        kids.join(" ")
    )
}


fn nerr_nodes(n: &oq3_syntax::SyntaxNode) -> usize {
    n.descendants_with_tokens().filter(|x| x.kind() == oq3_syntax::SyntaxKind::ERROR).count()
}

/// (does the tree spell `text`?, number of ERROR nodes) of a parse result; `-` when lexical errors left no tree
fn tree_facts(a: &oq3_syntax::ParseOrErrors<oq3_syntax::SourceFile>, text: Option<&str>) -> (String, String) {
    if !a.have_parse() {
        return ("-".into(), "-".into());
    }
    let n = a.syntax_node();
    let eq = match text {
        Some(t) => if n.text().to_string() == t { "1" } else { "0" },
        None => "?",
    };
    (eq.to_string(), nerr_nodes(&n).to_string())
}

/// `path:eq:error-nodes:diagnostics` for every parsed included file: does its tree spell the bytes of the file on disk?
fn show_eq(f: &SourceFile, root: &Path, out: &mut Vec<String>) {
    if let Some(a) = f.ast() {
        let disk = std::fs::read_to_string(f.file_path()).ok();
        let (eq, ne) = tree_facts(a, disk.as_deref());
        out.push(format!("{}:{}:{}:{}", rel(f.file_path(), root), eq, ne, a.errors().len()));
    }
    for c in f.included_files() {
        show_eq(c, root, out);
    }
}

fn finish<T: SourceTrait>(result: &ParseResult<T>, root: &Path, xmain: String) -> String {
    let tree: Vec<String> = result.syntax_result().included().iter().map(|c| show_src(c, root)).collect();
    let syn = result.any_syntax_errors();
    let head = if syn { "SYNTAX-ERRORS".to_string() } else { show_result(result) };
    let mut eqs = Vec::new();
    for c in result.syntax_result().included() {
        show_eq(c, root, &mut eqs);
    }
    // the x* fields are not part of the include model's output (vf/c18.py strips them before comparing)
    format!(
        "{};inc=[{}];semtree={};xflags=syn:{},sem:{},any:{},nsyn:{},nstmt:{};xmain={};xeq={}",
        head,
        tree.join(" "),
        show_errs(result.semantic_errors(), root),
        result.any_syntax_errors() as u8,
        result.any_semantic_errors() as u8,
        result.any_errors() as u8,
        result.num_syntax_errors(),
        result.program().stmts().len(),
        xmain,
        eqs.join(",")
    )
}

fn run(case: &Value, base: &Path) -> String {
    let id = case["id"].as_str().unwrap_or("x");
    let root = base.join(id);
    let _ = std::fs::remove_dir_all(&root);
    std::fs::create_dir_all(&root).unwrap();
    let root = std::fs::canonicalize(&root).unwrap();
    if let Some(files) = case["files"].as_object() {
        for (p, c) in files {
            let fp = root.join(os_ff(p));
            if let Some(parent) = fp.parent() {
                std::fs::create_dir_all(parent).unwrap();
            }
            if c.is_null() {
                std::fs::create_dir_all(&fp).unwrap(); // a directory where a file is expected
            } else {
                std::fs::write(&fp, c.as_str().unwrap_or("")).unwrap();
            }
        }
    }
    if let Some(dirs) = case["dirs"].as_array() {
        for d in dirs {
            std::fs::create_dir_all(root.join(os_ff(d.as_str().unwrap_or(".")))).unwrap();
        }
    }
    let rootstr = root.to_string_lossy().to_string();
    let main = case["main"].as_str().unwrap_or("").replace("@ROOT@", &rootstr);
    let tolist = |v: &Value| -> Option<Vec<PathBuf>> {
        v.as_array().map(|a| {
            a.iter()
                .map(|x| {
                    let s = x.as_str().unwrap_or("").replace("@ROOT@", &rootstr);
                    os_ff(&s)
                })
                .collect()
        })
    };
    let search = tolist(&case["search"]);
    match tolist(&case["env"]) {
        Some(v) => std::env::set_var("QASM3_PATH", std::env::join_paths(v).unwrap()),
        None => std::env::remove_var("QASM3_PATH"),
    }
    let old = std::env::current_dir().unwrap();
    std::env::set_current_dir(&root).unwrap();
    // `entry`: "string" (default) analyses `main` as a string; "file" writes `main` to `mainfile` (relative to the
    // sandbox) and analyses the path `mainarg` (default: the absolute path) with parse_source_file_with_search
    let entry = case["entry"].as_str().unwrap_or("string").to_string();
    let mainfile = case["mainfile"].as_str().unwrap_or("main.qasm").to_string();
    let mainarg = case["mainarg"].as_str().map(|s| s.replace("@ROOT@", &rootstr));
    if entry == "file" {
        let fp = root.join(os_ff(&mainfile));
        if let Some(parent) = fp.parent() {
            std::fs::create_dir_all(parent).unwrap();
        }
        std::fs::write(&fp, &main).unwrap();
    }
    let out = catch_unwind(AssertUnwindSafe(|| {
        if entry == "file" {
            let arg = mainarg.clone().map(|a| os_ff(&a)).unwrap_or_else(|| root.join(os_ff(&mainfile)));
            let result = parse_source_file_with_search(arg, search.as_deref());
            let top = result.syntax_result();
            let (eq, ne) = top.ast().map_or(("-".to_string(), "-".to_string()), |a| tree_facts(a, Some(&main)));
            let xmain = format!("{}:{}:{}:{}", rel(top.file_path(), &root), top.ast().map_or(0, |a| a.errors().len()), eq, ne);
            finish(&result, &root, xmain)
        } else {
            let result = parse_source_string_with_path_search(&main, None, search.as_deref());
            let top = result.syntax_result();
            let (mut eq, ne) = top.syntax_ast().map_or(("-".to_string(), "-".to_string()), |a| tree_facts(a, Some(&main)));
            if top.source() != main {
                eq = "0".to_string();
            }
            let xmain = format!("-:{}:{}:{}", top.syntax_ast().map_or(0, |a| a.errors().len()), eq, ne);
            finish(&result, &root, xmain)
        }
    }));
    std::env::set_current_dir(&old).unwrap();
    std::env::remove_var("QASM3_PATH");
    let _ = std::fs::remove_dir_all(&root);
    match out {
        Ok(s) => s.replace(&rootstr, "@ROOT@"),
        Err(_) => format!("PANIC {}", last_panic().replace(['\n', '\r'], " ")).replace(&rootstr, "@ROOT@"),
    }
}

pub fn line(line: &str) -> String {
    let case: Value = match serde_json::from_str(line) {
        Ok(v) => v,
        Err(_) => return "bad-case".into(),
    };
    let base = std::env::var("OQ3_VERIF_WORK").map(PathBuf::from).unwrap_or_else(|_| PathBuf::from("/verif/work/inc"));
    run(&case, &base)
}

/// Mode `incscan`: what the syntax layers make of one text, for the include model:
/// `LEX <n>` | `SYN <n> <inc>,<inc>…` | `AST <I5 line>`; `<inc>` = hex path | `!` (no path node)
/// | `?` (path without string value)
pub fn scan(line: &str) -> String {
    use oq3_syntax::ast as synast;
    let text = match crate::m_ast::decode_src(line) {
        Some(t) => t,
        None => return "bad-case".into(),
    };
    let r = catch_unwind(AssertUnwindSafe(|| {
        let parsed = synast::SourceFile::parse_check_lex(&text);
        if !parsed.have_parse() {
            return format!("LEX {}", parsed.errors().len());
        }
        if !parsed.errors().is_empty() {
            let incs: Vec<String> = parsed
                .tree()
                .statements()
                .filter_map(|s| match s {
                    synast::Stmt::Include(inc) => Some(match inc.file() {
                        None => "!".to_string(),
                        Some(f) => match f.to_string() {
                            None => "?".to_string(),
                            Some(p) => crate::m_ast::hex(&p),
                        },
                    }),
                    _ => None,
                })
                .collect();
            return format!("SYN {} {}", parsed.errors().len(), incs.join(","));
        }
        format!("AST {}", crate::m_ast::line(line))
    }));
    match r {
        Ok(s) => s,
        Err(_) => format!("PANIC {}", last_panic().replace(['\n', '\r'], " ")),
    }
}
