use oq3_semantics::types::{ArrayDims, IsConst, SubroutineDef, Type};
use std::cell::RefCell;

thread_local! {
    pub static LAST_PANIC: RefCell<String> = RefCell::new(String::new());
}

pub fn last_panic() -> String {
    LAST_PANIC.with(|p| p.borrow().clone())
}

fn show_width(w: &Option<u32>) -> String {
    match w {
        None => "-".to_string(),
        Some(w) => w.to_string(),
    }
}

fn show_c(c: &IsConst) -> &'static str {
    if matches!(c, IsConst::True) {
        "c"
    } else {
        "n"
    }
}

fn show_dims(d: &ArrayDims) -> String {
    d.dims()
        .iter()
        .map(|x| x.to_string())
        .collect::<Vec<_>>()
        .join(",")
}

pub fn show_t(t: &Type) -> String {
    use Type::*;
    match t {
        Bit(c) => format!("Bit {}", show_c(c)),
        Qubit => "Qubit".into(),
        HardwareQubit => "HardwareQubit".into(),
        Int(w, c) => format!("Int {} {}", show_width(w), show_c(c)),
        UInt(w, c) => format!("UInt {} {}", show_width(w), show_c(c)),
        Float(w, c) => format!("Float {} {}", show_width(w), show_c(c)),
        Angle(w, c) => format!("Angle {} {}", show_width(w), show_c(c)),
        Complex(w, c) => format!("Complex {} {}", show_width(w), show_c(c)),
        Bool(c) => format!("Bool {}", show_c(c)),
        Duration(c) => format!("Duration {}", show_c(c)),
        Stretch(c) => format!("Stretch {}", show_c(c)),
        BitArray(d, c) => format!("BitArray {} {}", show_dims(d), show_c(c)),
        QubitArray(d) => format!("QubitArray {}", show_dims(d)),
        IntArray(d) => format!("IntArray {}", show_dims(d)),
        UIntArray(d) => format!("UIntArray {}", show_dims(d)),
        FloatArray(d) => format!("FloatArray {}", show_dims(d)),
        AngleArray(d) => format!("AngleArray {}", show_dims(d)),
        ComplexArray(d) => format!("ComplexArray {}", show_dims(d)),
        BoolArray(d) => format!("BoolArray {}", show_dims(d)),
        DurationArray(d) => format!("DurationArray {}", show_dims(d)),
        Gate(a, b) => format!("Gate {a} {b}"),
        SubroutineDef(sd) => format!("Sub {} {}", sd.num_params, show_t(&sd.return_type)),
        Range => "Range".into(),
        Set => "Set".into(),
        Void => "Void".into(),
        ToDo => "ToDo".into(),
        Undefined => "Undefined".into(),
    }
}

fn parse_width(s: &str) -> Option<Option<u32>> {
    if s == "-" {
        Some(None)
    } else {
        s.parse::<u32>().ok().map(Some)
    }
}

fn parse_c(s: &str) -> Option<IsConst> {
    match s {
        "c" => Some(IsConst::True),
        "n" => Some(IsConst::False),
        _ => None,
    }
}

fn parse_dims(s: &str) -> Option<ArrayDims> {
    let v: Option<Vec<usize>> = s.split(',').map(|x| x.parse::<usize>().ok()).collect();
    match v?.as_slice() {
        [a] => Some(ArrayDims::D1(*a)),
        [a, b] => Some(ArrayDims::D2(*a, *b)),
        [a, b, c] => Some(ArrayDims::D3(*a, *b, *c)),
        _ => None,
    }
}

/// Parse one type from the front of a word slice; returns the type and the rest.
pub fn parse_t<'a>(w: &'a [&'a str]) -> Option<(Type, &'a [&'a str])> {
    use Type::*;
    let (h, r) = w.split_first()?;
    Some(match *h {
        "Bit" => (Bit(parse_c(r.first()?)?), &r[1..]),
        "Qubit" => (Qubit, r),
        "HardwareQubit" => (HardwareQubit, r),
        "Int" => (Int(parse_width(r.first()?)?, parse_c(r.get(1)?)?), &r[2..]),
        "UInt" => (UInt(parse_width(r.first()?)?, parse_c(r.get(1)?)?), &r[2..]),
        "Float" => (Float(parse_width(r.first()?)?, parse_c(r.get(1)?)?), &r[2..]),
        "Angle" => (Angle(parse_width(r.first()?)?, parse_c(r.get(1)?)?), &r[2..]),
        "Complex" => (
            Complex(parse_width(r.first()?)?, parse_c(r.get(1)?)?),
            &r[2..],
        ),
        "Bool" => (Bool(parse_c(r.first()?)?), &r[1..]),
        "Duration" => (Duration(parse_c(r.first()?)?), &r[1..]),
        "Stretch" => (Stretch(parse_c(r.first()?)?), &r[1..]),
        "BitArray" => (
            BitArray(parse_dims(r.first()?)?, parse_c(r.get(1)?)?),
            &r[2..],
        ),
        "QubitArray" => (QubitArray(parse_dims(r.first()?)?), &r[1..]),
        "IntArray" => (IntArray(parse_dims(r.first()?)?), &r[1..]),
        "UIntArray" => (UIntArray(parse_dims(r.first()?)?), &r[1..]),
        "FloatArray" => (FloatArray(parse_dims(r.first()?)?), &r[1..]),
        "AngleArray" => (AngleArray(parse_dims(r.first()?)?), &r[1..]),
        "ComplexArray" => (ComplexArray(parse_dims(r.first()?)?), &r[1..]),
        "BoolArray" => (BoolArray(parse_dims(r.first()?)?), &r[1..]),
        "DurationArray" => (DurationArray(parse_dims(r.first()?)?), &r[1..]),
        "Gate" => (
            Gate(r.first()?.parse().ok()?, r.get(1)?.parse().ok()?),
            &r[2..],
        ),
        "Sub" => {
            let n: usize = r.first()?.parse().ok()?;
            let (t, rest) = parse_t(&r[1..])?;
            (
                SubroutineDef(self::SubroutineDef {
                    num_params: n,
                    return_type: Box::new(t),
                }),
                rest,
            )
        }
        "Range" => (Range, r),
        "Set" => (Set, r),
        "Void" => (Void, r),
        "ToDo" => (ToDo, r),
        "Undefined" => (Undefined, r),
        _ => return None,
    })
}

pub fn parse_t_full(s: &str) -> Option<Type> {
    let w: Vec<&str> = s.split_whitespace().collect();
    match parse_t(&w)? {
        (t, []) => Some(t),
        _ => None,
    }
}

pub fn show_b(b: bool) -> &'static str {
    if b {
        "1"
    } else {
        "0"
    }
}
