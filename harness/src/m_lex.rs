// Modes `lex` and `uclass` (stub; filled in with the lexer correspondence).
pub fn line(_line: &str) -> String {
    "not-implemented".into()
}

pub fn uclass(_line: &str) -> String {
    "not-implemented".into()
}
