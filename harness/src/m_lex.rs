// Modes `lex` and `uclass`: the real lexer (`oq3_lexer::tokenize`), `LexedStr::new` and
// `LexedStr::to_input` on one case line, printed in the canonical I1/I2 form
// (see /verif/DESIGN.md §2.1 and /verif/lean/Oq3/Driver/Lex.lean, which prints the model's view
// in exactly the same form).
use crate::codec::last_panic;
use oq3_lexer::{Base, LiteralKind, TokenKind};
use oq3_parser::LexedStr;
use std::panic::{catch_unwind, AssertUnwindSafe};
use unicode_properties::UnicodeEmoji;
use unicode_xid::UnicodeXID;

fn b01(b: bool) -> &'static str {
    if b {
        "1"
    } else {
        "0"
    }
}

fn show_base(b: Base) -> &'static str {
    match b {
        Base::Binary => "2",
        Base::Octal => "8",
        Base::Decimal => "10",
        Base::Hexadecimal => "16",
    }
}

fn show_lit(k: &LiteralKind) -> String {
    match *k {
        LiteralKind::Int { base, empty_int } => {
            format!("Lit.Int.{}.{}", show_base(base), b01(empty_int))
        }
        LiteralKind::Float {
            base,
            empty_exponent,
        } => format!("Lit.Float.{}.{}", show_base(base), b01(empty_exponent)),
        LiteralKind::Byte { terminated } => format!("Lit.Byte.{}", b01(terminated)),
        LiteralKind::Str { terminated } => format!("Lit.Str.{}", b01(terminated)),
        LiteralKind::BitStr {
            terminated,
            consecutive_underscores,
        } => format!(
            "Lit.BitStr.{}.{}",
            b01(terminated),
            b01(consecutive_underscores)
        ),
    }
}

fn show_raw(k: &TokenKind, len: u32) -> String {
    match k {
        TokenKind::BlockComment { terminated } => {
            format!("BlockComment.{}:{}", b01(*terminated), len)
        }
        TokenKind::OpenQasmVersionStmt { major, minor } => {
            format!("OpenQasmVersionStmt.{}.{}:{}", b01(*major), b01(*minor), len)
        }
        TokenKind::Literal { kind, suffix_start } => {
            format!("{}:{}:{}", show_lit(kind), len, suffix_start)
        }
        // all remaining variants are field-less: the Debug form is the variant name
        other => format!("{:?}:{}", other, len),
    }
}

fn decode(line: &str) -> Option<String> {
    let l = line.trim();
    if l.is_empty() {
        return Some(String::new());
    }
    let mut s = String::new();
    for h in l.split('.') {
        let n = u32::from_str_radix(h, 16).ok()?;
        s.push(char::from_u32(n)?);
    }
    Some(s)
}

fn raw_stream(text: &str) -> Vec<String> {
    oq3_lexer::tokenize(text)
        .map(|t| show_raw(&t.kind, t.len))
        .collect()
}

fn run(text: &str) -> String {
    let raw1 = raw_stream(text);
    let raw2 = raw_stream(text);
    if raw1 != raw2 {
        return "nondet".to_string();
    }
    let lexed = LexedStr::new(text);
    let n = lexed.len();
    // `kind(i)` asserts `i < len()`; the EOF sentinel sits at index `len()` and is not
    // reachable through `kind`; its presence is implied by `len() = kind.len() - 1` and its
    // start is `text_start(len())`.
    let mut kinds: Vec<String> = (0..n).map(|i| format!("{:?}", lexed.kind(i))).collect();
    kinds.push("EOF".to_string());
    let starts: Vec<String> = (0..=n).map(|i| lexed.text_start(i).to_string()).collect();
    let errors: Vec<String> = lexed.errors().map(|(i, _)| i.to_string()).collect();
    // exercise the slicing accessors for every token (a panic is reported as PANIC)
    for i in 0..n {
        let r = lexed.text_range(i);
        let t = lexed.text(i);
        if t.len() != lexed.text_len(i) || &text[r] != t {
            return "accessor-mismatch".to_string();
        }
    }
    let input = lexed.to_input();
    let inp: Vec<String> = (0..input.verif_len())
        .map(|i| {
            format!(
                "{:?}{}",
                input.verif_kind(i),
                if input.verif_is_joint(i) { "+" } else { "" }
            )
        })
        .collect();
    format!(
        "raw={};kinds={};starts={};errors={};input={};ok=1",
        raw1.join(","),
        kinds.join(","),
        starts.join(","),
        errors.join(","),
        inp.join(",")
    )
}

pub fn line(line: &str) -> String {
    let text = match decode(line) {
        Some(t) => t,
        None => return "bad-case".to_string(),
    };
    match catch_unwind(AssertUnwindSafe(|| run(&text))) {
        Ok(s) => s,
        Err(_) => format!("PANIC {}", last_panic()),
    }
}

pub fn uclass(line: &str) -> String {
    let l = line.trim();
    let c = match u32::from_str_radix(l, 16).ok().and_then(char::from_u32) {
        Some(c) => c,
        None => return "bad-case".to_string(),
    };
    format!(
        "{:x} {}{}{}",
        c as u32,
        b01(UnicodeXID::is_xid_start(c)),
        b01(UnicodeXID::is_xid_continue(c)),
        b01(c.is_emoji_char())
    )
}
