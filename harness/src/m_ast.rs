// Mode `ast` — interface I5 (DESIGN.md §2.1): the typed AST exactly as the semantic pass sees it.
//
// case line  = source text, dot-separated lowercase hex code points
// output     = `SYNTAX-ERRORS <n>` if lexing/parsing/validation logged anything, otherwise ONE
//              S-expression `(Program s e (<stmt>...))` built ONLY through the accessors that
//              `oq3_semantics::syntax_to_semantics` calls (function by function), so that every
//              field of the dump is "what accessor X returned on this node", including absence.
//
// Conventions: every node is `(Kind start end fields...)`; `_` = the accessor returned `None`;
// `!` = the accessor panicked (each hand-written accessor that can panic is called under its own
// catch_unwind); booleans are `0`/`1`; strings are `x` followed by dot-separated lowercase hex code
// points (so the empty string is `x`); child lists are a parenthesised sequence.
use oq3_syntax::ast::{self as synast, AstNode, AstToken, HasArgList, HasName, HasTextNode};
use oq3_syntax::ast::LiteralKind;
use oq3_syntax::BlockOrStmt;
use std::panic::{catch_unwind, AssertUnwindSafe};

pub fn decode_src(line: &str) -> Option<String> {
    let line = line.trim();
    if line.is_empty() {
        return Some(String::new());
    }
    let mut s = String::new();
    for h in line.split('.') {
        let cp = u32::from_str_radix(h, 16).ok()?;
        s.push(char::from_u32(cp)?);
    }
    Some(s)
}

pub fn hex(s: &str) -> String {
    let mut out = String::from("x");
    let mut first = true;
    for c in s.chars() {
        if !first {
            out.push('.');
        }
        first = false;
        out.push_str(&format!("{:x}", c as u32));
    }
    out
}

fn guard<T>(f: impl FnOnce() -> T) -> Option<T> {
    catch_unwind(AssertUnwindSafe(f)).ok()
}

fn rng<N: AstNode>(n: &N) -> String {
    let r = n.syntax().text_range();
    format!("{} {}", u32::from(r.start()), u32::from(r.end()))
}

fn opt<T>(o: Option<T>, f: impl FnOnce(T) -> String) -> String {
    match o {
        Some(x) => f(x),
        None => "_".to_string(),
    }
}

fn b(x: bool) -> &'static str {
    if x {
        "1"
    } else {
        "0"
    }
}

fn list<T>(it: impl Iterator<Item = T>, f: impl Fn(T) -> String) -> String {
    let v: Vec<String> = it.map(f).collect();
    format!("({})", v.join(" "))
}

/// text of a `HasTextNode` node (`string()` unwraps the first green child as a token)
fn text_of<N: HasTextNode>(n: &N) -> String {
    match guard(|| n.string()) {
        Some(s) => hex(&s),
        None => "!".into(),
    }
}

fn name(n: synast::Name) -> String {
    format!("(Name {} {})", rng(&n), text_of(&n))
}

fn identifier(n: synast::Identifier) -> String {
    format!("(Identifier {} {})", rng(&n), text_of(&n))
}

fn hardware_qubit(n: synast::HardwareQubit) -> String {
    format!("(HardwareQubit {} {})", rng(&n), text_of(&n))
}

fn param(n: synast::Param) -> String {
    // bind_parameter_list: param.text()
    let t = match guard(|| n.text().to_string()) {
        Some(s) => hex(&s),
        None => "!".into(),
    };
    format!("(Param {} {})", rng(&n), t)
}

fn param_list(n: synast::ParamList) -> String {
    format!("(ParamList {} {})", rng(&n), list(n.params(), param))
}

fn unary_op(op: synast::UnaryOp) -> &'static str {
    match op {
        synast::UnaryOp::LogicNot => "LogicNot",
        synast::UnaryOp::Not => "Not",
        synast::UnaryOp::Neg => "Neg",
    }
}

fn arith_op(op: synast::ArithOp) -> &'static str {
    use synast::ArithOp::*;
    match op {
        Add => "Add",
        Mul => "Mul",
        Sub => "Sub",
        Div => "Div",
        Rem => "Rem",
        Shl => "Shl",
        Shr => "Shr",
        BitXor => "BitXor",
        BitOr => "BitOr",
        BitAnd => "BitAnd",
    }
}

fn binary_op(op: synast::BinaryOp) -> String {
    use synast::BinaryOp::*;
    match op {
        LogicOp(synast::LogicOp::And) => "Logic.And".into(),
        LogicOp(synast::LogicOp::Or) => "Logic.Or".into(),
        ArithOp(a) => format!("Arith.{}", arith_op(a)),
        CmpOp(synast::CmpOp::Eq { negated: false }) => "Cmp.Eq".into(),
        CmpOp(synast::CmpOp::Eq { negated: true }) => "Cmp.Neq".into(),
        CmpOp(synast::CmpOp::Ord { ordering, strict }) => format!(
            "Cmp.{}{}",
            match ordering {
                synast::Ordering::Less => "L",
                synast::Ordering::Greater => "G",
            },
            if strict { "t" } else { "e" }
        ),
        ConcatenationOp => "Concat".into(),
        PowerOp => "Power".into(),
        Assignment { op: None } => "Assign".into(),
        Assignment { op: Some(a) } => format!("Assign.{}", arith_op(a)),
    }
}

fn literal_kind(k: LiteralKind) -> String {
    match k {
        LiteralKind::IntNumber(n) => format!(
            "(IntNumber {} {})",
            hex(n.text()),
            // `value()` and `value_u128()` have the same body; both are used by the pass
            match (n.value(), n.value_u128()) {
                (Some(a), Some(c)) if a == c => a.to_string(),
                (None, None) => "_".into(),
                _ => "?".into(),
            }
        ),
        LiteralKind::FloatNumber(f) => format!(
            "(FloatNumber {} {})",
            hex(f.text()),
            // the pass only ever uses `format!("{}", value().unwrap())` (or `{num}`)
            opt(f.value(), |v| hex(&format!("{v}")))
        ),
        LiteralKind::BitString(s) => format!(
            "(BitString {} {})",
            hex(s.text()),
            opt(s.str(), |v| hex(v))
        ),
        LiteralKind::Bool(v) => format!("(Bool {})", b(v)),
        LiteralKind::Byte(_) => "Byte".into(),
        LiteralKind::Char(_) => "Char".into(),
        LiteralKind::String(_) => "String".into(),
    }
}

fn literal(n: synast::Literal) -> String {
    let k = match guard(|| n.kind()) {
        Some(k) => literal_kind(k),
        None => "!".into(),
    };
    format!("(Literal {} {})", rng(&n), k)
}

fn time_unit(u: synast::TimeUnit) -> &'static str {
    use synast::TimeUnit::*;
    match u {
        NanoSecond => "NanoSecond",
        MilliSecond => "MilliSecond",
        MicroSecond => "MicroSecond",
        Second => "Second",
        Cycle => "Cycle",
        Imaginary => "Imaginary",
    }
}

fn timing_literal(n: synast::TimingLiteral) -> String {
    let ident_text = opt(n.identifier(), |i| match guard(|| i.text().to_string()) {
        Some(s) => hex(&s),
        None => "!".into(),
    });
    let tu = match guard(|| n.time_unit()) {
        Some(u) => opt(u, |u| time_unit(u).to_string()),
        None => "!".into(),
    };
    format!(
        "(TimingLiteral {} {} {} {})",
        rng(&n),
        tu,
        ident_text,
        opt(n.literal(), literal)
    )
}

fn designator(n: synast::Designator) -> String {
    format!("(Designator {} {})", rng(&n), opt(n.expr(), expr))
}

fn scalar_type_kind(k: synast::ScalarTypeKind) -> &'static str {
    use synast::ScalarTypeKind::*;
    match k {
        Angle => "Angle",
        Bit => "Bit",
        Bool => "Bool",
        Complex => "Complex",
        Duration => "Duration",
        Float => "Float",
        Int => "Int",
        None => "None",
        Stretch => "Stretch",
        UInt => "UInt",
        Qubit => "Qubit",
    }
}

fn scalar_type(n: synast::ScalarType) -> String {
    let k = match guard(|| n.kind()) {
        Some(k) => scalar_type_kind(k).to_string(),
        None => "!".into(),
    };
    format!(
        "(ScalarType {} {} {} {})",
        rng(&n),
        k,
        opt(n.designator(), designator),
        opt(n.scalar_type(), scalar_type)
    )
}

fn expression_list(n: synast::ExpressionList) -> String {
    format!("(ExpressionList {} {})", rng(&n), list(n.exprs(), expr))
}

fn set_expression(n: synast::SetExpression) -> String {
    format!(
        "(SetExpression {} {})",
        rng(&n),
        opt(n.expression_list(), expression_list)
    )
}

fn range_expr(n: synast::RangeExpr) -> String {
    let (start, step, stop) = n.start_step_stop();
    format!(
        "(RangeExpr {} {} {} {})",
        rng(&n),
        opt(start, expr),
        opt(step, expr),
        opt(stop, expr)
    )
}

fn index_operator(n: synast::IndexOperator) -> String {
    let k = opt(n.index_kind(), |k| match k {
        synast::IndexKind::SetExpression(s) => set_expression(s),
        synast::IndexKind::ExpressionList(e) => expression_list(e),
    });
    format!("(IndexOperator {} {})", rng(&n), k)
}

fn indexed_identifier(n: synast::IndexedIdentifier) -> String {
    format!(
        "(IndexedIdentifier {} {} {})",
        rng(&n),
        opt(n.identifier(), identifier),
        list(n.index_operators(), index_operator)
    )
}

fn gate_operand(n: synast::GateOperand) -> String {
    match n {
        synast::GateOperand::HardwareQubit(h) => hardware_qubit(h),
        synast::GateOperand::Identifier(i) => identifier(i),
        synast::GateOperand::IndexedIdentifier(i) => indexed_identifier(i),
    }
}

fn qubit_list(n: synast::QubitList) -> String {
    format!(
        "(QubitList {} {})",
        rng(&n),
        list(n.gate_operands(), gate_operand)
    )
}

fn arg_list(n: synast::ArgList) -> String {
    format!(
        "(ArgList {} {})",
        rng(&n),
        opt(n.expression_list(), expression_list)
    )
}

fn paren_expr(n: synast::ParenExpr) -> String {
    format!("(ParenExpr {} {})", rng(&n), opt(n.expr(), expr))
}

fn gate_call_expr(n: synast::GateCallExpr) -> String {
    format!(
        "(GateCallExpr {} {} {} {})",
        rng(&n),
        opt(n.qubit_list(), qubit_list),
        opt(n.arg_list(), arg_list),
        opt(n.identifier(), identifier)
    )
}

fn g_phase_call_expr(n: synast::GPhaseCallExpr) -> String {
    format!("(GPhaseCallExpr {} {})", rng(&n), opt(n.arg(), expr))
}

fn modifier(m: synast::Modifier) -> String {
    match m {
        synast::Modifier::InvModifier(n) => format!("(InvModifier {})", rng(&n)),
        synast::Modifier::PowModifier(n) => {
            format!("(PowModifier {} {})", rng(&n), opt(n.paren_expr(), paren_expr))
        }
        synast::Modifier::CtrlModifier(n) => {
            format!("(CtrlModifier {} {})", rng(&n), opt(n.paren_expr(), paren_expr))
        }
        synast::Modifier::NegCtrlModifier(n) => format!(
            "(NegCtrlModifier {} {})",
            rng(&n),
            opt(n.paren_expr(), paren_expr)
        ),
    }
}

fn block_expr(n: synast::BlockExpr) -> String {
    format!("(BlockExpr {} {})", rng(&n), list(n.statements(), stmt))
}

fn block_or_stmt(v: Option<BlockOrStmt>) -> String {
    // `None` here means the accessor panicked ("Error in oq3_syntax")
    match v {
        Some(BlockOrStmt::BlockExpr(bl)) => format!("(BosBlock {})", block_expr(bl)),
        Some(BlockOrStmt::Stmt(s)) => format!("(BosStmt {})", stmt(s)),
        None => "!".into(),
    }
}

fn expr(e: synast::Expr) -> String {
    use synast::Expr::*;
    match e {
        PrefixExpr(n) => format!(
            "(PrefixExpr {} {} {})",
            rng(&n),
            opt(n.op_kind(), |o| unary_op(o).to_string()),
            opt(n.expr(), expr)
        ),
        ParenExpr(n) => paren_expr(n),
        BinExpr(n) => format!(
            "(BinExpr {} {} {} {})",
            rng(&n),
            opt(n.op_kind(), binary_op),
            opt(n.lhs(), expr),
            opt(n.rhs(), expr)
        ),
        Literal(n) => literal(n),
        TimingLiteral(n) => timing_literal(n),
        Identifier(n) => identifier(n),
        HardwareQubit(n) => hardware_qubit(n),
        RangeExpr(n) => range_expr(n),
        IndexExpr(n) => format!(
            "(IndexExpr {} {} {})",
            rng(&n),
            opt(n.expr(), expr),
            opt(n.index_operator(), index_operator)
        ),
        IndexedIdentifier(n) => indexed_identifier(n),
        MeasureExpression(n) => format!(
            "(MeasureExpression {} {})",
            rng(&n),
            opt(n.gate_operand(), gate_operand)
        ),
        ReturnExpr(n) => format!("(ReturnExpr {} {})", rng(&n), opt(n.expr(), expr)),
        CastExpression(n) => format!(
            "(CastExpression {} {} {})",
            rng(&n),
            opt(n.scalar_type(), scalar_type),
            opt(n.expr(), expr)
        ),
        CallExpr(n) => format!(
            "(CallExpr {} {} {})",
            rng(&n),
            opt(n.arg_list(), arg_list),
            opt(n.identifier(), identifier)
        ),
        GateCallExpr(n) => gate_call_expr(n),
        GPhaseCallExpr(n) => g_phase_call_expr(n),
        ModifiedGateCallExpr(n) => format!(
            "(ModifiedGateCallExpr {} {} {} {})",
            rng(&n),
            list(n.modifiers(), modifier),
            opt(n.gate_call_expr(), gate_call_expr),
            opt(n.g_phase_call_expr(), g_phase_call_expr)
        ),
        // every use of these in the pass is a `panic!` arm: kind and range only
        BlockExpr(n) => format!("(BlockExprE {})", rng(&n)),
        ArrayExpr(n) => format!("(ArrayExpr {})", rng(&n)),
        ArrayLiteral(n) => format!("(ArrayLiteral {})", rng(&n)),
        BoxExpr(n) => format!("(BoxExpr {})", rng(&n)),
        DimExpr(n) => format!("(DimExpr {})", rng(&n)),
    }
}

fn param_type(p: synast::ParamType) -> String {
    match p {
        synast::ParamType::ScalarType(s) => scalar_type(s),
        synast::ParamType::ArrayRefType(a) => format!("(ArrayRefType {})", rng(&a)),
    }
}

fn typed_param(n: synast::TypedParam) -> String {
    format!(
        "(TypedParam {} {} {} {})",
        rng(&n),
        opt(n.param_type(), param_type),
        b(n.old_typed_param().is_some()),
        opt(n.name(), name)
    )
}

fn typed_param_list(n: synast::TypedParamList) -> String {
    format!(
        "(TypedParamList {} {})",
        rng(&n),
        list(n.typed_params(), typed_param)
    )
}

fn file_path(n: synast::FilePath) -> String {
    let s = match guard(|| n.to_string()) {
        Some(s) => opt(s, |s| hex(&s)),
        None => "!".into(),
    };
    format!("(FilePath {} {})", rng(&n), s)
}

fn stmt(s: synast::Stmt) -> String {
    use synast::Stmt::*;
    match s {
        IfStmt(n) => format!(
            "(IfStmt {} {} {} {})",
            rng(&n),
            opt(n.condition(), expr),
            block_or_stmt(guard(|| n.true_body_block_or_stmt())),
            opt(n.false_body_block_or_stmt(), |x| block_or_stmt(Some(x)))
        ),
        WhileStmt(n) => format!(
            "(WhileStmt {} {} {})",
            rng(&n),
            opt(n.condition(), expr),
            block_or_stmt(guard(|| n.block_or_stmt()))
        ),
        ForStmt(n) => format!(
            "(ForStmt {} {} {} {} {})",
            rng(&n),
            opt(n.loop_var(), name),
            opt(n.scalar_type(), scalar_type),
            opt(n.for_iterable(), |it| format!(
                "(ForIterable {} {} {} {})",
                rng(&it),
                opt(it.set_expression(), set_expression),
                opt(it.range_expr(), range_expr),
                opt(it.for_iterable_expr(), expr)
            )),
            block_or_stmt(guard(|| n.block_or_stmt()))
        ),
        SwitchCaseStmt(n) => format!(
            "(SwitchCaseStmt {} {} {} {})",
            rng(&n),
            opt(n.control(), expr),
            list(n.case_exprs(), |c| format!(
                "(CaseExpr {} {} {})",
                rng(&c),
                opt(c.expression_list(), expression_list),
                opt(c.block_expr(), block_expr)
            )),
            opt(n.default_block(), block_expr)
        ),
        ClassicalDeclarationStatement(n) => format!(
            "(ClassicalDeclarationStatement {} {} {} {} {} {})",
            rng(&n),
            b(n.array_type().is_some()),
            opt(n.scalar_type(), scalar_type),
            b(n.const_token().is_some()),
            opt(n.name(), name),
            opt(n.expr(), expr)
        ),
        IODeclarationStatement(n) => format!(
            "(IODeclarationStatement {} {} {} {} {})",
            rng(&n),
            b(n.array_type().is_some()),
            opt(n.scalar_type(), scalar_type),
            opt(n.name(), name),
            b(n.input_token().is_some())
        ),
        QuantumDeclarationStatement(n) => format!(
            "(QuantumDeclarationStatement {} {} {} {})",
            rng(&n),
            opt(n.name(), name),
            opt(n.hardware_qubit(), hardware_qubit),
            opt(n.qubit_type(), |q| format!(
                "(QubitType {} {})",
                rng(&q),
                opt(q.designator(), designator)
            ))
        ),
        AssignmentStmt(n) => format!(
            "(AssignmentStmt {} {} {} {})",
            rng(&n),
            opt(n.identifier(), identifier),
            opt(n.rhs(), expr),
            opt(n.indexed_identifier(), indexed_identifier)
        ),
        BreakStmt(n) => format!("(BreakStmt {})", rng(&n)),
        ContinueStmt(n) => format!("(ContinueStmt {})", rng(&n)),
        EndStmt(n) => format!("(EndStmt {})", rng(&n)),
        Gate(n) => format!(
            "(Gate {} {} {} {} {})",
            rng(&n),
            opt(n.name(), name),
            opt(n.angle_params(), param_list),
            opt(n.qubit_params(), param_list),
            opt(n.body(), block_expr)
        ),
        Def(n) => format!(
            "(Def {} {} {} {} {})",
            rng(&n),
            opt(n.name(), name),
            opt(n.typed_param_list(), typed_param_list),
            opt(n.body(), block_expr),
            opt(n.return_signature(), |r| format!(
                "(ReturnSignature {} {})",
                rng(&r),
                opt(r.scalar_type(), scalar_type)
            ))
        ),
        Barrier(n) => format!("(Barrier {} {})", rng(&n), opt(n.qubit_list(), qubit_list)),
        DelayStmt(n) => format!(
            "(DelayStmt {} {} {})",
            rng(&n),
            opt(n.qubit_list(), qubit_list),
            opt(n.designator(), designator)
        ),
        Reset(n) => format!("(Reset {} {})", rng(&n), opt(n.gate_operand(), gate_operand)),
        Include(n) => format!("(Include {} {})", rng(&n), opt(n.file(), file_path)),
        ExprStmt(n) => format!("(ExprStmt {} {})", rng(&n), opt(n.expr(), expr)),
        VersionString(n) => format!("(VersionString {})", rng(&n)),
        PragmaStatement(n) => format!(
            "(PragmaStatement {} {})",
            rng(&n),
            match guard(|| n.pragma_text()) {
                Some(s) => hex(&s),
                None => "!".into(),
            }
        ),
        AnnotationStatement(n) => format!(
            "(AnnotationStatement {} {})",
            rng(&n),
            match guard(|| n.annotation_text()) {
                Some(s) => hex(&s),
                None => "!".into(),
            }
        ),
        AliasDeclarationStatement(n) => format!(
            "(AliasDeclarationStatement {} {} {})",
            rng(&n),
            opt(n.name(), name),
            opt(n.expr(), expr)
        ),
        // answered with NotImplementedError: kind and range only
        OldStyleDeclarationStatement(n) => format!("(OldStyleDeclarationStatement {})", rng(&n)),
        DefCal(n) => format!("(DefCal {})", rng(&n)),
        Cal(n) => format!("(Cal {})", rng(&n)),
        DefCalGrammar(n) => format!("(DefCalGrammar {})", rng(&n)),
        LetStmt(n) => format!("(LetStmt {})", rng(&n)),
        Measure(n) => format!("(Measure {})", rng(&n)),
        ExternStmt(n) => format!("(ExternStmt {})", rng(&n)),
    }
}

pub fn dump_source(src: &str) -> String {
    let parsed = synast::SourceFile::parse_check_lex(src);
    if !parsed.errors().is_empty() || !parsed.have_parse() {
        return format!("SYNTAX-ERRORS {}", parsed.errors().len());
    }
    let tree = parsed.tree();
    format!("(Program {} {})", rng(&tree), list(tree.statements(), stmt))
}

pub fn line(line: &str) -> String {
    let src = match decode_src(line) {
        Some(s) => s,
        None => return "bad-case".into(),
    };
    match catch_unwind(AssertUnwindSafe(|| dump_source(&src))) {
        Ok(s) => s,
        Err(_) => format!("PANIC {}", crate::codec::last_panic()),
    }
}
