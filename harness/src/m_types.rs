use crate::codec::*;
use oq3_semantics::asg::{implicit_cast_type, ArithOp};
use oq3_semantics::types::*;

pub fn line(line: &str) -> String {
    let parts: Vec<&str> = line.split(" | ").collect();
    if parts.len() != 2 {
        return "bad-line".into();
    }
    let (a, b) = match (parse_t_full(parts[0]), parse_t_full(parts[1])) {
        (Some(a), Some(b)) => (a, b),
        _ => return "bad-type".into(),
    };
    let ops: [(&str, ArithOp); 11] = [
        ("Add", ArithOp::Add),
        ("Sub", ArithOp::Sub),
        ("Mul", ArithOp::Mul),
        ("Div", ArithOp::Div),
        ("Rem", ArithOp::Rem),
        ("Mod", ArithOp::Mod),
        ("Shl", ArithOp::Shl),
        ("Shr", ArithOp::Shr),
        ("BitXOr", ArithOp::BitXOr),
        ("BitOr", ArithOp::BitOr),
        ("BitAnd", ArithOp::BitAnd),
    ];
    let dims = match a.dims() {
        None => "-".to_string(),
        Some(v) => v
            .iter()
            .map(|x| x.to_string())
            .collect::<Vec<_>>()
            .join(","),
    };
    let mut v = vec![
        format!("promote={}", show_t(&promote_types(&a, &b))),
        format!("pne={}", show_t(&promote_types_not_equal(&a, &b))),
        format!("cancast={}", show_b(can_cast_literal(&a, &b))),
        format!("eqbase={}", show_b(equal_base_type(&a, &b))),
        format!("eqc={}", show_b(verif_equal_up_to_constness(&a, &b))),
        format!("eqshape={}", show_b(a.equal_up_to_shape(&b))),
        format!("eqdims={}", show_b(a.equal_up_to_dims(&b))),
        format!("const={}", show_b(a.is_const())),
        format!(
            "width={}",
            match a.width() {
                None => "-".to_string(),
                Some(w) => w.to_string(),
            }
        ),
        format!("scalar={}", show_b(a.is_scalar())),
        format!("quantum={}", show_b(a.is_quantum())),
        format!("dims={dims}"),
        format!("ndims={}", a.num_dims()),
    ];
    for (n, op) in ops.iter() {
        v.push(format!("{}={}", n, show_t(&implicit_cast_type(op, &a, &b))));
    }
    v.join(";")
}
