use crate::codec::*;
use oq3_semantics::symbols::*;
use std::panic::{catch_unwind, AssertUnwindSafe};

fn scope_type(s: &str) -> Option<ScopeType> {
    Some(match s {
        "g" => ScopeType::Global,
        "s" => ScopeType::Subroutine,
        "c" => ScopeType::Calibration,
        "l" => ScopeType::Local,
        _ => return None,
    })
}

fn show_kind(k: &ScopeType) -> &'static str {
    match k {
        ScopeType::Global => "g",
        ScopeType::Subroutine => "s",
        ScopeType::Calibration => "c",
        ScopeType::Local => "l",
    }
}

fn do_op(t: &mut SymbolTable, op: &str) -> Option<String> {
    let w: Vec<&str> = op.split_whitespace().collect();
    let r = catch_unwind(AssertUnwindSafe(|| -> Option<String> {
        Some(match w.as_slice() {
            ["E", k] => {
                t.verif_enter_scope(scope_type(k)?);
                "u".to_string()
            }
            ["X"] => {
                t.exit_scope();
                "u".to_string()
            }
            ["B", n, rest @ ..] => {
                let (ty, r) = parse_t(rest)?;
                if !r.is_empty() {
                    return None;
                }
                match t.new_binding(n, &ty) {
                    Ok(id) => format!("b{}", SymbolTable::verif_id_value(&id)),
                    Err(SymbolError::AlreadyBound) => "AB".to_string(),
                    Err(SymbolError::MissingBinding) => "??".to_string(),
                }
            }
            ["L", n] => match t.lookup(n) {
                Ok(rec) => {
                    let id = rec.symbol_id();
                    let sym = &t[&id];
                    format!(
                        "f{}:{}:{}",
                        SymbolTable::verif_id_value(&id),
                        sym.name(),
                        show_t(sym.symbol_type())
                    )
                }
                Err(SymbolError::MissingBinding) => "M".to_string(),
                Err(SymbolError::AlreadyBound) => "??".to_string(),
            },
            ["N", n, rest @ ..] => {
                let (ty, r) = parse_t(rest)?;
                if !r.is_empty() {
                    return None;
                }
                let id = t.lookup_or_new_binding(n, &ty);
                format!("b{}", SymbolTable::verif_id_value(&id))
            }
            ["C"] => format!("n{}", t.len_current_scope()),
            _ => return None,
        })
    }));
    match r {
        Ok(x) => x,
        Err(_) => Some("P".to_string()),
    }
}

pub fn line(line: &str) -> String {
    // a leading `D` builds the table with `Default::default()` instead of `SymbolTable::new()`: the two
    // constructors must give the same table (the model has one initial state)
    let mut ops: Vec<&str> = line.split(';').map(|s| s.trim()).filter(|s| !s.is_empty()).collect();
    let mut t = if ops.first() == Some(&"D") {
        ops.remove(0);
        SymbolTable::default()
    } else {
        SymbolTable::new()
    };
    let mut outs = Vec::new();
    for op in ops {
        match do_op(&mut t, op) {
            Some(o) => outs.push(o),
            None => return "bad-op".into(),
        }
    }
    let n = t.verif_num_symbols();
    let all: Vec<String> = (0..n)
        .map(|i| {
            let (name, ty) = t.verif_symbol(i);
            format!("{}:{}", name, show_t(ty))
        })
        .collect();
    let gates: Vec<String> = t
        .gates()
        .map(|(name, id, a, b)| format!("{}:{}:{}:{}", name, SymbolTable::verif_id_value(&id), a, b))
        .collect();
    let hw: Vec<String> = t
        .hardware_qubits()
        .iter()
        .map(|(name, id)| format!("{}:{}", name, SymbolTable::verif_id_value(id)))
        .collect();
    format!(
        "{} # depth={};cur={};all={};gates={};hw={}",
        outs.join(";"),
        t.verif_scope_depth(),
        show_kind(&t.verif_current_scope_type()),
        all.join(","),
        gates.join(","),
        hw.join(",")
    )
}
