// Correspondence / oracle harness: runs the real crates in-process on case lines read from
// stdin and prints one canonical line per case (see /verif/DESIGN.md §2.3).
mod codec;
mod m_ast;
mod m_include;
mod m_lex;
mod m_parse;
mod m_sema;
mod m_symtab;
mod m_tree;
mod m_types;

use std::io::{self, BufRead, Write};

fn main() {
    let args: Vec<String> = std::env::args().collect();
    let mode = args.get(1).map(|s| s.as_str()).unwrap_or("");
    // Silence the default panic message; each mode reports panics in its own canonical form.
    std::panic::set_hook(Box::new(|info| {
        let loc = info
            .location()
            .map(|l| format!("{}:{}", l.file(), l.line()))
            .unwrap_or_default();
        let msg = if let Some(s) = info.payload().downcast_ref::<&str>() {
            s.to_string()
        } else if let Some(s) = info.payload().downcast_ref::<String>() {
            s.clone()
        } else {
            String::new()
        };
        codec::LAST_PANIC.with(|p| *p.borrow_mut() = format!("{loc} {msg}"));
    }));
    let f: fn(&str) -> String = match mode {
        "types" => m_types::line,
        "symtab" => m_symtab::line,
        "include" => m_include::line,
        "incscan" => m_include::scan,
        "lex" => m_lex::line,
        "parse" => m_parse::line,
        "tree" => m_tree::line,
        "ast" => m_ast::line,
        "sema" => m_sema::line,
        "semapay" => m_sema::payload_line,
        "srcerrs" => m_sema::srcerrs_line,
        "uclass" => m_lex::uclass,
        _ => {
            eprintln!("usage: oq3-run <mode>");
            std::process::exit(2);
        }
    };
    let stdin = io::stdin();
    let stdout = io::stdout();
    let mut out = io::BufWriter::new(stdout.lock());
    for line in stdin.lock().lines() {
        let line = line.unwrap();
        writeln!(out, "{}", f(&line)).unwrap();
        // one answer per line, flushed: when a case does not return, the orchestrator knows which one
        out.flush().unwrap();
    }
}
