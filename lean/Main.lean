import Oq3.Driver.Types
import Oq3.Driver.Symbols
import Oq3.Driver.Lex
import Oq3.Driver.Parse
import Oq3.Driver.Tree
import Oq3.Driver.Pratt
import Oq3.Driver.Include
import Oq3.Driver.Sema
import Oq3.Driver.Accessors
import Oq3.Driver.Unescape

open Oq3.Driver

partial def loop (h : IO.FS.Stream) (out : IO.FS.Stream) (f : String → String) : IO Unit := do
  let line ← h.getLine
  if line.isEmpty then return ()
  let l := if line.endsWith "\n" then (line.dropEnd 1).toString else line
  out.putStrLn (f l)
  loop h out f

def readUClass (path : String) : IO UClassTable := do
  let txt ← IO.FS.readFile path
  return (txt.splitOn "\n").filterMap parseUClassLine

def main (args : List String) : IO UInt32 := do
  let stdin ← IO.getStdin
  let stdout ← IO.getStdout
  match args with
  | ["types"] => loop stdin stdout typesLine; return 0
  | ["types-guards"] => loop stdin stdout typesGuards; return 0
  | ["symtab"] => loop stdin stdout symtabLine; return 0
  | ["include"] => loop stdin stdout includeLine; return 0
  | ["ops"] => loop stdin stdout opsLine; return 0
  | ["pratt"] => loop stdin stdout prattLine; return 0
  | ["parse"] => loop stdin stdout parseLine; return 0
  | ["sema"] => loop stdin stdout semaLine; return 0
  | ["accessors"] => loop stdin stdout accessorsLine; return 0
  | ["unescape"] => loop stdin stdout Oq3.Driver.Unescape.unescapeLine; return 0
  | ["tree", uc] => do
      let tab ← readUClass uc
      loop stdin stdout (treeLine tab); return 0
  | ["lex", uc] => do
      let tab ← readUClass uc
      loop stdin stdout (lexLine tab); return 0
  | _ => IO.eprintln "usage: driver <mode>"; return 2
