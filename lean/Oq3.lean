import Oq3.Model.Types
import Oq3.Model.Symbols
import Oq3.Props.C19
import Oq3.Props.C20
import Oq3.Driver.Types
import Oq3.Driver.Symbols
