/-
Reference lexemes for C15 (and the well-formed context of C11): the classes of well-formed
OpenQASM 3 lexemes, each with its text, the `SyntaxKind` the token table must show, the raw
`TokenKind` the lexer must produce, a decidable well-formedness predicate, and the decidable
side condition `follows` on what may come directly after it (`needsSep` is its negation).

EXCLUSIONS (lexeme shapes deliberately outside the well-formed classes, with the reason):

* word `pragma`, word `OPENQASM`: followed by whitespace they are not identifiers/keywords at all
  but the start of a pragma line / version header (`have_pragma`, `have_openqasm`); they are
  covered by the classes `pragma` and `version`.  (So `PRAGMA_KW` and `O_P_E_N_Q_A_S_M_KW` are
  not kinds of any well-formed lexeme; `keyword_table` still records the mapping.)
* `#` alone (`Pound`): the lexer never produces it; `#` not followed by `pragma␣`/`dim` is an
  `InvalidIdent` with an error (C11, `malformed_flagged_pound`).
* upper-case radix prefixes `0B 0O 0X`: not radix prefixes for the lexer (`0B11` is the integer
  `0` with the literal suffix `B11`, one INT_NUMBER token).
* digit runs: the first and last character must be a digit (`1_000` yes; `_1`, `1_` no, although
  the lexer accepts a trailing `_`); in `0b`/`0o` literals only binary/octal digits (the lexer
  accepts all decimal digits there); exponent digits may not start with `_`.
* floats of the shape `1.e3`, `1._5` (the lexer reads `1.` followed by a literal suffix).
* hardware qubits with underscores (`$1_0`; the lexer accepts them), `$_`.
* strings containing a newline, a backslash or their own quote character (escapes, multi-line
  strings); bit strings with two consecutive underscores (a lexer error by design).
* pragma lines where the word `pragma` is directly followed by a line break (the lexer yields a
  `Pragma` token of text `pragma`); the first character after the word must be a whitespace
  character other than `\n`.
* version headers with underscores in the version number, and a version header at the very end
  of the input (`openqasm_version` requires `;` or whitespace after the number: finding W-VER).
* comments are trivia here (`Trivia`), not non-trivia lexemes; composite operators (`==`, `+=`,
  `->`, …) are sequences of single-character `punct` lexemes at this level, as in the lexer.
* After a lexeme that runs to the end of the line (`endsLine`: pragma, annotation; and the
  trivia line comment) the very next character must be `\n` (or the input ends): any other
  character, including `\r`, would become part of the lexeme.
-/
import Oq3.Gen.SyntaxKind
import Oq3.Model.Lexer

namespace Oq3.Ref
open Oq3.Lexer Oq3.Gen

/-! ### character classes -/

def isDigitU (c : Char) : Bool := isDecDigit c || c == '_'
def isHexU (c : Char) : Bool := isHexDigit c || c == '_'
def isBinDigit (c : Char) : Bool := c == '0' || c == '1'
def isOctDigit (c : Char) : Bool := '0' ≤ c && c ≤ '7'
def isBitChar (c : Char) : Bool := c == '0' || c == '1' || c == '_'

/-- the first character exists and satisfies `p` -/
def headSat (p : Char → Bool) : List Char → Bool
  | [] => false
  | c :: _ => p c

/-- digits of class `p` with underscores inside: first and last characters are digits -/
def digitRun (p : Char → Bool) (ds : List Char) : Bool :=
  headSat p ds && ds.all (fun c => p c || c == '_') && ds.getLast?.any p

/-- two consecutive underscores somewhere -/
def hasConsecUnderscores : List Char → Bool
  | a :: b :: l => (a == '_' && b == '_') || hasConsecUnderscores (b :: l)
  | _ => false

/-! ### lexemes -/

inductive Radix | bin | oct | hex
  deriving DecidableEq, Repr

def Radix.char : Radix → Char | .bin => 'b' | .oct => 'o' | .hex => 'x'
def Radix.base : Radix → Base | .bin => .binary | .oct => .octal | .hex => .hexadecimal
def Radix.digit : Radix → Char → Bool | .bin => isBinDigit | .oct => isOctDigit | .hex => isHexDigit

/-- exponent part `e[+-]digits` -/
structure Exponent where
  marker : Char
  sign : Option Char
  digits : List Char
  deriving DecidableEq, Repr

def Exponent.text (e : Exponent) : List Char := e.marker :: (e.sign.toList ++ e.digits)

def Exponent.WF (e : Exponent) : Bool :=
  (e.marker == 'e' || e.marker == 'E') && e.sign.all (fun c => c == '+' || c == '-') &&
    digitRun isDecDigit e.digits

/-- single-character punctuation: character, raw kind, syntax kind -/
def punctTable : List (Char × TokenKind × SyntaxKind) := [
  (';', .semi, .SEMICOLON), (',', .comma, .COMMA), ('.', .dot, .DOT),
  ('(', .openParen, .L_PAREN), (')', .closeParen, .R_PAREN),
  ('{', .openBrace, .L_CURLY), ('}', .closeBrace, .R_CURLY),
  ('[', .openBracket, .L_BRACK), (']', .closeBracket, .R_BRACK),
  ('@', .at, .AT), ('~', .tilde, .TILDE), ('?', .question, .QUESTION), (':', .colon, .COLON),
  ('$', .dollar, .DOLLAR), ('=', .eq, .EQ), ('!', .bang, .BANG), ('<', .lt, .L_ANGLE),
  ('>', .gt, .R_ANGLE), ('-', .minus, .MINUS), ('&', .and, .AMP), ('|', .or, .PIPE),
  ('+', .plus, .PLUS), ('*', .star, .STAR), ('/', .slash, .SLASH), ('^', .caret, .CARET),
  ('%', .percent, .PERCENT)]

def punctLookup (c : Char) : Option (TokenKind × SyntaxKind) :=
  (punctTable.find? (·.1 == c)).map (·.2)

/-- non-trivia lexemes -/
inductive Lexeme
  /-- identifier, keyword, type name, or `_` -/
  | word (s : List Char)
  /-- hardware qubit `$digits` -/
  | hardware (ds : List Char)
  /-- decimal integer -/
  | int (ds : List Char)
  /-- `0b…`, `0o…`, `0x…` -/
  | radixInt (r : Radix) (ds : List Char)
  /-- float: integer part (may be empty), optional `.` with fraction (may be empty), optional
  exponent -/
  | float (ip : List Char) (fp : Option (List Char)) (ex : Option Exponent)
  /-- quoted string or bit string with quote character `q` -/
  | str (q : Char) (body : List Char)
  /-- single-character punctuation -/
  | punct (c : Char)
  /-- `pragma…` / `#pragma…` up to the end of the line; `body` starts with the whitespace -/
  | pragma (hash : Bool) (body : List Char)
  /-- `@ident…` up to the end of the line -/
  | annotation (body : List Char)
  /-- `#dim` -/
  | dim
  /-- `OPENQASM <ws> major[.minor]` -/
  | version (ws : List Char) (major : List Char) (minor : Option (List Char))
  deriving DecidableEq, Repr

def pragmaWord : List Char := ['p', 'r', 'a', 'g', 'm', 'a']
def openqasmWord : List Char := ['O', 'P', 'E', 'N', 'Q', 'A', 'S', 'M']

namespace Lexeme

def text : Lexeme → List Char
  | word s => s
  | hardware ds => '$' :: ds
  | int ds => ds
  | radixInt r ds => '0' :: r.char :: ds
  | float ip fp ex =>
    ip ++ (match fp with | some f => '.' :: f | none => []) ++
      (match ex with | some e => e.text | none => [])
  | str q body => q :: (body ++ [q])
  | punct c => [c]
  | pragma hash body => (if hash then ['#'] else []) ++ pragmaWord ++ body
  | annotation body => '@' :: body
  | dim => ['#', 'd', 'i', 'm']
  | version ws major minor =>
    openqasmWord ++ ws ++ major ++ (match minor with | some m => '.' :: m | none => [])

/-- the kind `inner_extend_token` gives an identifier-shaped text -/
def wordKind (s : List Char) : SyntaxKind :=
  if s == ['_'] then .UNDERSCORE
  else (SyntaxKind.fromKeyword s).getD ((SyntaxKind.fromScalarType s).getD .IDENT)

/-- the `SyntaxKind` the token table must show -/
def kind : Lexeme → SyntaxKind
  | word s => wordKind s
  | hardware _ => .HARDWAREIDENT
  | int _ => .INT_NUMBER
  | radixInt _ _ => .INT_NUMBER
  | float _ _ _ => .FLOAT_NUMBER
  | str _ body => if body.all isBitChar then .BIT_STRING else .STRING
  | punct c => ((punctLookup c).map (·.2)).getD .ERROR
  | pragma _ _ => .PRAGMA
  | annotation _ => .ANNOTATION
  | dim => .DIM_KW
  | version _ _ _ => .VERSION_STRING

/-- the raw `TokenKind` the lexer must produce (`suffix_start` = the whole token) -/
def tokenKind (l : Lexeme) : TokenKind :=
  match l with
  | word _ => .ident
  | hardware _ => .hardwareIdent
  | int _ => .literal (.int .decimal false) (utf8Len l.text)
  | radixInt r _ => .literal (.int r.base false) (utf8Len l.text)
  | float _ _ _ => .literal (.float .decimal false) (utf8Len l.text)
  | str _ body =>
    .literal (if body.all isBitChar then .bitStr true false else .str true) (utf8Len l.text)
  | punct c => ((punctLookup c).map (·.1)).getD .unknown
  | pragma _ _ => .pragma
  | annotation _ => .annotation
  | dim => .dim
  | version _ _ _ => .openQasmVersionStmt true true

/-- well-formedness (see EXCLUSIONS at the top of the file) -/
def WF (uc : UC) : Lexeme → Bool
  | word s =>
    (match s with
     | [] => false
     | c :: t => isIdStart uc c && t.all (isIdContinue uc)) &&
    s != pragmaWord && s != openqasmWord
  | hardware ds => !ds.isEmpty && ds.all isDecDigit
  | int ds => digitRun isDecDigit ds
  | radixInt r ds => digitRun r.digit ds
  | float ip fp ex =>
    (ip.isEmpty || digitRun isDecDigit ip) &&
    (match fp with
     | some f => f.isEmpty || digitRun isDecDigit f
     | none => true) &&
    (match ex with
     | some e => e.WF
     | none => true) &&
    -- `.5`: a fraction is required when there is no integer part
    (!ip.isEmpty || (match fp with | some f => !f.isEmpty | none => false)) &&
    -- something must make it a float
    (fp.isSome || ex.isSome) &&
    -- `1.e3` is not a float with exponent
    !(fp == some [] && ex.isSome)
  | str q body =>
    (q == '"' || q == '\'') && body.all (fun c => c != q && c != '\\' && c != '\n') &&
    !(body.all isBitChar && hasConsecUnderscores body)
  | punct c => (punctLookup c).isSome
  | pragma _ body =>
    (match body with
     | [] => false
     | w :: t => isWhitespace w && w != '\n' && t.all (fun c => c != '\n'))
  | annotation body =>
    headSat (isIdStart uc) body && body.all (fun c => c != '\n')
  | dim => true
  | version ws major minor =>
    !ws.isEmpty && ws.all isWhitespace && !major.isEmpty && major.all isDecDigit &&
    (match minor with
     | some m => !m.isEmpty && m.all isDecDigit
     | none => true)

/-- the literal-suffix scanner does nothing at `rest`: either a time/imaginary unit follows
(left as a separate identifier token) or no identifier start follows -/
def suffixFree (uc : UC) (rest : List Char) : Bool :=
  hasTimingOrImaginarySuffix rest || !isIdStart uc (first rest)

/-- end of input or a line break -/
def atLineEnd : List Char → Bool
  | [] => true
  | c :: _ => c == '\n'

/-- `follows uc l rest`: writing `rest` directly after `l` does not change how `l` is lexed -/
def follows (uc : UC) (l : Lexeme) (rest : List Char) : Bool :=
  match l with
  | word _ => !headSat (fun c => isIdContinue uc c || isNonAsciiEmoji uc c) rest
  | hardware _ => !headSat isDigitU rest
  | int _ => !headSat (fun c => isDigitU c || c == '.') rest && suffixFree uc rest
  | radixInt .hex _ => !headSat (fun c => isHexU c || c == '.') rest && suffixFree uc rest
  | radixInt _ _ => !headSat (fun c => isDigitU c || c == '.') rest && suffixFree uc rest
  | float _ _ _ => !headSat isDigitU rest && suffixFree uc rest
  | str _ _ => !isIdStart uc (first rest)
  | punct c =>
    if c == '/' then !(first rest == '/' || first rest == '*')
    else if c == '.' then !isDecDigit (first rest)
    else if c == '@' then !isIdStart uc (first rest)
    else if c == '$' then !isNonAsciiEmoji uc (first rest) && !headSat isDigitU rest
    else true
  | pragma _ _ => atLineEnd rest
  | annotation _ => atLineEnd rest
  | dim => true
  | version _ _ _ => headSat (fun c => c == ';' || isWhitespace c) rest

/-- the fuse relation: writing `l₂` directly after `l₁` would change the tokenization -/
def needsSep (uc : UC) (l₁ l₂ : Lexeme) : Bool := !follows uc l₁ l₂.text

/-- lexemes that run to the end of the line -/
def endsLine : Lexeme → Bool
  | pragma _ _ => true
  | annotation _ => true
  | _ => false

end Lexeme

/-! ### trivia -/

/-- the text after `/*` closes the comment exactly at its end; `d` = number of enclosing open
comments besides the outermost -/
def blockCloses : Nat → List Char → Bool
  | _, [] => false
  | d, c :: cs =>
    if c == '/' && first cs == '*' then
      match cs with
      | [] => false
      | _ :: ds => blockCloses (d + 1) ds
    else if c == '*' && first cs == '/' then
      match cs with
      | [] => false
      | _ :: ds => if d == 0 then ds.isEmpty else blockCloses (d - 1) ds
    else blockCloses d cs

inductive Trivia
  /-- whitespace run -/
  | ws (s : List Char)
  /-- `//body` -/
  | line (body : List Char)
  /-- `/*body`, where `body` includes the closing `*/` -/
  | block (body : List Char)
  deriving DecidableEq, Repr

namespace Trivia

def text : Trivia → List Char
  | ws s => s
  | line body => '/' :: '/' :: body
  | block body => '/' :: '*' :: body

def WF : Trivia → Bool
  | ws s => !s.isEmpty && s.all isWhitespace
  | line body => body.all (fun c => c != '\n')
  | block body => blockCloses 0 body

def tokenKind : Trivia → TokenKind
  | ws _ => .whitespace
  | line _ => .lineComment
  | block _ => .blockComment true

def follows (t : Trivia) (rest : List Char) : Bool :=
  match t with
  | ws _ => !headSat isWhitespace rest
  | line _ => Lexeme.atLineEnd rest
  | block _ => true

end Trivia

end Oq3.Ref
