/-
C13 — the arity rule for the standard library, through the TRANSLATED table.

`Props/C09StdGates.lean` shows that after `include "stdgates.inc";` the i-th name of the translated table resolves
to a symbol of type `Gate(np_i, nq_i)`; `Props/C13.lean` shows that the gate-call check logs an arity diagnostic
iff the callee's gate type disagrees with the call.  Together: a call of a standard-library gate is diagnosed for
its parameters (its qubits) iff the number written differs from the table row — for every row, whatever the
table currently says.
-/
import Oq3.Props.C13
import Oq3.Props.C09StdGates

namespace Oq3.Props.C13
open Oq3.Sema Oq3.Symbols Oq3.Types

/-- what a look-up of the i-th standard gate yields (from `standardLibraryGates_lookup`): its type -/
theorem std_gate_type (t : SymTab) (s : Scope) (rest : List Scope) (hs : t.stack = s :: rest)
    (hc : t.counter = t.all.length) (hok : TableOk stdGates s = true)
    (i : Nat) (g : Name × Nat × Nat) (hg : stdGates[i]? = some g) :
    ∃ id, (t.standardLibraryGates.1.step (.lookup g.1)).2 = .found id g.1 (T.gate g.2.1 g.2.2) :=
  ⟨_, standardLibraryGates_lookup t s rest hs hc hok i g hg⟩

/-- **a call of a standard-library gate gets NumGateParamsError iff the number of parameters written differs from
the table row, and NumGateQubitsError iff the number of qubit operands does** -/
theorem std_gate_arity_iff (span : Ast.Span) (ql : Ast.QubitList) (al : Option Ast.ArgList)
    (gateId : Ast.Identifier) (ok : Bool) (numParams numQubits : Nat)
    (g : Name × Nat × Nat) (_hg : g ∈ stdGates) :
    (SemanticErrorKind.numGateParamsError ∈
        kinds (gateCallErrs span ql al gateId ok (T.gate g.2.1 g.2.2) numParams numQubits) ↔ g.2.1 ≠ numParams) ∧
    (SemanticErrorKind.numGateQubitsError ∈
        kinds (gateCallErrs span ql al gateId ok (T.gate g.2.1 g.2.2) numParams numQubits) ↔ g.2.2 ≠ numQubits) := by
  constructor
  · rw [gate_params_iff]
    constructor
    · rintro ⟨np, nq, h, hne⟩; cases h; exact hne
    · intro h; exact ⟨_, _, rfl, h⟩
  · rw [gate_qubits_iff]
    constructor
    · rintro ⟨np, nq, h, hne⟩; cases h; exact hne
    · intro h; exact ⟨_, _, rfl, h⟩

/-- instance on the translated table: `cu` with three parameters and two qubits is reported for its parameters
and not for its qubits -/
example (span : Ast.Span) (ql : Ast.QubitList) (al : Option Ast.ArgList) (gateId : Ast.Identifier) :
    SemanticErrorKind.numGateParamsError ∈ kinds (gateCallErrs span ql al gateId true (T.gate 4 2) 3 2) ∧
    SemanticErrorKind.numGateQubitsError ∉ kinds (gateCallErrs span ql al gateId true (T.gate 4 2) 3 2) := by
  have h := std_gate_arity_iff span ql al gateId true 3 2 ("cu", 4, 2) (by decide +kernel)
  exact ⟨h.1.mpr (by decide), fun hc => (h.2.mp hc) rfl⟩

end Oq3.Props.C13
