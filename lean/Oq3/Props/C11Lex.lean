/-
C11 (lexical half) — malformed lexemes are always diagnosed.

For each class of malformed lexeme: `malformed_flagged_<class>` says that `advance_token`, started
at the malformed lexeme `bad` followed by an ARBITRARY `rest`, returns a token that covers `bad`
and whose flags make `inner_extend_token` return a non-empty message.  `error_at_boundary` lifts
this to the token table: if the text before `bad` ends at a token boundary (which C15's
`tokenize_layout` gives for every admissible well-formed prefix), `LexedStr.error` contains an
entry whose index is that token's index and whose text range starts at `bad`.

`witness_*` are the known exceptions (F11 and the special-cased unterminated bit string).
-/
import Oq3.Props.C15

namespace Oq3.Props.C11
open Oq3.Lexer Oq3.Lexed Oq3.Gen Oq3.Ref Oq3.Lemmas.Lexer Oq3.Lemmas.Lexed Oq3.Lemmas.LexLocal
open Oq3.Props.C15

variable {uc : UC}

/-! ### lifting: from a flagged token to `LexedStr.error` -/

/-- the token `advance_token` returns carries a lexer error -/
def Flagged (k : TokenKind) (text : List Char) : Prop := (innerExtendToken k text).1.isEmpty = false

theorem specErrors_mem (a : List Token) (t : Token) (b : List Token) (idx : Nat)
    (h : (errMsg t).isEmpty = false) : ⟨errMsg t, idx + a.length⟩ ∈ specErrors idx (a ++ t :: b) := by
  induction a generalizing idx with
  | nil => simp [specErrors, h]
  | cons x xs ih =>
    simp only [List.cons_append, specErrors, List.mem_append, List.length_cons]
    right
    have := ih (idx + 1)
    rwa [show idx + 1 + xs.length = idx + (xs.length + 1) by omega] at this

/-- **Lifting.**  If the text before `s` ends at a token boundary (the token stream of
`pre ++ s` is some `tp` followed by the token stream of `s`) and the first token of `s` is
flagged, then `LexedStr.error` has an entry for exactly that token: its index is `tp.length`, and
the token's text range starts at the byte offset of `s` and has the token's length. -/
theorem error_at_boundary (uc : UC) (pre s : List Char) (tp : List Token) (hs : s ≠ [])
    (hb : tokenize uc (pre ++ s) = tp ++ tokenize uc s)
    (herr : Flagged (tokenAt uc s).kind (tokenAt uc s).text) :
    ∃ l, LexedStr.new uc (pre ++ s) = some l ∧
      (∃ e ∈ l.error, e.token = tp.length ∧ e.msg = errMsg (tokenAt uc s)) ∧
      l.textRange tp.length = some (utf8Len pre, utf8Len pre + (tokenAt uc s).len) := by
  obtain ⟨c, cs, rfl⟩ : ∃ c cs, s = c :: cs := by
    cases s with
    | nil => exact absurd rfl hs
    | cons c cs => exact ⟨c, cs, rfl⟩
  have htok : tokenize uc (pre ++ c :: cs) =
      tp ++ tokenAt uc (c :: cs) :: tokenize uc (advanceToken uc (c :: cs)).rest := by
    rw [hb, tokenize_cons]
  have htexts : texts tp = pre := by
    have h1 := tokenize_texts uc (pre ++ c :: cs)
    rw [hb, List.map_append, List.flatten_append, tokenize_texts] at h1
    exact List.append_cancel_right h1
  refine ⟨_, new_eq uc _, ⟨⟨errMsg (tokenAt uc (c :: cs)), tp.length⟩, ?_, rfl, rfl⟩, ?_⟩
  · show _ ∈ specErrors 0 (tokenize uc (pre ++ c :: cs))
    rw [htok]
    have := specErrors_mem tp (tokenAt uc (c :: cs)) (tokenize uc (advanceToken uc (c :: cs)).rest) 0 herr
    simpa using this
  · have hlen : tp.length < (tokenize uc (pre ++ c :: cs)).length := by rw [htok]; simp
    simp only [LexedStr.textRange, lexedOf_len, hlen, if_true]
    rw [lexedOf_start uc _ tp.length (by omega), lexedOf_start uc _ (tp.length + 1) (by omega)]
    simp only [htok, List.take_left', List.take_succ_eq_append_getElem (by simp : tp.length < (tp ++ tokenAt uc (c :: cs) :: tokenize uc (advanceToken uc (c :: cs)).rest).length)]
    have htexts' : (List.map (fun x => x.text) tp).flatten = pre := htexts
    simp [utf8Len_append, texts, tokenAt_len, htexts']

/-- the lexed layer has no error iff no token is flagged (`check_lex`-level fact) -/
theorem error_nil_iff (uc : UC) (s : List Char) (l : LexedStr) (hl : LexedStr.new uc s = some l) :
    l.error = [] ↔ ∀ t ∈ tokenize uc s, (innerExtendToken t.kind t.text).1.isEmpty = true := by
  rw [C14.lexed_eq uc s l hl]
  exact specErrors_nil_iff (tokenize uc s) 0


/-- **Malformed lexeme in a well-formed context.**  After ANY admissible layout of well-formed
lexemes (C15) — i.e. wherever a lexeme boundary is — a flagged token at the start of `s` yields a
lexer error whose token index is the number of tokens before it and whose text range begins
exactly where `s` begins.  (`s` is `bad ++ rest` in the `malformed_flagged_*` theorems.) -/
theorem malformed_in_context (hu : AsciiUC uc) (lead : Sep) (items : List (Lexeme × Sep))
    (s : List Char) (hs : s ≠ [])
    (hlead : sepOK lead (itemsTextK items s) = true) (hitems : itemsOKK uc items s = true)
    (herr : Flagged (tokenAt uc s).kind (tokenAt uc s).text) :
    ∃ l, LexedStr.new uc (sepText lead ++ itemsTextK items s) = some l ∧
      (∃ e ∈ l.error, e.token = (layoutToks lead items).length ∧ e.msg = errMsg (tokenAt uc s)) ∧
      l.textRange (layoutToks lead items).length =
        some (utf8Len (sepText lead ++ itemsTextK items []),
          utf8Len (sepText lead ++ itemsTextK items []) + (tokenAt uc s).len) := by
  rw [layout_text lead items s]
  refine error_at_boundary uc _ s (layoutToks lead items) hs ?_ herr
  rw [← layout_text lead items s]
  exact tokenize_layoutK hu lead items s hlead hitems

/-! ### unterminated block comment -/

/-- if the comment loop ends with a non-zero depth it has consumed the whole input -/
theorem blockCommentLoop_open (d : Nat) (ok : Bool) (s : List Char)
    (h : (blockCommentLoop d ok s).val ≠ 0) : (blockCommentLoop d ok s).rest = [] := by
  fun_induction blockCommentLoop d ok s <;> simp_all

/-- `*/` occurs somewhere -/
def hasStarSlash : List Char → Bool
  | a :: b :: l => (a == '*' && b == '/') || hasStarSlash (b :: l)
  | _ => false

theorem hasStarSlash_tail {x : Char} {l : List Char} (h : hasStarSlash (x :: l) = false) :
    hasStarSlash l = false := by
  cases l with
  | nil => rfl
  | cons y l' => simp only [hasStarSlash, Bool.or_eq_false_iff] at h; exact h.2

/-- without any `*/` the depth never returns to zero -/
theorem blockCommentLoop_no_close (d : Nat) (ok : Bool) (s : List Char) (hd : 0 < d)
    (h : hasStarSlash s = false) : (blockCommentLoop d ok s).val ≠ 0 := by
  fun_induction blockCommentLoop d ok s
  case case1 => simp; omega
  case case2 => simp
  case case3 ih => exact ih (by omega) (hasStarSlash_tail (hasStarSlash_tail h))
  case case4 => rename_i h2; simp [first, EOF_CHAR] at h2
  case case5 => rename_i hc; simp [hasStarSlash] at h hc; simp [hc] at h
  case case6 => rename_i hc _; simp [hasStarSlash] at h hc; simp [hc] at h
  case case7 ih => exact ih hd (hasStarSlash_tail h)

/-- **Unterminated block comment.**  `/*` followed by any `body`: the token is a `BlockComment`;
if it is unterminated it runs to the end of the input (it covers everything) and it is flagged.
It is unterminated in particular when no `*/` follows at all. -/
theorem malformed_flagged_block_comment (body : List Char) :
    ∃ term, (advanceToken uc ('/' :: '*' :: body)).kind = .blockComment term ∧
      (term = false → (advanceToken uc ('/' :: '*' :: body)).rest = [] ∧
        ∀ text, Flagged (.blockComment term) text) ∧
      (hasStarSlash body = false → term = false) := by
  have hk : advanceKind uc '/' ('*' :: body) = blockComment '/' ('*' :: body) := by
    rw [advanceKind_slash]; simp
  refine ⟨(blockCommentLoop 1 true body).val == 0, ?_, ?_, ?_⟩
  · simp [advanceToken, hk, blockComment]
  · intro ht
    have hne : (blockCommentLoop 1 true body).val ≠ 0 := by simpa using ht
    refine ⟨?_, ?_⟩
    · simp [advanceToken, hk, blockComment, blockCommentLoop_open 1 true body hne]
    · intro text; rw [ht]; rfl
  · intro h
    simpa using blockCommentLoop_no_close 1 true body (by omega) h

/-! ### unterminated string -/

/-- without a closing quote the string loop runs to the end of the input, unterminated -/
theorem quotedStringLoop_open (q : Char) (st : StrState) (body : List Char)
    (h : body.all (fun c => c != q) = true) :
    (quotedStringLoop q st body).val.1 = false ∧ (quotedStringLoop q st body).rest = [] := by
  fun_induction quotedStringLoop q st body <;> simp_all

/-- **Unterminated string.**  A quote followed by a `body` without that quote character: the
token is an unterminated `Str` or `BitStr` literal covering the whole rest of the input, and it
is flagged — except for the combination `BitStr { terminated: false, consecutive_underscores:
true }` (finding F11, `witness_unterminated_bitstring_double_underscore`). -/
theorem malformed_flagged_string (hu : AsciiUC uc) (q : Char) (hq : q = '"' ∨ q = '\'')
    (body : List Char) (h : body.all (fun c => c != q) = true) :
    ∃ k, (advanceToken uc (q :: body)).kind = .literal k (utf8Len (q :: body)) ∧
      (advanceToken uc (q :: body)).rest = [] ∧
      (k = .str false ∨ ∃ c, k = .bitStr false c) ∧
      (k ≠ .bitStr false true → ∀ n text, Flagged (.literal k n) text) := by
  have hloop := quotedStringLoop_open q StrState.init body h
  have hkind : ∀ r : Scan (Bool × Bool × Bool), r.val.1 = false → r.rest = [] →
      ∃ k, (stringLiteral uc (q :: body) r).val = .literal k (utf8Len (q :: body)) ∧
        (stringLiteral uc (q :: body) r).rest = [] ∧
        (k = .str false ∨ ∃ c, k = .bitStr false c) ∧
        (k ≠ .bitStr false true → ∀ n text, Flagged (.literal k n) text) := by
    intro r h1 h2
    simp only [stringLiteral, h1, h2, posWithinToken, utf8Len, Nat.sub_zero]
    cases hb : r.val.2.1 with
    | false =>
      refine ⟨.str false, by simp, by simp, Or.inl rfl, fun _ n text => rfl⟩
    | true =>
      refine ⟨.bitStr false r.val.2.2, by simp, by simp, Or.inr ⟨_, rfl⟩, ?_⟩
      intro hne n text
      cases hc : r.val.2.2 with
      | true => rw [hc] at hne; exact absurd rfl hne
      | false => rfl
  rcases hq with rfl | rfl
  · obtain ⟨k, h1, h2, h3, h4⟩ := hkind (doubleQuotedString '"' body) hloop.1 hloop.2
    exact ⟨k, by simp [advanceToken, advanceKind_dquote hu, h1],
      by simp [advanceToken, advanceKind_dquote hu, h2], h3, h4⟩
  · obtain ⟨k, h1, h2, h3, h4⟩ := hkind (singleQuotedString '\'' body) hloop.1 hloop.2
    exact ⟨k, by simp [advanceToken, advanceKind_squote hu, h1],
      by simp [advanceToken, advanceKind_squote hu, h2], h3, h4⟩


/-! ### base prefix without digits -/

theorem flagged_empty_int (b : Base) (n : Nat) (text : List Char) :
    Flagged (.literal (.int b true) n) text := rfl

theorem flagged_empty_exponent (b : Base) (n : Nat) (text : List Char) :
    Flagged (.literal (.float b true) n) text := rfl

/-- the kind of the token at a digit, through `number` -/
theorem advanceToken_kind_number (hu : AsciiUC uc) {c : Char} (hc : isDecDigit c = true)
    (cs : List Char) :
    ∃ rest', (advanceToken uc (c :: cs)).kind =
        .literal (number c c cs).val (posWithinToken (c :: cs) (number c c cs).rest) ∧
      (advanceToken uc (c :: cs)).rest = rest' ∧ rest' <:+ (number c c cs).rest := by
  refine ⟨_, ?_, rfl, ?_⟩
  · simp [advanceToken, advanceKind_digit hu hc, numericLiteral]
  · simp only [advanceToken, advanceKind_digit hu hc, numericLiteral]
    split
    · exact sfx_eatLiteralSuffix (List.suffix_refl _)
    · exact List.suffix_refl _

/-- **`0b` / `0o` / `0x` without digits**, followed by anything that is not a digit of that kind
(or `_`): an `Int` literal with `empty_int`, `suffix_start = 2` (so the token covers the prefix),
flagged. -/
theorem malformed_flagged_empty_int (hu : AsciiUC uc) (r : Radix) (rest : List Char)
    (h : headSat (if r = .hex then isHexU else isDigitU) rest = false) :
    (advanceToken uc ('0' :: r.char :: rest)).kind = .literal (.int r.base true) 2 ∧
    2 ≤ (advanceToken uc ('0' :: r.char :: rest)).len ∧
    ∀ text, Flagged (advanceToken uc ('0' :: r.char :: rest)).kind text := by
  have h0 : isDecDigit '0' = true := by decide
  have hnum : (number '0' '0' (r.char :: rest)).val = .int r.base true ∧
      (number '0' '0' (r.char :: rest)).rest = rest := by
    cases r with
    | bin =>
      have := eatDecimalDigits_exact [] rest rfl (by simpa using h)
      simp only [List.nil_append] at this
      simp [number, Radix.char, Radix.base, this]
    | oct =>
      have := eatDecimalDigits_exact [] rest rfl (by simpa using h)
      simp only [List.nil_append] at this
      simp [number, Radix.char, Radix.base, this]
    | hex =>
      have := eatHexadecimalDigitsLoop_exact [] rest rfl (by simpa using h) false
      simp only [List.nil_append] at this
      simp [number, Radix.char, Radix.base, eatHexadecimalDigits, this]
  obtain ⟨rest', hk, _, _⟩ := advanceToken_kind_number hu h0 (r.char :: rest)
  rw [hnum.1, hnum.2] at hk
  have hpos : posWithinToken ('0' :: r.char :: rest) rest = 2 := by
    have := posWithinToken_append ['0', r.char] rest
    simp only [List.cons_append, List.nil_append] at this
    rw [this]; cases r <;> rfl
  rw [hpos] at hk
  refine ⟨hk, ?_, fun text => by rw [hk]; rfl⟩
  exact tokenAt_suffix_start uc '0' (r.char :: rest) _ 2 hk

/-! ### exponent marker without digits -/

theorem eatFloatExponent_empty (prev : Char) (sign : Option Char) (rest : List Char)
    (hs : sign.all (fun c => c == '+' || c == '-') = true)
    (hr : headSat isDigitU rest = false)
    (hns : sign = none → (first rest == '-' || first rest == '+') = false) :
    (eatFloatExponent prev (sign.toList ++ rest)).val = false ∧
    (eatFloatExponent prev (sign.toList ++ rest)).rest = rest := by
  have hed := eatDecimalDigits_exact [] rest rfl hr
  simp only [List.nil_append] at hed
  cases sign with
  | none => simp [eatFloatExponent, hns rfl, hed]
  | some c =>
    simp only [Option.all_some, Bool.or_eq_true, beq_iff_eq] at hs
    have hc : (c == '-' || c == '+') = true := by rcases hs with rfl | rfl <;> decide
    simp [eatFloatExponent, hc, hed]

/-- **Exponent marker without digits** (`1e`, `1e+`, `1.5e-`, …): integer part, optional
fraction, `e`/`E`, optional sign, then something that is not a digit.  A `Float` literal with
`empty_exponent` whose `suffix_start` is after the marker and sign (the token covers them),
flagged. -/
theorem malformed_flagged_empty_exponent (hu : AsciiUC uc) (ip : List Char)
    (fp : Option (List Char)) (marker : Char) (sign : Option Char) (rest : List Char)
    (hip : digitRun isDecDigit ip = true)
    (hfp : (match fp with | some f => digitRun isDecDigit f | none => true) = true)
    (hm : (marker == 'e' || marker == 'E') = true)
    (hs : sign.all (fun c => c == '+' || c == '-') = true)
    (hr : headSat isDigitU rest = false)
    (hns : sign = none → (first rest == '-' || first rest == '+') = false) :
    let bad := ip ++ (fracText fp ++ marker :: sign.toList)
    (tokenAt uc (bad ++ rest)).kind = .literal (.float .decimal true) (utf8Len bad) ∧
    utf8Len bad ≤ (tokenAt uc (bad ++ rest)).len ∧
    ∀ text, Flagged (tokenAt uc (bad ++ rest)).kind text := by
  intro bad
  obtain ⟨hall, _, hhead, hne⟩ := digitRun_all (fun _ h => h) hip
  obtain ⟨c, t, rfl⟩ : ∃ c t, ip = c :: t := by
    cases ip with
    | nil => exact absurd rfl hne
    | cons c t => exact ⟨c, t, rfl⟩
  have hc : isDecDigit c = true := hhead
  simp only [List.all_cons, Bool.and_eq_true] at hall
  have hmd : (marker == '.') = false ∧ isDigitU marker = false ∧ (marker == 'b') = false ∧
      (marker == 'o') = false ∧ (marker == 'x') = false := by
    simp only [Bool.or_eq_true, beq_iff_eq] at hm
    rcases hm with h | h <;> (rw [h]; decide)
  have hexp := eatFloatExponent_empty marker sign rest hs hr hns
  -- the scanner after the integer part
  let X := fracText fp ++ marker :: (sign.toList ++ rest)
  have hX : headSat isDigitU X = false ∧ (first X == 'b') = false ∧ (first X == 'o') = false ∧
      (first X == 'x') = false := by
    cases fp with
    | some f => simp [X, fracText, headSat, isDigitU, isDecDigit]
    | none => simp [X, fracText, headSat, hmd]
  have htail : (numberTail .decimal X).val = .float .decimal true ∧ (numberTail .decimal X).rest = rest := by
    cases fp with
    | none =>
      simp only [X, fracText, List.nil_append, numberTail, first_cons, hmd.1, Bool.false_eq_true,
        if_false, hm, if_true, bump_cons]
      simp [hexp.1, hexp.2]
    | some f =>
      have hrun : digitRun isDecDigit f = true := hfp
      obtain ⟨hfall, _, hfhead, hfne⟩ := digitRun_all (fun _ h => h) hrun
      have hfd : isDecDigit (first (f ++ marker :: (sign.toList ++ rest))) = true := by
        rw [first_append _ hfne]; exact first_of_headSat hfhead
      have hed := eatDecimalDigits_exact f (marker :: (sign.toList ++ rest)) hfall
        (by simp [headSat, hmd.2.1])
      simp only [X, fracText, List.cons_append, numberTail, first_cons, beq_self_eq_true, if_true,
        bump_cons, hfd, hed, optExponent, hm]
      simp [hexp.1, hexp.2]
  have hnum := number_decimal hc hall.2 hX.1 hX.2.1 hX.2.2.1 hX.2.2.2
  rw [htail.1, htail.2] at hnum
  have hbad : bad ++ rest = c :: (t ++ X) := by simp [bad, X]
  obtain ⟨rest', hk, _, _⟩ := advanceToken_kind_number hu hc (t ++ X)
  rw [hnum.1, hnum.2] at hk
  have hpos : posWithinToken (c :: (t ++ X)) rest = utf8Len bad := by
    rw [← hbad, posWithinToken_append]
  rw [hpos] at hk
  have hk' : (tokenAt uc (bad ++ rest)).kind = .literal (.float .decimal true) (utf8Len bad) := by
    rw [hbad]; exact hk
  refine ⟨hk', ?_, fun text => by rw [hk']; rfl⟩
  rw [hbad] at hk' ⊢
  exact tokenAt_suffix_start uc c (t ++ X) _ _ hk'


/-! ### malformed version header -/

/-- `OPENQASM`, whitespace, then `tail` (not starting with whitespace): a version-statement token
whose flags are what `openqasm_version` says about `tail` -/
theorem version_prefix (ws tail : List Char) (hne : ws ≠ []) (hws : ws.all isWhitespace = true)
    (ht : headSat isWhitespace tail = false) :
    (advanceToken uc (openqasmWord ++ ws ++ tail)).kind =
      .openQasmVersionStmt (openqasmVersion tail).val.1 (openqasmVersion tail).val.2 := by
  have hew := eatWhile_exact isWhitespace ws tail hws ht
  have hho : (haveOpenqasm 'O' (['P', 'E', 'N', 'Q', 'A', 'S', 'M'] ++ ws ++ tail)).val = true ∧
      (haveOpenqasm 'O' (['P', 'E', 'N', 'Q', 'A', 'S', 'M'] ++ ws ++ tail)).rest = ws ++ tail := by
    cases ws with
    | nil => exact absurd rfl hne
    | cons w ws' =>
      simp only [List.all_cons, Bool.and_eq_true] at hws
      simp [haveOpenqasm, hws.1]
  have hk := advanceKind_O (uc := uc) _ hho.1
  rw [hho.2, hew] at hk
  have : openqasmWord ++ ws ++ tail = 'O' :: (['P', 'E', 'N', 'Q', 'A', 'S', 'M'] ++ ws ++ tail) := by
    simp [openqasmWord]
  rw [this]
  simp only [advanceToken, hk.1]

theorem flagged_version (a b : Bool) (h : (a && b) = false) (text : List Char) :
    Flagged (.openQasmVersionStmt a b) text := by
  cases a <;> cases b <;> first | rfl | simp at h

/-- **Malformed version header, no version number** (`OPENQASM x`, `OPENQASM ;`, `OPENQASM` then
end of input after the whitespace) -/
theorem malformed_flagged_version_no_number (ws tail : List Char) (hne : ws ≠ [])
    (hws : ws.all isWhitespace = true) (ht : headSat isWhitespace tail = false)
    (hd : headSat isDigitU tail = false) :
    (advanceToken uc (openqasmWord ++ ws ++ tail)).kind = .openQasmVersionStmt false false ∧
    ∀ text, Flagged (advanceToken uc (openqasmWord ++ ws ++ tail)).kind text := by
  have hed := eatDecimalDigits_exact [] tail rfl hd
  simp only [List.nil_append] at hed
  have hv : (openqasmVersion tail).val = (false, false) := by simp [openqasmVersion, hed]
  have hk := version_prefix (uc := uc) ws tail hne hws ht
  rw [hv] at hk
  exact ⟨hk, fun text => by rw [hk]; rfl⟩

/-- **Malformed version header, `3.` without minor digits** -/
theorem malformed_flagged_version_no_minor (ws major tail : List Char) (hne : ws ≠ [])
    (hws : ws.all isWhitespace = true) (hmne : major ≠ []) (hmaj : major.all isDecDigit = true)
    (hd : headSat isDigitU tail = false) :
    (advanceToken uc (openqasmWord ++ ws ++ (major ++ '.' :: tail))).kind =
      .openQasmVersionStmt true false ∧
    ∀ text, Flagged (advanceToken uc (openqasmWord ++ ws ++ (major ++ '.' :: tail))).kind text := by
  have hmajany : major.any isDecDigit = true := by
    cases major with
    | nil => exact absurd rfl hmne
    | cons d ds => simp only [List.all_cons, Bool.and_eq_true] at hmaj; simp [hmaj.1]
  have hmajws : headSat isWhitespace (major ++ '.' :: tail) = false := by
    cases major with
    | nil => exact absurd rfl hmne
    | cons d ds =>
      simp only [List.all_cons, Bool.and_eq_true] at hmaj
      exact (digit_facts d (isDecDigit_mem hmaj.1)).2.1
  have hed := eatDecimalDigits_exact major ('.' :: tail) (all_digitU_of_digits hmaj) (by simp [headSat, isDigitU, isDecDigit])
  have hed2 := eatDecimalDigits_exact [] tail rfl hd
  simp only [List.nil_append] at hed2
  have hv : (openqasmVersion (major ++ '.' :: tail)).val = (true, false) := by
    simp [openqasmVersion, hed, hmajany, hed2]
  have hk := version_prefix (uc := uc) ws (major ++ '.' :: tail) hne hws hmajws
  rw [hv] at hk
  exact ⟨hk, fun text => by rw [hk]; rfl⟩

/-- **Malformed version header, junk after the number** (`OPENQASM 3x`, `OPENQASM 3.0x`), and also
a version number at the very end of the input (`tail = []`, finding W-VER): whatever follows the
number is neither `;` nor whitespace (nor could it continue the number) -/
theorem malformed_flagged_version_junk (ws major : List Char) (minor : Option (List Char))
    (tail : List Char) (hne : ws ≠ []) (hws : ws.all isWhitespace = true) (hmne : major ≠ [])
    (hmaj : major.all isDecDigit = true)
    (hmin : (match minor with | some m => !m.isEmpty && m.all isDecDigit | none => true) = true)
    (ht : headSat (fun c => isDigitU c || c == ';' || isWhitespace c) tail = false)
    (hdot : minor = none → (first tail == '.') = false) :
    (advanceToken uc (openqasmWord ++ ws ++ (major ++ (minorText minor ++ tail)))).kind =
      .openQasmVersionStmt false false ∧
    ∀ text, Flagged
      (advanceToken uc (openqasmWord ++ ws ++ (major ++ (minorText minor ++ tail)))).kind text := by
  have hmajany : major.any isDecDigit = true := by
    cases major with
    | nil => exact absurd rfl hmne
    | cons d ds => simp only [List.all_cons, Bool.and_eq_true] at hmaj; simp [hmaj.1]
  have hmajws : headSat isWhitespace (major ++ (minorText minor ++ tail)) = false := by
    cases major with
    | nil => exact absurd rfl hmne
    | cons d ds =>
      simp only [List.all_cons, Bool.and_eq_true] at hmaj
      exact (digit_facts d (isDecDigit_mem hmaj.1)).2.1
  have htd : headSat isDigitU tail = false :=
    headSat_false_of_imp (p := fun c => isDigitU c || c == ';' || isWhitespace c)
      (fun c h => by simp [h]) ht
  have hbad : (first tail != ';' && !isWhitespace (first tail)) = true := by
    cases tail with
    | nil => decide
    | cons x xs =>
      simp only [headSat, Bool.or_eq_false_iff] at ht
      have hx : x ≠ ';' := by simpa using ht.1.2
      simp [hx, ht.2]
  have hXhead : headSat isDigitU (minorText minor ++ tail) = false := by
    cases minor with
    | some m => rfl
    | none => exact htd
  have hed := eatDecimalDigits_exact major (minorText minor ++ tail) (all_digitU_of_digits hmaj) hXhead
  have hv : (openqasmVersion (major ++ (minorText minor ++ tail))).val = (false, false) := by
    cases minor with
    | none =>
      simp only [minorText, List.nil_append] at hed ⊢
      simp [openqasmVersion, hed, hmajany, hdot rfl, hbad]
    | some m =>
      simp only [Bool.and_eq_true, Bool.not_eq_true', List.isEmpty_eq_false_iff] at hmin
      have hmany : m.any isDecDigit = true := by
        cases m with
        | nil => exact absurd rfl hmin.1
        | cons d ds => have := hmin.2; simp only [List.all_cons, Bool.and_eq_true] at this; simp [this.1]
      have hed2 := eatDecimalDigits_exact m tail (all_digitU_of_digits hmin.2) htd
      simp only [minorText, List.cons_append] at hed ⊢
      simp [openqasmVersion, hed, hmajany, hed2, hmany, hbad]
  have hk := version_prefix (uc := uc) ws _ hne hws hmajws
  rw [hv] at hk
  exact ⟨hk, fun text => by rw [hk]; rfl⟩

/-! ### identifiers with forbidden characters -/

theorem flagged_invalidIdent (text : List Char) : Flagged .invalidIdent text := rfl

/-- **Emoji inside or right after an identifier** (`a😀`, `x1😀y`): the token is an
`InvalidIdent` that covers the identifier and the emoji, flagged. -/
theorem malformed_flagged_ident_emoji (hu : AsciiUC uc) (c : Char) (t : List Char) (e : Char)
    (more : List Char) (hc : isIdStart uc c = true) (ht : t.all (isIdContinue uc) = true)
    (hp : c :: t ≠ pragmaWord) (hO : c :: t ≠ openqasmWord)
    (he : isNonAsciiEmoji uc e = true) (hec : isIdContinue uc e = false) :
    (advanceToken uc (c :: t ++ e :: more)).kind = .invalidIdent ∧
    (advanceToken uc (c :: t ++ e :: more)).rest <:+ more ∧
    ∀ text, Flagged (advanceToken uc (c :: t ++ e :: more)).kind text := by
  have h := advanceKind_word_gen hu c t (e :: more) hc ht hp hO (by simp [headSat, hec])
  simp only [first_cons, he, if_true] at h
  have hk : (advanceToken uc (c :: t ++ e :: more)).kind = .invalidIdent := by
    simp [advanceToken, h.1]
  refine ⟨hk, ?_, fun text => by rw [hk]; rfl⟩
  simp only [List.cons_append, advanceToken, h.2, fakeIdentOrUnknownPrefix]
  have hpe : (uc.xidContinue e || (!isAscii e && uc.isEmoji e) || e == '\u200d') = true := by
    simp only [isNonAsciiEmoji] at he; simp [he]
  simp only [eatWhile, hpe, if_true]
  exact eatWhile_suffix _ _

theorem nonascii_ne {c : Char} (h : 128 ≤ c.toNat) (d : Char) (hd : d.toNat < 128) :
    (c == d) = false := by
  cases hcd : c == d with
  | false => rfl
  | true => rw [beq_iff_eq.mp hcd] at h; omega

/-- **Emoji at the start** (`😀`, `😀abc`): a non-ASCII emoji character that is not an identifier
start begins an `InvalidIdent`, flagged. -/
theorem malformed_flagged_emoji_start (hu : AsciiUC uc) (c : Char) (cs : List Char)
    (he : isNonAsciiEmoji uc c = true) (hc : isIdStart uc c = false) :
    (advanceToken uc (c :: cs)).kind = .invalidIdent ∧
    ∀ text, Flagged (advanceToken uc (c :: cs)).kind text := by
  have h128 : 128 ≤ c.toNat := by
    simp only [isNonAsciiEmoji, Bool.and_eq_true, Bool.not_eq_true'] at he
    have := he.1
    simp only [isAscii, decide_eq_false_iff_not] at this
    omega
  have hws : isWhitespace c = false := by
    cases hw : isWhitespace c with
    | false => rfl
    | true =>
      have := hu.ws_emoji c ((isWhitespace_iff c).mp hw)
      rw [this] at he; exact absurd he (by simp)
  have hd : isDecDigit c = false := by
    cases hdd : isDecDigit c with
    | false => rfl
    | true => have := (isDecDigit_iff c).mp hdd; omega
  have hos : oneSymbol c = none := by
    simp only [oneSymbol]
    repeat (rw [if_neg (by rw [nonascii_ne h128 _ (by decide)]; simp)])
  have hk : (advanceKind uc c cs).val = .invalidIdent := by
    simp [advanceKind, nonascii_ne h128 '/' (by decide), hws, nonascii_ne h128 'p' (by decide),
      nonascii_ne h128 'O' (by decide), hc, hd, nonascii_ne h128 '#' (by decide),
      nonascii_ne h128 '@' (by decide), nonascii_ne h128 '.' (by decide),
      nonascii_ne h128 '$' (by decide), hos, nonascii_ne h128 '"' (by decide),
      nonascii_ne h128 '\'' (by decide), he, fakeIdentOrUnknownPrefix]
  have hk' : (advanceToken uc (c :: cs)).kind = .invalidIdent := by simp [advanceToken, hk]
  exact ⟨hk', fun text => by rw [hk']; rfl⟩

/-- **Bare `#`** (not the start of `#pragma␣…` or `#dim`): the lexer never produces `Pound`; a
`#` not followed by `p` or `d` is a one-character `InvalidIdent`, flagged. -/
theorem malformed_flagged_pound (hu : AsciiUC uc) (cs : List Char)
    (hp : (first cs == 'p') = false) (hd : (first cs == 'd') = false) :
    advanceToken uc ('#' :: cs) = ⟨.invalidIdent, 1, cs, true⟩ ∧
    ∀ text, Flagged .invalidIdent text := by
  have hi := idStart_false_of hu '#' (by decide) (by decide)
  have hdd : isDecDigit '#' = false := by decide
  have := advanceToken_of_kind hu '#' [] cs .invalidIdent
    (by simp [advanceKind, isWhitespace, hi, hdd, hp, hd])
    (by simp [advanceKind, isWhitespace, hi, hdd, hp, hd])
  have h1 : utf8Len ['#'] = 1 := rfl
  rw [h1] at this
  exact ⟨by simpa using this, fun _ => rfl⟩

/-- `#p…` that is not `#pragma` + whitespace, and `#d…` that is not `#dim`, are `InvalidIdent`s
too (e.g. `#pragmaX`, `#px`, `#dx`) -/
theorem malformed_flagged_pound_p (hu : AsciiUC uc) (cs : List Char)
    (h : (havePragma 'p' cs).val = false) :
    (advanceToken uc ('#' :: 'p' :: cs)).kind = .invalidIdent := by
  simp [advanceToken, advanceKind_hash_p hu cs false h]

/-! ### witnesses: flag combinations that yield no message -/

/-- F11 (repaired by a `fix:` commit): an unterminated bit string with two consecutive underscores
is diagnosed on its token like every other unterminated bit string. -/
theorem unterminated_bitstring_double_underscore_diagnosed :
    (LexedStr.new C14.ucAscii ['"', '0', '_', '_', '1']).map (fun l => (l.kind, l.error.map (·.2))) =
      some ([.BIT_STRING, .EOF], [0]) := by
  rw [new_eq]; rfl

/-- the raw token of the F11 witness: unterminated, consecutive underscores -/
theorem witness_F11_raw :
    (tokenize C14.ucAscii ['"', '0', '_', '_', '1']).map (·.kind) =
      [.literal (.bitStr false true) 5] := by decide

/-- The deliberately special-cased unterminated bit string at the end of the input: a body of
`0`/`1`/`_` followed by one final newline is still classified as a bit string (not a string);
it is flagged, with the bit-string message. -/
theorem witness_unterminated_bitstring_eof :
    (tokenize C14.ucAscii ['"', '0', '1', '\n']).map (·.kind) = [.literal (.bitStr false false) 4] ∧
    (tokenize C14.ucAscii ['"', '0', '1', '\n', '\n']).map (·.kind) = [.literal (.str false) 5] ∧
    (tokenize C14.ucAscii ['"', '0', '1', '\n', ' ']).map (·.kind) = [.literal (.str false) 5] ∧
    (∀ n text, Flagged (.literal (.bitStr false false) n) text) := by
  refine ⟨by decide, by decide, by decide, fun _ _ => rfl⟩

end Oq3.Props.C11
