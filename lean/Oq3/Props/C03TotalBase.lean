/-
C03, totality on a syntactic fragment — base: the success predicate and the primitives.

`Succ Q x`: from every context whose symbol table satisfies the C19 invariant, `x` returns normally,
the final context is related to the initial one by `Ext` (hence satisfies the invariant again), and
the returned value satisfies `Q`.  `Succ` composes along `>>=` (`Succ.bind`), so a function built
from succeeding pieces succeeds.  One lemma per primitive / non-recursive function of
`Model/SemaCtx.lean` that the fragment uses.
-/
import Oq3.Props.C13

namespace Oq3.Sema
open Oq3.Types Oq3.Symbols Oq3.Props

/-- `x` returns normally from every context with a well-formed symbol table; the result satisfies
`Q` and the final context extends the initial one -/
def Succ {α} (Q : α → Prop) (x : M α) : Prop :=
  ∀ s, C19.Inv s.symbolTable → ∃ a s', x s = .ok (a, s') ∧ Ext s s' ∧ Q a

theorem Succ.of_runs {α} {Q : α → Prop} {x : M α} (hp : Pres x)
    (h : ∀ s, C19.Inv s.symbolTable → ∃ a s', x s = .ok (a, s') ∧ Q a) : Succ Q x := by
  intro s hi
  obtain ⟨a, s', hr, hq⟩ := h s hi
  exact ⟨a, s', hr, hp.run s (a, s') hr, hq⟩

theorem Succ.pure {α} {Q : α → Prop} (a : α) (h : Q a) : Succ Q (pure a : M α) :=
  fun s _ => ⟨a, s, rfl, Ext.refl s, h⟩

theorem Succ.bind {α β} {Q : α → Prop} {R : β → Prop} {x : M α} {f : α → M β}
    (hx : Succ Q x) (hf : ∀ a, Q a → Succ R (f a)) : Succ R (x >>= f) := by
  intro s hi
  obtain ⟨a, s1, h1, e1, q1⟩ := hx s hi
  obtain ⟨b, s2, h2, e2, q2⟩ := hf a q1 s1 (e1.sym.inv hi)
  exact ⟨b, s2, by rw [C13.bind_run_of_ok h1]; exact h2, e1.trans e2, q2⟩

/-- `bind` when nothing is needed from the bound value -/
theorem Succ.bindAny {α β} {R : β → Prop} {x : M α} {f : α → M β}
    (hx : Succ (fun _ => True) x) (hf : ∀ a, Succ R (f a)) : Succ R (x >>= f) :=
  Succ.bind hx (fun a _ => hf a)

/-- the value bound from a `pure` is the value -/
theorem Succ.pure_bind {α β} {R : β → Prop} (a : α) {f : α → M β} (h : Succ R (f a)) :
    Succ R ((Pure.pure a : M α) >>= f) := by
  intro s hi
  rw [C13.run_bind_pure]
  exact h s hi

theorem Succ.mono {α} {Q R : α → Prop} {x : M α} (h : Succ Q x) (hq : ∀ a, Q a → R a) : Succ R x :=
  fun s hi => let ⟨a, s', hr, he, q⟩ := h s hi; ⟨a, s', hr, he, hq a q⟩

theorem Succ.ite {α} {Q : α → Prop} (c : Prop) [Decidable c] {x y : M α} (hx : Succ Q x)
    (hy : Succ Q y) : Succ Q (if c then x else y) := by
  split <;> assumption

/-- the trivial post-condition -/
abbrev Any {α} : α → Prop := fun _ => True

theorem stack_nonempty {t : SymTab} (h : C19.Inv t) : ∃ top rest, t.stack = top :: rest := by
  cases hst : t.stack with
  | nil => exact absurd hst (C19.globalBottom_ne_nil h.global_bottom)
  | cons a b => exact ⟨a, b, rfl⟩

/-! ### primitives -/

theorem unwrap_succ {α} (site : String) (a : α) : Succ (· = a) (unwrap site (some a)) :=
  fun s _ => ⟨a, s, rfl, Ext.refl s, rfl⟩

theorem insertError_succ (k : SemanticErrorKind) (node : Ast.Span) : Succ Any (insertError k node) :=
  Succ.of_runs (insertError_pres k node) (fun s _ => ⟨(), _, C13.run_insertError k node s, trivial⟩)

theorem newBinding_succ (name : String) (typ : T) (node : Ast.Span) :
    Succ Any (newBinding name typ node) := by
  refine Succ.of_runs (newBinding_pres name typ node) (fun s hi => ?_)
  obtain ⟨top, rest, hst⟩ := stack_nonempty hi
  cases hg : top.get name with
  | none =>
    obtain ⟨s', h, _⟩ := C07.ids_name_correct_newBinding name typ node s hi top rest hst hg
    exact ⟨_, s', h, trivial⟩
  | some v =>
    exact ⟨_, _, C07.redeclaration_marked name typ node s top rest hst (by rw [hg]; simp), trivial⟩

theorem lookupSymbol_succ (name : String) (node : Ast.Span) : Succ Any (lookupSymbol name node) := by
  refine Succ.of_runs (lookupSymbol_pres name node) (fun s hi => ?_)
  cases hl : s.symbolTable.lookupId name with
  | none => exact ⟨_, _, C07.undeclared_logs_once name node s hi hl, trivial⟩
  | some id =>
    obtain ⟨ty, h, _⟩ := C07.declared_logs_nothing name node s hi id hl
    exact ⟨_, _, h, trivial⟩

theorem lookupGateSymbol_succ (name : String) (node : Ast.Span) :
    Succ Any (lookupGateSymbol name node) := by
  refine Succ.of_runs (lookupGateSymbol_pres name node) (fun s hi => ?_)
  rcases C07.tableLookup_spec name s hi with ⟨hl, _⟩ | ⟨id, ty, _, _, hf⟩
  · exact ⟨_, _, C07.undeclared_gate_logs_once name node s hi hl, trivial⟩
  · refine ⟨((.ok id, ty) : SymbolIdResult × T), s, ?_, trivial⟩
    unfold lookupGateSymbol
    rw [C13.bind_run_of_ok hf]
    simp [SymbolIdResult.isOk]

theorem lookupIdentifier_succ (i : Ast.Identifier) : Succ Any (lookupIdentifier i) := by
  unfold lookupIdentifier; exact lookupSymbol_succ _ _

theorem currentScopeType_succ : Succ Any currentScopeType := by
  refine Succ.of_runs currentScopeType_readOnly.pres (fun s hi => ?_)
  obtain ⟨top, rest, hst⟩ := stack_nonempty hi
  exact ⟨_, _, C13.run_currentScopeType s top rest hst, trivial⟩

theorem insertConstValue_succ (id : Nat) (v : TExpr) : Succ Any (insertConstValue id v) :=
  Succ.of_runs (insertConstValue_pres id v) (fun _ _ => ⟨(), _, rfl, trivial⟩)

theorem pushAnnotation_succ (a : String) : Succ Any (pushAnnotation a) :=
  Succ.of_runs (pushAnnotation_pres a) (fun _ _ => ⟨(), _, rfl, trivial⟩)

theorem annotationsIsEmpty_succ : Succ Any annotationsIsEmpty :=
  Succ.of_runs annotationsIsEmpty_readOnly.pres (fun _ _ => ⟨_, _, rfl, trivial⟩)

theorem takeAnnotations_succ : Succ Any takeAnnotations :=
  Succ.of_runs takeAnnotations_pres (fun _ _ => ⟨_, _, rfl, trivial⟩)

theorem insertStmt_succ (st : Stmt) : Succ Any (insertStmt st) :=
  Succ.of_runs (insertStmt_pres st) (fun _ _ => ⟨(), _, rfl, trivial⟩)

/-- `with_scope!` around a succeeding body succeeds (for the non-global scope kinds) -/
theorem withScope_succ {α} {Q : α → Prop} (k : ScopeType) (body : M α) (hk : k ≠ .global)
    (hb : Succ Q body) : Succ Q (withScope k body) := by
  intro s hi
  -- enter
  have henter : enterScope k s = .ok ((), { s with symbolTable := (s.symbolTable.step (.enter k)).1 }) := by
    unfold enterScope
    have h1 : symStep "enter_scope: the unique global scope must be the first scope" (.enter k) s =
        .ok ((s.symbolTable.step (.enter k)).2,
          { s with symbolTable := (s.symbolTable.step (.enter k)).1 }) := by
      rw [symStep_ok]
      refine ⟨?_, rfl⟩
      simp [SymTab.step, hk]
    rw [C13.bind_run_of_ok h1]; rfl
  have hstack1 : (s.symbolTable.step (.enter k)).1.stack = ⟨[], k⟩ :: s.symbolTable.stack :=
    C19.step_enter_stack _ k hk
  have hi1 : C19.Inv (s.symbolTable.step (.enter k)).1 := C19.inv_step _ _ hi
  -- body
  obtain ⟨a, s2, h2, e2, q2⟩ := hb { s with symbolTable := (s.symbolTable.step (.enter k)).1 } hi1
  have hlen2 : s2.symbolTable.stack.length > 1 := by
    obtain ⟨top, rest, hst⟩ := stack_nonempty hi
    have := e2.sym.len
    simp only [hstack1, hst, List.length_cons] at this
    omega
  -- exit
  have hexit : exitScope s2 = .ok ((), { s2 with symbolTable := (s2.symbolTable.step .exit).1 }) := by
    unfold exitScope
    have h1 : symStep "exit_scope: assertion failed (exiting the global scope)" .exit s2 =
        .ok ((s2.symbolTable.step .exit).2, { s2 with symbolTable := (s2.symbolTable.step .exit).1 }) := by
      rw [symStep_ok]
      refine ⟨?_, rfl⟩
      simp [SymTab.step, hlen2]
    rw [C13.bind_run_of_ok h1]; rfl
  have hrun : withScope k body s = .ok (a, { s2 with symbolTable := (s2.symbolTable.step .exit).1 }) := by
    unfold withScope
    rw [C13.bind_run_of_ok henter, C13.bind_run_of_ok h2, C13.bind_run_of_ok hexit]; rfl
  have hstack3 : (s2.symbolTable.step .exit).1.stack = s.symbolTable.stack := by
    rw [C19.step_exit_stack _ hlen2, e2.sym.tail]
    show ((s.symbolTable.step (.enter k)).1).stack.tail = _
    rw [hstack1]; rfl
  have hall1 : (s.symbolTable.step (.enter k)).1.all = s.symbolTable.all := by
    simp only [SymTab.step]; split <;> rfl
  have hall3 : (s2.symbolTable.step .exit).1.all = s2.symbolTable.all := by
    simp only [SymTab.step]; split <;> rfl
  refine ⟨a, _, hrun, ⟨SymExt.of_stack_eq hstack3 ?_ ?_, e2.errs⟩, q2⟩
  · show s.symbolTable.all <+: (s2.symbolTable.step .exit).1.all
    rw [hall3, ← hall1]; exact e2.sym.all
  · intro _; exact C19.inv_step _ _ (e2.sym.inv hi1)

end Oq3.Sema
