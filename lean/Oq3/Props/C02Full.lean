/-
C02 — the syntax tree is lossless, END TO END.

`lossless_end_to_end`: for every text `s` and all Unicode class functions `uc`: lex
(`LexedStr::new`), build the parser input (`to_input`), parse (`source_file`), `process` the
events, build the tree (`build_tree` = `intersperse_trivia` + the rowan builder) — if the parser
returns normally, then `intersperse_trivia` fails none of its assertions, reports `is_eof`, the
builder returns exactly one root, and the text of the tree is exactly `s`.

The one hypothesis that is not a premise of the pipeline, `hglued`: the raw tokens that the parser
glues into one composite token event (all but the last one of each event) are not `FLOAT_NUMBER`s.
It holds for every run of the grammar (`Parser::eat` glues only after `at_composite2/3` has
compared the kinds with the composite's pieces, which are punctuation: `pieces_not_float`), but
the parser-state invariant of `Lemmas/ParserInv.lean` (`glueOK`) records only the joint bits of
the glued tokens, not their kinds.  It matters because `to_input` ALSO sets the joint bit of a
`FLOAT_NUMBER` with a fractional part when trivia follows; for every other kind the joint bit
means adjacency (`Bridge.joint_exact`).
-/
import Oq3.Lemmas.Bridge
import Oq3.Props.C01

namespace Oq3.Props.C02
open Oq3.Gen Oq3.Lexer Oq3.Lexed Oq3.Parser Oq3.Grammar Oq3.Builder Oq3.Bridge
open Oq3.Lemmas.Lexed

/-- the glued raw tokens (all but the last of each token item) are not floats;
`c` = raw tokens consumed before -/
def glueK (K : List SyntaxKind) : Nat → List Item → Bool
  | _, [] => true
  | c, .token _ n :: is =>
    (List.range (n - 1)).all (fun j => K.getD (c + j) .EOF != .FLOAT_NUMBER) && glueK K (c + n) is
  | c, .error _ :: is => glueK K c is

/-- no piece of a composite token is a `FLOAT_NUMBER` (why `hglued` holds for the grammar) -/
theorem pieces_not_float : ∀ p ∈ Ops.compositeTable, ∀ k ∈ p.2, k ≠ SyntaxKind.FLOAT_NUMBER := by
  decide

theorem glueOK_items (joint : List Bool) (c : Nat) (evs : List Ev) :
    glueOK joint.toArray c evs = glueI joint c (itemsE evs) := by
  induction evs generalizing c with
  | nil => rfl
  | cons e es ih => cases e <;> simp [glueOK, glueI, itemsE, ih]

theorem sumTok_items (evs : List Ev) : sumTok evs = sumI (itemsE evs) := by
  induction evs with
  | nil => rfl
  | cons e es ih => cases e <;> simp [sumTok, sumI, itemsE, ih]

/-- joint bits + "glued tokens are not floats" + joint exactness ⇒ glued tokens are adjacent -/
theorem glueI_adj (J A : List Bool) (K : List SyntaxKind)
    (hex : ∀ i, J.getD i false = true → K.getD i .EOF ≠ .FLOAT_NUMBER → A.getD i false = true)
    (is : List Item) : ∀ c, glueI J c is = true → glueK K c is = true → glueI A c is = true := by
  induction is with
  | nil => intro c _ _; rfl
  | cons i is ih =>
    intro c hj hk
    cases i with
    | error m => simp only [glueI, glueK] at hj hk ⊢; exact ih c hj hk
    | token k n =>
      simp only [glueI, glueK, Bool.and_eq_true, decide_eq_true_eq, List.all_eq_true, List.mem_range,
        bne_iff_ne, ne_eq] at hj hk ⊢
      exact ⟨⟨hj.1.1, fun j hjn => hex _ (hj.1.2 j hjn) (hk.1 j hjn)⟩, ih _ hj.2 hk.2⟩

/-- **End-to-end losslessness.** -/
theorem lossless_end_to_end (uc : UC) (s : List Char) (l : LexedStr) (inp : Input)
    (fuel npl : Nat) (events : Array Ev) (pos : Nat) (steps : List Step)
    (hl : LexedStr.new uc s = some l) (hi : l.toInput = some inp)
    (hp : parseSourceFile fuel inp.kind.toArray inp.joint.toArray npl = .ok (events, pos))
    (hs : process events.toList = some steps)
    (hglued : glueK inp.kind 0 (itemsE events.toList) = true) :
    ∃ tree errs, buildTree (rawToksOf l) steps = .ok (tree, errs, true) ∧ tree.text = s := by
  -- the lexed layer in closed form
  have hle : l = lexedOf uc s := Oq3.Props.C14.lexed_eq uc s l hl
  subst hle
  have hinp := toInput_exact uc s
  rw [hi] at hinp
  simp only [Option.some.injEq] at hinp
  subst hinp
  -- the parser's facts
  have hpok := Oq3.Props.C01.parse_ok fuel _ _ npl events pos hp
  have hne : ∀ i, (hi : i < (ntKinds (rawToksOf (lexedOf uc s))).toArray.size) →
      (ntKinds (rawToksOf (lexedOf uc s))).toArray[i] ≠ SyntaxKind.EOF := by
    intro i hi
    have hmem : (ntKinds (rawToksOf (lexedOf uc s))).toArray[i] ∈ ntKinds (rawToksOf (lexedOf uc s)) := by
      simp
    simp only [ntKinds, List.mem_map, List.mem_filter] at hmem
    obtain ⟨t, ⟨ht, _⟩, hkt⟩ := hmem
    intro he
    exact rawToks_kind_ne_eof uc s t ht (hkt.trans he)
  obtain ⟨_, hsum⟩ := Oq3.Props.C01.parse_consumes_all fuel _ _ npl events pos hp hne
  have hrooted := process_rooted _ _ hpok.rootedE hs
  have hitems := process_items _ _ hs
  -- glued tokens are adjacent
  have hglue : glueI (jointSpec (rawToksOf (lexedOf uc s))) 0 (itemsE events.toList) = true := by
    rw [← glueOK_items]; exact hpok.glue
  have hadj := glueI_adj _ (adjBits (rawToksOf (lexedOf uc s))) _
    (fun i h1 h2 => joint_exact _ i h1 h2) _ 0 hglue hglued
  have hfit : fitsGo (rawToksOf (lexedOf uc s)) (itemsS steps) = true := by
    rw [hitems]
    apply fits_of_adj _ _ hadj
    rw [← sumTok_items, hsum]; simp
  -- the builder
  obtain ⟨out, hout⟩ := intersperse_fits _ steps hrooted hfit
  obtain ⟨k, cs, n, hbt, _, _, htext, heof⟩ := buildTree_spec _ steps hrooted out true hout
  refine ⟨.node k cs, errorsOf out, hbt, ?_⟩
  rw [htext, heof rfl, List.take_length]
  exact rawText_rawToksOf uc s

/-- the same, stated on the implementation's own `is_eof` check: `build_tree` never returns
`is_eof = false` on such a run -/
theorem build_tree_reports_eof (uc : UC) (s : List Char) (l : LexedStr) (inp : Input)
    (fuel npl : Nat) (events : Array Ev) (pos : Nat) (steps : List Step)
    (hl : LexedStr.new uc s = some l) (hi : l.toInput = some inp)
    (hp : parseSourceFile fuel inp.kind.toArray inp.joint.toArray npl = .ok (events, pos))
    (hs : process events.toList = some steps)
    (hglued : glueK inp.kind 0 (itemsE events.toList) = true)
    (r : Tree × List SynErr × Bool) (hr : buildTree (rawToksOf l) steps = .ok r) : r.2.2 = true := by
  obtain ⟨tree, errs, hb, _⟩ := lossless_end_to_end uc s l inp fuel npl events pos steps hl hi hp hs hglued
  rw [hb] at hr
  simp only [Except.ok.injEq] at hr
  rw [← hr]


/-! ### the hypothesis `hglued` at the level of events (for the parser invariant) -/

/-- `glueK` on events, in the shape of `glueOK`: the natural extra conjunct of the parser-state
invariant (`Inv.bump` gets the extra premise "`kinds.getD (pos + j) EOF ≠ FLOAT_NUMBER` for
`j < n - 1`", which `at_true` can supply from the kind comparisons of `atComposite` and
`pieces_not_float`) -/
def glueKE (kinds : Array SyntaxKind) : Nat → List Ev → Bool
  | _, [] => true
  | c, .token _ n :: es =>
    (List.range (n - 1)).all (fun j => kinds.getD (c + j) .EOF != .FLOAT_NUMBER) && glueKE kinds (c + n) es
  | c, _ :: es => glueKE kinds c es

theorem glueKE_items (K : List SyntaxKind) (c : Nat) (evs : List Ev) :
    glueKE K.toArray c evs = glueK K c (itemsE evs) := by
  induction evs generalizing c with
  | nil => rfl
  | cons e es ih => cases e <;> simp [glueKE, glueK, itemsE, ih]

/-- every token event of one raw token satisfies `glueKE` trivially: the hypothesis only
concerns composite tokens -/
theorem glueKE_of_single (kinds : Array SyntaxKind) (evs : List Ev) (c : Nat)
    (h : ∀ k n, Ev.token k n ∈ evs → n ≤ 1) : glueKE kinds c evs = true := by
  induction evs generalizing c with
  | nil => rfl
  | cons e es ih =>
    cases e with
    | token k n =>
      have hn := h k n (by simp)
      have : n - 1 = 0 := by omega
      simp only [glueKE, this, List.range_zero, List.all_nil, Bool.true_and]
      exact ih _ (fun k n hm => h k n (by simp [hm]))
    | _ => simp only [glueKE]; exact ih _ (fun k n hm => h k n (by simp [hm]))

/-- `lossless_end_to_end` with the hypothesis on events -/
theorem lossless_end_to_end' (uc : UC) (s : List Char) (l : LexedStr) (inp : Input)
    (fuel npl : Nat) (events : Array Ev) (pos : Nat) (steps : List Step)
    (hl : LexedStr.new uc s = some l) (hi : l.toInput = some inp)
    (hp : parseSourceFile fuel inp.kind.toArray inp.joint.toArray npl = .ok (events, pos))
    (hs : process events.toList = some steps)
    (hglued : glueKE inp.kind.toArray 0 events.toList = true) :
    ∃ tree errs, buildTree (rawToksOf l) steps = .ok (tree, errs, true) ∧ tree.text = s :=
  lossless_end_to_end uc s l inp fuel npl events pos steps hl hi hp hs
    (by rw [← glueKE_items]; exact hglued)

/-- the partial form that needs no extra hypothesis: when the parse produced no composite token
(every token event spans one raw token) -/
theorem lossless_end_to_end_partial (uc : UC) (s : List Char) (l : LexedStr) (inp : Input)
    (fuel npl : Nat) (events : Array Ev) (pos : Nat) (steps : List Step)
    (hl : LexedStr.new uc s = some l) (hi : l.toInput = some inp)
    (hp : parseSourceFile fuel inp.kind.toArray inp.joint.toArray npl = .ok (events, pos))
    (hs : process events.toList = some steps)
    (h1 : ∀ k n, Ev.token k n ∈ events.toList → n ≤ 1) :
    ∃ tree errs, buildTree (rawToksOf l) steps = .ok (tree, errs, true) ∧ tree.text = s :=
  lossless_end_to_end' uc s l inp fuel npl events pos steps hl hi hp hs
    (glueKE_of_single _ _ 0 h1)

end Oq3.Props.C02
