/-
C03 — totality of the semantic analysis on a purely syntactic, recursive fragment.

`suppStmt : Ast.Stmt → Bool` (decidable; no reference to the symbol table) accepts:

* classical declarations (not arrays) of a fragment type, named, with no initializer or a fragment
  expression (literal or identifier) as initializer;
* quantum declarations `qubit q;` / `qubit[n] q;` (literal `n`) / `qubit $k;`;
* gate definitions with a name, any parameter lists (qubit list present) and a body whose statements
  are again in the fragment;
* gate calls `name(args) operands;` — any callee name, declared or not, gate or not —, arguments
  fragment expressions, operands identifiers / hardware qubits / indexed identifiers with
  expression-list indices;
* `measure op;`, `reset op;`, `barrier ops;`;
* assignments `x = e;` with `e` a fragment expression;
* `if (c) { … }`, `if (c) { … } else { … }`, `while (c) { … }` with `c` a fragment expression and
  block bodies of the fragment;
* `break; continue; end;`, pragmas, annotations.

Excluded (each reaches, or may reach depending on the table, a panic of the unchanged code):
subroutine calls, designators that are identifiers or expressions, casts, binary and unary
operators, timing literals, `complex[float[w]]`, arrays, single-statement bodies, `for`, `switch`,
`def`, `delay`, `let`, `include`, io declarations.

`sema_total_partial`: for every program all of whose statements are in the fragment and every
`fuel ≥ fuelFor p` (an explicit structural bound), `analyzeWith fuel p` returns `.ok`.
-/
import Oq3.Props.C03TotalExpr

namespace Oq3.Sema
open Oq3.Types Oq3.Symbols Oq3.Props

/-! ### fuel needed by the operand-level functions -/

def costIndexOp : Ast.IndexOperator → Nat
  | .mk _ (some (.expressionList (.mk _ es))) => es.length + 5
  | _ => 0

def costIndexOps : List Ast.IndexOperator → Nat
  | [] => 1
  | ix :: r => costIndexOp ix + costIndexOps r + 1

def costOperand : Ast.GateOperand → Nat
  | .indexedIdentifier (.mk _ _ ixs) => costIndexOps ixs + 2
  | _ => 1

def costOperands : List Ast.GateOperand → Nat
  | [] => 1
  | o :: r => costOperand o + costOperands r + 1

def suppArgList : Option Ast.ArgList → Bool
  | none => true
  | some (.mk _ (some (.mk _ es))) => es.all suppExpr
  | _ => false

def costArgList : Option Ast.ArgList → Nat
  | some (.mk _ (some (.mk _ es))) => es.length + 3
  | _ => 0

/-- the result of a statement is never an `AnnotatedStmt` (needed by the top-level loop) -/
def NotAnn (r : Option Stmt) : Prop := ∀ st anns, r ≠ some (Stmt.annotatedStmt st anns)

theorem indexOperatorToAsgType_succ (io : Ast.IndexOperator) (h : suppIndexOp io = true)
    (fuel : Nat) (hf : costIndexOp io ≤ fuel) : Succ Any (indexOperatorToAsgType fuel io) := by
  unfold suppIndexOp at h
  split at h
  · rename_i s sp es
    simp only [costIndexOp] at hf
    obtain ⟨f, rfl⟩ : ∃ f, fuel = f + 1 := ⟨fuel - 1, by omega⟩
    unfold indexOperatorToAsgType
    dsimp only
    refine Succ.bind (unwrap_succ _ _) (fun k hk => ?_)
    subst hk
    dsimp only
    exact Succ.bindAny (expressionListToAsgType_succ sp es h f (by omega)) (fun _ => Succ.pure _ trivial)
  · simp at h

theorem indexOperatorsLoop_succ (ixs : List Ast.IndexOperator) (h : ixs.all suppIndexOp = true)
    (fuel : Nat) (hf : costIndexOps ixs ≤ fuel) : Succ Any (indexOperatorsLoop fuel ixs) := by
  induction ixs generalizing fuel with
  | nil =>
    simp only [costIndexOps] at hf
    obtain ⟨f, rfl⟩ : ∃ f, fuel = f + 1 := ⟨fuel - 1, by omega⟩
    unfold indexOperatorsLoop; exact Succ.pure _ trivial
  | cons ix rest ih =>
    simp only [costIndexOps] at hf
    obtain ⟨f, rfl⟩ : ∃ f, fuel = f + 1 := ⟨fuel - 1, by omega⟩
    simp only [List.all_cons, Bool.and_eq_true] at h
    unfold indexOperatorsLoop
    refine Succ.bindAny (indexOperatorToAsgType_succ ix h.1 f (by omega)) (fun _ => ?_)
    exact Succ.bindAny (ih h.2 f (by omega)) (fun _ => Succ.pure _ trivial)

theorem gateOperandToAsgTexpr_succ (op : Ast.GateOperand) (h : suppOperand op = true)
    (fuel : Nat) (hf : costOperand op ≤ fuel) : Succ Any (gateOperandToAsgTexpr fuel op) := by
  unfold suppOperand at h
  split at h
  · simp only [costOperand] at hf
    obtain ⟨f, rfl⟩ : ∃ f, fuel = f + 1 := ⟨fuel - 1, by omega⟩
    unfold gateOperandToAsgTexpr
    dsimp only
    refine Succ.bindAny (lookupIdentifier_succ _) (fun _ => ?_)
    exact Succ.bindAny (gateOperandIdentCheck_succ _ _) (fun _ => Succ.pure _ trivial)
  · simp only [costOperand] at hf
    obtain ⟨f, rfl⟩ : ∃ f, fuel = f + 1 := ⟨fuel - 1, by omega⟩
    unfold gateOperandToAsgTexpr
    exact Succ.pure _ trivial
  · rename_i s i ixs
    simp only [costOperand] at hf
    obtain ⟨f, rfl⟩ : ∃ f, fuel = f + 2 := ⟨fuel - 2, by omega⟩
    unfold gateOperandToAsgTexpr
    dsimp only
    have hii : Succ Any (indexedIdentifierToAsgType (f + 1) (.mk s (some i) ixs)) := by
      unfold indexedIdentifierToAsgType
      dsimp only
      refine Succ.bind (unwrap_succ _ _) (fun k hk => ?_)
      subst hk
      refine Succ.bindAny (lookupSymbol_succ _ _) (fun _ => ?_)
      exact Succ.bindAny (indexOperatorsLoop_succ ixs h f (by omega)) (fun _ => Succ.pure _ trivial)
    refine Succ.bindAny hii (fun _ => ?_)
    exact Succ.bindAny (gateOperandIndexedCheck_succ _ _) (fun _ => Succ.pure _ trivial)
  · simp at h

theorem gateOperandsLoop_succ (ops : List Ast.GateOperand) (h : ops.all suppOperand = true)
    (fuel : Nat) (hf : costOperands ops ≤ fuel) : Succ Any (gateOperandsLoop fuel ops) := by
  induction ops generalizing fuel with
  | nil =>
    simp only [costOperands] at hf
    obtain ⟨f, rfl⟩ : ∃ f, fuel = f + 1 := ⟨fuel - 1, by omega⟩
    unfold gateOperandsLoop; exact Succ.pure _ trivial
  | cons o rest ih =>
    simp only [costOperands] at hf
    obtain ⟨f, rfl⟩ : ∃ f, fuel = f + 1 := ⟨fuel - 1, by omega⟩
    simp only [List.all_cons, Bool.and_eq_true] at h
    unfold gateOperandsLoop
    refine Succ.bindAny (gateOperandToAsgTexpr_succ o h.1 f (by omega)) (fun _ => ?_)
    exact Succ.bindAny (ih h.2 f (by omega)) (fun _ => Succ.pure _ trivial)

theorem qubitListToAsgTexpr_succ (s : Ast.Span) (ops : List Ast.GateOperand)
    (h : ops.all suppOperand = true) (fuel : Nat) (hf : costOperands ops + 1 ≤ fuel) :
    Succ Any (qubitListToAsgTexpr fuel (some (.mk s ops))) := by
  obtain ⟨f, rfl⟩ : ∃ f, fuel = f + 1 := ⟨fuel - 1, by omega⟩
  unfold qubitListToAsgTexpr
  refine Succ.bind (unwrap_succ _ _) (fun k hk => ?_)
  subst hk
  exact gateOperandsLoop_succ ops h f (by omega)


macro "not_ann" : tactic => `(tactic| (intro _ _ h; simp at h))

theorem gateCallExprToAsgStmt_succ (span s : Ast.Span) (ops : List Ast.GateOperand)
    (al : Option Ast.ArgList) (id : Ast.Identifier) (mods : List GateModifier)
    (hops : ops.all suppOperand = true) (hal : suppArgList al = true) (fuel : Nat)
    (hf : costOperands ops + costArgList al + 2 ≤ fuel) :
    Succ NotAnn (gateCallExprToAsgStmt fuel (.mk span (some (.mk s ops)) al (some id)) mods) := by
  obtain ⟨f, rfl⟩ : ∃ f, fuel = f + 1 := ⟨fuel - 1, by omega⟩
  unfold gateCallExprToAsgStmt
  dsimp only
  refine Succ.bindAny (qubitListToAsgTexpr_succ s ops hops f (by omega)) (fun gateOperands => ?_)
  unfold suppArgList at hal
  split at hal
  · -- no argument list
    dsimp only
    refine Succ.pure_bind _ ?_
    dsimp only
    refine Succ.bind (unwrap_succ _ _) (fun k hk => ?_)
    subst hk
    refine Succ.bindAny (lookupGateSymbol_succ _ _) (fun r => ?_)
    refine Succ.bindAny (gateCallCheck_succ _ _ _ _ _ _ _ _ (by simp)) (fun _ => ?_)
    exact Succ.pure _ (by not_ann)
  · rename_i sa se es
    simp only [costArgList] at hf
    dsimp only
    refine Succ.bind (unwrap_succ _ _) (fun k hk => ?_)
    subst hk
    refine Succ.bindAny (expressionListToAsgTexpr_succ se es hal f (by omega)) (fun paramList => ?_)
    refine Succ.pure_bind _ ?_
    dsimp only
    refine Succ.bind (unwrap_succ _ _) (fun k hk => ?_)
    subst hk
    refine Succ.bindAny (lookupGateSymbol_succ _ _) (fun r => ?_)
    refine Succ.bindAny (gateCallCheck_succ _ _ _ _ _ _ _ _ (by simp)) (fun _ => ?_)
    exact Succ.pure _ (by not_ann)
  · simp at hal

/-- `measure op` as an expression -/
theorem exprToAsgTexpr_measure_succ (sp : Ast.Span) (op : Ast.GateOperand) (h : suppOperand op = true)
    (fuel : Nat) (hf : costOperand op + 1 ≤ fuel) :
    Succ (fun r => r.isSome = true) (exprToAsgTexpr fuel (some (.measureExpression sp (some op)))) := by
  obtain ⟨f, rfl⟩ : ∃ f, fuel = f + 1 := ⟨fuel - 1, by omega⟩
  unfold exprToAsgTexpr
  dsimp only
  refine Succ.bind (unwrap_succ _ _) (fun k hk => ?_)
  subst hk
  refine Succ.bindAny (gateOperandToAsgTexpr_succ _ h f (by omega)) (fun _ => ?_)
  exact Succ.pure _ rfl

/-- a statement that is not an `AnnotatedStmt` -/
def NotAnnS (st : Stmt) : Prop := ∀ s a, st ≠ Stmt.annotatedStmt s a

theorem declareClassicalHelper_succ' (sym : SymbolIdResult) (init : Option TExpr) :
    Succ NotAnnS (declareClassicalHelper sym init) := by
  unfold declareClassicalHelper
  dsimp only
  repeat' (first
    | exact Succ.pure _ (by intro _ _ h; cases h)
    | exact insertConstValue_succ _ _
    | (refine Succ.bindAny ?_ (fun _ => ?_))
    | (refine Succ.ite _ ?_ ?_)
    | split)

theorem classicalDeclaration_succ (span : Ast.Span) (st : Ast.ScalarType) (c : Bool) (name : Ast.Name)
    (e : Option Ast.Expr) (hst : suppScalarType st = true)
    (he : (match e with | none => true | some e => suppExpr e) = true) (fuel : Nat) (hf : 2 ≤ fuel) :
    Succ NotAnnS (classicalDeclarationStatementToAsgStmt fuel span false (some st) c (some name) e) := by
  obtain ⟨f, rfl⟩ : ∃ f, fuel = f + 2 := ⟨fuel - 2, by omega⟩
  unfold classicalDeclarationStatementToAsgStmt
  simp only [Bool.false_eq_true, if_false]
  refine Succ.bind (unwrap_succ _ _) (fun k hk => ?_)
  subst hk
  refine Succ.bindAny (scalarTypeToType_succ _ c hst) (fun lhsType => ?_)
  refine Succ.bind (unwrap_succ _ _) (fun k hk => ?_)
  subst hk
  have hinit : Succ Any (exprToAsgTexpr (f + 1) e) := by
    cases e with
    | none => unfold exprToAsgTexpr; exact Succ.pure _ trivial
    | some e => exact (exprToAsgTexpr_succ f e he).mono (fun _ _ => trivial)
  refine Succ.bindAny hinit (fun initializer => ?_)
  refine Succ.bindAny (newBinding_succ _ _ _) (fun symbolId => ?_)
  cases initializer with
  | none => exact declareClassicalHelper_succ' _ _
  | some init =>
    dsimp only
    repeat' (first
      | exact declareClassicalHelper_succ' _ _
      | exact Succ.pure _ (by intro _ _ h; cases h)
      | exact Succ.pure _ trivial
      | exact insertError_succ _ _
      | (refine Succ.bindAny ?_ (fun _ => ?_))
      | (refine Succ.ite _ ?_ ?_)
      | split)

theorem assignment_succ (span : Ast.Span) (id : Ast.Identifier) (e : Ast.Expr)
    (ii : Option Ast.IndexedIdentifier) (he : suppExpr e = true) (fuel : Nat) (hf : 2 ≤ fuel) :
    Succ NotAnn (assignmentStmtToAsgStmt fuel span (some id) (some e) ii) := by
  obtain ⟨f, rfl⟩ : ∃ f, fuel = f + 2 := ⟨fuel - 2, by omega⟩
  unfold assignmentStmtToAsgStmt
  dsimp only
  refine Succ.bind (exprToAsgTexpr_succ f e he) (fun r hr => ?_)
  obtain ⟨t, rfl⟩ := Option.isSome_iff_exists.mp hr
  refine Succ.bind (unwrap_succ _ _) (fun k hk => ?_)
  subst hk
  refine Succ.bindAny (lookupSymbol_succ _ _) (fun r => ?_)
  obtain ⟨symbolId, symbolType⟩ := r
  dsimp only
  repeat' (first
    | exact Succ.pure _ (by not_ann)
    | exact Succ.pure _ trivial
    | exact insertError_succ _ _
    | exact mutateConstCheck_succ _ _ _
    | (refine Succ.bindAny ?_ (fun _ => ?_))
    | (refine Succ.ite _ ?_ ?_)
    | split)


/-- `bind_parameter_list` returns a list exactly when there is a parameter list -/
theorem bindParameterList_succ' (pl : Option Ast.ParamList) (typ : T) :
    Succ (fun r => r.isSome = pl.isSome) (bindParameterList pl typ) := by
  unfold bindParameterList
  cases pl with
  | none => exact Succ.pure _ rfl
  | some pl => exact Succ.bindAny (bindParams_succ _ _) (fun _ => Succ.pure _ rfl)

/-! ### the statement fragment and its fuel bound -/

mutual
/-- **the fragment** (see the header of this file) -/
def suppStmt : Ast.Stmt → Bool
  | .classicalDeclarationStatement _ false (some st) _ (some _) e =>
    suppScalarType st && (match e with | none => true | some e => suppExpr e)
  | .quantumDeclarationStatement _ (some _) _ (some qt) => suppDesignator qt.designator
  | .quantumDeclarationStatement _ none (some _) _ => true
  | .gate _ (some _) _ (some _) b => suppOptBlock b
  | .exprStmt _ (some (.gateCallExpr (.mk _ (some (.mk _ ops)) al (some _)))) =>
    ops.all suppOperand && suppArgList al
  | .exprStmt _ (some (.measureExpression _ (some op))) => suppOperand op
  | .reset _ (some op) => suppOperand op
  | .barrier _ (some (.mk _ ops)) => ops.all suppOperand
  | .assignmentStmt _ (some _) (some e) _ => suppExpr e
  | .ifStmt _ (some c) t f => suppExpr c && (suppAccBos t && suppOptBos f)
  | .whileStmt _ (some c) t => suppExpr c && suppAccBos t
  | .breakStmt _ | .continueStmt _ | .endStmt _ | .pragmaStatement .. | .annotationStatement .. => true
  | _ => false
def suppBlock : Ast.BlockExpr → Bool
  | .mk _ ss => suppStmts ss
def suppStmts : List Ast.Stmt → Bool
  | [] => true
  | s :: ss => suppStmt s && suppStmts ss
def suppOptBlock : Option Ast.BlockExpr → Bool
  | some b => suppBlock b
  | none => false
def suppBos : Ast.BlockOrStmt → Bool
  | .blockExpr b => suppBlock b
  | .stmt _ => false
def suppAccBos : Ast.Acc Ast.BlockOrStmt → Bool
  | .ok b => suppBos b
  | .panicked => false
def suppOptBos : Option Ast.BlockOrStmt → Bool
  | none => true
  | some b => suppBos b
end

mutual
/-- fuel that suffices for `stmtToAsgStmt` on a fragment statement -/
def needStmt : Ast.Stmt → Nat
  | .classicalDeclarationStatement .. => 3
  | .gate _ _ _ _ b => needOptBlock b + 3
  | .exprStmt _ (some (.gateCallExpr (.mk _ (some (.mk _ ops)) al _))) =>
    costOperands ops + costArgList al + 4
  | .exprStmt _ (some (.measureExpression _ (some op))) => costOperand op + 3
  | .reset _ (some op) => costOperand op + 1
  | .barrier _ (some (.mk _ ops)) => costOperands ops + 2
  | .assignmentStmt .. => 3
  | .ifStmt _ _ t f => needAccBos t + needOptBos f + 2
  | .whileStmt _ _ t => needAccBos t + 2
  | _ => 1
def needBlock : Ast.BlockExpr → Nat
  | .mk _ ss => needStmts ss + 2
def needStmts : List Ast.Stmt → Nat
  | [] => 1
  | s :: ss => needStmt s + needStmts ss + 1
def needOptBlock : Option Ast.BlockExpr → Nat
  | some b => needBlock b
  | none => 0
def needBos : Ast.BlockOrStmt → Nat
  | .blockExpr b => needBlock b + 1
  | .stmt _ => 0
def needAccBos : Ast.Acc Ast.BlockOrStmt → Nat
  | .ok b => needBos b
  | .panicked => 0
def needOptBos : Option Ast.BlockOrStmt → Nat
  | none => 0
  | some b => needBos b
end


theorem needStmt_pos (st : Ast.Stmt) : 1 ≤ needStmt st := by
  unfold needStmt; split <;> omega

theorem needStmts_pos (ss : List Ast.Stmt) : 1 ≤ needStmts ss := by
  cases ss <;> simp only [needStmts] <;> omega

/-- the five mutually recursive statement-level functions at one fuel level -/
structure AllSucc (fuel : Nat) : Prop where
  stmt : ∀ st, suppStmt st = true → needStmt st ≤ fuel → Succ NotAnn (stmtToAsgStmt fuel st)
  loop : ∀ ss, suppStmts ss = true → needStmts ss ≤ fuel → Succ Any (stmtsLoop fuel ss)
  list : ∀ b, suppBlock b = true → needBlock b ≤ fuel + 1 → Succ Any (blockExprToAsgStmtList fuel b)
  blockT : ∀ b, suppBlock b = true → needBlock b ≤ fuel → Succ Any (blockExprToAsgType fuel b)
  bos : ∀ b, suppBos b = true → needBos b ≤ fuel → Succ Any (blockOrStmtToAsgType fuel b)

theorem loop_step (fuel : Nat) (ih : AllSucc fuel) (ss : List Ast.Stmt) (hs : suppStmts ss = true)
    (hf : needStmts ss ≤ fuel + 1) : Succ Any (stmtsLoop (fuel + 1) ss) := by
  cases ss with
  | nil => unfold stmtsLoop; exact Succ.pure _ trivial
  | cons s rest =>
    simp only [suppStmts, Bool.and_eq_true] at hs
    simp only [needStmts] at hf
    unfold stmtsLoop
    refine Succ.bindAny ((ih.stmt s hs.1 (by omega)).mono (fun _ _ => trivial)) (fun r => ?_)
    refine Succ.bindAny (ih.loop rest hs.2 (by omega)) (fun rs => ?_)
    cases r <;> exact Succ.pure _ trivial

theorem list_step (fuel : Nat) (ih : AllSucc fuel) (b : Ast.BlockExpr) (hs : suppBlock b = true)
    (hf : needBlock b ≤ fuel + 2) : Succ Any (blockExprToAsgStmtList (fuel + 1) b) := by
  cases b with
  | mk sp ss =>
    simp only [suppBlock] at hs
    simp only [needBlock] at hf
    unfold blockExprToAsgStmtList
    exact ih.loop ss hs (by omega)

theorem blockT_step (fuel : Nat) (ih : AllSucc fuel) (b : Ast.BlockExpr) (hs : suppBlock b = true)
    (hf : needBlock b ≤ fuel + 1) : Succ Any (blockExprToAsgType (fuel + 1) b) := by
  unfold blockExprToAsgType
  exact Succ.bindAny (ih.list b hs hf) (fun _ => Succ.pure _ trivial)

theorem bos_step (fuel : Nat) (ih : AllSucc fuel) (b : Ast.BlockOrStmt) (hs : suppBos b = true)
    (hf : needBos b ≤ fuel + 1) : Succ Any (blockOrStmtToAsgType (fuel + 1) b) := by
  cases b with
  | blockExpr bl =>
    simp only [suppBos] at hs
    simp only [needBos] at hf
    unfold blockOrStmtToAsgType
    exact ih.blockT bl hs (by omega)
  | stmt st => simp [suppBos] at hs


set_option maxHeartbeats 1600000 in
theorem stmt_step (fuel : Nat) (ih : AllSucc fuel) (st : Ast.Stmt) (hs : suppStmt st = true)
    (hf : needStmt st ≤ fuel + 1) : Succ NotAnn (stmtToAsgStmt (fuel + 1) st) := by
  unfold suppStmt at hs
  split at hs
  · -- classical declaration
    rename_i sp st' c nm e
    simp only [needStmt] at hf
    simp only [Bool.and_eq_true] at hs
    unfold stmtToAsgStmt
    dsimp only
    refine Succ.bind (classicalDeclaration_succ sp st' c nm e hs.1 hs.2 fuel (by omega)) (fun r hr => ?_)
    exact Succ.pure _ (by intro s a h; exact hr s a (by simpa using h))
  · -- qubit q; / qubit[n] q;
    rename_i sp nm hw qt
    unfold stmtToAsgStmt
    dsimp only
    refine Succ.bindAny (notGlobalCheck_succ _) (fun _ => ?_)
    refine Succ.bind (unwrap_succ _ _) (fun k hk => ?_)
    subst hk
    refine Succ.bindAny (designatorToAsg_succ _ hs) (fun w => ?_)
    refine Succ.bindAny (newBinding_succ _ _ _) (fun _ => ?_)
    exact Succ.pure _ (by not_ann)
  · -- qubit $k;
    unfold stmtToAsgStmt
    dsimp only
    refine Succ.bindAny (notGlobalCheck_succ _) (fun _ => ?_)
    refine Succ.bind (unwrap_succ _ _) (fun k hk => ?_)
    subst hk
    exact Succ.pure _ (by not_ann)
  · -- gate definition
    rename_i sp nm ap qp b
    simp only [needStmt] at hf
    cases b with
    | none => simp [suppOptBlock] at hs
    | some body =>
      simp only [suppOptBlock] at hs
      simp only [needOptBlock] at hf
      unfold stmtToAsgStmt
      dsimp only
      refine Succ.bindAny (gateNotGlobalCheck_succ _) (fun _ => ?_)
      refine Succ.bind (unwrap_succ _ _) (fun k hk => ?_)
      subst hk
      refine Succ.bindAny (withScope_succ .subroutine _ (by decide) (?_ : Succ Any _)) (fun r => ?_)
      · refine Succ.bindAny ((bindParameterList_succ' ap _).mono (fun _ _ => trivial)) (fun params => ?_)
        refine Succ.bind (bindParameterList_succ' (some qp) _) (fun qubits hq => ?_)
        obtain ⟨qs, rfl⟩ := Option.isSome_iff_exists.mp (by simpa using hq)
        refine Succ.bind (unwrap_succ _ _) (fun k hk => ?_)
        subst hk
        refine Succ.bind (unwrap_succ _ _) (fun k hk => ?_)
        subst hk
        refine Succ.bindAny (ih.blockT _ hs (by omega)) (fun _ => ?_)
        exact Succ.pure _ trivial
      · obtain ⟨params, qubits, block⟩ := r
        dsimp only
        refine Succ.bindAny (newBinding_succ _ _ _) (fun _ => ?_)
        exact Succ.pure _ (by not_ann)
  · -- gate call
    rename_i sp sg sq ops al id
    simp only [needStmt] at hf
    simp only [Bool.and_eq_true] at hs
    obtain ⟨f, rfl⟩ : ∃ f, fuel = f + 1 := ⟨fuel - 1, by omega⟩
    unfold stmtToAsgStmt
    dsimp only
    unfold exprStmtToAsgStmt
    dsimp only
    exact gateCallExprToAsgStmt_succ sg sq ops al id [] hs.1 hs.2 f (by omega)
  · -- measure op;
    rename_i sp sm op
    simp only [needStmt] at hf
    obtain ⟨f, rfl⟩ : ∃ f, fuel = f + 1 := ⟨fuel - 1, by omega⟩
    unfold stmtToAsgStmt
    dsimp only
    unfold exprStmtToAsgStmt
    dsimp only
    refine Succ.bind (exprToAsgTexpr_measure_succ sm op hs f (by omega)) (fun r hr => ?_)
    obtain ⟨t, rfl⟩ := Option.isSome_iff_exists.mp hr
    exact Succ.pure _ (by not_ann)
  · -- reset
    rename_i sp op
    simp only [needStmt] at hf
    unfold stmtToAsgStmt
    dsimp only
    refine Succ.bind (unwrap_succ _ _) (fun k hk => ?_)
    subst hk
    refine Succ.bindAny (gateOperandToAsgTexpr_succ _ hs fuel (by omega)) (fun _ => ?_)
    exact Succ.pure _ (by not_ann)
  · -- barrier
    rename_i sp sq ops
    simp only [needStmt] at hf
    unfold stmtToAsgStmt
    dsimp only
    refine Succ.bindAny (qubitListToAsgTexpr_succ sq ops hs fuel (by omega)) (fun _ => ?_)
    exact Succ.pure _ (by not_ann)
  · -- assignment
    rename_i sp id e ii
    simp only [needStmt] at hf
    unfold stmtToAsgStmt
    dsimp only
    exact assignment_succ sp id e ii hs fuel (by omega)
  · -- if
    rename_i sp c t f
    simp only [needStmt] at hf
    simp only [Bool.and_eq_true] at hs
    obtain ⟨hc, ht, hfb⟩ := hs
    have hfuel : 1 ≤ fuel := by omega
    obtain ⟨f', rfl⟩ : ∃ f', fuel = f' + 1 := ⟨fuel - 1, by omega⟩
    cases t with
    | panicked => simp [suppAccBos] at ht
    | ok tb =>
      simp only [suppAccBos] at ht
      simp only [needAccBos] at hf
      unfold stmtToAsgStmt
      dsimp only
      refine Succ.bind (exprToAsgTexpr_succ f' c hc) (fun r hr => ?_)
      obtain ⟨cond, rfl⟩ := Option.isSome_iff_exists.mp hr
      refine Succ.bindAny (withScope_succ .localS _ (by decide) (?_ : Succ Any _)) (fun thenBranch => ?_)
      · refine Succ.pure_bind _ ?_
        exact ih.bos tb ht (by omega)
      refine Succ.bindAny (withScope_succ .localS _ (by decide) (?_ : Succ Any _)) (fun elseBranch => ?_)
      · cases f with
        | none => exact Succ.pure _ trivial
        | some eb =>
          simp only [suppOptBos] at hfb
          simp only [needOptBos] at hf
          dsimp only
          exact Succ.bindAny (ih.bos eb hfb (by omega)) (fun _ => Succ.pure _ trivial)
      refine Succ.bind (unwrap_succ _ _) (fun k hk => ?_)
      subst hk
      exact Succ.pure _ (by not_ann)
  · -- while
    rename_i sp c t
    simp only [needStmt] at hf
    simp only [Bool.and_eq_true] at hs
    obtain ⟨hc, ht⟩ := hs
    obtain ⟨f', rfl⟩ : ∃ f', fuel = f' + 1 := ⟨fuel - 1, by omega⟩
    cases t with
    | panicked => simp [suppAccBos] at ht
    | ok tb =>
      simp only [suppAccBos] at ht
      simp only [needAccBos] at hf
      unfold stmtToAsgStmt
      dsimp only
      refine Succ.bind (exprToAsgTexpr_succ f' c hc) (fun r hr => ?_)
      obtain ⟨cond, rfl⟩ := Option.isSome_iff_exists.mp hr
      refine Succ.bindAny (withScope_succ .localS _ (by decide) (?_ : Succ Any _)) (fun body => ?_)
      · refine Succ.pure_bind _ ?_
        exact ih.bos tb ht (by omega)
      refine Succ.bind (unwrap_succ _ _) (fun k hk => ?_)
      subst hk
      exact Succ.pure _ (by not_ann)
  · unfold stmtToAsgStmt; exact Succ.pure _ (by not_ann)
  · unfold stmtToAsgStmt; exact Succ.pure _ (by not_ann)
  · unfold stmtToAsgStmt; exact Succ.pure _ (by not_ann)
  · unfold stmtToAsgStmt; exact Succ.pure _ (by not_ann)
  · unfold stmtToAsgStmt
    dsimp only
    exact Succ.bindAny (pushAnnotation_succ _) (fun _ => Succ.pure _ (by not_ann))
  · simp at hs


theorem allSucc (fuel : Nat) : AllSucc fuel := by
  induction fuel with
  | zero =>
    refine ⟨?_, ?_, ?_, ?_, ?_⟩
    · intro st _ hf; have := needStmt_pos st; omega
    · intro ss _ hf; have := needStmts_pos ss; omega
    · intro b _ hf; cases b with | mk sp ss => simp only [needBlock] at hf; have := needStmts_pos ss; omega
    · intro b _ hf; cases b with | mk sp ss => simp only [needBlock] at hf; omega
    · intro b hs hf
      cases b with
      | blockExpr bl => cases bl with | mk sp ss => simp only [needBos, needBlock] at hf; omega
      | stmt st => simp [suppBos] at hs
  | succ fuel ih =>
    exact ⟨stmt_step fuel ih, loop_step fuel ih, list_step fuel ih, blockT_step fuel ih, bos_step fuel ih⟩

/-! ### the top level -/

theorem suppStmts_of_forall (ss : List Ast.Stmt) (h : ∀ s ∈ ss, suppStmt s = true) :
    suppStmts ss = true := by
  induction ss with
  | nil => simp [suppStmts]
  | cons s rest ih =>
    simp only [suppStmts, Bool.and_eq_true]
    exact ⟨h s (by simp), ih (fun x hx => h x (by simp [hx]))⟩

/-- no statement of the fragment is an `include`, so the include scan answers `false` -/
theorem parseIncludedFiles_supp (ss : List Ast.Stmt) (h : suppStmts ss = true) (s : Ctx) :
    parseIncludedFiles ss s = .ok (false, s) := by
  induction ss with
  | nil => rfl
  | cons st rest ih =>
    simp only [suppStmts, Bool.and_eq_true] at h
    cases st <;> first
      | (simp [suppStmt] at h; done)
      | (unfold parseIncludedFiles; exact ih h.2)

theorem syntaxToSemanticLoop_succ (ss : List Ast.Stmt) (h : suppStmts ss = true) (fuel : Nat)
    (hf : needStmts ss ≤ fuel) : Succ Any (syntaxToSemanticLoop fuel ss) := by
  induction ss generalizing fuel with
  | nil =>
    obtain ⟨f, rfl⟩ : ∃ f, fuel = f + 1 := ⟨fuel - 1, by simp only [needStmts] at hf; omega⟩
    unfold syntaxToSemanticLoop; exact Succ.pure _ trivial
  | cons st rest ih =>
    simp only [needStmts] at hf
    obtain ⟨f, rfl⟩ : ∃ f, fuel = f + 1 := ⟨fuel - 1, by omega⟩
    simp only [suppStmts, Bool.and_eq_true] at h
    have hst := (allSucc f).stmt st h.1 (by omega)
    have hrest := ih h.2 f (by omega)
    unfold syntaxToSemanticLoop
    cases st
    all_goals first | (simp [suppStmt] at h; done) | skip
    all_goals (
      dsimp only
      refine Succ.bind hst (fun r hr => ?_)
      cases r with
      | none => exact hrest
      | some stmt =>
        dsimp only
        refine Succ.bindAny annotationsIsEmpty_succ (fun b => ?_)
        cases b
        · simp only [Bool.false_eq_true, if_false]
          cases stmt <;> first
            | (exact absurd rfl (hr _ _))
            | exact Succ.bindAny takeAnnotations_succ (fun _ => Succ.bindAny (insertStmt_succ _) (fun _ => hrest))
        · simp only [if_true]
          exact Succ.bindAny (insertStmt_succ _) (fun _ => hrest))

/-- explicit fuel bound: a structural function of the program (`needStmts`) -/
def fuelFor (p : Ast.Program) : Nat := needStmts p.statements

end Oq3.Sema

namespace Oq3.Props.C03
open Oq3 Oq3.Sema Oq3.Types Oq3.Symbols

/-- **C03 on the fragment**: a program all of whose statements are in the syntactic fragment
`suppStmt` is analysed without panic, for every fuel from the explicit bound `fuelFor p` on -/
theorem sema_total_partial (p : Ast.Program) (h : ∀ s ∈ p.statements, suppStmt s = true)
    (fuel : Nat) (hf : fuelFor p ≤ fuel) : ∃ c, analyzeWith fuel p = .ok c := by
  have hs := suppStmts_of_forall p.statements h
  obtain ⟨u, c, hrun, _, _⟩ :=
    syntaxToSemanticLoop_succ p.statements hs fuel hf {} C19.inv_init
  refine ⟨c, ?_⟩
  unfold analyzeWith
  have : (syntaxToSemantic fuel p).run {} = .ok (u, c) := by
    show syntaxToSemantic fuel p {} = _
    unfold syntaxToSemantic
    rw [C13.bind_run_of_ok (parseIncludedFiles_supp p.statements hs {})]
    simpa using hrun
  rw [this]

/-- with the fuel exactly at the bound -/
theorem sema_total_partial' (p : Ast.Program) (h : ∀ s ∈ p.statements, suppStmt s = true) :
    ∃ c, analyzeWith (fuelFor p) p = .ok c :=
  sema_total_partial p h _ (Nat.le_refl _)


/-- the default fuel of the model is enough whenever it dominates the structural bound (it does on
every program tried; the inequality itself is decidable per program) -/
theorem sema_total_partial_default (p : Ast.Program) (h : ∀ s ∈ p.statements, suppStmt s = true)
    (hd : fuelFor p ≤ defaultFuel p) : ∃ c, analyze p = .ok c :=
  sema_total_partial p h _ hd

/-! ### non-vacuity: a closed program of the fragment -/

/-- `qubit[2] q; int[8] x = 3; gate g a { U(1, 2, 3) a; } if (x) { g q[0]; x = 4; } else { reset q; }
while (true) { break; } h q;` (ranges elided) -/
def exampleProgram : Ast.Program :=
  let sp : Ast.Span := ⟨0, 0⟩
  let lit (t : String) (v : Nat) : Ast.Expr := .literal ⟨sp, .intNumber t (some v)⟩
  let idn (n : String) : Ast.Identifier := ⟨sp, n⟩
  let call (g : String) (args : Option Ast.ArgList) (ops : List Ast.GateOperand) : Ast.Stmt :=
    .exprStmt sp (some (.gateCallExpr (.mk sp (some (.mk sp ops)) args (some (idn g)))))
  ⟨sp,
   [.quantumDeclarationStatement sp (some ⟨sp, "q"⟩) none
      (some ⟨sp, some (.mk sp (some (lit "2" 2)))⟩),
    .classicalDeclarationStatement sp false
      (some (.mk sp .int (some (.mk sp (some (lit "8" 8)))) none)) false (some ⟨sp, "x"⟩) (some (lit "3" 3)),
    .gate sp (some ⟨sp, "g"⟩) none (some ⟨sp, [⟨sp, "a"⟩]⟩)
      (some (.mk sp [call "U" (some (.mk sp (some (.mk sp [lit "1" 1, lit "2" 2, lit "3" 3]))))
        [.identifier (idn "a")]])),
    .ifStmt sp (some (.identifier (idn "x")))
      (.ok (.blockExpr (.mk sp
        [call "g" none [.indexedIdentifier (.mk sp (some (idn "q"))
            [.mk sp (some (.expressionList (.mk sp [lit "0" 0])))])],
         .assignmentStmt sp (some (idn "x")) (some (lit "4" 4)) none])))
      (some (.blockExpr (.mk sp [.reset sp (some (.identifier (idn "q")))]))),
    .whileStmt sp (some (.literal ⟨sp, .bool true⟩)) (.ok (.blockExpr (.mk sp [.breakStmt sp]))),
    call "h" none [.identifier (idn "q")]]⟩

theorem example_in_fragment : exampleProgram.statements.all suppStmt = true := by decide +kernel

theorem example_fuel : fuelFor exampleProgram ≤ defaultFuel exampleProgram := by decide +kernel

/-- the theorem applies to it … -/
theorem example_analyzes : ∃ c, analyze exampleProgram = .ok c :=
  sema_total_partial_default exampleProgram
    (fun s hs => List.all_eq_true.mp example_in_fragment s hs) example_fuel

/-- … and, independently, the kernel evaluates the run: it returns with one diagnostic
(`h` is not declared: `UndefGateError`) -/
theorem example_runs :
    (match analyze exampleProgram with
     | .ok c => c.semanticErrors.map (·.kind)
     | .error _ => []) = [.undefGateError] := by
  decide +kernel

end Oq3.Props.C03
