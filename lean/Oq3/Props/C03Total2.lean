/-
C03 — totality of the semantic analysis on the ENLARGED syntactic fragment (`T2.suppStmt`,
`T2.suppTop`), with a size-based fuel bound that the model's default fuel dominates.

Inside the fragment (all purely syntactic, decidable, recursive through blocks AND expressions):

* expressions (`T2.suppE`, Props/C03Total2Expr.lean): literals incl. timing/imaginary, identifiers,
  hardware qubits, parentheses, the 14 non-panicking binary operators, unary minus, casts, indexed
  identifiers / index expressions (lists, sets, ranges), `measure`, `return [e]`, ranges — any depth;
* classical declarations `[const] ty x [= e];`, io declarations, `qubit q; qubit[n] q; qubit $k;`,
  aliases `let a = e;`;
* gate definitions; `def f(typed params) [-> ty] { … }` (definitions only — see exclusions);
* gate calls with `inv/pow/ctrl/negctrl` modifiers, `gphase(e)`, expression statements;
* `reset`, `barrier ops;`, `delay[e] ops;`, `x = e;`, `x[i] = e;`;
* `if/else`, `while`, `for ty v in {set} | [range] | e` — bodies blocks OR single statements (a
  single-statement body must not be an annotation / version line, whose translation is `None`);
* `switch (e) { case es {…} … default {…} }`;
* `break; continue; end;`, pragmas, annotations, `OPENQASM n;`, the not-implemented statement kinds
  (`defcal`, `cal`, `extern`, old-style declarations, … — a diagnostic, not a crash);
* at top level additionally `include "stdgates.inc";`.

STILL EXCLUDED, with the panic site each one can reach (cf. `C03.panic_sites`):
* subroutine CALLS `f(args)` — `call_expr_to_asg_texpr: programming error: expected Type::Def
  variant` unless the callee is, at that point, a declared subroutine (depends on the symbol table;
  F15), and `…: arg_list() is None`-type unwraps;
* designators that are identifiers or non-literal expressions — `designator_to_asg: sym.unwrap() on
  Err` / `const_value.unwrap() on None` / `unsupported designator type` (F14; depends on the table and
  on the const-value map);
* comparison `< <= > >=`, logic `&& ||`, compound assignment — `binary_op_to_asg_type: …`;
  unary `!` `~` — `expr_to_asg_texpr: unary operators other than minus …`; `-` applied to a
  non-imaginary timing literal, a bool or a bit string — `expr_to_asg_texpr: only …`;
* integer literals `≥ 2^128`, floats without value — `literal_to_asg_texpr: … is None` etc.;
* array declarations / array io / array casts / array-reference parameters without type —
  `io_declaration_statement_to_asg_stmt: array types…`, `expr_to_asg_texpr: cast.scalar_type() is
  None`, `bind_typed_parameter_list: neither …`; array / block / box expressions — `expr_to_asg_texpr:
  … not supported`;
* `barrier;` — `qubit_list_to_asg_texpr: qubit_list.unwrap() on None`; `gphase();`, `x = ();`-shaped
  trees (a mandatory child absent) — the `… unwrap() on None` sites of `stmt_to_asg_stmt`,
  `expr_stmt_to_asg_stmt`, `assignment_stmt_to_asg_stmt`;
* `if (c) ;`-shaped bodies — `true_body_block_or_stmt` / `block_or_stmt: Error in oq3_syntax`; a
  single-statement body that is an annotation or `OPENQASM` line — `block_or_stmt_to_asg_type: …
  unwrap() on None`;
* `include` other than a top-level `"stdgates.inc"` — outcome `unsupportedInclude` (no file system in
  the model) or, nested in the global scope, `stmt_to_asg_stmt: unreachable!()`.
-/
import Oq3.Props.C03Total2Stmt

namespace Oq3.Sema.T2
open Oq3 Oq3.Sema Oq3.Types Oq3.Symbols Oq3.Props

/-- statements whose translation is `None` -/
def yieldsNone : Ast.Stmt → Bool
  | .annotationStatement .. => true
  | .versionString _ => true
  | _ => false

def suppIter (it : Ast.ForIterable) : Bool :=
  match it.setExpression with
  | some se => suppSet se
  | none =>
    match it.rangeExpr with
    | some r => suppRange r
    | none => suppOptE it.forIterableExpr

mutual
/-- **the enlarged fragment** -/
def suppStmt : Ast.Stmt → Bool
  | .classicalDeclarationStatement _ false (some st) _ (some _) e => suppScalarType st && suppOptE0 e
  | .ioDeclarationStatement _ false (some st) (some _) _ => suppScalarType st
  | .quantumDeclarationStatement _ (some _) _ (some qt) => suppDesignator qt.designator
  | .quantumDeclarationStatement _ none (some _) _ => true
  | .gate _ (some _) _ (some _) b => suppOptBlock b
  | .defStmt _ (some _) (some tpl) b rs =>
    suppTypedParams tpl.typedParams && (suppOptBlock b && suppRetSig rs)
  | .exprStmt _ e => suppExprStmt e
  | .reset _ (some op) => suppOp op
  | .barrier _ (some (.mk _ ops)) => suppOps ops
  | .delayStmt _ (some (.mk _ ops)) (some (.mk _ e)) => suppOps ops && suppOptE e
  | .assignmentStmt _ (some _) rhs _ => suppOptE rhs
  | .assignmentStmt _ none rhs (some ii) => suppII ii && suppOptE rhs
  | .aliasDeclarationStatement _ (some _) e => suppOptE e
  | .ifStmt _ c t f => suppOptE c && (suppAccBos t && suppOptBos f)
  | .whileStmt _ c t => suppOptE c && suppAccBos t
  | .forStmt _ (some _) (some st) (some it) b => suppScalarType st && (suppIter it && suppAccBos b)
  | .switchCaseStmt _ c cs d => suppOptE c && (suppCases cs && suppOptBlock0 d)
  | .breakStmt _ | .continueStmt _ | .endStmt _ | .pragmaStatement .. | .annotationStatement ..
  | .versionString _ | .notImpl .. => true
  | _ => false
def suppBlock : Ast.BlockExpr → Bool
  | .mk _ ss => suppStmts ss
def suppStmts : List Ast.Stmt → Bool
  | [] => true
  | s :: ss => suppStmt s && suppStmts ss
/-- present block -/
def suppOptBlock : Option Ast.BlockExpr → Bool
  | some b => suppBlock b
  | none => false
/-- optional block -/
def suppOptBlock0 : Option Ast.BlockExpr → Bool
  | some b => suppBlock b
  | none => true
def suppBos : Ast.BlockOrStmt → Bool
  | .blockExpr b => suppBlock b
  | .stmt s => suppStmt s && !yieldsNone s
def suppAccBos : Ast.Acc Ast.BlockOrStmt → Bool
  | .ok b => suppBos b
  | .panicked => false
def suppOptBos : Option Ast.BlockOrStmt → Bool
  | none => true
  | some b => suppBos b
def suppCase : Ast.CaseExpr → Bool
  | .mk _ (some el) (some b) => suppEL el && suppBlock b
  | _ => false
def suppCases : List Ast.CaseExpr → Bool
  | [] => true
  | c :: cs => suppCase c && suppCases cs
end

/-- post-condition of a statement: never an `AnnotatedStmt`, and present unless the statement is an
annotation / version line -/
def QStmt (st : Ast.Stmt) (r : Option Stmt) : Prop :=
  NotAnn r ∧ (yieldsNone st = false → r.isSome = true)

/-- the six mutually recursive statement-level functions at one fuel level -/
structure AllS (fuel : Nat) : Prop where
  stmt : ∀ st, suppStmt st = true → 2 * st.size + 1 ≤ fuel → Succ (QStmt st) (stmtToAsgStmt fuel st)
  loop : ∀ ss, suppStmts ss = true → 2 * Ast.stmtsSize ss + 1 ≤ fuel → Succ Any (stmtsLoop fuel ss)
  list : ∀ b, suppBlock b = true → 2 * b.size + 1 ≤ fuel → Succ Any (blockExprToAsgStmtList fuel b)
  blockT : ∀ b, suppBlock b = true → 2 * b.size + 2 ≤ fuel → Succ Any (blockExprToAsgType fuel b)
  bos : ∀ b, suppBos b = true → 2 * b.size + 1 ≤ fuel → Succ Any (blockOrStmtToAsgType fuel b)
  cases : ∀ cs, suppCases cs = true → 2 * Ast.casesSize cs + 1 ≤ fuel → Succ Any (caseExprsLoop fuel cs)

macro "fuel_ok3" : tactic => `(tactic| (
  simp only [Ast.Stmt.size, Ast.BlockExpr.size, Ast.BlockOrStmt.size, Ast.CaseExpr.size, Ast.stmtsSize,
    Ast.casesSize, Ast.optBlockSize, Ast.optBosSize, Ast.accBosSize, Ast.ForIterable.size,
    Ast.Expr.size, Ast.ParenExpr.size, Ast.RangeExpr.size, Ast.ExpressionList.size, Ast.Designator.size,
    Ast.SetExpression.size, Ast.IndexKind.size, Ast.IndexOperator.size, Ast.IndexedIdentifier.size,
    Ast.GateOperand.size, Ast.QubitList.size, Ast.ArgList.size, Ast.GateCallExpr.size,
    Ast.GPhaseCallExpr.size, Ast.Modifier.size, Ast.optExprSize, Ast.exprsSize, Ast.optParenExprSize,
    Ast.optExpressionListSize, Ast.optIndexKindSize, Ast.optIndexOperatorSize, Ast.indexOperatorsSize,
    Ast.optGateOperandSize, Ast.gateOperandsSize, Ast.optQubitListSize, Ast.optArgListSize,
    Ast.optDesignatorSize, Ast.optGateCallExprSize, Ast.optGPhaseCallExprSize, Ast.modifiersSize] at *
  omega))

theorem loop_step (fuel : Nat) (ih : AllS fuel) (ss : List Ast.Stmt) (hs : suppStmts ss = true)
    (hf : 2 * Ast.stmtsSize ss + 1 ≤ fuel + 1) : Succ Any (stmtsLoop (fuel + 1) ss) := by
  cases ss with
  | nil => unfold stmtsLoop; exact Succ.pure _ trivial
  | cons s rest =>
    simp only [suppStmts, Bool.and_eq_true] at hs
    unfold stmtsLoop
    refine Succ.bindAny ((ih.stmt s hs.1 (by clear ih; fuel_ok3)).mono (fun _ _ => trivial)) (fun r => ?_)
    refine Succ.bindAny (ih.loop rest hs.2 (by clear ih; fuel_ok3)) (fun rs => ?_)
    cases r <;> exact Succ.pure _ trivial

theorem list_step (fuel : Nat) (ih : AllS fuel) (b : Ast.BlockExpr) (hs : suppBlock b = true)
    (hf : 2 * b.size + 1 ≤ fuel + 1) : Succ Any (blockExprToAsgStmtList (fuel + 1) b) := by
  cases b with
  | mk sp ss =>
    simp only [suppBlock] at hs
    unfold blockExprToAsgStmtList
    exact ih.loop ss hs (by clear ih; fuel_ok3)

theorem blockT_step (fuel : Nat) (ih : AllS fuel) (b : Ast.BlockExpr) (hs : suppBlock b = true)
    (hf : 2 * b.size + 2 ≤ fuel + 1) : Succ Any (blockExprToAsgType (fuel + 1) b) := by
  unfold blockExprToAsgType
  exact Succ.bindAny (ih.list b hs (by omega)) (fun _ => Succ.pure _ trivial)

theorem bos_step (fuel : Nat) (ih : AllS fuel) (b : Ast.BlockOrStmt) (hs : suppBos b = true)
    (hf : 2 * b.size + 1 ≤ fuel + 1) : Succ Any (blockOrStmtToAsgType (fuel + 1) b) := by
  cases b with
  | blockExpr bl =>
    simp only [suppBos] at hs
    unfold blockOrStmtToAsgType
    exact ih.blockT bl hs (by clear ih; fuel_ok3)
  | stmt st =>
    simp only [suppBos, Bool.and_eq_true, Bool.not_eq_true'] at hs
    unfold blockOrStmtToAsgType
    dsimp only
    refine Succ.bind (ih.stmt st hs.1 (by clear ih; fuel_ok3)) (fun r hr => ?_)
    obtain ⟨v, rfl⟩ := Option.isSome_iff_exists.mp (hr.2 hs.2)
    refine Succ.bind (unwrap_succ _ _) (fun k hk => ?_)
    subst hk
    exact Succ.pure _ trivial

theorem cases_step (fuel : Nat) (ih : AllS fuel) (cs : List Ast.CaseExpr) (hs : suppCases cs = true)
    (hf : 2 * Ast.casesSize cs + 1 ≤ fuel + 1) : Succ Any (caseExprsLoop (fuel + 1) cs) := by
  cases cs with
  | nil => unfold caseExprsLoop; exact Succ.pure _ trivial
  | cons c rest =>
    simp only [suppCases, Bool.and_eq_true] at hs
    obtain ⟨hc, hrest⟩ := hs
    unfold suppCase at hc
    split at hc
    · rename_i sp el b
      simp only [Bool.and_eq_true] at hc
      unfold caseExprsLoop
      dsimp only
      refine Succ.bind (unwrap_succ _ _) (fun k hk => ?_)
      subst hk
      refine Succ.bindAny ((allE fuel).elT _ hc.1 (by clear ih; fuel_ok3)) (fun _ => ?_)
      refine Succ.bindAny (withScope_succ .localS _ (by decide) (?_ : Succ Any _)) (fun _ => ?_)
      · refine Succ.bind (unwrap_succ _ _) (fun k hk => ?_)
        subst hk
        exact ih.list _ hc.2 (by clear ih; fuel_ok3)
      exact Succ.bindAny (ih.cases rest hrest (by clear ih; fuel_ok3)) (fun _ => Succ.pure _ trivial)
    · simp at hc


macro "q_some" : tactic => `(tactic| exact ⟨by not_ann, fun _ => rfl⟩)

theorem notImpl_succ (node : Ast.Span) : Succ (fun r => r = some Stmt.nullStmt) (notImpl node) := by
  unfold notImpl
  exact Succ.bindAny (insertError_succ _ _) (fun _ => Succ.pure _ rfl)

set_option maxHeartbeats 3200000 in
theorem stmt_step (fuel : Nat) (ih : AllS fuel) (st : Ast.Stmt) (hs : suppStmt st = true)
    (hf : 2 * st.size + 1 ≤ fuel + 1) : Succ (QStmt st) (stmtToAsgStmt (fuel + 1) st) := by
  unfold suppStmt at hs
  split at hs
  · -- classical declaration
    rename_i sp st' c nm e
    simp only [Bool.and_eq_true] at hs
    unfold stmtToAsgStmt
    dsimp only
    refine Succ.bind (classicalDecl_succ sp st' c nm e hs.1 hs.2 fuel (by clear ih; fuel_ok3)) (fun r hr => ?_)
    exact Succ.pure _ ⟨fun s a h => hr s a (by simpa using h), fun _ => rfl⟩
  · -- io declaration
    rename_i sp st' nm inp
    unfold stmtToAsgStmt
    dsimp only
    refine Succ.bind (ioDecl_succ st' nm inp hs) (fun r hr => ?_)
    exact Succ.pure _ ⟨fun s a h => hr s a (by simpa using h), fun _ => rfl⟩
  · -- qubit q; / qubit[n] q;
    unfold stmtToAsgStmt
    dsimp only
    refine Succ.bindAny (notGlobalCheck_succ _) (fun _ => ?_)
    refine Succ.bind (unwrap_succ _ _) (fun k hk => ?_)
    subst hk
    refine Succ.bindAny (designatorToAsg_succ _ hs) (fun w => ?_)
    refine Succ.bindAny (newBinding_succ _ _ _) (fun _ => ?_)
    exact Succ.pure _ (by q_some)
  · -- qubit $k;
    unfold stmtToAsgStmt
    dsimp only
    refine Succ.bindAny (notGlobalCheck_succ _) (fun _ => ?_)
    refine Succ.bind (unwrap_succ _ _) (fun k hk => ?_)
    subst hk
    exact Succ.pure _ (by q_some)
  · -- gate definition
    rename_i sp nm ap qp b
    cases b with
    | none => simp [suppOptBlock] at hs
    | some body =>
      simp only [suppOptBlock] at hs
      unfold stmtToAsgStmt
      dsimp only
      refine Succ.bindAny (gateNotGlobalCheck_succ _) (fun _ => ?_)
      refine Succ.bind (unwrap_succ _ _) (fun k hk => ?_)
      subst hk
      refine Succ.bindAny (withScope_succ .subroutine _ (by decide) (?_ : Succ Any _)) (fun r => ?_)
      · refine Succ.bindAny ((bindParameterList_succ' ap _).mono (fun _ _ => trivial)) (fun params => ?_)
        refine Succ.bind (bindParameterList_succ' (some qp) _) (fun qubits hq => ?_)
        obtain ⟨qs, rfl⟩ := Option.isSome_iff_exists.mp (by simpa using hq)
        refine Succ.bind (unwrap_succ _ _) (fun k hk => ?_)
        subst hk
        refine Succ.bind (unwrap_succ _ _) (fun k hk => ?_)
        subst hk
        refine Succ.bindAny (ih.blockT _ hs (by clear ih; fuel_ok3)) (fun _ => ?_)
        exact Succ.pure _ trivial
      · obtain ⟨params, qubits, block⟩ := r
        dsimp only
        refine Succ.bindAny (newBinding_succ _ _ _) (fun _ => ?_)
        exact Succ.pure _ (by q_some)
  · -- def
    rename_i sp nm tpl b rs
    simp only [Bool.and_eq_true] at hs
    obtain ⟨htp, hb, hrs⟩ := hs
    cases b with
    | none => simp [suppOptBlock] at hb
    | some body =>
      simp only [suppOptBlock] at hb
      unfold stmtToAsgStmt
      dsimp only
      refine Succ.bind (unwrap_succ _ _) (fun k hk => ?_)
      subst hk
      refine Succ.bindAny (notGlobalCheck_succ _) (fun _ => ?_)
      refine Succ.bind (withScope_succ .subroutine _ (by decide)
        (?_ : Succ (fun r : Option (List SymbolIdResult) × Block => r.1.isSome = true) _)) (fun r hr => ?_)
      · refine Succ.bind (bindTypedParameterList_succ tpl htp) (fun params hp => ?_)
        refine Succ.bind (unwrap_succ _ _) (fun k hk => ?_)
        subst hk
        refine Succ.bindAny (ih.blockT _ hb (by clear ih; fuel_ok3)) (fun _ => ?_)
        exact Succ.pure _ hp
      · obtain ⟨params, block⟩ := r
        obtain ⟨ps, rfl⟩ := Option.isSome_iff_exists.mp hr
        dsimp only
        have hjp : ∀ returnType : T, Succ (QStmt (Ast.Stmt.defStmt sp (some k) (some tpl) (some body) rs)) (do
            let defNameSymbolId ← newBinding k.text (T.subroutine ps.length returnType) k.span
            let params ← unwrap "stmt_to_asg_stmt: Def params.unwrap() on None" (some ps)
            pure (some (Stmt.defStmt defNameSymbolId params block returnType))) := by
          intro returnType
          refine Succ.bindAny (newBinding_succ _ _ _) (fun _ => ?_)
          refine Succ.bind (unwrap_succ _ _) (fun k hk => ?_)
          subst hk
          exact Succ.pure _ (by q_some)
        unfold suppRetSig at hrs
        split at hrs
        · exact Succ.pure_bind _ (hjp _)
        · rename_i rs'
          dsimp only
          cases hst : rs'.scalarType with
          | none => exact Succ.pure_bind _ (hjp _)
          | some st' =>
            simp only [hst] at hrs
            exact Succ.bindAny (scalarTypeToType_succ st' true hrs) (fun t => hjp t)
  · -- expression statement
    rename_i sp e
    unfold stmtToAsgStmt
    dsimp only
    exact (exprStmt_succ e hs fuel (by clear ih; fuel_ok3)).mono (fun r hr => ⟨hr.2, fun _ => hr.1⟩)
  · -- reset
    rename_i sp op
    unfold stmtToAsgStmt
    dsimp only
    refine Succ.bind (unwrap_succ _ _) (fun k hk => ?_)
    subst hk
    refine Succ.bindAny ((allE fuel).op _ hs (by clear ih; fuel_ok3)) (fun _ => ?_)
    exact Succ.pure _ (by q_some)
  · -- barrier
    rename_i sp sq ops
    unfold stmtToAsgStmt
    dsimp only
    refine Succ.bindAny (qubitList_succ sq ops hs fuel (by clear ih; fuel_ok3)) (fun _ => ?_)
    exact Succ.pure _ (by q_some)
  · -- delay
    rename_i sp sq ops sd e
    simp only [Bool.and_eq_true] at hs
    unfold stmtToAsgStmt
    dsimp only
    refine Succ.bindAny (qubitList_succ sq ops hs.1 fuel (by clear ih; fuel_ok3)) (fun _ => ?_)
    refine Succ.bind (unwrap_succ _ _) (fun k hk => ?_)
    subst hk
    dsimp only
    refine Succ.bind ((allE fuel).optE e hs.2 (by clear ih; fuel_ok3)) (fun x hx => ?_)
    obtain ⟨t, rfl⟩ := Option.isSome_iff_exists.mp hx
    refine Succ.bind (unwrap_succ _ _) (fun k hk => ?_)
    subst hk
    refine Succ.bindAny (delayDurationCheck_succ _ _) (fun _ => ?_)
    exact Succ.pure _ (by q_some)
  · -- x = e;
    rename_i sp id rhs ii
    unfold stmtToAsgStmt
    dsimp only
    exact (assignIdent_succ sp id rhs ii hs fuel (by clear ih; fuel_ok3)).mono
      (fun r hr => ⟨hr.2, fun _ => hr.1⟩)
  · -- x[i] = e;
    rename_i sp rhs ii
    simp only [Bool.and_eq_true] at hs
    unfold stmtToAsgStmt
    dsimp only
    exact (assignIndexed_succ sp rhs ii hs.1 hs.2 fuel (by clear ih; fuel_ok3)).mono
      (fun r hr => ⟨hr.2, fun _ => hr.1⟩)
  · -- let a = e;
    rename_i sp nm e
    unfold stmtToAsgStmt
    dsimp only
    refine Succ.bind (unwrap_succ _ _) (fun k hk => ?_)
    subst hk
    refine Succ.bind ((allE fuel).optE e hs (by clear ih; fuel_ok3)) (fun x hx => ?_)
    obtain ⟨t, rfl⟩ := Option.isSome_iff_exists.mp hx
    refine Succ.bind (unwrap_succ _ _) (fun k hk => ?_)
    subst hk
    refine Succ.bindAny (newBinding_succ _ _ _) (fun _ => ?_)
    exact Succ.pure _ (by q_some)
  · -- if
    rename_i sp c t f
    simp only [Bool.and_eq_true] at hs
    obtain ⟨hc, ht, hfb⟩ := hs
    cases t with
    | panicked => simp [suppAccBos] at ht
    | ok tb =>
      simp only [suppAccBos] at ht
      unfold stmtToAsgStmt
      dsimp only
      refine Succ.bind ((allE fuel).optE c hc (by clear ih; fuel_ok3)) (fun r hr => ?_)
      obtain ⟨cond, rfl⟩ := Option.isSome_iff_exists.mp hr
      refine Succ.bindAny (withScope_succ .localS _ (by decide) (?_ : Succ Any _)) (fun thenBranch => ?_)
      · refine Succ.pure_bind _ ?_
        exact ih.bos tb ht (by clear ih; fuel_ok3)
      refine Succ.bindAny (withScope_succ .localS _ (by decide) (?_ : Succ Any _)) (fun elseBranch => ?_)
      · cases f with
        | none => exact Succ.pure _ trivial
        | some eb =>
          simp only [suppOptBos] at hfb
          dsimp only
          exact Succ.bindAny (ih.bos eb hfb (by clear ih; fuel_ok3)) (fun _ => Succ.pure _ trivial)
      refine Succ.bind (unwrap_succ _ _) (fun k hk => ?_)
      subst hk
      exact Succ.pure _ (by q_some)
  · -- while
    rename_i sp c t
    simp only [Bool.and_eq_true] at hs
    obtain ⟨hc, ht⟩ := hs
    cases t with
    | panicked => simp [suppAccBos] at ht
    | ok tb =>
      simp only [suppAccBos] at ht
      unfold stmtToAsgStmt
      dsimp only
      refine Succ.bind ((allE fuel).optE c hc (by clear ih; fuel_ok3)) (fun r hr => ?_)
      obtain ⟨cond, rfl⟩ := Option.isSome_iff_exists.mp hr
      refine Succ.bindAny (withScope_succ .localS _ (by decide) (?_ : Succ Any _)) (fun body => ?_)
      · refine Succ.pure_bind _ ?_
        exact ih.bos tb ht (by clear ih; fuel_ok3)
      refine Succ.bind (unwrap_succ _ _) (fun k hk => ?_)
      subst hk
      exact Succ.pure _ (by q_some)
  · -- for
    rename_i sp v st' it b
    simp only [Bool.and_eq_true] at hs
    obtain ⟨hst, hit, hb⟩ := hs
    cases b with
    | panicked => simp [suppAccBos] at hb
    | ok body =>
      simp only [suppAccBos] at hb
      unfold stmtToAsgStmt
      dsimp only
      refine Succ.bind (unwrap_succ _ _) (fun k hk => ?_)
      subst hk
      refine Succ.bind (unwrap_succ _ _) (fun k hk => ?_)
      subst hk
      refine Succ.bindAny (scalarTypeToType_succ _ false hst) (fun ty => ?_)
      refine Succ.bind (unwrap_succ _ _) (fun it' hk => ?_)
      subst hk
      unfold suppIter at hit
      cases hse : it'.setExpression with
      | some se =>
        simp only [hse] at hit
        simp only [Ast.Stmt.size, Ast.ForIterable.size, hse] at hf
        dsimp only
        refine Succ.bindAny ((allE fuel).set se hit (by clear ih; fuel_ok3)) (fun _ => ?_)
        refine Succ.pure_bind _ ?_
        refine Succ.bindAny (withScope_succ .localS _ (by decide) (?_ : Succ Any _)) (fun _ => ?_)
        · refine Succ.bindAny (newBinding_succ _ _ _) (fun _ => ?_)
          refine Succ.pure_bind _ ?_
          exact Succ.bindAny (ih.bos body hb (by clear ih; fuel_ok3)) (fun _ => Succ.pure _ trivial)
        exact Succ.pure _ (by q_some)
      | none =>
        simp only [hse] at hit
        cases hre : it'.rangeExpr with
        | some re =>
          simp only [hre] at hit
          simp only [Ast.Stmt.size, Ast.ForIterable.size, hse, hre] at hf
          dsimp only
          refine Succ.bindAny ((allE fuel).range re hit (by clear ih; fuel_ok3)) (fun _ => ?_)
          refine Succ.pure_bind _ ?_
          refine Succ.bindAny (withScope_succ .localS _ (by decide) (?_ : Succ Any _)) (fun _ => ?_)
          · refine Succ.bindAny (newBinding_succ _ _ _) (fun _ => ?_)
            refine Succ.pure_bind _ ?_
            exact Succ.bindAny (ih.bos body hb (by clear ih; fuel_ok3)) (fun _ => Succ.pure _ trivial)
          exact Succ.pure _ (by q_some)
        | none =>
          simp only [hre] at hit
          obtain ⟨ex, hex, hexs⟩ := suppOptE_some hit
          simp only [Ast.Stmt.size, Ast.ForIterable.size, hse, hre, hex] at hf
          simp only [hex]
          refine Succ.bind ((allE fuel).expr ex hexs (by clear ih; fuel_ok3)) (fun x hx => ?_)
          obtain ⟨t, rfl⟩ := Option.isSome_iff_exists.mp hx
          refine Succ.bind (unwrap_succ _ _) (fun k hk => ?_)
          subst hk
          refine Succ.pure_bind _ ?_
          refine Succ.bindAny (withScope_succ .localS _ (by decide) (?_ : Succ Any _)) (fun _ => ?_)
          · refine Succ.bindAny (newBinding_succ _ _ _) (fun _ => ?_)
            refine Succ.pure_bind _ ?_
            exact Succ.bindAny (ih.bos body hb (by clear ih; fuel_ok3)) (fun _ => Succ.pure _ trivial)
          exact Succ.pure _ (by q_some)
  · -- switch
    rename_i sp c cs d
    simp only [Bool.and_eq_true] at hs
    obtain ⟨hc, hcs, hd⟩ := hs
    unfold stmtToAsgStmt
    dsimp only
    refine Succ.bind ((allE fuel).optE c hc (by clear ih; fuel_ok3)) (fun r hr => ?_)
    obtain ⟨ctl, rfl⟩ := Option.isSome_iff_exists.mp hr
    refine Succ.bindAny (ih.cases cs hcs (by clear ih; fuel_ok3)) (fun _ => ?_)
    refine Succ.bindAny (withScope_succ .localS _ (by decide) (?_ : Succ Any _)) (fun _ => ?_)
    · cases d with
      | none => exact Succ.pure _ trivial
      | some bl =>
        simp only [suppOptBlock0] at hd
        dsimp only
        exact Succ.bindAny (ih.list bl hd (by clear ih; fuel_ok3)) (fun _ => Succ.pure _ trivial)
    refine Succ.bind (unwrap_succ _ _) (fun k hk => ?_)
    subst hk
    exact Succ.pure _ (by q_some)
  · unfold stmtToAsgStmt; exact Succ.pure _ (by q_some)
  · unfold stmtToAsgStmt; exact Succ.pure _ (by q_some)
  · unfold stmtToAsgStmt; exact Succ.pure _ (by q_some)
  · unfold stmtToAsgStmt; exact Succ.pure _ (by q_some)
  · -- annotation
    unfold stmtToAsgStmt
    dsimp only
    refine Succ.bindAny (pushAnnotation_succ _) (fun _ => ?_)
    exact Succ.pure _ ⟨by not_ann, fun h => by simp [yieldsNone] at h⟩
  · -- OPENQASM n;
    unfold stmtToAsgStmt
    dsimp only
    refine Succ.bindAny (insertError_succ _ _) (fun _ => ?_)
    exact Succ.pure _ ⟨by not_ann, fun h => by simp [yieldsNone] at h⟩
  · -- not-implemented statement kinds
    unfold stmtToAsgStmt
    dsimp only
    exact (notImpl_succ _).mono (fun r hr => by subst hr; exact ⟨by not_ann, fun _ => rfl⟩)
  · simp at hs

theorem allS (fuel : Nat) : AllS fuel := by
  induction fuel with
  | zero => refine ⟨?_, ?_, ?_, ?_, ?_, ?_⟩ <;> (intros; omega)
  | succ fuel ih =>
    exact ⟨stmt_step fuel ih, loop_step fuel ih, list_step fuel ih, blockT_step fuel ih,
      bos_step fuel ih, cases_step fuel ih⟩


/-! ### the top level -/

/-- `include "stdgates.inc";` -/
def isStdInclude : Ast.Stmt → Bool
  | .includeStmt _ (some fp) => fp.toString? == some "stdgates.inc"
  | _ => false

/-- a top-level statement: in the fragment, or the standard-gates include -/
def suppTop (st : Ast.Stmt) : Bool := suppStmt st || isStdInclude st

def suppTops : List Ast.Stmt → Bool
  | [] => true
  | s :: ss => suppTop s && suppTops ss

theorem suppTops_of_forall (ss : List Ast.Stmt) (h : ∀ s ∈ ss, suppTop s = true) : suppTops ss = true := by
  induction ss with
  | nil => rfl
  | cons s rest ih =>
    simp only [suppTops, Bool.and_eq_true]
    exact ⟨h s (by simp), ih (fun x hx => h x (by simp [hx]))⟩

theorem suppStmt_include (sp : Ast.Span) (f : Option Ast.FilePath) :
    suppStmt (.includeStmt sp f) = false := by
  unfold suppStmt; rfl

/-- the include scan answers `false`: the only includes are `"stdgates.inc"` -/
theorem parseIncludedFiles_tops (ss : List Ast.Stmt) (h : suppTops ss = true) (s : Ctx) :
    parseIncludedFiles ss s = .ok (false, s) := by
  induction ss with
  | nil => rfl
  | cons st rest ih =>
    simp only [suppTops, Bool.and_eq_true] at h
    have hr := ih h.2
    cases st
    case includeStmt sp f =>
      have h1 := h.1
      simp only [suppTop, suppStmt_include, Bool.false_or] at h1
      unfold isStdInclude at h1
      split at h1
      · rename_i sp' fp heq
        cases heq
        have hts : fp.toString? = some "stdgates.inc" := by simpa using h1
        unfold parseIncludedFiles
        simp only [hts]
        rw [C13.bind_run_of_ok hr]
        rfl
      · simp at h1
    all_goals (unfold parseIncludedFiles; exact hr)

theorem topLoop_succ (ss : List Ast.Stmt) (h : suppTops ss = true) (fuel : Nat)
    (hf : 2 * Ast.stmtsSize ss + 1 ≤ fuel) : Succ Any (syntaxToSemanticLoop fuel ss) := by
  induction ss generalizing fuel with
  | nil =>
    obtain ⟨f, rfl⟩ : ∃ f, fuel = f + 1 := ⟨fuel - 1, by omega⟩
    unfold syntaxToSemanticLoop; exact Succ.pure _ trivial
  | cons st rest ih =>
    obtain ⟨f, rfl⟩ : ∃ f, fuel = f + 1 := ⟨fuel - 1, by omega⟩
    simp only [suppTops, Bool.and_eq_true] at h
    have hrest := ih h.2 f (by simp only [Ast.stmtsSize] at hf; omega)
    have htop := h.1
    have hsz : 2 * st.size + 1 ≤ f := by simp only [Ast.stmtsSize] at hf; omega
    clear ih hf
    unfold syntaxToSemanticLoop
    -- what happens to the translated statement afterwards
    have tail : ∀ (r : Option Stmt), NotAnn r → Succ Any (do
        match r with
        | some stmt =>
          if ← annotationsIsEmpty then insertStmt stmt
          else
            match stmt with
            | .annotatedStmt .. => fail "AnnotatedStmt::new: annotation of annotated statement is not allowed"
            | _ => insertStmt (.annotatedStmt stmt (← takeAnnotations))
        | none => pure ()
        syntaxToSemanticLoop f rest) := by
      intro r hr
      cases r with
      | none => exact Succ.pure_bind _ hrest
      | some stmt =>
        dsimp only
        refine Succ.bindAny annotationsIsEmpty_succ (fun b => ?_)
        cases b
        · simp only [Bool.false_eq_true, if_false]
          cases stmt <;> first
            | (exact absurd rfl (hr _ _))
            | exact Succ.bindAny takeAnnotations_succ (fun _ => Succ.bindAny (insertStmt_succ _) (fun _ => hrest))
        · simp only [if_true]
          exact Succ.bindAny (insertStmt_succ _) (fun _ => hrest)
    cases hinc : isStdInclude st with
    | false =>
      have hs : suppStmt st = true := by simpa [suppTop, hinc] using htop
      cases st <;> first
        | (simp [suppStmt_include] at hs; done)
        | (dsimp only
           refine Succ.bind ((allS f).stmt _ hs hsz) (fun r hr => ?_)
           exact tail r hr.1)
    | true =>
      unfold isStdInclude at hinc
      split at hinc
      · rename_i sp fp
        have hts : fp.toString? = some "stdgates.inc" := by simpa using hinc
        dsimp only
        refine Succ.bind (unwrap_succ _ _) (fun k hk => ?_)
        subst hk
        rw [hts]
        refine Succ.bind (unwrap_succ _ _) (fun k hk => ?_)
        subst hk
        simp only [beq_self_eq_true, if_true]
        refine Succ.bindAny (standardLibraryGates_succ _) (fun _ => ?_)
        exact hrest
      · simp at hinc

/-- explicit fuel bound: twice the node count of the program -/
def fuelFor2 (p : Ast.Program) : Nat := 2 * p.size

theorem fuelFor2_le_default (p : Ast.Program) : fuelFor2 p ≤ defaultFuel p := by
  unfold fuelFor2 defaultFuel; omega

end Oq3.Sema.T2

namespace Oq3.Props.C03
open Oq3 Oq3.Sema Oq3.Sema.T2 Oq3.Types Oq3.Symbols

/-- **C03 on the enlarged fragment**: a program whose top-level statements are all in `T2.suppTop`
is analysed without panic, for every fuel from `fuelFor2 p = 2 * p.size` on -/
theorem sema_total_partial2 (p : Ast.Program) (h : ∀ s ∈ p.statements, T2.suppTop s = true)
    (fuel : Nat) (hf : T2.fuelFor2 p ≤ fuel) : ∃ c, analyzeWith fuel p = .ok c := by
  have hs := T2.suppTops_of_forall p.statements h
  have hfuel : 2 * Ast.stmtsSize p.statements + 1 ≤ fuel := by
    unfold T2.fuelFor2 Ast.Program.size at hf; omega
  obtain ⟨u, c, hrun, _, _⟩ := T2.topLoop_succ p.statements hs fuel hfuel {} C19.inv_init
  refine ⟨c, ?_⟩
  unfold analyzeWith
  have : (syntaxToSemantic fuel p).run {} = .ok (u, c) := by
    show syntaxToSemantic fuel p {} = _
    unfold syntaxToSemantic
    rw [C13.bind_run_of_ok (T2.parseIncludedFiles_tops p.statements hs {})]
    simpa using hrun
  rw [this]

/-- **with the model's default fuel, no fuel hypothesis at all** -/
theorem sema_total_partial2_default (p : Ast.Program) (h : ∀ s ∈ p.statements, T2.suppTop s = true) :
    ∃ c, analyze p = .ok c :=
  sema_total_partial2 p h _ (T2.fuelFor2_le_default p)


/-! ### non-vacuity: a closed program that uses what the first fragment excluded -/

/-- ```
include "stdgates.inc";
qubit[2] q;
int[8] x = (1 + 2) * -3;
float[32] y = float[32](x) / 2.5;
def f(int[8] a) -> int[8] { return a + 1; }
for int i in [0:2] x = x + i;
while (x != 0) x = x - 1;
if (x == 1) h q[0]; else { ctrl @ x q[0], q[1]; }
switch (x) { case 1, 2 { reset q; } default { barrier q; } }
delay[3ns] q;
let r = q[1];
```
(ranges elided) -/
def exampleProgram2 : Ast.Program :=
  let sp : Ast.Span := ⟨0, 0⟩
  let lit (t : String) (v : Nat) : Ast.Expr := .literal ⟨sp, .intNumber t (some v)⟩
  let idn (n : String) : Ast.Identifier := ⟨sp, n⟩
  let idE (n : String) : Ast.Expr := .identifier (idn n)
  let bin (op : Ast.BinaryOp) (a b : Ast.Expr) : Ast.Expr := .binExpr sp (some op) (some a) (some b)
  let ty (k : Ast.ScalarTypeKind) (w : String) (n : Nat) : Ast.ScalarType :=
    .mk sp k (some (.mk sp (some (lit w n)))) none
  let qix (i : Nat) : Ast.GateOperand :=
    .indexedIdentifier (.mk sp (some (idn "q")) [.mk sp (some (.expressionList (.mk sp [lit (toString i) i])))])
  let call (g : String) (ops : List Ast.GateOperand) : Ast.GateCallExpr :=
    .mk sp (some (.mk sp ops)) none (some (idn g))
  let assign (x : String) (e : Ast.Expr) : Ast.Stmt := .assignmentStmt sp (some (idn x)) (some e) none
  ⟨sp,
   [.includeStmt sp (some ⟨sp, some "stdgates.inc"⟩),
    .quantumDeclarationStatement sp (some ⟨sp, "q"⟩) none (some ⟨sp, some (.mk sp (some (lit "2" 2)))⟩),
    .classicalDeclarationStatement sp false (some (ty .int "8" 8)) false (some ⟨sp, "x"⟩)
      (some (bin (.arithOp .mul) (.parenExpr (.mk sp (some (bin (.arithOp .add) (lit "1" 1) (lit "2" 2)))))
        (.prefixExpr sp (some .neg) (some (lit "3" 3))))),
    .classicalDeclarationStatement sp false (some (ty .float "32" 32)) false (some ⟨sp, "y"⟩)
      (some (bin (.arithOp .div) (.castExpression sp (some (ty .float "32" 32)) (some (idE "x")))
        (.literal ⟨sp, .floatNumber "2.5" (some "2.5")⟩))),
    .defStmt sp (some ⟨sp, "f"⟩)
      (some ⟨sp, [⟨sp, some (.scalarType (ty .int "8" 8)), false, some ⟨sp, "a"⟩⟩]⟩)
      (some (.mk sp [.exprStmt sp (some (.returnExpr sp (some (bin (.arithOp .add) (idE "a") (lit "1" 1)))))]))
      (some ⟨sp, some (ty .int "8" 8)⟩),
    .forStmt sp (some ⟨sp, "i"⟩) (some (.mk sp .int none none))
      (some ⟨sp, none, some (.mk sp (some (lit "0" 0)) none (some (lit "2" 2))),
        some (.rangeExpr (.mk sp (some (lit "0" 0)) none (some (lit "2" 2))))⟩)
      (.ok (.stmt (assign "x" (.parenExpr (.mk sp (some (bin (.arithOp .add) (idE "x") (idE "i")))))))),
    .whileStmt sp (some (bin (.cmpOp (.eq true)) (idE "x") (lit "0" 0)))
      (.ok (.stmt (assign "x" (.parenExpr (.mk sp (some (bin (.arithOp .sub) (idE "x") (lit "1" 1)))))))),
    .ifStmt sp (some (bin (.cmpOp (.eq false)) (idE "x") (lit "1" 1)))
      (.ok (.stmt (.exprStmt sp (some (.gateCallExpr (call "h" [qix 0]))))))
      (some (.blockExpr (.mk sp [.exprStmt sp (some (.modifiedGateCallExpr sp [.ctrlModifier sp none]
        (some (call "x" [qix 0, qix 1])) none))]))),
    .switchCaseStmt sp (some (idE "x"))
      [.mk sp (some (.mk sp [lit "1" 1, lit "2" 2]))
        (some (.mk sp [.reset sp (some (.identifier (idn "q")))]))]
      (some (.mk sp [.barrier sp (some (.mk sp [.identifier (idn "q")]))])),
    .delayStmt sp (some (.mk sp [.identifier (idn "q")]))
      (some (.mk sp (some (.timingLiteral sp (some .nanoSecond) (some "ns") (some ⟨sp, .intNumber "3" (some 3)⟩))))),
    .aliasDeclarationStatement sp (some ⟨sp, "r"⟩)
      (some (.indexedIdentifier (.mk sp (some (idn "q")) [.mk sp (some (.expressionList (.mk sp [lit "1" 1])))])))]⟩

theorem example2_in_fragment : exampleProgram2.statements.all T2.suppTop = true := by decide +kernel

/-- the theorem applies: the default-fuel analysis returns -/
theorem example2_analyzes : ∃ c, analyze exampleProgram2 = .ok c :=
  sema_total_partial2_default exampleProgram2
    (fun s hs => List.all_eq_true.mp example2_in_fragment s hs)

/-- independently, the kernel evaluates the run: it returns, with the scope stack balanced -/
theorem example2_runs :
    (match analyze exampleProgram2 with
     | .ok c => some c.symbolTable.stack.length
     | .error _ => none) = some 1 := by
  decide +kernel

end Oq3.Props.C03
