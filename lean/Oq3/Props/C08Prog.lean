/-
C08, lifted to whole programs.

`WTS S st`: every typed expression occurring anywhere inside the ASG statement `st` — conditions,
initializers, assignment values and the index expressions of assignment targets, call arguments,
gate-call parameters, operands and modifier arguments, loop iterables, switch targets and case
values, delay durations, reset operands, bodies recursively — satisfies `WT S` (`Props/C08.lean`).

* `allSpecStmt`: the `Spec` specifications of the thirteen statement functions of the mutual block,
  by induction on fuel (the twelve expression functions are `C08.allSpec`).
* `allKeep`: no function of the pass touches `Context.program` (only `Program::insert_stmt`, in the
  top-level loop, does).
* `program_well_typed`: `analyzeWith fuel p = .ok c → ∀ st ∈ c.program, WTS c.symbolTable.all st`.
* `const_value_recorded_iff` …: exactly which declarations fill `Context.const_values`.
-/
import Oq3.Props.C08

namespace Oq3.Props.C08
open Oq3 Oq3.Types Oq3.Symbols Oq3.Sema

/-! ### the statement-level predicate -/

/-- arguments of gate modifiers -/
def ModWT (S : List Sym) : GateModifier → Prop
  | .inv => True
  | .pow e => WT S e
  | .ctrl e => OptWT S e
  | .negCtrl e => OptWT S e

def ModsWT (S : List Sym) (ms : List GateModifier) : Prop := ∀ m, m ∈ ms → ModWT S m

/-- loop iterables -/
def IterWT (S : List Sym) : ForIterable → Prop
  | .setExpression es => ListWT S es
  | .rangeExpression a b c => WT S a ∧ OptWT S b ∧ WT S c
  | .expr e => WT S e

/-- **every typed expression inside the statement is well typed.**  Statement forms the pass never
produces (`block`, `box`, `cal`, `defCal`, `extern`, `includeStmt`, `oldStyleDeclaration`) have no
rule. -/
inductive WTS (S : List Sym) : Stmt → Prop
  | alias {sym rhs} : WT S rhs → WTS S (.alias sym rhs)
  | annotated {s anns} : WTS S s → WTS S (.annotatedStmt s anns)
  | assignIdent {sym v} : WT S v → WTS S (.assignment (.identifier sym) v)
  | assignIndexed {sym ixs v} : IxsWT S ixs → WT S v →
      WTS S (.assignment (.indexedIdentifier (.mk sym ixs)) v)
  | barrier {qs} : OptListWT S qs → WTS S (.barrier qs)
  | breakStmt : WTS S .breakStmt
  | continueStmt : WTS S .continueStmt
  | declareClassical {sym init} : OptWT S init → WTS S (.declareClassical sym init)
  | declareQuantum {sym} : WTS S (.declareQuantum sym)
  | declareHardwareQubit {name} : WTS S (.declareHardwareQubit name)
  | defStmt {sym params ss ret} : (∀ s, s ∈ ss → WTS S s) → WTS S (.defStmt sym params (.mk ss) ret)
  | delay {d qs} : WT S d → ListWT S qs → WTS S (.delay d qs)
  | endStmt : WTS S .endStmt
  | exprStmt {e} : WT S e → WTS S (.exprStmt e)
  | forStmt {v it ss} : IterWT S it → (∀ s, s ∈ ss → WTS S s) → WTS S (.forStmt v it (.mk ss))
  | gPhaseCall {a} : WT S a → WTS S (.gPhaseCall a)
  | gateCall {sym params qs mods} : OptListWT S params → ListWT S qs → ModsWT S mods →
      WTS S (.gateCall sym params qs mods)
  | gateDefinition {sym params qs ss} : (∀ s, s ∈ ss → WTS S s) →
      WTS S (.gateDefinition sym params qs (.mk ss))
  | inputDeclaration {sym} : WTS S (.inputDeclaration sym)
  | outputDeclaration {sym} : WTS S (.outputDeclaration sym)
  | ifStmt {c ts eb} : WT S c → (∀ s, s ∈ ts → WTS S s) →
      (∀ es, eb = some (.mk es) → ∀ s, s ∈ es → WTS S s) → WTS S (.ifStmt c (.mk ts) eb)
  | modifiedGPhaseCall {a mods} : WT S a → ModsWT S mods → WTS S (.modifiedGPhaseCall a mods)
  | nullStmt : WTS S .nullStmt
  | pragma {t} : WTS S (.pragma t)
  | reset {g} : WT S g → WTS S (.reset g)
  | switchCase {ctl cases dflt} : WT S ctl →
      (∀ vals ss, CaseExpr.mk vals ss ∈ cases → ListWT S vals) →
      (∀ vals ss, CaseExpr.mk vals ss ∈ cases → ∀ s, s ∈ ss → WTS S s) →
      (∀ ds, dflt = some ds → ∀ s, s ∈ ds → WTS S s) → WTS S (.switchCaseStmt ctl cases dflt)
  | whileStmt {c ss} : WT S c → (∀ s, s ∈ ss → WTS S s) → WTS S (.whileStmt c (.mk ss))

/-! result shapes of the statement functions -/

def OptWTS (S : List Sym) : Option Stmt → Prop
  | some s => WTS S s
  | none => True

def ListWTS (S : List Sym) (ss : List Stmt) : Prop := ∀ s, s ∈ ss → WTS S s

def OptListWTS (S : List Sym) : Option (List Stmt) → Prop
  | some ss => ListWTS S ss
  | none => True

def BlockWTS (S : List Sym) : Block → Prop
  | .mk ss => ListWTS S ss

def OptBlockWTS (S : List Sym) : Option Block → Prop
  | some b => BlockWTS S b
  | none => True

def CaseWTS (S : List Sym) : CaseExpr → Prop
  | .mk vals ss => ListWT S vals ∧ ListWTS S ss

def CasesWTS (S : List Sym) (cs : List CaseExpr) : Prop := ∀ c, c ∈ cs → CaseWTS S c

variable {S : List Sym}

/-! ### introduction rules in the shape the proof script meets them -/

theorem optWTS_some {s : Stmt} (h : WTS S s) : OptWTS S (some s) := h
theorem optWTS_none : OptWTS S none := trivial
theorem wts_of_optWTS_some {s : Stmt} (h : OptWTS S (some s)) : WTS S s := h
theorem listWTS_nil : ListWTS S [] := by intro s h; cases h
theorem listWTS_cons {s : Stmt} {ss : List Stmt} (h1 : WTS S s) (h2 : ListWTS S ss) :
    ListWTS S (s :: ss) := by
  intro x hx
  cases hx with
  | head => exact h1
  | tail _ h => exact h2 x h
theorem optListWTS_some {ss : List Stmt} (h : ListWTS S ss) : OptListWTS S (some ss) := h
theorem optListWTS_none : OptListWTS S none := trivial
theorem blockWTS_mk {ss : List Stmt} (h : ListWTS S ss) : BlockWTS S (.mk ss) := h
theorem optBlockWTS_some {b : Block} (h : BlockWTS S b) : OptBlockWTS S (some b) := h
theorem optBlockWTS_none : OptBlockWTS S none := trivial
theorem casesWTS_nil : CasesWTS S [] := by intro s h; cases h
theorem casesWTS_cons {vals : List TExpr} {ss : List Stmt} {cs : List CaseExpr}
    (h1 : ListWT S vals) (h2 : ListWTS S ss) (h3 : CasesWTS S cs) :
    CasesWTS S (.mk vals ss :: cs) := by
  intro x hx
  cases hx with
  | head => exact ⟨h1, h2⟩
  | tail _ h => exact h3 x h
theorem modsWT_nil : ModsWT S [] := by intro s h; cases h
theorem modsWT_cons {m : GateModifier} {ms : List GateModifier} (h1 : ModWT S m)
    (h2 : ModsWT S ms) : ModsWT S (m :: ms) := by
  intro x hx
  cases hx with
  | head => exact h1
  | tail _ h => exact h2 x h
theorem modWT_inv : ModWT S .inv := trivial
theorem modWT_pow {e : TExpr} (h : WT S e) : ModWT S (.pow e) := h
theorem modWT_ctrl {e : Option TExpr} (h : OptWT S e) : ModWT S (.ctrl e) := h
theorem modWT_negCtrl {e : Option TExpr} (h : OptWT S e) : ModWT S (.negCtrl e) := h
theorem modWT_ctrl_none : ModWT S (.ctrl none) := trivial
theorem modWT_negCtrl_none : ModWT S (.negCtrl none) := trivial
theorem iterWT_set {es : List TExpr} (h : ListWT S es) : IterWT S (.setExpression es) := h
theorem iterWT_range {a c : TExpr} {b : Option TExpr} (h1 : WT S a) (h2 : OptWT S b) (h3 : WT S c) :
    IterWT S (.rangeExpression a b c) := ⟨h1, h2, h3⟩
theorem iterWT_expr {e : TExpr} (h : WT S e) : IterWT S (.expr e) := h
theorem listWT_single {e : TExpr} (h : WT S e) : ListWT S [e] := by
  intro x hx; cases hx with
  | head => exact h
  | tail _ h => cases h
theorem listWTS_single {s : Stmt} (h : WTS S s) : ListWTS S [s] := listWTS_cons h listWTS_nil
theorem optWT_of_some {e : TExpr} (h : WT S e) : OptWT S (some e) := h

theorem wts_if {c : TExpr} {t : Block} {e : Option Block} (h1 : WT S c) (h2 : BlockWTS S t)
    (h3 : OptBlockWTS S e) : WTS S (.ifStmt c t e) := by
  cases t with
  | mk ts =>
    refine .ifStmt h1 h2 ?_
    intro es he; subst he; exact h3
theorem wts_while {c : TExpr} {b : Block} (h1 : WT S c) (h2 : BlockWTS S b) :
    WTS S (.whileStmt c b) := by
  cases b; exact .whileStmt h1 h2
theorem wts_for {v : SymbolIdResult} {it : ForIterable} {b : Block} (h1 : IterWT S it)
    (h2 : BlockWTS S b) : WTS S (.forStmt v it b) := by
  cases b; exact .forStmt h1 h2
theorem wts_switch {ctl : TExpr} {cases : List CaseExpr} {d : Option (List Stmt)} (h1 : WT S ctl)
    (h2 : CasesWTS S cases) (h3 : OptListWTS S d) : WTS S (.switchCaseStmt ctl cases d) := by
  refine .switchCase h1 (fun vals ss hm => (h2 _ hm).1) (fun vals ss hm => (h2 _ hm).2) ?_
  intro ds hd; subst hd; exact h3
theorem wts_gateDefinition {sym : SymbolIdResult} {ps : Option (List SymbolIdResult)}
    {qs : List SymbolIdResult} {b : Block} (h : BlockWTS S b) :
    WTS S (.gateDefinition sym ps qs b) := by
  cases b; exact .gateDefinition h
theorem wts_def {sym : SymbolIdResult} {ps : List SymbolIdResult} {b : Block} {ret : T}
    (h : BlockWTS S b) : WTS S (.defStmt sym ps b ret) := by
  cases b; exact .defStmt h
theorem wts_assignIndexed {ii : IndexedIdentifier} {t : T} {v : TExpr} (h1 : IIWT S ii t)
    (h2 : WT S v) : WTS S (.assignment (.indexedIdentifier ii) v) := by
  cases ii; exact .assignIndexed h1.2 h2
theorem wts_barrier {qs : List TExpr} (h : ListWT S qs) : WTS S (.barrier (some qs)) :=
  .barrier h
theorem wts_declareClassical_some {sym : SymbolIdResult} {e : TExpr} (h : WT S e) :
    WTS S (.declareClassical sym (some e)) := .declareClassical h
theorem wts_declareClassical_none {sym : SymbolIdResult} : WTS S (.declareClassical sym none) :=
  .declareClassical trivial

/-- the proof script's closing rules for the statement level -/
macro_rules | `(tactic| wt_close) => `(tactic| with_reducible first
  | exact optWTS_none
  | exact listWTS_nil
  | exact optListWTS_none
  | exact optBlockWTS_none
  | exact casesWTS_nil
  | exact modsWT_nil
  | exact modWT_inv
  | exact modWT_ctrl_none
  | exact modWT_negCtrl_none
  | exact WTS.breakStmt
  | exact WTS.continueStmt
  | exact WTS.endStmt
  | exact WTS.nullStmt
  | exact WTS.pragma
  | exact WTS.declareQuantum
  | exact WTS.declareHardwareQubit
  | exact WTS.inputDeclaration
  | exact WTS.outputDeclaration
  | exact wts_declareClassical_none
  | exact wts_of_optWTS_some ‹_›
  | exact (‹ModsWT _ _ → OptWTS _ _›) (by wt_close)
  | (apply optWTS_some <;> wt_close)
  | (apply listWTS_cons <;> wt_close)
  | (apply optListWTS_some <;> wt_close)
  | (apply blockWTS_mk <;> wt_close)
  | (apply optBlockWTS_some <;> wt_close)
  | (apply casesWTS_cons <;> wt_close)
  | (apply modsWT_cons <;> wt_close)
  | (apply modWT_pow <;> wt_close)
  | (apply modWT_ctrl <;> wt_close)
  | (apply modWT_negCtrl <;> wt_close)
  | (apply iterWT_set <;> wt_close)
  | (apply iterWT_range <;> wt_close)
  | (apply iterWT_expr <;> wt_close)
  | (apply listWTS_single <;> wt_close)
  | (apply wts_if <;> wt_close)
  | (apply wts_while <;> wt_close)
  | (apply wts_for <;> wt_close)
  | (apply wts_switch <;> wt_close)
  | (apply wts_gateDefinition <;> wt_close)
  | (apply wts_def <;> wt_close)
  | (apply wts_assignIndexed <;> wt_close)
  | (apply wts_barrier <;> wt_close)
  | (apply wts_declareClassical_some <;> wt_close)
  | (apply WTS.alias <;> wt_close)
  | (apply WTS.annotated <;> wt_close)
  | (apply WTS.assignIdent <;> wt_close)
  | (apply WTS.delay <;> wt_close)
  | (apply WTS.exprStmt <;> wt_close)
  | (apply WTS.gPhaseCall <;> wt_close)
  | (apply WTS.gateCall <;> wt_close)
  | (apply WTS.modifiedGPhaseCall <;> wt_close)
  | (apply WTS.reset <;> wt_close))

/-! ### primitives of the statement level -/

macro_rules | `(tactic| spec_lemma) => `(tactic| (spec_head Sema.symStep; spec_use (Spec.symStep _ _)))

theorem Spec.enterScope (k : ScopeType) : Spec S (enterScope k) (fun _ => True) := by
  unfold Sema.enterScope; spec
macro_rules | `(tactic| spec_lemma) => `(tactic| (spec_head Sema.enterScope; spec_use (Spec.enterScope _)))

theorem Spec.exitScope : Spec S exitScope (fun _ => True) := by
  unfold Sema.exitScope; spec
macro_rules | `(tactic| spec_lemma) => `(tactic| (spec_head Sema.exitScope; spec_use Spec.exitScope))

theorem Spec.withScope {α} (k : ScopeType) {body : M α} {R : α → Prop} (h : Spec S body R) :
    Spec S (withScope k body) R := by
  unfold Sema.withScope
  refine Spec.bind_unit (Spec.enterScope k) ?_
  refine Spec.bind h (fun a => ?_)
  refine Spec.bind_unit Spec.exitScope ?_
  exact Spec.pure (fun h => h)

theorem Spec.newBinding (name : String) (typ : T) (node : Ast.Span) :
    Spec S (newBinding name typ node) (fun _ => True) := by
  unfold Sema.newBinding; spec
macro_rules | `(tactic| spec_lemma) => `(tactic| (spec_head Sema.newBinding; spec_use (Spec.newBinding _ _ _)))

theorem Spec.insertConstValue (id : Nat) (v : TExpr) : Spec S (insertConstValue id v) (fun _ => True) := by
  apply Spec.of_symtab_eq
  intro c a c' hr
  simp only [Sema.insertConstValue, M.modify_ok, Prod.mk.injEq] at hr
  obtain ⟨_, rfl⟩ := hr
  exact ⟨rfl, trivial⟩
macro_rules | `(tactic| spec_lemma) => `(tactic| (spec_head Sema.insertConstValue; spec_use (Spec.insertConstValue _ _)))

theorem Spec.pushAnnotation (a : String) : Spec S (pushAnnotation a) (fun _ => True) := by
  apply Spec.of_symtab_eq
  intro c a c' hr
  simp only [Sema.pushAnnotation, M.modify_ok, Prod.mk.injEq] at hr
  obtain ⟨_, rfl⟩ := hr
  exact ⟨rfl, trivial⟩
macro_rules | `(tactic| spec_lemma) => `(tactic| (spec_head Sema.pushAnnotation; spec_use (Spec.pushAnnotation _)))

theorem Spec.declareClassicalHelper (sym : SymbolIdResult) (init : Option TExpr) :
    Spec S (declareClassicalHelper sym init) (fun s => s = .declareClassical sym init) := by
  unfold Sema.declareClassicalHelper; spec
macro_rules | `(tactic| spec_lemma) => `(tactic| (spec_head Sema.declareClassicalHelper; spec_use (Spec.declareClassicalHelper _ _)))

theorem Spec.paramTypeToType (pt : Ast.ParamType) (isconst : Bool) :
    Spec S (paramTypeToType pt isconst) (fun _ => True) := by
  unfold Sema.paramTypeToType; spec
macro_rules | `(tactic| spec_lemma) => `(tactic| (spec_head Sema.paramTypeToType; spec_use (Spec.paramTypeToType _ _)))

theorem Spec.bindParams (typ : T) (ps : List Ast.Param) : Spec S (bindParams typ ps) (fun _ => True) := by
  induction ps with
  | nil => unfold Sema.bindParams; spec
  | cons p ps ih =>
    unfold Sema.bindParams
    refine Spec.bind (Spec.newBinding _ _ _) (fun r => ?_)
    refine Spec.bind ih (fun rs => ?_)
    exact Spec.pure (fun _ _ => trivial)
macro_rules | `(tactic| spec_lemma) => `(tactic| (spec_head Sema.bindParams; spec_use (Spec.bindParams _ _)))

theorem Spec.bindParameterList (pl : Option Ast.ParamList) (typ : T) :
    Spec S (bindParameterList pl typ) (fun _ => True) := by
  unfold Sema.bindParameterList; spec
macro_rules | `(tactic| spec_lemma) => `(tactic| (spec_head Sema.bindParameterList; spec_use (Spec.bindParameterList _ _)))

/-- inside an induction on the list: the recursive call is an assumption -/
macro_rules | `(tactic| spec_lemma) => `(tactic|
  (spec_head Sema.bindTypedParams; spec_use (‹Spec _ (Sema.bindTypedParams _) _›)))

theorem Spec.bindTypedParams (ps : List Ast.TypedParam) : Spec S (bindTypedParams ps) (fun _ => True) := by
  induction ps with
  | nil => unfold Sema.bindTypedParams; spec
  | cons p ps ih => unfold Sema.bindTypedParams; spec
macro_rules | `(tactic| spec_lemma) => `(tactic| (spec_head Sema.bindTypedParams; spec_use (Spec.bindTypedParams _)))

theorem Spec.bindTypedParameterList (pl : Option Ast.TypedParamList) :
    Spec S (bindTypedParameterList pl) (fun _ => True) := by
  unfold Sema.bindTypedParameterList; spec
macro_rules | `(tactic| spec_lemma) => `(tactic| (spec_head Sema.bindTypedParameterList; spec_use (Spec.bindTypedParameterList _)))

theorem Spec.ioDeclarationStatementToAsgStmt (a : Bool) (st : Option Ast.ScalarType)
    (n : Option Ast.Name) (i : Bool) :
    Spec S (ioDeclarationStatementToAsgStmt a st n i) (WTS S) := by
  unfold Sema.ioDeclarationStatementToAsgStmt; spec
macro_rules | `(tactic| spec_lemma) => `(tactic| (spec_head Sema.ioDeclarationStatementToAsgStmt; spec_use (Spec.ioDeclarationStatementToAsgStmt _ _ _ _)))

theorem Spec.notImpl (node : Ast.Span) : Spec S (notImpl node) (OptWTS S) := by
  unfold Sema.notImpl; spec
macro_rules | `(tactic| spec_lemma) => `(tactic| (spec_head Sema.notImpl; spec_use (Spec.notImpl _)))

/-! ### the statement part of the mutual block -/

open Lean Elab Tactic Meta in
/-- succeeds iff the goal is `Spec S (fail site >>= f) R` -/
elab "spec_bind_is_fail" : tactic => withMainContext do
  match ← specProgram (← getMainGoal) with
  | some p =>
    if p.isAppOfArity ``Bind.bind 6 then
      match (p.getArg! 4).consumeMData.getAppFn.consumeMData with
      | Lean.Expr.const m _ => if m == ``Sema.fail then pure () else throwError "not a fail"
      | _ => throwError "not a fail"
    else throwError "not a bind"
  | none => throwError "not a Spec goal"

/-- a panic followed by anything has no successful run -/
theorem Spec.fail_bind {α β} (site : String) (f : α → M β) (R : β → Prop) :
    Spec S (Sema.fail site >>= f) R := by
  refine ⟨fun c a c' hr => ?_⟩
  obtain ⟨_, _, h1, _⟩ := (M.bind_ok _ _ _ _).mp hr
  simp at h1

macro_rules | `(tactic| spec_lemma) => `(tactic|
  (spec_head Bind.bind; spec_bind_is_fail; exact Spec.fail_bind _ _ _))

-- scoped blocks and binds whose first part is a `match`/`if`: the postcondition is chosen by the
-- result TYPE, before the branches are looked at
set_option hygiene false in
macro_rules | `(tactic| spec_lemma) => `(tactic|
  (spec_head Sema.withScope; with_reducible first
    | apply Spec.withScope (R := BlockWTS S)
    | apply Spec.withScope (R := OptBlockWTS S)
    | apply Spec.withScope (R := ListWTS S)
    | apply Spec.withScope (R := OptListWTS S)
    | apply Spec.withScope (R := fun (r : SymbolIdResult × Block) => BlockWTS S r.2)
    | apply Spec.withScope (R := fun (r : Option (List SymbolIdResult) × Block) => BlockWTS S r.2)
    | apply Spec.withScope
        (R := fun (r : Option (List SymbolIdResult) × List SymbolIdResult × Block) => BlockWTS S r.2.2)))

set_option hygiene false in
macro_rules | `(tactic| spec_lemma) => `(tactic|
  (spec_head Bind.bind; spec_bind_is_split; with_reducible first
    | apply Spec.bind (R1 := IterWT S)
    | apply Spec.bind (R1 := ModWT S)
    | apply Spec.bind (R1 := OptListWT S)
    | apply Spec.bind (R1 := BlockWTS S)
    | apply Spec.bind (R1 := OptWTS S)))

/-- the specifications of the thirteen statement functions at one fuel level -/
structure AllSpecStmt (S : List Sym) (fuel : Nat) : Prop where
  stmtToAsgStmt : ∀ (st : Ast.Stmt), Spec S (Sema.stmtToAsgStmt fuel st) (OptWTS S)
  caseExprsLoop : ∀ (cs : List Ast.CaseExpr), Spec S (Sema.caseExprsLoop fuel cs) (CasesWTS S)
  exprStmtToAsgStmt : ∀ (e : Option Ast.Expr), Spec S (Sema.exprStmtToAsgStmt fuel e) (OptWTS S)
  modifiersLoop : ∀ (ms : List Ast.Modifier), Spec S (Sema.modifiersLoop fuel ms) (ModsWT S)
  gateCallExprToAsgStmt : ∀ (gc : Ast.GateCallExpr) (mods : List GateModifier), Spec S (Sema.gateCallExprToAsgStmt fuel gc mods) (fun r => ModsWT S mods → OptWTS S r)
  qubitListToAsgTexpr : ∀ (ql : Option Ast.QubitList), Spec S (Sema.qubitListToAsgTexpr fuel ql) (ListWT S)
  gateOperandsLoop : ∀ (gs : List Ast.GateOperand), Spec S (Sema.gateOperandsLoop fuel gs) (ListWT S)
  blockExprToAsgStmtList : ∀ (b : Ast.BlockExpr), Spec S (Sema.blockExprToAsgStmtList fuel b) (ListWTS S)
  stmtsLoop : ∀ (ss : List Ast.Stmt), Spec S (Sema.stmtsLoop fuel ss) (ListWTS S)
  blockExprToAsgType : ∀ (b : Ast.BlockExpr), Spec S (Sema.blockExprToAsgType fuel b) (BlockWTS S)
  blockOrStmtToAsgType : ∀ (b : Ast.BlockOrStmt), Spec S (Sema.blockOrStmtToAsgType fuel b) (BlockWTS S)
  classicalDeclarationStatementToAsgStmt : ∀ (sp : Ast.Span) (arr : Bool) (st : Option Ast.ScalarType) (ct : Bool) (n : Option Ast.Name) (e : Option Ast.Expr), Spec S (Sema.classicalDeclarationStatementToAsgStmt fuel sp arr st ct n e) (WTS S)
  assignmentStmtToAsgStmt : ∀ (sp : Ast.Span) (i : Option Ast.Identifier) (rhs : Option Ast.Expr) (ii : Option Ast.IndexedIdentifier), Spec S (Sema.assignmentStmtToAsgStmt fuel sp i rhs ii) (OptWTS S)

set_option hygiene false in
macro_rules | `(tactic| spec_ih) => `(tactic| first
  | (spec_head Sema.stmtToAsgStmt; spec_use (h_stmtToAsgStmt _))
  | (spec_head Sema.caseExprsLoop; spec_use (h_caseExprsLoop _))
  | (spec_head Sema.exprStmtToAsgStmt; spec_use (h_exprStmtToAsgStmt _))
  | (spec_head Sema.modifiersLoop; spec_use (h_modifiersLoop _))
  | (spec_head Sema.gateCallExprToAsgStmt; spec_use (h_gateCallExprToAsgStmt _ _))
  | (spec_head Sema.qubitListToAsgTexpr; spec_use (h_qubitListToAsgTexpr _))
  | (spec_head Sema.gateOperandsLoop; spec_use (h_gateOperandsLoop _))
  | (spec_head Sema.blockExprToAsgStmtList; spec_use (h_blockExprToAsgStmtList _))
  | (spec_head Sema.stmtsLoop; spec_use (h_stmtsLoop _))
  | (spec_head Sema.blockExprToAsgType; spec_use (h_blockExprToAsgType _))
  | (spec_head Sema.blockOrStmtToAsgType; spec_use (h_blockOrStmtToAsgType _))
  | (spec_head Sema.classicalDeclarationStatementToAsgStmt; spec_use (h_classicalDeclarationStatementToAsgStmt _ _ _ _ _ _))
  | (spec_head Sema.assignmentStmtToAsgStmt; spec_use (h_assignmentStmtToAsgStmt _ _ _ _)))

set_option maxHeartbeats 1600000 in
theorem stmtToAsgStmt_step (fuel : Nat) (ih : AllSpecStmt S fuel) (st : Ast.Stmt) :
    Spec S (Sema.stmtToAsgStmt (fuel + 1) st) (OptWTS S) := by
  obtain ⟨h_exprToAsgTexpr, h_parenExprToAsgTexpr, h_setExpressionToAsgType, h_rangeExpressionToAsgType, h_callExprToAsgTexpr, h_gateOperandToAsgTexpr, h_indexOperatorToAsgType, h_expressionListToAsgType, h_expressionListToAsgTexpr, h_exprsLoop, h_indexedIdentifierToAsgType, h_indexOperatorsLoop⟩ := allSpec (S := S) fuel
  obtain ⟨h_stmtToAsgStmt, h_caseExprsLoop, h_exprStmtToAsgStmt, h_modifiersLoop, h_gateCallExprToAsgStmt, h_qubitListToAsgTexpr, h_gateOperandsLoop, h_blockExprToAsgStmtList, h_stmtsLoop, h_blockExprToAsgType, h_blockOrStmtToAsgType, h_classicalDeclarationStatementToAsgStmt, h_assignmentStmtToAsgStmt⟩ := ih
  unfold Sema.stmtToAsgStmt; spec

set_option maxHeartbeats 1600000 in
theorem caseExprsLoop_step (fuel : Nat) (ih : AllSpecStmt S fuel) (cs : List Ast.CaseExpr) :
    Spec S (Sema.caseExprsLoop (fuel + 1) cs) (CasesWTS S) := by
  obtain ⟨h_exprToAsgTexpr, h_parenExprToAsgTexpr, h_setExpressionToAsgType, h_rangeExpressionToAsgType, h_callExprToAsgTexpr, h_gateOperandToAsgTexpr, h_indexOperatorToAsgType, h_expressionListToAsgType, h_expressionListToAsgTexpr, h_exprsLoop, h_indexedIdentifierToAsgType, h_indexOperatorsLoop⟩ := allSpec (S := S) fuel
  obtain ⟨h_stmtToAsgStmt, h_caseExprsLoop, h_exprStmtToAsgStmt, h_modifiersLoop, h_gateCallExprToAsgStmt, h_qubitListToAsgTexpr, h_gateOperandsLoop, h_blockExprToAsgStmtList, h_stmtsLoop, h_blockExprToAsgType, h_blockOrStmtToAsgType, h_classicalDeclarationStatementToAsgStmt, h_assignmentStmtToAsgStmt⟩ := ih
  unfold Sema.caseExprsLoop; spec

set_option maxHeartbeats 1600000 in
theorem exprStmtToAsgStmt_step (fuel : Nat) (ih : AllSpecStmt S fuel) (e : Option Ast.Expr) :
    Spec S (Sema.exprStmtToAsgStmt (fuel + 1) e) (OptWTS S) := by
  obtain ⟨h_exprToAsgTexpr, h_parenExprToAsgTexpr, h_setExpressionToAsgType, h_rangeExpressionToAsgType, h_callExprToAsgTexpr, h_gateOperandToAsgTexpr, h_indexOperatorToAsgType, h_expressionListToAsgType, h_expressionListToAsgTexpr, h_exprsLoop, h_indexedIdentifierToAsgType, h_indexOperatorsLoop⟩ := allSpec (S := S) fuel
  obtain ⟨h_stmtToAsgStmt, h_caseExprsLoop, h_exprStmtToAsgStmt, h_modifiersLoop, h_gateCallExprToAsgStmt, h_qubitListToAsgTexpr, h_gateOperandsLoop, h_blockExprToAsgStmtList, h_stmtsLoop, h_blockExprToAsgType, h_blockOrStmtToAsgType, h_classicalDeclarationStatementToAsgStmt, h_assignmentStmtToAsgStmt⟩ := ih
  unfold Sema.exprStmtToAsgStmt; spec

set_option maxHeartbeats 1600000 in
theorem modifiersLoop_step (fuel : Nat) (ih : AllSpecStmt S fuel) (ms : List Ast.Modifier) :
    Spec S (Sema.modifiersLoop (fuel + 1) ms) (ModsWT S) := by
  obtain ⟨h_exprToAsgTexpr, h_parenExprToAsgTexpr, h_setExpressionToAsgType, h_rangeExpressionToAsgType, h_callExprToAsgTexpr, h_gateOperandToAsgTexpr, h_indexOperatorToAsgType, h_expressionListToAsgType, h_expressionListToAsgTexpr, h_exprsLoop, h_indexedIdentifierToAsgType, h_indexOperatorsLoop⟩ := allSpec (S := S) fuel
  obtain ⟨h_stmtToAsgStmt, h_caseExprsLoop, h_exprStmtToAsgStmt, h_modifiersLoop, h_gateCallExprToAsgStmt, h_qubitListToAsgTexpr, h_gateOperandsLoop, h_blockExprToAsgStmtList, h_stmtsLoop, h_blockExprToAsgType, h_blockOrStmtToAsgType, h_classicalDeclarationStatementToAsgStmt, h_assignmentStmtToAsgStmt⟩ := ih
  unfold Sema.modifiersLoop; spec

set_option maxHeartbeats 1600000 in
theorem gateCallExprToAsgStmt_step (fuel : Nat) (ih : AllSpecStmt S fuel) (gc : Ast.GateCallExpr) (mods : List GateModifier) :
    Spec S (Sema.gateCallExprToAsgStmt (fuel + 1) gc mods) (fun r => ModsWT S mods → OptWTS S r) := by
  obtain ⟨h_exprToAsgTexpr, h_parenExprToAsgTexpr, h_setExpressionToAsgType, h_rangeExpressionToAsgType, h_callExprToAsgTexpr, h_gateOperandToAsgTexpr, h_indexOperatorToAsgType, h_expressionListToAsgType, h_expressionListToAsgTexpr, h_exprsLoop, h_indexedIdentifierToAsgType, h_indexOperatorsLoop⟩ := allSpec (S := S) fuel
  obtain ⟨h_stmtToAsgStmt, h_caseExprsLoop, h_exprStmtToAsgStmt, h_modifiersLoop, h_gateCallExprToAsgStmt, h_qubitListToAsgTexpr, h_gateOperandsLoop, h_blockExprToAsgStmtList, h_stmtsLoop, h_blockExprToAsgType, h_blockOrStmtToAsgType, h_classicalDeclarationStatementToAsgStmt, h_assignmentStmtToAsgStmt⟩ := ih
  unfold Sema.gateCallExprToAsgStmt; spec

set_option maxHeartbeats 1600000 in
theorem qubitListToAsgTexpr_step (fuel : Nat) (ih : AllSpecStmt S fuel) (ql : Option Ast.QubitList) :
    Spec S (Sema.qubitListToAsgTexpr (fuel + 1) ql) (ListWT S) := by
  obtain ⟨h_exprToAsgTexpr, h_parenExprToAsgTexpr, h_setExpressionToAsgType, h_rangeExpressionToAsgType, h_callExprToAsgTexpr, h_gateOperandToAsgTexpr, h_indexOperatorToAsgType, h_expressionListToAsgType, h_expressionListToAsgTexpr, h_exprsLoop, h_indexedIdentifierToAsgType, h_indexOperatorsLoop⟩ := allSpec (S := S) fuel
  obtain ⟨h_stmtToAsgStmt, h_caseExprsLoop, h_exprStmtToAsgStmt, h_modifiersLoop, h_gateCallExprToAsgStmt, h_qubitListToAsgTexpr, h_gateOperandsLoop, h_blockExprToAsgStmtList, h_stmtsLoop, h_blockExprToAsgType, h_blockOrStmtToAsgType, h_classicalDeclarationStatementToAsgStmt, h_assignmentStmtToAsgStmt⟩ := ih
  unfold Sema.qubitListToAsgTexpr; spec

set_option maxHeartbeats 1600000 in
theorem gateOperandsLoop_step (fuel : Nat) (ih : AllSpecStmt S fuel) (gs : List Ast.GateOperand) :
    Spec S (Sema.gateOperandsLoop (fuel + 1) gs) (ListWT S) := by
  obtain ⟨h_exprToAsgTexpr, h_parenExprToAsgTexpr, h_setExpressionToAsgType, h_rangeExpressionToAsgType, h_callExprToAsgTexpr, h_gateOperandToAsgTexpr, h_indexOperatorToAsgType, h_expressionListToAsgType, h_expressionListToAsgTexpr, h_exprsLoop, h_indexedIdentifierToAsgType, h_indexOperatorsLoop⟩ := allSpec (S := S) fuel
  obtain ⟨h_stmtToAsgStmt, h_caseExprsLoop, h_exprStmtToAsgStmt, h_modifiersLoop, h_gateCallExprToAsgStmt, h_qubitListToAsgTexpr, h_gateOperandsLoop, h_blockExprToAsgStmtList, h_stmtsLoop, h_blockExprToAsgType, h_blockOrStmtToAsgType, h_classicalDeclarationStatementToAsgStmt, h_assignmentStmtToAsgStmt⟩ := ih
  unfold Sema.gateOperandsLoop; spec

set_option maxHeartbeats 1600000 in
theorem blockExprToAsgStmtList_step (fuel : Nat) (ih : AllSpecStmt S fuel) (b : Ast.BlockExpr) :
    Spec S (Sema.blockExprToAsgStmtList (fuel + 1) b) (ListWTS S) := by
  obtain ⟨h_exprToAsgTexpr, h_parenExprToAsgTexpr, h_setExpressionToAsgType, h_rangeExpressionToAsgType, h_callExprToAsgTexpr, h_gateOperandToAsgTexpr, h_indexOperatorToAsgType, h_expressionListToAsgType, h_expressionListToAsgTexpr, h_exprsLoop, h_indexedIdentifierToAsgType, h_indexOperatorsLoop⟩ := allSpec (S := S) fuel
  obtain ⟨h_stmtToAsgStmt, h_caseExprsLoop, h_exprStmtToAsgStmt, h_modifiersLoop, h_gateCallExprToAsgStmt, h_qubitListToAsgTexpr, h_gateOperandsLoop, h_blockExprToAsgStmtList, h_stmtsLoop, h_blockExprToAsgType, h_blockOrStmtToAsgType, h_classicalDeclarationStatementToAsgStmt, h_assignmentStmtToAsgStmt⟩ := ih
  unfold Sema.blockExprToAsgStmtList; spec

set_option maxHeartbeats 1600000 in
theorem stmtsLoop_step (fuel : Nat) (ih : AllSpecStmt S fuel) (ss : List Ast.Stmt) :
    Spec S (Sema.stmtsLoop (fuel + 1) ss) (ListWTS S) := by
  obtain ⟨h_exprToAsgTexpr, h_parenExprToAsgTexpr, h_setExpressionToAsgType, h_rangeExpressionToAsgType, h_callExprToAsgTexpr, h_gateOperandToAsgTexpr, h_indexOperatorToAsgType, h_expressionListToAsgType, h_expressionListToAsgTexpr, h_exprsLoop, h_indexedIdentifierToAsgType, h_indexOperatorsLoop⟩ := allSpec (S := S) fuel
  obtain ⟨h_stmtToAsgStmt, h_caseExprsLoop, h_exprStmtToAsgStmt, h_modifiersLoop, h_gateCallExprToAsgStmt, h_qubitListToAsgTexpr, h_gateOperandsLoop, h_blockExprToAsgStmtList, h_stmtsLoop, h_blockExprToAsgType, h_blockOrStmtToAsgType, h_classicalDeclarationStatementToAsgStmt, h_assignmentStmtToAsgStmt⟩ := ih
  unfold Sema.stmtsLoop; spec

set_option maxHeartbeats 1600000 in
theorem blockExprToAsgType_step (fuel : Nat) (ih : AllSpecStmt S fuel) (b : Ast.BlockExpr) :
    Spec S (Sema.blockExprToAsgType (fuel + 1) b) (BlockWTS S) := by
  obtain ⟨h_exprToAsgTexpr, h_parenExprToAsgTexpr, h_setExpressionToAsgType, h_rangeExpressionToAsgType, h_callExprToAsgTexpr, h_gateOperandToAsgTexpr, h_indexOperatorToAsgType, h_expressionListToAsgType, h_expressionListToAsgTexpr, h_exprsLoop, h_indexedIdentifierToAsgType, h_indexOperatorsLoop⟩ := allSpec (S := S) fuel
  obtain ⟨h_stmtToAsgStmt, h_caseExprsLoop, h_exprStmtToAsgStmt, h_modifiersLoop, h_gateCallExprToAsgStmt, h_qubitListToAsgTexpr, h_gateOperandsLoop, h_blockExprToAsgStmtList, h_stmtsLoop, h_blockExprToAsgType, h_blockOrStmtToAsgType, h_classicalDeclarationStatementToAsgStmt, h_assignmentStmtToAsgStmt⟩ := ih
  unfold Sema.blockExprToAsgType; spec

set_option maxHeartbeats 1600000 in
theorem blockOrStmtToAsgType_step (fuel : Nat) (ih : AllSpecStmt S fuel) (b : Ast.BlockOrStmt) :
    Spec S (Sema.blockOrStmtToAsgType (fuel + 1) b) (BlockWTS S) := by
  obtain ⟨h_exprToAsgTexpr, h_parenExprToAsgTexpr, h_setExpressionToAsgType, h_rangeExpressionToAsgType, h_callExprToAsgTexpr, h_gateOperandToAsgTexpr, h_indexOperatorToAsgType, h_expressionListToAsgType, h_expressionListToAsgTexpr, h_exprsLoop, h_indexedIdentifierToAsgType, h_indexOperatorsLoop⟩ := allSpec (S := S) fuel
  obtain ⟨h_stmtToAsgStmt, h_caseExprsLoop, h_exprStmtToAsgStmt, h_modifiersLoop, h_gateCallExprToAsgStmt, h_qubitListToAsgTexpr, h_gateOperandsLoop, h_blockExprToAsgStmtList, h_stmtsLoop, h_blockExprToAsgType, h_blockOrStmtToAsgType, h_classicalDeclarationStatementToAsgStmt, h_assignmentStmtToAsgStmt⟩ := ih
  unfold Sema.blockOrStmtToAsgType; spec

set_option maxHeartbeats 1600000 in
theorem classicalDeclarationStatementToAsgStmt_step (fuel : Nat) (ih : AllSpecStmt S fuel) (sp : Ast.Span) (arr : Bool) (st : Option Ast.ScalarType) (ct : Bool) (n : Option Ast.Name) (e : Option Ast.Expr) :
    Spec S (Sema.classicalDeclarationStatementToAsgStmt (fuel + 1) sp arr st ct n e) (WTS S) := by
  obtain ⟨h_exprToAsgTexpr, h_parenExprToAsgTexpr, h_setExpressionToAsgType, h_rangeExpressionToAsgType, h_callExprToAsgTexpr, h_gateOperandToAsgTexpr, h_indexOperatorToAsgType, h_expressionListToAsgType, h_expressionListToAsgTexpr, h_exprsLoop, h_indexedIdentifierToAsgType, h_indexOperatorsLoop⟩ := allSpec (S := S) fuel
  obtain ⟨h_stmtToAsgStmt, h_caseExprsLoop, h_exprStmtToAsgStmt, h_modifiersLoop, h_gateCallExprToAsgStmt, h_qubitListToAsgTexpr, h_gateOperandsLoop, h_blockExprToAsgStmtList, h_stmtsLoop, h_blockExprToAsgType, h_blockOrStmtToAsgType, h_classicalDeclarationStatementToAsgStmt, h_assignmentStmtToAsgStmt⟩ := ih
  unfold Sema.classicalDeclarationStatementToAsgStmt; spec

set_option maxHeartbeats 1600000 in
theorem assignmentStmtToAsgStmt_step (fuel : Nat) (ih : AllSpecStmt S fuel) (sp : Ast.Span) (i : Option Ast.Identifier) (rhs : Option Ast.Expr) (ii : Option Ast.IndexedIdentifier) :
    Spec S (Sema.assignmentStmtToAsgStmt (fuel + 1) sp i rhs ii) (OptWTS S) := by
  obtain ⟨h_exprToAsgTexpr, h_parenExprToAsgTexpr, h_setExpressionToAsgType, h_rangeExpressionToAsgType, h_callExprToAsgTexpr, h_gateOperandToAsgTexpr, h_indexOperatorToAsgType, h_expressionListToAsgType, h_expressionListToAsgTexpr, h_exprsLoop, h_indexedIdentifierToAsgType, h_indexOperatorsLoop⟩ := allSpec (S := S) fuel
  obtain ⟨h_stmtToAsgStmt, h_caseExprsLoop, h_exprStmtToAsgStmt, h_modifiersLoop, h_gateCallExprToAsgStmt, h_qubitListToAsgTexpr, h_gateOperandsLoop, h_blockExprToAsgStmtList, h_stmtsLoop, h_blockExprToAsgType, h_blockOrStmtToAsgType, h_classicalDeclarationStatementToAsgStmt, h_assignmentStmtToAsgStmt⟩ := ih
  unfold Sema.assignmentStmtToAsgStmt; spec

theorem allSpecStmt (fuel : Nat) : AllSpecStmt S fuel := by
  induction fuel with
  | zero =>
    constructor
    · intros; unfold Sema.stmtToAsgStmt; exact Spec.throw _ _
    · intros; unfold Sema.caseExprsLoop; exact Spec.throw _ _
    · intros; unfold Sema.exprStmtToAsgStmt; exact Spec.throw _ _
    · intros; unfold Sema.modifiersLoop; exact Spec.throw _ _
    · intros; unfold Sema.gateCallExprToAsgStmt; exact Spec.throw _ _
    · intros; unfold Sema.qubitListToAsgTexpr; exact Spec.throw _ _
    · intros; unfold Sema.gateOperandsLoop; exact Spec.throw _ _
    · intros; unfold Sema.blockExprToAsgStmtList; exact Spec.throw _ _
    · intros; unfold Sema.stmtsLoop; exact Spec.throw _ _
    · intros; unfold Sema.blockExprToAsgType; exact Spec.throw _ _
    · intros; unfold Sema.blockOrStmtToAsgType; exact Spec.throw _ _
    · intros; unfold Sema.classicalDeclarationStatementToAsgStmt; exact Spec.throw _ _
    · intros; unfold Sema.assignmentStmtToAsgStmt; exact Spec.throw _ _
  | succ fuel ih =>
    constructor
    · intros; exact stmtToAsgStmt_step fuel ih _
    · intros; exact caseExprsLoop_step fuel ih _
    · intros; exact exprStmtToAsgStmt_step fuel ih _
    · intros; exact modifiersLoop_step fuel ih _
    · intros; exact gateCallExprToAsgStmt_step fuel ih _ _
    · intros; exact qubitListToAsgTexpr_step fuel ih _
    · intros; exact gateOperandsLoop_step fuel ih _
    · intros; exact blockExprToAsgStmtList_step fuel ih _
    · intros; exact stmtsLoop_step fuel ih _
    · intros; exact blockExprToAsgType_step fuel ih _
    · intros; exact blockOrStmtToAsgType_step fuel ih _
    · intros; exact classicalDeclarationStatementToAsgStmt_step fuel ih _ _ _ _ _ _
    · intros; exact assignmentStmtToAsgStmt_step fuel ih _ _ _ _

/-! ## `Context.program` is touched by nothing but `Program::insert_stmt` -/

/-- `x` leaves the list of analysed statements alone -/
structure Keep {α} (x : M α) : Prop where
  run : ∀ c a c', x c = .ok (a, c') → c'.program = c.program

theorem Keep.pure {α} (a : α) : Keep (Pure.pure a : M α) := by
  refine ⟨fun c a' c' hr => ?_⟩
  simp only [M.pure_ok, Prod.mk.injEq] at hr
  rw [hr.2]

theorem Keep.bind {α β} {x : M α} {f : α → M β} (hx : Keep x) (hf : ∀ a, Keep (f a)) :
    Keep (x >>= f) := by
  refine ⟨fun c b c' hr => ?_⟩
  obtain ⟨a, c1, h1, h2⟩ := (M.bind_ok x f c (b, c')).mp hr
  rw [(hf a).run c1 b c' h2, hx.run c a c1 h1]

theorem Keep.fail {α} (site : String) : Keep (Sema.fail site : M α) := by
  refine ⟨fun c a c' hr => ?_⟩; simp at hr

theorem Keep.throw {α} (o : Outcome) : Keep (throw o : M α) := by
  refine ⟨fun c a c' hr => ?_⟩; simp at hr

theorem Keep.unwrap {α} (site : String) (o : Option α) : Keep (Sema.unwrap site o) := by
  refine ⟨fun c a c' hr => ?_⟩
  obtain ⟨_, h2⟩ := (M.unwrap_ok site o c (a, c')).mp hr
  simp only at h2; rw [h2]

theorem Keep.insertError (k : SemanticErrorKind) (node : Ast.Span) : Keep (Sema.insertError k node) := by
  refine ⟨fun c a c' hr => ?_⟩
  rw [insertError_ok _ _ _ _ _ hr]

theorem Keep.symStep (site : String) (op : Op) : Keep (Sema.symStep site op) := by
  refine ⟨fun c a c' hr => ?_⟩
  obtain ⟨_, rfl⟩ := symStep_ok site op c a c' hr
  rfl

theorem Keep.currentScopeType : Keep Sema.currentScopeType := by
  refine ⟨fun c a c' hr => ?_⟩
  simp only [Sema.currentScopeType, M.get_bind_ok] at hr
  cases hst : c.symbolTable.stack with
  | nil => simp [hst] at hr
  | cons s rest =>
    simp only [hst, M.pure_ok, Prod.mk.injEq] at hr; rw [hr.2]

theorem Keep.insertConstValue (id : Nat) (v : TExpr) : Keep (Sema.insertConstValue id v) := by
  refine ⟨fun c a c' hr => ?_⟩
  simp only [Sema.insertConstValue, M.modify_ok, Prod.mk.injEq] at hr
  rw [hr.2]

theorem Keep.getConstValue (id : Nat) : Keep (Sema.getConstValue id) := by
  refine ⟨fun c a c' hr => ?_⟩
  simp only [Sema.getConstValue, M.get_bind_ok, M.pure_ok, Prod.mk.injEq] at hr
  rw [hr.2]

theorem Keep.pushAnnotation (a : String) : Keep (Sema.pushAnnotation a) := by
  refine ⟨fun c a c' hr => ?_⟩
  simp only [Sema.pushAnnotation, M.modify_ok, Prod.mk.injEq] at hr
  rw [hr.2]

open Lean Elab Tactic Meta in
/-- the program `x` of a goal `Keep x` -/
def keepProgram (g : MVarId) : MetaM (Option Lean.Expr) := do
  let t ← instantiateMVars (← g.getType)
  let t := t.consumeMData
  if t.isAppOfArity ``Keep 2 then return some (t.getArg! 1).consumeMData else return none

open Lean Elab Tactic Meta in
elab "keep_head " id:ident : tactic => withMainContext do
  let n ← realizeGlobalConstNoOverloadWithInfo id
  match ← keepProgram (← getMainGoal) with
  | some x =>
    match x.getAppFn.consumeMData with
    | Lean.Expr.const m _ => if m == n then pure () else throwError "head"
    | _ => throwError "head"
  | none => throwError "not a Keep goal"

open Lean Elab Tactic Meta in
elab "keep_is_split" : tactic => withMainContext do
  match ← keepProgram (← getMainGoal) with
  | some x =>
    match x.getAppFn.consumeMData with
    | Lean.Expr.const m _ =>
      if m == ``ite || m == ``dite then pure ()
      else if (← isMatcher m) then pure ()
      else throwError "not a split"
    | _ => throwError "not a split"
  | none => throwError "not a Keep goal"

syntax "keep_lemma" : tactic
macro_rules | `(tactic| keep_lemma) => `(tactic| fail "no lemma")
syntax "keep_ih" : tactic
macro_rules | `(tactic| keep_ih) => `(tactic| fail "no ih")

macro "keep_step" : tactic => `(tactic| first
  | (cases ‹_ + 1 = Nat.succ _›)
  | (keep_head Sema.fail; exact Keep.fail _)
  | (keep_head throw; exact Keep.throw _)
  | (keep_head Sema.unwrap; exact Keep.unwrap _ _)
  | (keep_head Pure.pure; exact Keep.pure _)
  | (keep_head Sema.insertError; exact Keep.insertError _ _)
  | (keep_head Sema.symStep; exact Keep.symStep _ _)
  | (keep_head Sema.currentScopeType; exact Keep.currentScopeType)
  | (keep_head Sema.insertConstValue; exact Keep.insertConstValue _ _)
  | (keep_head Sema.getConstValue; exact Keep.getConstValue _)
  | (keep_head Sema.pushAnnotation; exact Keep.pushAnnotation _)
  | keep_lemma
  | keep_ih
  | (keep_head Bind.bind; with_reducible apply Keep.bind)
  | intro _
  | (keep_is_split; split)
  | dsimp only)

macro "keep" : tactic => `(tactic| repeat' keep_step)

theorem Keep.withScope {α} (k : ScopeType) {body : M α} (h : Keep body) :
    Keep (Sema.withScope k body) := by
  unfold Sema.withScope Sema.enterScope Sema.exitScope
  refine Keep.bind (Keep.bind (Keep.symStep _ _) (fun _ => Keep.pure _)) (fun _ => ?_)
  refine Keep.bind h (fun a => ?_)
  exact Keep.bind (Keep.bind (Keep.symStep _ _) (fun _ => Keep.pure _)) (fun _ => Keep.pure _)
macro_rules | `(tactic| keep_lemma) => `(tactic| (keep_head Sema.withScope; apply Keep.withScope))

theorem Keep.enterScope (k : ScopeType) : Keep (Sema.enterScope k) := by
  unfold Sema.enterScope; keep
macro_rules | `(tactic| keep_lemma) => `(tactic| (keep_head Sema.enterScope; exact Keep.enterScope _))

theorem Keep.exitScope  : Keep (Sema.exitScope ) := by
  unfold Sema.exitScope; keep
macro_rules | `(tactic| keep_lemma) => `(tactic| (keep_head Sema.exitScope; exact Keep.exitScope ))

theorem Keep.inGlobalScope  : Keep (Sema.inGlobalScope ) := by
  unfold Sema.inGlobalScope; keep
macro_rules | `(tactic| keep_lemma) => `(tactic| (keep_head Sema.inGlobalScope; exact Keep.inGlobalScope ))

theorem Keep.newBinding (name : String) (typ : T) (node : Ast.Span) : Keep (Sema.newBinding name typ node) := by
  unfold Sema.newBinding; keep
macro_rules | `(tactic| keep_lemma) => `(tactic| (keep_head Sema.newBinding; exact Keep.newBinding _ _ _))

theorem Keep.tableLookup (name : String) : Keep (Sema.tableLookup name) := by
  unfold Sema.tableLookup; keep
macro_rules | `(tactic| keep_lemma) => `(tactic| (keep_head Sema.tableLookup; exact Keep.tableLookup _))

theorem Keep.lookupSymbol (name : String) (node : Ast.Span) : Keep (Sema.lookupSymbol name node) := by
  unfold Sema.lookupSymbol; keep
macro_rules | `(tactic| keep_lemma) => `(tactic| (keep_head Sema.lookupSymbol; exact Keep.lookupSymbol _ _))

theorem Keep.lookupGateSymbol (name : String) (node : Ast.Span) : Keep (Sema.lookupGateSymbol name node) := by
  unfold Sema.lookupGateSymbol; keep
macro_rules | `(tactic| keep_lemma) => `(tactic| (keep_head Sema.lookupGateSymbol; exact Keep.lookupGateSymbol _ _))

theorem Keep.notImpl (node : Ast.Span) : Keep (Sema.notImpl node) := by
  unfold Sema.notImpl; keep
macro_rules | `(tactic| keep_lemma) => `(tactic| (keep_head Sema.notImpl; exact Keep.notImpl _))

theorem Keep.binaryOpToAsgType (op : Ast.BinaryOp) : Keep (Sema.binaryOpToAsgType op) := by
  unfold Sema.binaryOpToAsgType; keep
macro_rules | `(tactic| keep_lemma) => `(tactic| (keep_head Sema.binaryOpToAsgType; exact Keep.binaryOpToAsgType _))

theorem Keep.intNumberValue (site text : String) : Keep (Sema.intNumberValue site text) := by
  unfold Sema.intNumberValue; keep
macro_rules | `(tactic| keep_lemma) => `(tactic| (keep_head Sema.intNumberValue; exact Keep.intNumberValue _ _))

theorem Keep.negativeFloatNumberToAsgType (fmt : Option String) : Keep (Sema.negativeFloatNumberToAsgType fmt) := by
  unfold Sema.negativeFloatNumberToAsgType; keep
macro_rules | `(tactic| keep_lemma) => `(tactic| (keep_head Sema.negativeFloatNumberToAsgType; exact Keep.negativeFloatNumberToAsgType _))

theorem Keep.negativeIntToAsgType (text : String) : Keep (Sema.negativeIntToAsgType text) := by
  unfold Sema.negativeIntToAsgType; keep
macro_rules | `(tactic| keep_lemma) => `(tactic| (keep_head Sema.negativeIntToAsgType; exact Keep.negativeIntToAsgType _))

theorem Keep.literalToAsgTexpr (l : Ast.Literal) : Keep (Sema.literalToAsgTexpr l) := by
  unfold Sema.literalToAsgTexpr; keep
macro_rules | `(tactic| keep_lemma) => `(tactic| (keep_head Sema.literalToAsgTexpr; exact Keep.literalToAsgTexpr _))

theorem Keep.lookupIdentifier (i : Ast.Identifier) : Keep (Sema.lookupIdentifier i) := by
  unfold Sema.lookupIdentifier; keep
macro_rules | `(tactic| keep_lemma) => `(tactic| (keep_head Sema.lookupIdentifier; exact Keep.lookupIdentifier _))

theorem Keep.designatorToAsg (d : Option Ast.Designator) : Keep (Sema.designatorToAsg d) := by
  unfold Sema.designatorToAsg; keep
macro_rules | `(tactic| keep_lemma) => `(tactic| (keep_head Sema.designatorToAsg; exact Keep.designatorToAsg _))

theorem Keep.scalarTypeToType (st : Ast.ScalarType) (isconst : Bool) : Keep (Sema.scalarTypeToType st isconst) := by
  unfold Sema.scalarTypeToType; keep
macro_rules | `(tactic| keep_lemma) => `(tactic| (keep_head Sema.scalarTypeToType; exact Keep.scalarTypeToType _ _))

theorem Keep.paramTypeToType (pt : Ast.ParamType) (isconst : Bool) : Keep (Sema.paramTypeToType pt isconst) := by
  unfold Sema.paramTypeToType; keep
macro_rules | `(tactic| keep_lemma) => `(tactic| (keep_head Sema.paramTypeToType; exact Keep.paramTypeToType _ _))

theorem Keep.declareClassicalHelper (sym : SymbolIdResult) (init : Option TExpr) : Keep (Sema.declareClassicalHelper sym init) := by
  unfold Sema.declareClassicalHelper; keep
macro_rules | `(tactic| keep_lemma) => `(tactic| (keep_head Sema.declareClassicalHelper; exact Keep.declareClassicalHelper _ _))

theorem Keep.ioDeclarationStatementToAsgStmt (a : Bool) (st : Option Ast.ScalarType) (n : Option Ast.Name) (i : Bool) : Keep (Sema.ioDeclarationStatementToAsgStmt a st n i) := by
  unfold Sema.ioDeclarationStatementToAsgStmt; keep
macro_rules | `(tactic| keep_lemma) => `(tactic| (keep_head Sema.ioDeclarationStatementToAsgStmt; exact Keep.ioDeclarationStatementToAsgStmt _ _ _ _))

theorem Keep.bindParams (typ : T) (ps : List Ast.Param) : Keep (Sema.bindParams typ ps) := by
  induction ps with
  | nil => unfold Sema.bindParams; keep
  | cons p ps ih =>
    unfold Sema.bindParams
    exact Keep.bind (Keep.newBinding _ _ _) (fun _ => Keep.bind ih (fun _ => Keep.pure _))
macro_rules | `(tactic| keep_lemma) => `(tactic| (keep_head Sema.bindParams; exact Keep.bindParams _ _))

theorem Keep.bindParameterList (pl : Option Ast.ParamList) (typ : T) : Keep (Sema.bindParameterList pl typ) := by
  unfold Sema.bindParameterList; keep
macro_rules | `(tactic| keep_lemma) => `(tactic| (keep_head Sema.bindParameterList; exact Keep.bindParameterList _ _))

macro_rules | `(tactic| keep_lemma) => `(tactic|
  (keep_head Sema.bindTypedParams; exact ‹Keep (Sema.bindTypedParams _)›))
theorem Keep.bindTypedParams (ps : List Ast.TypedParam) : Keep (Sema.bindTypedParams ps) := by
  induction ps with
  | nil => unfold Sema.bindTypedParams; keep
  | cons p ps ih => unfold Sema.bindTypedParams; keep
macro_rules | `(tactic| keep_lemma) => `(tactic| (keep_head Sema.bindTypedParams; exact Keep.bindTypedParams _))

theorem Keep.bindTypedParameterList (pl : Option Ast.TypedParamList) : Keep (Sema.bindTypedParameterList pl) := by
  unfold Sema.bindTypedParameterList; keep
macro_rules | `(tactic| keep_lemma) => `(tactic| (keep_head Sema.bindTypedParameterList; exact Keep.bindTypedParameterList _))

theorem Keep.notGlobalCheck (node : Ast.Span) : Keep (Sema.notGlobalCheck node) := by
  unfold Sema.notGlobalCheck; keep
macro_rules | `(tactic| keep_lemma) => `(tactic| (keep_head Sema.notGlobalCheck; exact Keep.notGlobalCheck _))

theorem Keep.gateNotGlobalCheck (name : Option Ast.Name) : Keep (Sema.gateNotGlobalCheck name) := by
  unfold Sema.gateNotGlobalCheck; keep
macro_rules | `(tactic| keep_lemma) => `(tactic| (keep_head Sema.gateNotGlobalCheck; exact Keep.gateNotGlobalCheck _))

theorem Keep.returnGlobalCheck (node : Ast.Span) : Keep (Sema.returnGlobalCheck node) := by
  unfold Sema.returnGlobalCheck; keep
macro_rules | `(tactic| keep_lemma) => `(tactic| (keep_head Sema.returnGlobalCheck; exact Keep.returnGlobalCheck _))

theorem Keep.delayDurationCheck (d : TExpr) (n : Ast.Span) : Keep (Sema.delayDurationCheck d n) := by
  unfold Sema.delayDurationCheck; keep
macro_rules | `(tactic| keep_lemma) => `(tactic| (keep_head Sema.delayDurationCheck; exact Keep.delayDurationCheck _ _))

theorem Keep.quantumBinopCheck (l r : TExpr) (a b : Option Ast.Expr) : Keep (Sema.quantumBinopCheck l r a b) := by
  unfold Sema.quantumBinopCheck; keep
macro_rules | `(tactic| keep_lemma) => `(tactic| (keep_head Sema.quantumBinopCheck; exact Keep.quantumBinopCheck _ _ _ _))

theorem Keep.gateOperandIdentCheck (t : T) (n : Ast.Span) : Keep (Sema.gateOperandIdentCheck t n) := by
  unfold Sema.gateOperandIdentCheck; keep
macro_rules | `(tactic| keep_lemma) => `(tactic| (keep_head Sema.gateOperandIdentCheck; exact Keep.gateOperandIdentCheck _ _))

theorem Keep.gateOperandIndexedCheck (t : T) (n : Ast.Span) : Keep (Sema.gateOperandIndexedCheck t n) := by
  unfold Sema.gateOperandIndexedCheck; keep
macro_rules | `(tactic| keep_lemma) => `(tactic| (keep_head Sema.gateOperandIndexedCheck; exact Keep.gateOperandIndexedCheck _ _))

theorem Keep.gateCallCheck (sp : Ast.Span) (q : Option Ast.QubitList) (al : Option Ast.ArgList) (g : Ast.Identifier) (sr : SymbolIdResult) (gt : T) (np nq : Nat) : Keep (Sema.gateCallCheck sp q al g sr gt np nq) := by
  unfold Sema.gateCallCheck; keep
macro_rules | `(tactic| keep_lemma) => `(tactic| (keep_head Sema.gateCallCheck; exact Keep.gateCallCheck _ _ _ _ _ _ _ _))

theorem Keep.defArityCheck (a b : Nat) (al : Option Ast.ArgList) : Keep (Sema.defArityCheck a b al) := by
  unfold Sema.defArityCheck; keep
macro_rules | `(tactic| keep_lemma) => `(tactic| (keep_head Sema.defArityCheck; exact Keep.defArityCheck _ _ _))

theorem Keep.mutateConstCheck (ok : Bool) (t : T) (n : Ast.Span) : Keep (Sema.mutateConstCheck ok t n) := by
  unfold Sema.mutateConstCheck; keep
macro_rules | `(tactic| keep_lemma) => `(tactic| (keep_head Sema.mutateConstCheck; exact Keep.mutateConstCheck _ _ _))

/-- all twenty-five functions of the mutual block at one fuel level -/
structure AllKeep (fuel : Nat) : Prop where
  stmtToAsgStmt : ∀ (st : Ast.Stmt), Keep (Sema.stmtToAsgStmt fuel st)
  caseExprsLoop : ∀ (cs : List Ast.CaseExpr), Keep (Sema.caseExprsLoop fuel cs)
  exprStmtToAsgStmt : ∀ (e : Option Ast.Expr), Keep (Sema.exprStmtToAsgStmt fuel e)
  modifiersLoop : ∀ (ms : List Ast.Modifier), Keep (Sema.modifiersLoop fuel ms)
  parenExprToAsgTexpr : ∀ (p : Ast.ParenExpr), Keep (Sema.parenExprToAsgTexpr fuel p)
  exprToAsgTexpr : ∀ (e : Option Ast.Expr), Keep (Sema.exprToAsgTexpr fuel e)
  setExpressionToAsgType : ∀ (se : Ast.SetExpression), Keep (Sema.setExpressionToAsgType fuel se)
  rangeExpressionToAsgType : ∀ (r : Ast.RangeExpr), Keep (Sema.rangeExpressionToAsgType fuel r)
  gateCallExprToAsgStmt : ∀ (gc : Ast.GateCallExpr) (mods : List GateModifier), Keep (Sema.gateCallExprToAsgStmt fuel gc mods)
  callExprToAsgTexpr : ∀ (sp : Ast.Span) (al : Option Ast.ArgList) (i : Option Ast.Identifier), Keep (Sema.callExprToAsgTexpr fuel sp al i)
  gateOperandToAsgTexpr : ∀ (g : Ast.GateOperand), Keep (Sema.gateOperandToAsgTexpr fuel g)
  indexOperatorToAsgType : ∀ (ix : Ast.IndexOperator), Keep (Sema.indexOperatorToAsgType fuel ix)
  expressionListToAsgType : ∀ (el : Ast.ExpressionList), Keep (Sema.expressionListToAsgType fuel el)
  qubitListToAsgTexpr : ∀ (ql : Option Ast.QubitList), Keep (Sema.qubitListToAsgTexpr fuel ql)
  gateOperandsLoop : ∀ (gs : List Ast.GateOperand), Keep (Sema.gateOperandsLoop fuel gs)
  expressionListToAsgTexpr : ∀ (el : Ast.ExpressionList), Keep (Sema.expressionListToAsgTexpr fuel el)
  exprsLoop : ∀ (es : List Ast.Expr), Keep (Sema.exprsLoop fuel es)
  blockExprToAsgStmtList : ∀ (b : Ast.BlockExpr), Keep (Sema.blockExprToAsgStmtList fuel b)
  stmtsLoop : ∀ (ss : List Ast.Stmt), Keep (Sema.stmtsLoop fuel ss)
  blockExprToAsgType : ∀ (b : Ast.BlockExpr), Keep (Sema.blockExprToAsgType fuel b)
  blockOrStmtToAsgType : ∀ (b : Ast.BlockOrStmt), Keep (Sema.blockOrStmtToAsgType fuel b)
  classicalDeclarationStatementToAsgStmt : ∀ (sp : Ast.Span) (arr : Bool) (st : Option Ast.ScalarType) (ct : Bool) (n : Option Ast.Name) (e : Option Ast.Expr), Keep (Sema.classicalDeclarationStatementToAsgStmt fuel sp arr st ct n e)
  assignmentStmtToAsgStmt : ∀ (sp : Ast.Span) (i : Option Ast.Identifier) (rhs : Option Ast.Expr) (ii : Option Ast.IndexedIdentifier), Keep (Sema.assignmentStmtToAsgStmt fuel sp i rhs ii)
  indexedIdentifierToAsgType : ∀ (ii : Ast.IndexedIdentifier), Keep (Sema.indexedIdentifierToAsgType fuel ii)
  indexOperatorsLoop : ∀ (ixs : List Ast.IndexOperator), Keep (Sema.indexOperatorsLoop fuel ixs)

set_option hygiene false in
macro_rules | `(tactic| keep_ih) => `(tactic| first
  | (keep_head Sema.stmtToAsgStmt; exact k_stmtToAsgStmt _)
  | (keep_head Sema.caseExprsLoop; exact k_caseExprsLoop _)
  | (keep_head Sema.exprStmtToAsgStmt; exact k_exprStmtToAsgStmt _)
  | (keep_head Sema.modifiersLoop; exact k_modifiersLoop _)
  | (keep_head Sema.parenExprToAsgTexpr; exact k_parenExprToAsgTexpr _)
  | (keep_head Sema.exprToAsgTexpr; exact k_exprToAsgTexpr _)
  | (keep_head Sema.setExpressionToAsgType; exact k_setExpressionToAsgType _)
  | (keep_head Sema.rangeExpressionToAsgType; exact k_rangeExpressionToAsgType _)
  | (keep_head Sema.gateCallExprToAsgStmt; exact k_gateCallExprToAsgStmt _ _)
  | (keep_head Sema.callExprToAsgTexpr; exact k_callExprToAsgTexpr _ _ _)
  | (keep_head Sema.gateOperandToAsgTexpr; exact k_gateOperandToAsgTexpr _)
  | (keep_head Sema.indexOperatorToAsgType; exact k_indexOperatorToAsgType _)
  | (keep_head Sema.expressionListToAsgType; exact k_expressionListToAsgType _)
  | (keep_head Sema.qubitListToAsgTexpr; exact k_qubitListToAsgTexpr _)
  | (keep_head Sema.gateOperandsLoop; exact k_gateOperandsLoop _)
  | (keep_head Sema.expressionListToAsgTexpr; exact k_expressionListToAsgTexpr _)
  | (keep_head Sema.exprsLoop; exact k_exprsLoop _)
  | (keep_head Sema.blockExprToAsgStmtList; exact k_blockExprToAsgStmtList _)
  | (keep_head Sema.stmtsLoop; exact k_stmtsLoop _)
  | (keep_head Sema.blockExprToAsgType; exact k_blockExprToAsgType _)
  | (keep_head Sema.blockOrStmtToAsgType; exact k_blockOrStmtToAsgType _)
  | (keep_head Sema.classicalDeclarationStatementToAsgStmt; exact k_classicalDeclarationStatementToAsgStmt _ _ _ _ _ _)
  | (keep_head Sema.assignmentStmtToAsgStmt; exact k_assignmentStmtToAsgStmt _ _ _ _)
  | (keep_head Sema.indexedIdentifierToAsgType; exact k_indexedIdentifierToAsgType _)
  | (keep_head Sema.indexOperatorsLoop; exact k_indexOperatorsLoop _))

set_option maxHeartbeats 1600000 in
theorem stmtToAsgStmt_keep (fuel : Nat) (ih : AllKeep fuel) (st : Ast.Stmt) :
    Keep (Sema.stmtToAsgStmt (fuel + 1) st) := by
  obtain ⟨k_stmtToAsgStmt, k_caseExprsLoop, k_exprStmtToAsgStmt, k_modifiersLoop, k_parenExprToAsgTexpr, k_exprToAsgTexpr, k_setExpressionToAsgType, k_rangeExpressionToAsgType, k_gateCallExprToAsgStmt, k_callExprToAsgTexpr, k_gateOperandToAsgTexpr, k_indexOperatorToAsgType, k_expressionListToAsgType, k_qubitListToAsgTexpr, k_gateOperandsLoop, k_expressionListToAsgTexpr, k_exprsLoop, k_blockExprToAsgStmtList, k_stmtsLoop, k_blockExprToAsgType, k_blockOrStmtToAsgType, k_classicalDeclarationStatementToAsgStmt, k_assignmentStmtToAsgStmt, k_indexedIdentifierToAsgType, k_indexOperatorsLoop⟩ := ih
  unfold Sema.stmtToAsgStmt; keep

set_option maxHeartbeats 1600000 in
theorem caseExprsLoop_keep (fuel : Nat) (ih : AllKeep fuel) (cs : List Ast.CaseExpr) :
    Keep (Sema.caseExprsLoop (fuel + 1) cs) := by
  obtain ⟨k_stmtToAsgStmt, k_caseExprsLoop, k_exprStmtToAsgStmt, k_modifiersLoop, k_parenExprToAsgTexpr, k_exprToAsgTexpr, k_setExpressionToAsgType, k_rangeExpressionToAsgType, k_gateCallExprToAsgStmt, k_callExprToAsgTexpr, k_gateOperandToAsgTexpr, k_indexOperatorToAsgType, k_expressionListToAsgType, k_qubitListToAsgTexpr, k_gateOperandsLoop, k_expressionListToAsgTexpr, k_exprsLoop, k_blockExprToAsgStmtList, k_stmtsLoop, k_blockExprToAsgType, k_blockOrStmtToAsgType, k_classicalDeclarationStatementToAsgStmt, k_assignmentStmtToAsgStmt, k_indexedIdentifierToAsgType, k_indexOperatorsLoop⟩ := ih
  unfold Sema.caseExprsLoop; keep

set_option maxHeartbeats 1600000 in
theorem exprStmtToAsgStmt_keep (fuel : Nat) (ih : AllKeep fuel) (e : Option Ast.Expr) :
    Keep (Sema.exprStmtToAsgStmt (fuel + 1) e) := by
  obtain ⟨k_stmtToAsgStmt, k_caseExprsLoop, k_exprStmtToAsgStmt, k_modifiersLoop, k_parenExprToAsgTexpr, k_exprToAsgTexpr, k_setExpressionToAsgType, k_rangeExpressionToAsgType, k_gateCallExprToAsgStmt, k_callExprToAsgTexpr, k_gateOperandToAsgTexpr, k_indexOperatorToAsgType, k_expressionListToAsgType, k_qubitListToAsgTexpr, k_gateOperandsLoop, k_expressionListToAsgTexpr, k_exprsLoop, k_blockExprToAsgStmtList, k_stmtsLoop, k_blockExprToAsgType, k_blockOrStmtToAsgType, k_classicalDeclarationStatementToAsgStmt, k_assignmentStmtToAsgStmt, k_indexedIdentifierToAsgType, k_indexOperatorsLoop⟩ := ih
  unfold Sema.exprStmtToAsgStmt; keep

set_option maxHeartbeats 1600000 in
theorem modifiersLoop_keep (fuel : Nat) (ih : AllKeep fuel) (ms : List Ast.Modifier) :
    Keep (Sema.modifiersLoop (fuel + 1) ms) := by
  obtain ⟨k_stmtToAsgStmt, k_caseExprsLoop, k_exprStmtToAsgStmt, k_modifiersLoop, k_parenExprToAsgTexpr, k_exprToAsgTexpr, k_setExpressionToAsgType, k_rangeExpressionToAsgType, k_gateCallExprToAsgStmt, k_callExprToAsgTexpr, k_gateOperandToAsgTexpr, k_indexOperatorToAsgType, k_expressionListToAsgType, k_qubitListToAsgTexpr, k_gateOperandsLoop, k_expressionListToAsgTexpr, k_exprsLoop, k_blockExprToAsgStmtList, k_stmtsLoop, k_blockExprToAsgType, k_blockOrStmtToAsgType, k_classicalDeclarationStatementToAsgStmt, k_assignmentStmtToAsgStmt, k_indexedIdentifierToAsgType, k_indexOperatorsLoop⟩ := ih
  unfold Sema.modifiersLoop; keep

set_option maxHeartbeats 1600000 in
theorem parenExprToAsgTexpr_keep (fuel : Nat) (ih : AllKeep fuel) (p : Ast.ParenExpr) :
    Keep (Sema.parenExprToAsgTexpr (fuel + 1) p) := by
  obtain ⟨k_stmtToAsgStmt, k_caseExprsLoop, k_exprStmtToAsgStmt, k_modifiersLoop, k_parenExprToAsgTexpr, k_exprToAsgTexpr, k_setExpressionToAsgType, k_rangeExpressionToAsgType, k_gateCallExprToAsgStmt, k_callExprToAsgTexpr, k_gateOperandToAsgTexpr, k_indexOperatorToAsgType, k_expressionListToAsgType, k_qubitListToAsgTexpr, k_gateOperandsLoop, k_expressionListToAsgTexpr, k_exprsLoop, k_blockExprToAsgStmtList, k_stmtsLoop, k_blockExprToAsgType, k_blockOrStmtToAsgType, k_classicalDeclarationStatementToAsgStmt, k_assignmentStmtToAsgStmt, k_indexedIdentifierToAsgType, k_indexOperatorsLoop⟩ := ih
  unfold Sema.parenExprToAsgTexpr; keep

set_option maxHeartbeats 1600000 in
theorem exprToAsgTexpr_keep (fuel : Nat) (ih : AllKeep fuel) (e : Option Ast.Expr) :
    Keep (Sema.exprToAsgTexpr (fuel + 1) e) := by
  obtain ⟨k_stmtToAsgStmt, k_caseExprsLoop, k_exprStmtToAsgStmt, k_modifiersLoop, k_parenExprToAsgTexpr, k_exprToAsgTexpr, k_setExpressionToAsgType, k_rangeExpressionToAsgType, k_gateCallExprToAsgStmt, k_callExprToAsgTexpr, k_gateOperandToAsgTexpr, k_indexOperatorToAsgType, k_expressionListToAsgType, k_qubitListToAsgTexpr, k_gateOperandsLoop, k_expressionListToAsgTexpr, k_exprsLoop, k_blockExprToAsgStmtList, k_stmtsLoop, k_blockExprToAsgType, k_blockOrStmtToAsgType, k_classicalDeclarationStatementToAsgStmt, k_assignmentStmtToAsgStmt, k_indexedIdentifierToAsgType, k_indexOperatorsLoop⟩ := ih
  unfold Sema.exprToAsgTexpr; keep

set_option maxHeartbeats 1600000 in
theorem setExpressionToAsgType_keep (fuel : Nat) (ih : AllKeep fuel) (se : Ast.SetExpression) :
    Keep (Sema.setExpressionToAsgType (fuel + 1) se) := by
  obtain ⟨k_stmtToAsgStmt, k_caseExprsLoop, k_exprStmtToAsgStmt, k_modifiersLoop, k_parenExprToAsgTexpr, k_exprToAsgTexpr, k_setExpressionToAsgType, k_rangeExpressionToAsgType, k_gateCallExprToAsgStmt, k_callExprToAsgTexpr, k_gateOperandToAsgTexpr, k_indexOperatorToAsgType, k_expressionListToAsgType, k_qubitListToAsgTexpr, k_gateOperandsLoop, k_expressionListToAsgTexpr, k_exprsLoop, k_blockExprToAsgStmtList, k_stmtsLoop, k_blockExprToAsgType, k_blockOrStmtToAsgType, k_classicalDeclarationStatementToAsgStmt, k_assignmentStmtToAsgStmt, k_indexedIdentifierToAsgType, k_indexOperatorsLoop⟩ := ih
  unfold Sema.setExpressionToAsgType; keep

set_option maxHeartbeats 1600000 in
theorem rangeExpressionToAsgType_keep (fuel : Nat) (ih : AllKeep fuel) (r : Ast.RangeExpr) :
    Keep (Sema.rangeExpressionToAsgType (fuel + 1) r) := by
  obtain ⟨k_stmtToAsgStmt, k_caseExprsLoop, k_exprStmtToAsgStmt, k_modifiersLoop, k_parenExprToAsgTexpr, k_exprToAsgTexpr, k_setExpressionToAsgType, k_rangeExpressionToAsgType, k_gateCallExprToAsgStmt, k_callExprToAsgTexpr, k_gateOperandToAsgTexpr, k_indexOperatorToAsgType, k_expressionListToAsgType, k_qubitListToAsgTexpr, k_gateOperandsLoop, k_expressionListToAsgTexpr, k_exprsLoop, k_blockExprToAsgStmtList, k_stmtsLoop, k_blockExprToAsgType, k_blockOrStmtToAsgType, k_classicalDeclarationStatementToAsgStmt, k_assignmentStmtToAsgStmt, k_indexedIdentifierToAsgType, k_indexOperatorsLoop⟩ := ih
  unfold Sema.rangeExpressionToAsgType; keep

set_option maxHeartbeats 1600000 in
theorem gateCallExprToAsgStmt_keep (fuel : Nat) (ih : AllKeep fuel) (gc : Ast.GateCallExpr) (mods : List GateModifier) :
    Keep (Sema.gateCallExprToAsgStmt (fuel + 1) gc mods) := by
  obtain ⟨k_stmtToAsgStmt, k_caseExprsLoop, k_exprStmtToAsgStmt, k_modifiersLoop, k_parenExprToAsgTexpr, k_exprToAsgTexpr, k_setExpressionToAsgType, k_rangeExpressionToAsgType, k_gateCallExprToAsgStmt, k_callExprToAsgTexpr, k_gateOperandToAsgTexpr, k_indexOperatorToAsgType, k_expressionListToAsgType, k_qubitListToAsgTexpr, k_gateOperandsLoop, k_expressionListToAsgTexpr, k_exprsLoop, k_blockExprToAsgStmtList, k_stmtsLoop, k_blockExprToAsgType, k_blockOrStmtToAsgType, k_classicalDeclarationStatementToAsgStmt, k_assignmentStmtToAsgStmt, k_indexedIdentifierToAsgType, k_indexOperatorsLoop⟩ := ih
  unfold Sema.gateCallExprToAsgStmt; keep

set_option maxHeartbeats 1600000 in
theorem callExprToAsgTexpr_keep (fuel : Nat) (ih : AllKeep fuel) (sp : Ast.Span) (al : Option Ast.ArgList) (i : Option Ast.Identifier) :
    Keep (Sema.callExprToAsgTexpr (fuel + 1) sp al i) := by
  obtain ⟨k_stmtToAsgStmt, k_caseExprsLoop, k_exprStmtToAsgStmt, k_modifiersLoop, k_parenExprToAsgTexpr, k_exprToAsgTexpr, k_setExpressionToAsgType, k_rangeExpressionToAsgType, k_gateCallExprToAsgStmt, k_callExprToAsgTexpr, k_gateOperandToAsgTexpr, k_indexOperatorToAsgType, k_expressionListToAsgType, k_qubitListToAsgTexpr, k_gateOperandsLoop, k_expressionListToAsgTexpr, k_exprsLoop, k_blockExprToAsgStmtList, k_stmtsLoop, k_blockExprToAsgType, k_blockOrStmtToAsgType, k_classicalDeclarationStatementToAsgStmt, k_assignmentStmtToAsgStmt, k_indexedIdentifierToAsgType, k_indexOperatorsLoop⟩ := ih
  unfold Sema.callExprToAsgTexpr; keep

set_option maxHeartbeats 1600000 in
theorem gateOperandToAsgTexpr_keep (fuel : Nat) (ih : AllKeep fuel) (g : Ast.GateOperand) :
    Keep (Sema.gateOperandToAsgTexpr (fuel + 1) g) := by
  obtain ⟨k_stmtToAsgStmt, k_caseExprsLoop, k_exprStmtToAsgStmt, k_modifiersLoop, k_parenExprToAsgTexpr, k_exprToAsgTexpr, k_setExpressionToAsgType, k_rangeExpressionToAsgType, k_gateCallExprToAsgStmt, k_callExprToAsgTexpr, k_gateOperandToAsgTexpr, k_indexOperatorToAsgType, k_expressionListToAsgType, k_qubitListToAsgTexpr, k_gateOperandsLoop, k_expressionListToAsgTexpr, k_exprsLoop, k_blockExprToAsgStmtList, k_stmtsLoop, k_blockExprToAsgType, k_blockOrStmtToAsgType, k_classicalDeclarationStatementToAsgStmt, k_assignmentStmtToAsgStmt, k_indexedIdentifierToAsgType, k_indexOperatorsLoop⟩ := ih
  unfold Sema.gateOperandToAsgTexpr; keep

set_option maxHeartbeats 1600000 in
theorem indexOperatorToAsgType_keep (fuel : Nat) (ih : AllKeep fuel) (ix : Ast.IndexOperator) :
    Keep (Sema.indexOperatorToAsgType (fuel + 1) ix) := by
  obtain ⟨k_stmtToAsgStmt, k_caseExprsLoop, k_exprStmtToAsgStmt, k_modifiersLoop, k_parenExprToAsgTexpr, k_exprToAsgTexpr, k_setExpressionToAsgType, k_rangeExpressionToAsgType, k_gateCallExprToAsgStmt, k_callExprToAsgTexpr, k_gateOperandToAsgTexpr, k_indexOperatorToAsgType, k_expressionListToAsgType, k_qubitListToAsgTexpr, k_gateOperandsLoop, k_expressionListToAsgTexpr, k_exprsLoop, k_blockExprToAsgStmtList, k_stmtsLoop, k_blockExprToAsgType, k_blockOrStmtToAsgType, k_classicalDeclarationStatementToAsgStmt, k_assignmentStmtToAsgStmt, k_indexedIdentifierToAsgType, k_indexOperatorsLoop⟩ := ih
  unfold Sema.indexOperatorToAsgType; keep

set_option maxHeartbeats 1600000 in
theorem expressionListToAsgType_keep (fuel : Nat) (ih : AllKeep fuel) (el : Ast.ExpressionList) :
    Keep (Sema.expressionListToAsgType (fuel + 1) el) := by
  obtain ⟨k_stmtToAsgStmt, k_caseExprsLoop, k_exprStmtToAsgStmt, k_modifiersLoop, k_parenExprToAsgTexpr, k_exprToAsgTexpr, k_setExpressionToAsgType, k_rangeExpressionToAsgType, k_gateCallExprToAsgStmt, k_callExprToAsgTexpr, k_gateOperandToAsgTexpr, k_indexOperatorToAsgType, k_expressionListToAsgType, k_qubitListToAsgTexpr, k_gateOperandsLoop, k_expressionListToAsgTexpr, k_exprsLoop, k_blockExprToAsgStmtList, k_stmtsLoop, k_blockExprToAsgType, k_blockOrStmtToAsgType, k_classicalDeclarationStatementToAsgStmt, k_assignmentStmtToAsgStmt, k_indexedIdentifierToAsgType, k_indexOperatorsLoop⟩ := ih
  unfold Sema.expressionListToAsgType; keep

set_option maxHeartbeats 1600000 in
theorem qubitListToAsgTexpr_keep (fuel : Nat) (ih : AllKeep fuel) (ql : Option Ast.QubitList) :
    Keep (Sema.qubitListToAsgTexpr (fuel + 1) ql) := by
  obtain ⟨k_stmtToAsgStmt, k_caseExprsLoop, k_exprStmtToAsgStmt, k_modifiersLoop, k_parenExprToAsgTexpr, k_exprToAsgTexpr, k_setExpressionToAsgType, k_rangeExpressionToAsgType, k_gateCallExprToAsgStmt, k_callExprToAsgTexpr, k_gateOperandToAsgTexpr, k_indexOperatorToAsgType, k_expressionListToAsgType, k_qubitListToAsgTexpr, k_gateOperandsLoop, k_expressionListToAsgTexpr, k_exprsLoop, k_blockExprToAsgStmtList, k_stmtsLoop, k_blockExprToAsgType, k_blockOrStmtToAsgType, k_classicalDeclarationStatementToAsgStmt, k_assignmentStmtToAsgStmt, k_indexedIdentifierToAsgType, k_indexOperatorsLoop⟩ := ih
  unfold Sema.qubitListToAsgTexpr; keep

set_option maxHeartbeats 1600000 in
theorem gateOperandsLoop_keep (fuel : Nat) (ih : AllKeep fuel) (gs : List Ast.GateOperand) :
    Keep (Sema.gateOperandsLoop (fuel + 1) gs) := by
  obtain ⟨k_stmtToAsgStmt, k_caseExprsLoop, k_exprStmtToAsgStmt, k_modifiersLoop, k_parenExprToAsgTexpr, k_exprToAsgTexpr, k_setExpressionToAsgType, k_rangeExpressionToAsgType, k_gateCallExprToAsgStmt, k_callExprToAsgTexpr, k_gateOperandToAsgTexpr, k_indexOperatorToAsgType, k_expressionListToAsgType, k_qubitListToAsgTexpr, k_gateOperandsLoop, k_expressionListToAsgTexpr, k_exprsLoop, k_blockExprToAsgStmtList, k_stmtsLoop, k_blockExprToAsgType, k_blockOrStmtToAsgType, k_classicalDeclarationStatementToAsgStmt, k_assignmentStmtToAsgStmt, k_indexedIdentifierToAsgType, k_indexOperatorsLoop⟩ := ih
  unfold Sema.gateOperandsLoop; keep

set_option maxHeartbeats 1600000 in
theorem expressionListToAsgTexpr_keep (fuel : Nat) (ih : AllKeep fuel) (el : Ast.ExpressionList) :
    Keep (Sema.expressionListToAsgTexpr (fuel + 1) el) := by
  obtain ⟨k_stmtToAsgStmt, k_caseExprsLoop, k_exprStmtToAsgStmt, k_modifiersLoop, k_parenExprToAsgTexpr, k_exprToAsgTexpr, k_setExpressionToAsgType, k_rangeExpressionToAsgType, k_gateCallExprToAsgStmt, k_callExprToAsgTexpr, k_gateOperandToAsgTexpr, k_indexOperatorToAsgType, k_expressionListToAsgType, k_qubitListToAsgTexpr, k_gateOperandsLoop, k_expressionListToAsgTexpr, k_exprsLoop, k_blockExprToAsgStmtList, k_stmtsLoop, k_blockExprToAsgType, k_blockOrStmtToAsgType, k_classicalDeclarationStatementToAsgStmt, k_assignmentStmtToAsgStmt, k_indexedIdentifierToAsgType, k_indexOperatorsLoop⟩ := ih
  unfold Sema.expressionListToAsgTexpr; keep

set_option maxHeartbeats 1600000 in
theorem exprsLoop_keep (fuel : Nat) (ih : AllKeep fuel) (es : List Ast.Expr) :
    Keep (Sema.exprsLoop (fuel + 1) es) := by
  obtain ⟨k_stmtToAsgStmt, k_caseExprsLoop, k_exprStmtToAsgStmt, k_modifiersLoop, k_parenExprToAsgTexpr, k_exprToAsgTexpr, k_setExpressionToAsgType, k_rangeExpressionToAsgType, k_gateCallExprToAsgStmt, k_callExprToAsgTexpr, k_gateOperandToAsgTexpr, k_indexOperatorToAsgType, k_expressionListToAsgType, k_qubitListToAsgTexpr, k_gateOperandsLoop, k_expressionListToAsgTexpr, k_exprsLoop, k_blockExprToAsgStmtList, k_stmtsLoop, k_blockExprToAsgType, k_blockOrStmtToAsgType, k_classicalDeclarationStatementToAsgStmt, k_assignmentStmtToAsgStmt, k_indexedIdentifierToAsgType, k_indexOperatorsLoop⟩ := ih
  unfold Sema.exprsLoop; keep

set_option maxHeartbeats 1600000 in
theorem blockExprToAsgStmtList_keep (fuel : Nat) (ih : AllKeep fuel) (b : Ast.BlockExpr) :
    Keep (Sema.blockExprToAsgStmtList (fuel + 1) b) := by
  obtain ⟨k_stmtToAsgStmt, k_caseExprsLoop, k_exprStmtToAsgStmt, k_modifiersLoop, k_parenExprToAsgTexpr, k_exprToAsgTexpr, k_setExpressionToAsgType, k_rangeExpressionToAsgType, k_gateCallExprToAsgStmt, k_callExprToAsgTexpr, k_gateOperandToAsgTexpr, k_indexOperatorToAsgType, k_expressionListToAsgType, k_qubitListToAsgTexpr, k_gateOperandsLoop, k_expressionListToAsgTexpr, k_exprsLoop, k_blockExprToAsgStmtList, k_stmtsLoop, k_blockExprToAsgType, k_blockOrStmtToAsgType, k_classicalDeclarationStatementToAsgStmt, k_assignmentStmtToAsgStmt, k_indexedIdentifierToAsgType, k_indexOperatorsLoop⟩ := ih
  unfold Sema.blockExprToAsgStmtList; keep

set_option maxHeartbeats 1600000 in
theorem stmtsLoop_keep (fuel : Nat) (ih : AllKeep fuel) (ss : List Ast.Stmt) :
    Keep (Sema.stmtsLoop (fuel + 1) ss) := by
  obtain ⟨k_stmtToAsgStmt, k_caseExprsLoop, k_exprStmtToAsgStmt, k_modifiersLoop, k_parenExprToAsgTexpr, k_exprToAsgTexpr, k_setExpressionToAsgType, k_rangeExpressionToAsgType, k_gateCallExprToAsgStmt, k_callExprToAsgTexpr, k_gateOperandToAsgTexpr, k_indexOperatorToAsgType, k_expressionListToAsgType, k_qubitListToAsgTexpr, k_gateOperandsLoop, k_expressionListToAsgTexpr, k_exprsLoop, k_blockExprToAsgStmtList, k_stmtsLoop, k_blockExprToAsgType, k_blockOrStmtToAsgType, k_classicalDeclarationStatementToAsgStmt, k_assignmentStmtToAsgStmt, k_indexedIdentifierToAsgType, k_indexOperatorsLoop⟩ := ih
  unfold Sema.stmtsLoop; keep

set_option maxHeartbeats 1600000 in
theorem blockExprToAsgType_keep (fuel : Nat) (ih : AllKeep fuel) (b : Ast.BlockExpr) :
    Keep (Sema.blockExprToAsgType (fuel + 1) b) := by
  obtain ⟨k_stmtToAsgStmt, k_caseExprsLoop, k_exprStmtToAsgStmt, k_modifiersLoop, k_parenExprToAsgTexpr, k_exprToAsgTexpr, k_setExpressionToAsgType, k_rangeExpressionToAsgType, k_gateCallExprToAsgStmt, k_callExprToAsgTexpr, k_gateOperandToAsgTexpr, k_indexOperatorToAsgType, k_expressionListToAsgType, k_qubitListToAsgTexpr, k_gateOperandsLoop, k_expressionListToAsgTexpr, k_exprsLoop, k_blockExprToAsgStmtList, k_stmtsLoop, k_blockExprToAsgType, k_blockOrStmtToAsgType, k_classicalDeclarationStatementToAsgStmt, k_assignmentStmtToAsgStmt, k_indexedIdentifierToAsgType, k_indexOperatorsLoop⟩ := ih
  unfold Sema.blockExprToAsgType; keep

set_option maxHeartbeats 1600000 in
theorem blockOrStmtToAsgType_keep (fuel : Nat) (ih : AllKeep fuel) (b : Ast.BlockOrStmt) :
    Keep (Sema.blockOrStmtToAsgType (fuel + 1) b) := by
  obtain ⟨k_stmtToAsgStmt, k_caseExprsLoop, k_exprStmtToAsgStmt, k_modifiersLoop, k_parenExprToAsgTexpr, k_exprToAsgTexpr, k_setExpressionToAsgType, k_rangeExpressionToAsgType, k_gateCallExprToAsgStmt, k_callExprToAsgTexpr, k_gateOperandToAsgTexpr, k_indexOperatorToAsgType, k_expressionListToAsgType, k_qubitListToAsgTexpr, k_gateOperandsLoop, k_expressionListToAsgTexpr, k_exprsLoop, k_blockExprToAsgStmtList, k_stmtsLoop, k_blockExprToAsgType, k_blockOrStmtToAsgType, k_classicalDeclarationStatementToAsgStmt, k_assignmentStmtToAsgStmt, k_indexedIdentifierToAsgType, k_indexOperatorsLoop⟩ := ih
  unfold Sema.blockOrStmtToAsgType; keep

set_option maxHeartbeats 1600000 in
theorem classicalDeclarationStatementToAsgStmt_keep (fuel : Nat) (ih : AllKeep fuel) (sp : Ast.Span) (arr : Bool) (st : Option Ast.ScalarType) (ct : Bool) (n : Option Ast.Name) (e : Option Ast.Expr) :
    Keep (Sema.classicalDeclarationStatementToAsgStmt (fuel + 1) sp arr st ct n e) := by
  obtain ⟨k_stmtToAsgStmt, k_caseExprsLoop, k_exprStmtToAsgStmt, k_modifiersLoop, k_parenExprToAsgTexpr, k_exprToAsgTexpr, k_setExpressionToAsgType, k_rangeExpressionToAsgType, k_gateCallExprToAsgStmt, k_callExprToAsgTexpr, k_gateOperandToAsgTexpr, k_indexOperatorToAsgType, k_expressionListToAsgType, k_qubitListToAsgTexpr, k_gateOperandsLoop, k_expressionListToAsgTexpr, k_exprsLoop, k_blockExprToAsgStmtList, k_stmtsLoop, k_blockExprToAsgType, k_blockOrStmtToAsgType, k_classicalDeclarationStatementToAsgStmt, k_assignmentStmtToAsgStmt, k_indexedIdentifierToAsgType, k_indexOperatorsLoop⟩ := ih
  unfold Sema.classicalDeclarationStatementToAsgStmt; keep

set_option maxHeartbeats 1600000 in
theorem assignmentStmtToAsgStmt_keep (fuel : Nat) (ih : AllKeep fuel) (sp : Ast.Span) (i : Option Ast.Identifier) (rhs : Option Ast.Expr) (ii : Option Ast.IndexedIdentifier) :
    Keep (Sema.assignmentStmtToAsgStmt (fuel + 1) sp i rhs ii) := by
  obtain ⟨k_stmtToAsgStmt, k_caseExprsLoop, k_exprStmtToAsgStmt, k_modifiersLoop, k_parenExprToAsgTexpr, k_exprToAsgTexpr, k_setExpressionToAsgType, k_rangeExpressionToAsgType, k_gateCallExprToAsgStmt, k_callExprToAsgTexpr, k_gateOperandToAsgTexpr, k_indexOperatorToAsgType, k_expressionListToAsgType, k_qubitListToAsgTexpr, k_gateOperandsLoop, k_expressionListToAsgTexpr, k_exprsLoop, k_blockExprToAsgStmtList, k_stmtsLoop, k_blockExprToAsgType, k_blockOrStmtToAsgType, k_classicalDeclarationStatementToAsgStmt, k_assignmentStmtToAsgStmt, k_indexedIdentifierToAsgType, k_indexOperatorsLoop⟩ := ih
  unfold Sema.assignmentStmtToAsgStmt; keep

set_option maxHeartbeats 1600000 in
theorem indexedIdentifierToAsgType_keep (fuel : Nat) (ih : AllKeep fuel) (ii : Ast.IndexedIdentifier) :
    Keep (Sema.indexedIdentifierToAsgType (fuel + 1) ii) := by
  obtain ⟨k_stmtToAsgStmt, k_caseExprsLoop, k_exprStmtToAsgStmt, k_modifiersLoop, k_parenExprToAsgTexpr, k_exprToAsgTexpr, k_setExpressionToAsgType, k_rangeExpressionToAsgType, k_gateCallExprToAsgStmt, k_callExprToAsgTexpr, k_gateOperandToAsgTexpr, k_indexOperatorToAsgType, k_expressionListToAsgType, k_qubitListToAsgTexpr, k_gateOperandsLoop, k_expressionListToAsgTexpr, k_exprsLoop, k_blockExprToAsgStmtList, k_stmtsLoop, k_blockExprToAsgType, k_blockOrStmtToAsgType, k_classicalDeclarationStatementToAsgStmt, k_assignmentStmtToAsgStmt, k_indexedIdentifierToAsgType, k_indexOperatorsLoop⟩ := ih
  unfold Sema.indexedIdentifierToAsgType; keep

set_option maxHeartbeats 1600000 in
theorem indexOperatorsLoop_keep (fuel : Nat) (ih : AllKeep fuel) (ixs : List Ast.IndexOperator) :
    Keep (Sema.indexOperatorsLoop (fuel + 1) ixs) := by
  obtain ⟨k_stmtToAsgStmt, k_caseExprsLoop, k_exprStmtToAsgStmt, k_modifiersLoop, k_parenExprToAsgTexpr, k_exprToAsgTexpr, k_setExpressionToAsgType, k_rangeExpressionToAsgType, k_gateCallExprToAsgStmt, k_callExprToAsgTexpr, k_gateOperandToAsgTexpr, k_indexOperatorToAsgType, k_expressionListToAsgType, k_qubitListToAsgTexpr, k_gateOperandsLoop, k_expressionListToAsgTexpr, k_exprsLoop, k_blockExprToAsgStmtList, k_stmtsLoop, k_blockExprToAsgType, k_blockOrStmtToAsgType, k_classicalDeclarationStatementToAsgStmt, k_assignmentStmtToAsgStmt, k_indexedIdentifierToAsgType, k_indexOperatorsLoop⟩ := ih
  unfold Sema.indexOperatorsLoop; keep

theorem allKeep (fuel : Nat) : AllKeep fuel := by
  induction fuel with
  | zero =>
    constructor
    · intros; unfold Sema.stmtToAsgStmt; exact Keep.throw _
    · intros; unfold Sema.caseExprsLoop; exact Keep.throw _
    · intros; unfold Sema.exprStmtToAsgStmt; exact Keep.throw _
    · intros; unfold Sema.modifiersLoop; exact Keep.throw _
    · intros; unfold Sema.parenExprToAsgTexpr; exact Keep.throw _
    · intros; unfold Sema.exprToAsgTexpr; exact Keep.throw _
    · intros; unfold Sema.setExpressionToAsgType; exact Keep.throw _
    · intros; unfold Sema.rangeExpressionToAsgType; exact Keep.throw _
    · intros; unfold Sema.gateCallExprToAsgStmt; exact Keep.throw _
    · intros; unfold Sema.callExprToAsgTexpr; exact Keep.throw _
    · intros; unfold Sema.gateOperandToAsgTexpr; exact Keep.throw _
    · intros; unfold Sema.indexOperatorToAsgType; exact Keep.throw _
    · intros; unfold Sema.expressionListToAsgType; exact Keep.throw _
    · intros; unfold Sema.qubitListToAsgTexpr; exact Keep.throw _
    · intros; unfold Sema.gateOperandsLoop; exact Keep.throw _
    · intros; unfold Sema.expressionListToAsgTexpr; exact Keep.throw _
    · intros; unfold Sema.exprsLoop; exact Keep.throw _
    · intros; unfold Sema.blockExprToAsgStmtList; exact Keep.throw _
    · intros; unfold Sema.stmtsLoop; exact Keep.throw _
    · intros; unfold Sema.blockExprToAsgType; exact Keep.throw _
    · intros; unfold Sema.blockOrStmtToAsgType; exact Keep.throw _
    · intros; unfold Sema.classicalDeclarationStatementToAsgStmt; exact Keep.throw _
    · intros; unfold Sema.assignmentStmtToAsgStmt; exact Keep.throw _
    · intros; unfold Sema.indexedIdentifierToAsgType; exact Keep.throw _
    · intros; unfold Sema.indexOperatorsLoop; exact Keep.throw _
  | succ fuel ih =>
    constructor
    · intros; exact stmtToAsgStmt_keep fuel ih _
    · intros; exact caseExprsLoop_keep fuel ih _
    · intros; exact exprStmtToAsgStmt_keep fuel ih _
    · intros; exact modifiersLoop_keep fuel ih _
    · intros; exact parenExprToAsgTexpr_keep fuel ih _
    · intros; exact exprToAsgTexpr_keep fuel ih _
    · intros; exact setExpressionToAsgType_keep fuel ih _
    · intros; exact rangeExpressionToAsgType_keep fuel ih _
    · intros; exact gateCallExprToAsgStmt_keep fuel ih _ _
    · intros; exact callExprToAsgTexpr_keep fuel ih _ _ _
    · intros; exact gateOperandToAsgTexpr_keep fuel ih _
    · intros; exact indexOperatorToAsgType_keep fuel ih _
    · intros; exact expressionListToAsgType_keep fuel ih _
    · intros; exact qubitListToAsgTexpr_keep fuel ih _
    · intros; exact gateOperandsLoop_keep fuel ih _
    · intros; exact expressionListToAsgTexpr_keep fuel ih _
    · intros; exact exprsLoop_keep fuel ih _
    · intros; exact blockExprToAsgStmtList_keep fuel ih _
    · intros; exact stmtsLoop_keep fuel ih _
    · intros; exact blockExprToAsgType_keep fuel ih _
    · intros; exact blockOrStmtToAsgType_keep fuel ih _
    · intros; exact classicalDeclarationStatementToAsgStmt_keep fuel ih _ _ _ _ _ _
    · intros; exact assignmentStmtToAsgStmt_keep fuel ih _ _ _ _
    · intros; exact indexedIdentifierToAsgType_keep fuel ih _
    · intros; exact indexOperatorsLoop_keep fuel ih _

/-! ## the top-level loop and the final theorem -/

theorem stdgates_fold_prefix (l : List (Name × Nat × Nat)) (acc : SymTab × List Name) :
    acc.1.all <+: (l.foldl (fun (acc : SymTab × List Name) (g : Name × Nat × Nat) =>
      match acc.1.step (.bind g.1 (T.gate g.2.1 g.2.2)) with
      | (t', .bound _) => (t', acc.2)
      | (t', _) => (t', acc.2 ++ [g.1])) acc).1.all := by
  induction l generalizing acc with
  | nil => exact List.prefix_refl _
  | cons g gs ih =>
    simp only [List.foldl_cons]
    refine List.IsPrefix.trans ?_ (ih _)
    have := C19.all_prefix_step acc.1 (.bind g.1 (T.gate g.2.1 g.2.2))
    split <;> simp_all

theorem redeclLoop_ok (node : Ast.Span) (ns : List String) (c c' : Ctx) (u : Unit)
    (h : redeclLoop node ns c = .ok (u, c')) :
    c'.symbolTable = c.symbolTable ∧ c'.program = c.program := by
  induction ns generalizing c with
  | nil =>
    simp only [redeclLoop, M.pure_ok, Prod.mk.injEq] at h
    rw [h.2]; exact ⟨rfl, rfl⟩
  | cons n ns ih =>
    simp only [redeclLoop, M.bind_ok] at h
    obtain ⟨u1, c1, h1, h2⟩ := h
    obtain ⟨a, b⟩ := ih c1 h2
    rw [a, b, insertError_ok _ _ _ _ _ h1]
    exact ⟨rfl, rfl⟩

theorem stdlib_prefix (t : SymTab) : t.all <+: t.standardLibraryGates.1.all := by
  unfold SymTab.standardLibraryGates
  generalize stdGates = l
  exact stdgates_fold_prefix l (t, [])

attribute [local irreducible] SymTab.standardLibraryGates in
theorem standardLibraryGates_ok (node : Ast.Span) (c c' : Ctx) (u : Unit)
    (h : standardLibraryGates node c = .ok (u, c')) :
    c.symbolTable.all <+: c'.symbolTable.all ∧ c'.program = c.program := by
  simp only [standardLibraryGates, M.get_bind_ok, M.set_bind_ok] at h
  obtain ⟨a, b⟩ := redeclLoop_ok _ _ _ _ _ h
  rw [a, b]
  exact ⟨stdlib_prefix _, rfl⟩

theorem Spec.standardLibraryGates (node : Ast.Span) :
    Spec S (Sema.standardLibraryGates node) (fun _ => True) :=
  ⟨fun c u c' h => ⟨(standardLibraryGates_ok node c c' u h).1, fun _ => trivial⟩⟩
macro_rules | `(tactic| spec_lemma) => `(tactic| (spec_head Sema.standardLibraryGates; spec_use (Spec.standardLibraryGates _)))

theorem Keep.standardLibraryGates (node : Ast.Span) : Keep (Sema.standardLibraryGates node) :=
  ⟨fun c u c' h => (standardLibraryGates_ok node c c' u h).2⟩
macro_rules | `(tactic| keep_lemma) => `(tactic| (keep_head Sema.standardLibraryGates; exact Keep.standardLibraryGates _))

theorem parseIncludedFiles_state (l : List Ast.Stmt) (c c' : Ctx) (b : Bool)
    (h : parseIncludedFiles l c = .ok (b, c')) : c' = c := by
  induction l generalizing b with
  | nil =>
    simp only [parseIncludedFiles, M.pure_ok, Prod.mk.injEq] at h; exact h.2
  | cons s rest ih =>
    cases s with
    | includeStmt sp file =>
      cases file with
      | none => simp only [parseIncludedFiles] at h; exact ih _ h
      | some f =>
        cases hf : f.toString? with
        | none => simp only [parseIncludedFiles, hf] at h; exact ih _ h
        | some fp =>
          simp only [parseIncludedFiles, hf, M.bind_ok, M.pure_ok, Prod.mk.injEq] at h
          obtain ⟨r, c1, h1, -, rfl⟩ := h
          exact ih _ h1
    | _ => simp only [parseIncludedFiles] at h; exact ih _ h

/-- all statements collected so far are well typed -/
def ProgOK (S : List Sym) (c : Ctx) : Prop := ∀ st, st ∈ c.program → WTS S st

theorem annotationsIsEmpty_ok (c c' : Ctx) (b : Bool) (h : annotationsIsEmpty c = .ok (b, c')) :
    c' = c := by
  simp only [annotationsIsEmpty, M.bind_ok, M.get_ok, M.pure_ok, Prod.mk.injEq, exists2_eq] at h
  exact h.2

theorem insertStmt_ok (s : Stmt) (c c' : Ctx) (u : Unit) (h : insertStmt s c = .ok (u, c')) :
    c' = { c with program := c.program ++ [s] } := by
  simp only [insertStmt, M.modify_ok, Prod.mk.injEq] at h
  exact h.2

theorem takeAnnotations_ok (c c' : Ctx) (a : List String) (h : takeAnnotations c = .ok (a, c')) :
    c'.symbolTable = c.symbolTable ∧ c'.program = c.program := by
  simp only [takeAnnotations, M.get_bind_ok, M.set_bind_ok, M.pure_ok, Prod.mk.injEq] at h
  rw [h.2]; exact ⟨rfl, rfl⟩

/-- the conclusion about one run of the top-level loop -/
def LoopOK (c c' : Ctx) : Prop :=
  Ext c c' ∧ ∀ S, c'.symbolTable.all <+: S → ProgOK S c → ProgOK S c'

theorem LoopOK.refl (c : Ctx) : LoopOK c c := ⟨Ext.refl _, fun _ _ h => h⟩

/-- one more analysed statement, then the rest of the loop -/
theorem LoopOK.step {c c1 c2 c' : Ctx} {r : Option Stmt}
    (e1 : Ext c c1) (hkeep : c1.program = c.program)
    (hr : ∀ S, c1.symbolTable.all <+: S → OptWTS S r)
    (hsym : c2.symbolTable = c1.symbolTable)
    (hprog : c2.program = c1.program ∨ ∃ stmt, r = some stmt ∧
      (c2.program = c1.program ++ [stmt] ∨ ∃ anns, c2.program = c1.program ++ [.annotatedStmt stmt anns]))
    (hrest : LoopOK c2 c') : LoopOK c c' := by
  obtain ⟨e2, h2⟩ := hrest
  have e12 : Ext c1 c2 := by unfold Ext; rw [hsym]; exact List.prefix_refl _
  refine ⟨e1.trans (e12.trans e2), fun S hS hc => h2 S hS ?_⟩
  have hS1 : c1.symbolTable.all <+: S := List.IsPrefix.trans (e12.trans e2) hS
  intro st hst
  rcases hprog with hp | ⟨stmt, rfl, hp | ⟨anns, hp⟩⟩
  · rw [hp, hkeep] at hst; exact hc st hst
  · rw [hp, hkeep, List.mem_append, List.mem_singleton] at hst
    rcases hst with hst | rfl
    · exact hc st hst
    · exact hr S hS1
  · rw [hp, hkeep, List.mem_append, List.mem_singleton] at hst
    rcases hst with hst | rfl
    · exact hc st hst
    · exact .annotated (hr S hS1)

-- the part of a loop iteration after the statement has been analysed
set_option hygiene false in
macro "loop_tail" : tactic => `(tactic|
  (cases r with
   | none => exact ⟨c1, rfl, .inl rfl, h2⟩
   | some stmt =>
     simp only at h2
     rw [M.bind_ok] at h2
     obtain ⟨b, c1', hb, h2⟩ := h2
     have := annotationsIsEmpty_ok _ _ _ hb
     subst this
     cases b with
     | true =>
       simp only [if_true] at h2
       rw [M.bind_ok] at h2
       obtain ⟨u3, c3, h3, h4⟩ := h2
       have := insertStmt_ok _ _ _ _ h3
       exact ⟨c3, by rw [this], .inr ⟨stmt, rfl, .inl (by rw [this])⟩, h4⟩
     | false =>
       simp only [Bool.false_eq_true, if_false] at h2
       cases stmt <;> first
         | (simp only [M.bind_ok, M.fail_ok, false_and, exists_false] at h2; done)
         | (simp only at h2
            rw [M.bind_ok] at h2
            obtain ⟨anns, c3, h3, h4⟩ := h2
            rw [M.bind_ok] at h4
            obtain ⟨u4, c4, h5, h6⟩ := h4
            have ha := takeAnnotations_ok _ _ _ h3
            have hi := insertStmt_ok _ _ _ _ h5
            exact ⟨c4, by rw [hi]; exact ha.1, .inr ⟨_, rfl, .inr ⟨anns, by rw [hi, ← ha.2]⟩⟩, h6⟩)))

set_option maxHeartbeats 1600000 in
theorem loop_ok (fuel : Nat) (stmts : List Ast.Stmt) (c c' : Ctx) (u : Unit)
    (h : syntaxToSemanticLoop fuel stmts c = .ok (u, c')) : LoopOK c c' := by
  induction fuel generalizing stmts c with
  | zero => simp [syntaxToSemanticLoop] at h
  | succ fuel ih =>
    cases stmts with
    | nil =>
      simp only [syntaxToSemanticLoop, M.pure_ok, Prod.mk.injEq] at h
      rw [h.2]; exact LoopOK.refl _
    | cons s rest =>
      simp only [syntaxToSemanticLoop] at h
      -- every arm: analyse (state `c1`, result `r`), insert (state `c2`), go on
      suffices key : ∃ r c1, Ext c c1 ∧ c1.program = c.program ∧
          (∀ S, c1.symbolTable.all <+: S → OptWTS S r) ∧
          ∃ c2, c2.symbolTable = c1.symbolTable ∧
          (c2.program = c1.program ∨ ∃ stmt, r = some stmt ∧
            (c2.program = c1.program ++ [stmt] ∨
              ∃ anns, c2.program = c1.program ++ [.annotatedStmt stmt anns])) ∧
          syntaxToSemanticLoop fuel rest c2 = .ok (u, c') by
        obtain ⟨r, c1, e1, hk, hr, c2, hsym, hprog, hrest⟩ := key
        exact LoopOK.step e1 hk hr hsym hprog (ih rest c2 hrest)
      cases s with
      | includeStmt sp file =>
        simp only at h
        rw [M.bind_ok] at h
        obtain ⟨f, cA, hA, h⟩ := h
        obtain ⟨-, hcA⟩ := (M.unwrap_ok _ _ _ _).mp hA
        simp only at hcA
        subst hcA
        rw [M.bind_ok] at h
        obtain ⟨fp, cB, hB, h⟩ := h
        obtain ⟨-, hcB⟩ := (M.unwrap_ok _ _ _ _).mp hB
        simp only at hcB
        subst hcB
        by_cases hfp : (fp == "stdgates.inc") = true
        · rw [if_pos hfp, M.bind_ok] at h
          obtain ⟨u1, c1, h1, h2⟩ := h
          rw [M.pure_bind_ok] at h2
          obtain ⟨e1, hk⟩ := standardLibraryGates_ok _ _ _ _ h1
          exact ⟨none, c1, e1, hk, fun _ _ => trivial, c1, rfl, .inl rfl, h2⟩
        · rw [if_neg hfp, M.bind_ok] at h
          obtain ⟨_, _, h1, _⟩ := h
          simp at h1
      | _ =>
        simp only at h
        rw [M.bind_ok] at h
        obtain ⟨r, c1, h1, h2⟩ := h
        refine ⟨r, c1, (((allSpecStmt (S := []) fuel).stmtToAsgStmt _).run c r c1 h1).1,
          ((allKeep fuel).stmtToAsgStmt _).run c r c1 h1,
          fun S hS => (((allSpecStmt (S := S) fuel).stmtToAsgStmt _).run c r c1 h1).2 hS, ?_⟩
        loop_tail

/-- **C08 for whole programs.**  Every statement of an analysed program is well typed — every typed
expression anywhere inside it satisfies `WT` — relative to the final symbol table.  Any fuel, any
program; the hypothesis only says that the analysis returned normally. -/
theorem program_well_typed (fuel : Nat) (p : Ast.Program) (c : Ctx)
    (h : analyzeWith fuel p = .ok c) : ∀ st, st ∈ c.program → WTS c.symbolTable.all st := by
  unfold analyzeWith at h
  split at h
  · rename_i u c0 hrun
    cases h
    simp only [StateT.run, syntaxToSemantic] at hrun
    rw [M.bind_ok] at hrun
    obtain ⟨b, c1, h1, h2⟩ := hrun
    have := parseIncludedFiles_state _ _ _ _ h1
    subst this
    cases b with
    | true =>
      simp only [if_true] at h2
      rw [M.bind_ok] at h2
      obtain ⟨_, _, h3, _⟩ := h2
      simp at h3
    | false =>
      simp only [Bool.false_eq_true, if_false] at h2
      have := (loop_ok fuel p.statements _ _ _ h2).2 _ (List.prefix_refl _)
      exact this (fun st hst => by cases hst)
  · cases h

/-- the same for the default fuel -/
theorem program_well_typed_analyze (p : Ast.Program) (c : Ctx) (h : analyze p = .ok c) :
    ∀ st, st ∈ c.program → WTS c.symbolTable.all st := program_well_typed _ p c h

/-! ## which declarations fill `Context.const_values` -/

/-- the value `classical_declaration_statement_to_asg_stmt` hands to `insert_const_value` for a
declaration of type `lhs` whose initializer analysed to `init` — `none` when it records nothing:
* no initializer: nothing;
* **the initializer's type equals the declared type up to const-ness: nothing** (this path returns
  `DeclareClassical` directly, without `declare_classical_helper`);
* otherwise the stored value (`Cast(init, lhs)` when `declCastCond`, else `init`) — if its type is
  const. -/
def recordedValue (lhs : T) (init : Option TExpr) : Option TExpr :=
  match init with
  | none => none
  | some i =>
    if equalUpToConstness lhs i.getType then none
    else
      let v := if declCastCond lhs i then castToTexpr i lhs else i
      if isConst v.getType then some v else none

/-- `HashMap::insert` on the association list -/
def insertCV (cvs : List (Nat × TExpr)) (id : Nat) (v : TExpr) : List (Nat × TExpr) :=
  (id, v) :: cvs.filter (fun p => p.1 != id)

/-- the table after recording `rv` (if any) for `sym` (if bound) -/
def declCV (cvs : List (Nat × TExpr)) (sym : SymbolIdResult) (rv : Option TExpr) :
    List (Nat × TExpr) :=
  match sym, rv with
  | .ok id, some v => insertCV cvs id v
  | _, _ => cvs

/-- `declare_classical_helper` records only values of const type -/
def constOnly : Option TExpr → Option TExpr
  | some i => if isConst i.getType then some i else none
  | none => none

theorem declCV_none (cvs : List (Nat × TExpr)) (sym : SymbolIdResult) : declCV cvs sym none = cvs := by
  cases sym <;> rfl

theorem declareClassicalHelper_constValues (sym : SymbolIdResult) (v : Option TExpr) (c c' : Ctx)
    (s : Stmt) (h : declareClassicalHelper sym v c = .ok (s, c')) :
    c'.constValues = declCV c.constValues sym (constOnly v) := by
  unfold declareClassicalHelper at h
  cases v with
  | none =>
    simp only [M.pure_ok, Prod.mk.injEq] at h
    rw [h.2]; exact (declCV_none _ _).symm
  | some i =>
    simp only at h
    by_cases hc : isConst i.getType = true
    · rw [if_pos hc] at h
      cases sym with
      | error e =>
        simp only [M.pure_ok, Prod.mk.injEq] at h
        rw [h.2]; rfl
      | ok id =>
        simp only [insertConstValue, M.modify_bind_ok, M.pure_ok, Prod.mk.injEq] at h
        rw [h.2]; simp only [constOnly, hc, if_true]; rfl
    · rw [if_neg hc] at h
      simp only [M.pure_ok, Prod.mk.injEq] at h
      rw [h.2]
      simp only [constOnly, hc, Bool.false_eq_true, if_false]
      exact (declCV_none _ _).symm

theorem newBinding_constValues (name : String) (typ : T) (node : Ast.Span) (c c' : Ctx)
    (r : SymbolIdResult) (h : newBinding name typ node c = .ok (r, c')) :
    c'.constValues = c.constValues := by
  simp only [newBinding, M.bind_ok] at h
  obtain ⟨o, c1, h1, h2⟩ := h
  obtain ⟨-, rfl⟩ := symStep_ok _ _ _ _ _ h1
  cases o <;> simp only [M.pure_ok, Prod.mk.injEq, M.fail_ok, M.bind_ok] at h2
  · rw [h2.2]
  · obtain ⟨u, c2, h3, -, rfl⟩ := h2
    rw [insertError_ok _ _ _ _ _ h3]

/-- **exactly what a declaration records.**  After a (non-array) classical declaration, the
const-value table is the table after the binding, plus — iff the symbol was bound and
`recordedValue` is `some v` — the entry `id ↦ v` (`declCV`). -/
theorem const_values_after_declaration (fuel : Nat) (span : Ast.Span) (st : Ast.ScalarType)
    (constToken : Bool) (name : Ast.Name) (expr : Option Ast.Expr) (c c' : Ctx) (stmt : Stmt)
    (h : (classicalDeclarationStatementToAsgStmt (fuel + 1) span false (some st) constToken
      (some name) expr).run c = .ok (stmt, c')) :
    ∃ lhsType c1 init c2 sym c3,
      (scalarTypeToType st constToken).run c = .ok (lhsType, c1) ∧
      (exprToAsgTexpr fuel expr).run c1 = .ok (init, c2) ∧
      (newBinding name.text lhsType span).run c2 = .ok (sym, c3) ∧
      c3.constValues = c2.constValues ∧
      c'.constValues = declCV c3.constValues sym (recordedValue lhsType init) := by
  simp only [StateT.run, classicalDeclarationStatementToAsgStmt, Bool.false_eq_true, if_false,
    unwrap, M.bind_ok, M.pure_ok, Prod.mk.injEq, exists2_eq] at h
  obtain ⟨lhsType, c1, h1, init, c2, h2, sym, c3, h3, h4⟩ := h
  refine ⟨lhsType, c1, init, c2, sym, c3, h1, h2, h3, newBinding_constValues _ _ _ _ _ _ h3, ?_⟩
  have helper : ∀ (v : TExpr) (cX : Ctx), cX.constValues = c3.constValues →
      declareClassicalHelper sym (some v) cX = .ok (stmt, c') →
      c'.constValues = declCV c3.constValues sym (constOnly (some v)) := by
    intro v cX hcX hh
    rw [declareClassicalHelper_constValues _ _ _ _ _ hh, hcX]
  have errHelper : ∀ (v : TExpr), (do insertError .incompatibleTypesError span
                                      declareClassicalHelper sym (some v)) c3 = .ok (stmt, c') →
      c'.constValues = declCV c3.constValues sym (constOnly (some v)) := by
    intro v hh
    rw [M.bind_ok] at hh
    obtain ⟨u, cY, e1, e2⟩ := hh
    exact helper v cY (by rw [insertError_ok _ _ _ _ _ e1]) e2
  cases init with
  | none =>
    simp only at h4
    rw [declareClassicalHelper_constValues _ _ _ _ _ h4]; rfl
  | some i =>
    simp only at h4
    by_cases he : equalUpToConstness lhsType i.getType = true
    · rw [if_pos he] at h4
      simp only [M.pure_ok, Prod.mk.injEq] at h4
      rw [h4.2]
      simp only [recordedValue, he, if_true]
      exact (declCV_none _ _).symm
    · rw [if_neg he] at h4
      have finish : ∀ v, (if declCastCond lhsType i = true then castToTexpr i lhsType else i) = v →
          c'.constValues = declCV c3.constValues sym (constOnly (some v)) →
          c'.constValues = declCV c3.constValues sym (recordedValue lhsType (some i)) := by
        intro v hv hc
        rw [hc]
        simp only [recordedValue, he, Bool.false_eq_true, if_false, hv, constOnly]
      obtain ⟨e, t⟩ := i
      cases e with
      | literal lit =>
        simp only [TExpr.expression] at h4
        by_cases hc : Sema.canCastLiteral lhsType (TExpr.mk (.literal lit) t).getType lit = true
        · rw [if_pos hc] at h4
          exact finish _ (by simp only [declCastCond, TExpr.expression, hc, if_true])
            (helper _ c3 rfl h4)
        · rw [if_neg hc] at h4
          exact finish _ (by simp only [declCastCond, TExpr.expression, hc, Bool.false_eq_true, if_false])
            (errHelper _ h4)
      | _ =>
        simp only [TExpr.expression] at h4
        split at h4
        · rename_i hp
          exact finish _ (by simp only [declCastCond, TExpr.expression, hp, if_true])
            (helper _ c3 rfl h4)
        · rename_i hp
          split at h4
          · exact finish _ (by simp only [declCastCond, TExpr.expression, hp, Bool.false_eq_true, if_false])
              (errHelper _ h4)
          · exact finish _ (by simp only [declCastCond, TExpr.expression, hp, Bool.false_eq_true, if_false])
              (helper _ c3 rfl h4)

/-- `Context::get_const_value` on a table -/
def lookupCV (cvs : List (Nat × TExpr)) (id : Nat) : Option TExpr :=
  (cvs.find? (fun p => p.1 == id)).map (·.2)

theorem lookupCV_insertCV (cvs : List (Nat × TExpr)) (id : Nat) (v : TExpr) :
    lookupCV (insertCV cvs id v) id = some v := by
  simp [lookupCV, insertCV]

/-- **`const_value_recorded_iff`.**  For a declaration that bound its symbol (`sym = ok id`, a fresh
id: no entry for it before), `get_const_value(id)` afterwards is `some v` **iff**
`recordedValue lhsType init = some v` — i.e. iff there is an initializer, its type is NOT equal to
the declared type up to const-ness, and the stored value (the cast, or the initializer itself) has
a const type. -/
theorem const_value_recorded_iff (fuel : Nat) (span : Ast.Span) (st : Ast.ScalarType)
    (constToken : Bool) (name : Ast.Name) (expr : Option Ast.Expr) (c c' : Ctx) (stmt : Stmt)
    (h : (classicalDeclarationStatementToAsgStmt (fuel + 1) span false (some st) constToken
      (some name) expr).run c = .ok (stmt, c')) :
    ∃ lhsType c1 init c2 sym c3,
      (scalarTypeToType st constToken).run c = .ok (lhsType, c1) ∧
      (exprToAsgTexpr fuel expr).run c1 = .ok (init, c2) ∧
      (newBinding name.text lhsType span).run c2 = .ok (sym, c3) ∧
      ∀ id, sym = .ok id → lookupCV c2.constValues id = none →
        ∀ v, lookupCV c'.constValues id = some v ↔ recordedValue lhsType init = some v := by
  obtain ⟨lhsType, c1, init, c2, sym, c3, h1, h2, h3, h4, h5⟩ :=
    const_values_after_declaration fuel span st constToken name expr c c' stmt h
  refine ⟨lhsType, c1, init, c2, sym, c3, h1, h2, h3, ?_⟩
  intro id hs hfresh v
  subst hs
  rw [h5, h4]
  cases hr : recordedValue lhsType init with
  | none => simp only [declCV, hfresh]
  | some w => simp only [declCV, lookupCV_insertCV]

/-- the path on which nothing is recorded -/
theorem not_recorded_when_equal_up_to_const (lhs : T) (i : TExpr)
    (h : equalUpToConstness lhs i.getType = true) : recordedValue lhs (some i) = none := by
  simp [recordedValue, h]

/-- `const int[128] n = 3;` (any integer literal): the literal's type IS `const int[128]`, so nothing
is recorded — and `int[n] x;` then panics in `designator_to_asg`
(`C09.witness_const_value_not_recorded`, `C09.designator_identifier_cases`) -/
theorem const_int128_literal_not_recorded (n : Nat) (s c : Bool) :
    recordedValue (.int (some 128) c) (some (intLiteralToTexpr n s)) = none := by
  cases c <;> rfl

/-- a const declared without initializer, or initialised by a value of its own type (another const
of the same type, `const int m = n;`), records nothing either -/
theorem no_initializer_not_recorded (lhs : T) : recordedValue lhs none = none := rfl

theorem texprToU32_cast (i : TExpr) (lhs : T) (w : Nat) :
    texprToU32 (castToTexpr i lhs) = some w ↔
      ∃ t, i = .mk (.literal (.int w true)) t ∧ w < 2 ^ 32 := by
  obtain ⟨e, t⟩ := i
  cases e with
  | literal lit =>
    cases lit with
    | int n sgn =>
      cases sgn with
      | true =>
        simp only [texprToU32, castToTexpr, TExpr.expression]
        constructor
        · intro h
          split at h
          · cases h; exact ⟨t, rfl, ‹_›⟩
          · cases h
        · rintro ⟨t', h1, h2⟩
          cases h1
          simp [h2]
      | false => simp [texprToU32, castToTexpr, TExpr.expression]
    | _ => simp [texprToU32, castToTexpr, TExpr.expression]
  | _ => simp [texprToU32, castToTexpr, TExpr.expression]

/-- **which declarations make `int[n]` usable** (`designator_to_asg` needs a recorded value `cv`
with `u32::try_from(&cv) = Ok(w)`, i.e. `cv = Cast(Literal::Int{w, sign: true}, _)`, `w < 2^32`):
exactly those whose initializer's type differs from the declared type up to const-ness and
* either the code inserts a cast, the declared type is const, and the initializer is the positive
  integer literal `w`,
* or the code stores the initializer unchanged (logging `IncompatibleTypesError` or silently), the
  initializer's type is const, and the initializer itself is a written cast of such a literal. -/
theorem designator_usable_iff (lhs : T) (i cv : TExpr) (w : Nat) :
    (recordedValue lhs (some i) = some cv ∧ texprToU32 cv = some w) ↔
    (equalUpToConstness lhs i.getType = false ∧
      ((declCastCond lhs i = true ∧ isConst lhs = true ∧ cv = castToTexpr i lhs ∧
          ∃ t, i = .mk (.literal (.int w true)) t ∧ w < 2 ^ 32) ∨
       (declCastCond lhs i = false ∧ isConst i.getType = true ∧ cv = i ∧
          texprToU32 i = some w))) := by
  unfold recordedValue
  by_cases he : equalUpToConstness lhs i.getType = true
  · simp [he]
  · have he' : equalUpToConstness lhs i.getType = false := by simpa using he
    simp only [he', Bool.false_eq_true, if_false, true_and]
    by_cases hc : declCastCond lhs i = true
    · simp only [hc, if_true, castToTexpr, TExpr.getType, Bool.true_eq_false, false_and, or_false,
        true_and]
      constructor
      · rintro ⟨h1, h2⟩
        split at h1
        · rename_i hcl
          cases h1
          exact ⟨hcl, rfl, (texprToU32_cast i lhs w).mp h2⟩
        · cases h1
      · rintro ⟨hcl, rfl, ht⟩
        exact ⟨by simp [hcl], (texprToU32_cast i lhs w).mpr ht⟩
    · have hc' : declCastCond lhs i = false := by simpa using hc
      simp only [hc', Bool.false_eq_true, if_false, false_and, false_or, true_and]
      constructor
      · rintro ⟨h1, h2⟩
        split at h1
        · rename_i hci
          cases h1
          exact ⟨hci, rfl, h2⟩
        · cases h1
      · rintro ⟨hci, rfl, h2⟩
        simp [hci, h2]

/-- the everyday case: `const T n = <integer literal w>;` with `T` one of `int` (any width but
128, or none), `uint[..]`, `float[..]`, `complex[..]` and `w < 2^32` makes `T'[n]` evaluate to
width `w` -/
theorem const_int_literal_usable (lhs : T) (w : Nat) (hw : w < 2 ^ 32) (hc : isConst lhs = true)
    (hk : (tag lhs = .int ∧ width lhs ≠ some 128) ∨ tag lhs = .uint ∨ tag lhs = .float ∨
      tag lhs = .complex) :
    recordedValue lhs (some (intLiteralToTexpr w true)) =
      some (castToTexpr (intLiteralToTexpr w true) lhs) ∧
    texprToU32 (castToTexpr (intLiteralToTexpr w true) lhs) = some w := by
  have key := (designator_usable_iff lhs (intLiteralToTexpr w true)
    (castToTexpr (intLiteralToTexpr w true) lhs) w).mpr
  apply key
  cases lhs <;> first
    | (simp [tag] at hk; done)
    | (rename_i wd cst
       simp only [isConst] at hc
       subst hc
       refine ⟨?_, .inl ⟨?_, rfl, rfl, _, rfl, hw⟩⟩
       · cases wd <;> simp_all [equalUpToConstness, intLiteralToTexpr, TExpr.getType, tag, width]
       · simp [declCastCond, intLiteralToTexpr, TExpr.expression, Sema.canCastLiteral, tag,
           Types.canCastLiteral, equalBaseType, TExpr.getType])

end Oq3.Props.C08
